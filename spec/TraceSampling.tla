--------------------------- MODULE TraceSampling ---------------------------
(***************************************************************************)
(* C13 - a trace is stored, returned and sampled as a whole.               *)
(*                                                                         *)
(* One shard of a trace group seen through two time segments: table "X"    *)
(* (the segment whose parts are merged) and table "Y" (the next segment;   *)
(* it only receives writes).  banyand/trace:                               *)
(*                                                                         *)
(*   Write         write callback tail: ConvertToMemPart + mustAddTraces   *)
(*                 (core mem part + sidx mem part, one snapshot            *)
(*                 transaction, epoch++)                                   *)
(*   Flush         tsTable.flush + introduceFlushed: every mem part of the *)
(*                 current snapshot becomes a file part with the same id   *)
(*                 but a NEW part object (epoch++)                         *)
(*   MergeStart    mergeLaneWorker / runFinalizeRoundNamed / mergeMemParts *)
(*                 -> mergePartsThenSendIntroduction: filter build         *)
(*                 (sampler registered, MERGE event, maturity shortcut),   *)
(*                 newTraceFragmentGuardSession = catalog of the base      *)
(*                 snapshot: outside parts, base epoch                     *)
(*   Decide        mergeBlocks -> flushStaged -> mergeChain (one Decide    *)
(*                 call for the batch of eligible trace groups, fail open  *)
(*                 on error / panic / timeout) -> guard.Resolve per        *)
(*                 proposed drop; the core output part is written          *)
(*   Revalidate    sidx.Merge(keep) with the same keep predicate, then     *)
(*                 guardSession.revalidate: parts that appeared since the  *)
(*                 base epoch; reject => cleanupOutput + lossless re-merge *)
(*   Introduce     introduceMerged on the serialized introducer: epoch     *)
(*                 check against the revalidated epoch, else reject and    *)
(*                 clean up; publish = one snapshot transaction for core   *)
(*                 and sidx                                                *)
(*   RetrySidx /   the lossless retry of a rejected attempt (no filter, no *)
(*   RetryIntroduce guard): sidx merge, unconditional introduction         *)
(*                                                                         *)
(* A fragment is [t, k, ts]: the k-th span batch of trace t with data      *)
(* timestamp ts.  The secondary index holds one entry per fragment in the  *)
(* sidx part that has the id of the core part.                             *)
(*                                                                         *)
(* INTENDED DESIGN stated here (what the property demands): a merge with   *)
(* an active sampler may drop trace t only if (a) the sampler said Drop    *)
(* and did not fail for the batch, (b) NO part outside the merged ones     *)
(* contains t - whatever its timestamps -, (c) t cannot have fragments in  *)
(* another segment, (d) nothing that appeared between the catalog and the  *)
(* publication contains t.  The implementation looks for outside           *)
(* fragments only in parts whose [min,max] intersects                      *)
(* [traceMin - grace, traceMax + grace] (fragment_guard.go) and relies on  *)
(* "fragments of one trace do not lie farther apart than merge_grace"      *)
(* (TracePipelineConfig.merge_grace, engine default 2h; declared by        *)
(* catalog.TemporalSafety = MaxGapEnforced, enforced nowhere).  CodedGuard *)
(* = TRUE switches the model to that rule; RespectGap = TRUE restricts the *)
(* histories to the documented assumption, under which both rules must     *)
(* agree (GuardRulesAgree).  The bloom filter is exact here ("absent =>    *)
(* really absent"; a false positive only turns a drop into a keep).        *)
(***************************************************************************)
EXTENDS Integers, FiniteSets, TLC

CONSTANTS Traces,      \* trace ids (strings)
          MaxFrag,     \* fragments per trace
          MaxParts,    \* part ids ever handed out to a write (bounds writes and merge outputs together)
          MaxBatch,    \* traces per write batch
          Times,       \* data timestamps (integers)
          SegSplit,    \* ts < SegSplit -> table "X" (coverage 0..SegSplit-1), else "Y"
          Grace,       \* merge_grace
          RespectGap,  \* TRUE: all fragments of a trace lie within Grace of each other
          CodedGuard,  \* FALSE: intended rule; TRUE: the time-window rule of fragment_guard.go
          Sampling,    \* a sampler is registered and the MERGE event is enabled
          Merges,      \* merge sessions (strings); sessions run concurrently (fast / slow lane)
          Kinds,       \* subset of {"hot", "finalize", "mem"}
          Frontiers,   \* now - grace of a merge (maturity frontier)
          Decisions,   \* subset of {"Keep", "Drop", "Error", "Panic"}
          Timeouts     \* subset of BOOLEAN: may the sampler call of a merge time out

VARIABLES parts,    \* set of [id, tbl, mem, frags, idx, lo, hi]; [lo, hi] = time bounds in the part metadata
          nextId,
          epoch,    \* number of snapshot publications of table X
          acked,    \* every fragment ever acknowledged
          ms,       \* merge sessions
          agree,    \* history: the intended and the coded guard rule agreed so far
          last

vars == <<parts, nextId, epoch, acked, ms, agree, last>>

---------------------------------------------------------------------------
Min(S) == CHOOSE x \in S : \A y \in S : x <= y
Max(S) == CHOOSE x \in S : \A y \in S : x >= y
TS(F) == { f.ts : f \in F }
TracesOf(F) == { f.t : f \in F }
Of(t, F) == { f \in F : f.t = t }
TblOf(ts) == IF ts < SegSplit THEN "X" ELSE "Y"
CovMin == 0
CovMax == SegSplit - 1

PartsX == { p \in parts : p.tbl = "X" }
Obj(p) == [id |-> p.id, mem |-> p.mem, frags |-> p.frags, lo |-> p.lo, hi |-> p.hi]   \* a part object; its content never changes
AllVisible == UNION { p.frags : p \in parts }
Index == UNION { p.idx : p \in parts }
Visible(t) == Of(t, AllVisible)

Idle == [pc |-> "idle", kind |-> "none", inputs |-> {}, base |-> {}, baseEpoch |-> 0, frontier |-> 0,
         active |-> FALSE, tmo |-> FALSE, dec |-> [t \in Traces |-> "Keep"], dropped |-> {},
         out |-> {}, outIdx |-> {}, guarded |-> FALSE, revEpoch |-> 0]

Active(m) == ms[m].pc \notin {"idle", "done"}
InFlight == UNION { ms[m].inputs : m \in { x \in Merges : Active(x) } }
InputParts(m) == { p \in PartsX : p.id \in ms[m].inputs }
InFrags(m) == UNION { p.frags : p \in InputParts(m) }
InIdx(m) == UNION { p.idx : p \in InputParts(m) }

Init == /\ parts = {} /\ nextId = 1 /\ epoch = 0 /\ acked = {}
        /\ ms = [m \in Merges |-> Idle] /\ agree = TRUE /\ last = [op |-> "init"]

---------------------------------------------------------------------------
\* ---- writer -------------------------------------------------------------
\* One batch: one new fragment for each trace of T (the next fragment index of the trace), all in one
\* segment.  Arrival order is unrelated to timestamp order.
NextK(t) == Cardinality(Of(t, acked)) + 1
GapOK(t, ts) == RespectGap => \A f \in Of(t, acked) : f.ts - ts <= Grace /\ ts - f.ts <= Grace

Write(T, tsOf) ==
  /\ T # {} /\ Cardinality(T) <= MaxBatch
  /\ nextId <= MaxParts
  /\ \A t \in T : NextK(t) <= MaxFrag /\ GapOK(t, tsOf[t])
  /\ \A t, u \in T : TblOf(tsOf[t]) = TblOf(tsOf[u])
  /\ LET F == { [t |-> t, k |-> NextK(t), ts |-> tsOf[t]] : t \in T }
         tbl == TblOf(tsOf[CHOOSE t \in T : TRUE])
     IN /\ parts' = parts \cup { [id |-> nextId, tbl |-> tbl, mem |-> TRUE, frags |-> F, idx |-> F,
                                   lo |-> Min(TS(F)), hi |-> Max(TS(F))] }
        /\ acked' = acked \cup F
        /\ epoch' = IF tbl = "X" THEN epoch + 1 ELSE epoch
        /\ last' = [op |-> "write", tbl |-> tbl, part |-> nextId, frags |-> F]
  /\ nextId' = nextId + 1
  /\ UNCHANGED <<ms, agree>>

\* The flusher: every mem part of X's current snapshot.  (mergeMemParts runs on the flusher's own
\* goroutine, so no flush happens while a mem merge is running.)
Flush ==
  /\ \E p \in PartsX : p.mem
  /\ \A m \in Merges : Active(m) => ms[m].kind # "mem"
  /\ parts' = { IF p.tbl = "X" /\ p.mem THEN [p EXCEPT !.mem = FALSE] ELSE p : p \in parts }
  /\ epoch' = epoch + 1
  /\ last' = [op |-> "flush", ids |-> { p.id : p \in { q \in PartsX : q.mem } }]
  /\ UNCHANGED <<nextId, acked, ms, agree>>

---------------------------------------------------------------------------
\* ---- merge --------------------------------------------------------------
Window(t, F) == [lo |-> Min(TS(Of(t, F))) - Grace, hi |-> Max(TS(Of(t, F))) + Grace]
Overlaps(p, w) == p.frags # {} /\ p.hi >= w.lo /\ p.lo <= w.hi
InCoverage(w) == w.lo >= CovMin /\ w.hi <= CovMax

Eligible(m, kind, fr, F) == { t \in TracesOf(F) : kind = "finalize" \/ Max(TS(Of(t, F))) <= fr }

Selectable(kind, fr) ==
  LET free == { p \in PartsX : p.frags # {} /\ p.id \notin InFlight }
  IN CASE kind = "hot"      -> { I \in SUBSET { p \in free : ~p.mem } : I # {} }
       [] kind = "finalize" -> LET c == { p \in free : ~p.mem /\ p.hi <= fr }
                               IN IF Sampling /\ c # {} THEN {c} ELSE {}
       [] kind = "mem"      -> LET c == { p \in free : p.mem }
                               IN IF Cardinality(c) >= 2 /\ \A x \in Merges : ~(Active(x) /\ ms[x].kind = "mem")
                                    THEN {c} ELSE {}

MergeStart(m, kind, fr, I, tmo) ==
  /\ ms[m].pc = "idle"
  /\ I \in Selectable(kind, fr)
  /\ LET F == UNION { p.frags : p \in I }
         X == UNION { p.idx : p \in I }
         active == Sampling /\ (kind = "finalize" \/ \E p \in I : p.lo <= fr)
         elig == IF active THEN Eligible(m, kind, fr, F) ELSE {}
         decides == elig # {} /\ ~tmo
     IN /\ tmo => elig # {}            \* a time-out needs a sampler call
        /\ ms' = [ms EXCEPT ![m] = [Idle EXCEPT !.pc = IF decides THEN "decide" ELSE "merged",
                                            !.kind = kind, !.inputs = { p.id : p \in I },
                                            !.base = { Obj(p) : p \in PartsX }, !.baseEpoch = epoch,
                                            !.frontier = fr, !.active = active, !.tmo = tmo,
                                            !.out = IF decides THEN {} ELSE F,
                                            !.outIdx = IF decides THEN {} ELSE X]]
        /\ last' = [op |-> "start", m |-> m, kind |-> kind, frontier |-> fr, inputs |-> { p.id : p \in I },
                    active |-> active, timeout |-> tmo, decides |-> decides]
  /\ UNCHANGED <<parts, nextId, epoch, acked, agree>>

\* Outside parts of the catalog: the pinned base snapshot minus the selected parts (objects that were
\* replaced or merged away since stay readable through the pin).
OutsideHas(m, t, w, coded) ==
  \E o \in ms[m].base : /\ o.id \notin ms[m].inputs
                        /\ t \in TracesOf(o.frags) /\ (coded => Overlaps(o, w))
ElsewhereHas(t) == \E p \in parts : p.tbl = "Y" /\ t \in TracesOf(p.frags)

MayDrop(m, t, coded) ==
  LET w == Window(t, InFrags(m))
  IN /\ InCoverage(w)
     /\ ~OutsideHas(m, t, w, coded)
     /\ (~coded => ~ElsewhereHas(t))

Decide(m, d) ==
  /\ ms[m].pc = "decide"
  /\ LET F == InFrags(m)
         elig == Eligible(m, ms[m].kind, ms[m].frontier, F)
         dec == [t \in Traces |-> IF t \in elig THEN d[t] ELSE "Keep"]
         failed == \E t \in elig : dec[t] \in {"Error", "Panic"}
         proposed == IF failed THEN {} ELSE { t \in elig : dec[t] = "Drop" }
         dropI == { t \in proposed : MayDrop(m, t, FALSE) }
         dropC == { t \in proposed : MayDrop(m, t, TRUE) }
         drop == IF CodedGuard THEN dropC ELSE dropI
     IN /\ \A t \in Traces \ elig : d[t] = "Keep"
        /\ ms' = [ms EXCEPT ![m].pc = "merged", ![m].dec = dec, ![m].dropped = drop,
                            ![m].out = { f \in F : f.t \notin drop },
                            ![m].outIdx = { f \in InIdx(m) : f.t \notin drop }]
        /\ agree' = (agree /\ dropI = dropC)
        /\ last' = [op |-> "decide", m |-> m, dec |-> dec, failed |-> failed, dropped |-> drop]
  /\ UNCHANGED <<parts, nextId, epoch, acked>>

DeltaHas(m, t, coded) ==
  \E p \in PartsX : /\ Obj(p) \notin ms[m].base
                    /\ t \in TracesOf(p.frags)
                    /\ (coded => Overlaps(p, Window(t, InFrags(m))))

Rejects(m, coded) ==
  /\ epoch # ms[m].baseEpoch
  /\ \E t \in ms[m].dropped : DeltaHas(m, t, coded) \/ (~coded /\ ElsewhereHas(t))

\* sidx.Merge(keep) for every index, then the pre-publication revalidation (only when something was dropped).
Revalidate(m) ==
  /\ ms[m].pc = "merged"
  /\ IF ms[m].dropped = {}
       THEN /\ ms' = [ms EXCEPT ![m].pc = "ready", ![m].guarded = FALSE]
            /\ last' = [op |-> "revalidate", m |-> m, checked |-> FALSE, ok |-> TRUE]
            /\ UNCHANGED agree
       ELSE LET rej == Rejects(m, CodedGuard)
            IN /\ agree' = (agree /\ Rejects(m, TRUE) = Rejects(m, FALSE))
               /\ IF rej
                    THEN ms' = [ms EXCEPT ![m].pc = "retry", ![m].dropped = {}, ![m].out = InFrags(m),
                                          ![m].outIdx = InIdx(m), ![m].guarded = FALSE]
                    ELSE ms' = [ms EXCEPT ![m].pc = "ready", ![m].guarded = TRUE, ![m].revEpoch = epoch]
               /\ last' = [op |-> "revalidate", m |-> m, checked |-> TRUE, ok |-> ~rej]
  /\ UNCHANGED <<parts, nextId, epoch, acked>>

Publish(m) ==
  /\ parts' = { p \in parts : ~(p.tbl = "X" /\ p.id \in ms[m].inputs) }
                \cup { [id |-> nextId, tbl |-> "X", mem |-> FALSE, frags |-> ms[m].out, idx |-> ms[m].outIdx,
                         \* mergeParts: the output inherits the bounds of its inputs, also when traces were dropped
                         lo |-> Min({ p.lo : p \in InputParts(m) }), hi |-> Max({ p.hi : p \in InputParts(m) })] }
  /\ nextId' = nextId + 1
  /\ epoch' = epoch + 1
  /\ ms' = [ms EXCEPT ![m].pc = "done"]

\* introduceMerged: a guarded introduction is published only at the epoch it was revalidated at.
Introduce(m) ==
  /\ ms[m].pc = "ready"
  /\ IF ms[m].guarded /\ epoch # ms[m].revEpoch
       THEN /\ ms' = [ms EXCEPT ![m].pc = "retry", ![m].dropped = {}, ![m].out = InFrags(m),
                                ![m].outIdx = InIdx(m), ![m].guarded = FALSE]
            /\ last' = [op |-> "introduce", m |-> m, published |-> FALSE, part |-> 0]
            /\ UNCHANGED <<parts, nextId, epoch>>
       ELSE /\ Publish(m)
            /\ last' = [op |-> "introduce", m |-> m, published |-> TRUE, part |-> nextId]
  /\ UNCHANGED <<acked, agree>>

RetrySidx(m) ==
  /\ ms[m].pc = "retry"
  /\ ms' = [ms EXCEPT ![m].pc = "retryReady"]
  /\ last' = [op |-> "retrysidx", m |-> m]
  /\ UNCHANGED <<parts, nextId, epoch, acked, agree>>

RetryIntroduce(m) ==
  /\ ms[m].pc = "retryReady"
  /\ Publish(m)
  /\ last' = [op |-> "retryintroduce", m |-> m, part |-> nextId]
  /\ UNCHANGED <<acked, agree>>

Next ==
  \/ \E T \in SUBSET Traces : \E tsOf \in [T -> Times] : Write(T, tsOf)
  \/ Flush
  \/ \E m \in Merges, kind \in Kinds, fr \in Frontiers, tmo \in Timeouts :
       \E I \in Selectable(kind, fr) : MergeStart(m, kind, fr, I, tmo)
  \/ \E m \in Merges : \E d \in [Traces -> Decisions \cup {"Keep"}] : Decide(m, d)
  \/ \E m \in Merges : Revalidate(m) \/ Introduce(m) \/ RetrySidx(m) \/ RetryIntroduce(m)

Spec == Init /\ [][Next]_vars

View == <<parts, nextId, epoch, acked, ms, agree>>

---------------------------------------------------------------------------
\* ---- C13 ----------------------------------------------------------------
\* All properties compare the state before a step with the state after it, i.e. they are evaluated
\* w.r.t. the spans acknowledged BEFORE the publication.
Publishing(m) == ms[m].pc \in {"ready", "retryReady"} /\ ms'[m].pc = "done"
Kept(t) == Visible(t) \subseteq Visible(t)'

\* every step keeps a trace entirely or removes it entirely
WholeOrNothing == [][\A t \in Traces : Kept(t) \/ Visible(t)' = {}]_vars

\* a trace with a fragment outside the merged parts survives the publication of the merge
KeptIfFragmentOutside ==
  [][\A m \in Merges : Publishing(m) =>
       \A t \in Traces : (\E p \in parts : ~(p.tbl = "X" /\ p.id \in ms[m].inputs) /\ t \in TracesOf(p.frags)) => Kept(t)]_vars

\* a merge without an active sampler loses nothing, neither spans nor index entries
NoLossWithoutSampler ==
  [][\A m \in Merges : Publishing(m) /\ ~ms[m].active => AllVisible' = AllVisible /\ Index' = Index]_vars
NoSamplerNoLoss == ~Sampling => AllVisible = acked /\ Index = acked

\* the secondary index has exactly the entries of the surviving spans, part by part
SidxEntriesMatchSurvivors ==
  /\ \A p \in parts : p.idx = p.frags
  /\ \A m \in Merges : ms[m].outIdx = ms[m].out

\* a failing sampler (error, panic, time-out) drops nothing
FailOpen ==
  [][\A m \in Merges : Publishing(m) =>
       \A t \in TracesOf(InFrags(m)) : (ms[m].tmo \/ ms[m].dec[t] \in {"Error", "Panic"}) => Kept(t)]_vars
FailOpenState == \A m \in Merges : (ms[m].tmo \/ \E t \in Traces : ms[m].dec[t] \in {"Error", "Panic"}) => ms[m].dropped = {}

\* a rejected attempt leaves no output behind: the only output a session owns is the one of its current
\* attempt (the filtered one before a rejection, the lossless one after it)
RejectedMergeLeavesNoOutput ==
  \A m \in Merges : /\ ms[m].pc \in {"retry", "retryReady"} => (ms[m].dropped = {} /\ ms[m].out = InFrags(m) /\ ~ms[m].guarded)
                    /\ ms[m].pc \in {"idle", "decide"} => ms[m].out = {}

\* under the documented assumption the time-window rule of the implementation is exact
GuardRulesAgree == RespectGap => agree

TypeOK ==
  /\ \A p \in parts : p.frags \subseteq acked /\ p.idx \subseteq acked
  /\ \A p, q \in parts : p.id = q.id => p = q
  /\ \A f \in AllVisible : Cardinality({ p \in parts : f \in p.frags }) = 1
=============================================================================
