\* C12: all series of <= 2 entity values of length <= 2
\* (checks/c12.py generates its configurations inline; this file is the same model for a manual run:
\*  java -cp /opt/veriftools/tla/tla2tools.jar tlc2.TLC -deadlock -config MC_KeyCodec_entity.cfg KeyCodec.tla)
SPECIFICATION Spec
CONSTANTS
  Kinds = {"entity"}
  Widths = {3}
  CompWidths = {3}
  E = 3
  M = 2
  AsWritten = FALSE
  Alphabet = {0, 97, 124, 92}
  MaxLen = 2
  MaxSubj = 1
  MaxVals = 2
  ZigCodes = {0, 1, 92, 124, 31836}
INVARIANTS
  IntCodeIsSignFlip
  OrderIso
  RoundTrip
  BufIsMarshal
  RoundTripEntity
  LeftInverse
  Injective
  SameEntitySameKey
