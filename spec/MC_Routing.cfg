SPECIFICATION RSpec
CONSTANTS
  Coordinators = {"A", "B"}
  Keys = {1, 2}
  MaxShards = 3
INVARIANTS
  InRange
  PureFunction
CONSTRAINT RBound
