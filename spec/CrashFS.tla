------------------------------ MODULE CrashFS ------------------------------
(***************************************************************************)
(* A POSIX-like file system with a volatile and a durable state, as seen   *)
(* by ONE tsTable directory (pkg/fs/local_file_system.go is the only       *)
(* writer).  Two levels: the table root (directory id 0) holds part        *)
(* directories and manifests; a part directory (id = part id) holds files. *)
(*                                                                         *)
(*   vol    what a running process (and a kill -9 survivor) sees           *)
(*   dur    the name space a power loss is GUARANTEED to preserve          *)
(*   pend   the name-space effects (add / del / ren / rmall of a dirent)   *)
(*          issued but not yet covered by an fsync of their directory,     *)
(*          in issue order                                                 *)
(*   full   inodes whose (volatile) content is complete                    *)
(*   dirty  inodes with data written but not yet fsync'ed                  *)
(*                                                                         *)
(* ext4-like rules (the assumptions of property C04's power-loss model):   *)
(*   * rename is atomic (one effect: target name -> inode, source gone);   *)
(*   * a dirent change is durable only after fsync of its directory;       *)
(*     before that it may or may not survive, independently of the others  *)
(*     (any subset of pend, applied in issue order);                       *)
(*   * file data is durable only after fsync(file); a surviving dirent may *)
(*     point to an inode whose un-synced data is lost or torn;             *)
(*   * fsync(file) does NOT make the file's dirent durable;                *)
(*   * entries of a directory whose own dirent did not survive are gone;   *)
(*   * RemoveAll is not atomic: interrupted (or partly persisted) it       *)
(*     leaves the directory with some children missing.                    *)
(* Crash("kill9") keeps every completed effect (image = vol, full).        *)
(***************************************************************************)
EXTENDS Naturals, Sequences, FiniteSets

CONSTANTS DataFiles,       \* tags of the data files of a part (the model's N files)
          MaxPend          \* up to MaxPend un-synced effects every loss subset is explored (2^MaxPend images per
                           \* point); beyond that only: none, all, each single one lost, each single one kept

(* A name: d = directory (0 root, else part id); k = kind ("dir" part       *)
(* directory, "snp" manifest, "data", "meta" metadata.json, "tt" tag.type); *)
(* e = epoch (snp) or part id (dir); f = data file tag; t = ".tmp" sibling. *)
(* An inode is identified by the name it was created under.                *)
Nm(d, k, e, f, t) == [d |-> d, k |-> k, e |-> e, f |-> f, t |-> t]
RootNm     == Nm(0, "root", 0, "", FALSE)
DirNm(x)   == Nm(0, "dir", x, "", FALSE)
SnpNm(e)   == Nm(0, "snp", e, "", FALSE)
DataNm(x, f) == Nm(x, "data", 0, f, FALSE)
MetaNm(x)  == Nm(x, "meta", 0, "", FALSE)
TagNm(x)   == Nm(x, "tt", 0, "", FALSE)
Tmp(nm)    == [nm EXCEPT !.t = TRUE]
DirKey(nm) == IF nm.k = "root" THEN 0 ELSE nm.e      \* operand of syncdir -> directory id

VARIABLES vol, dur, pend, full, dirty
fsvars == <<vol, dur, pend, full, dirty>>

FsInit == vol = {} /\ dur = {} /\ pend = <<>> /\ full = {} /\ dirty = {}

Has(ns, nm)   == \E e \in ns : e.nm = nm
InoOf(ns, nm) == (CHOOSE e \in ns : e.nm = nm).ino
Names(ns)     == {e.nm : e \in ns}

Eff(op, dir, nm, to, ino) == [op |-> op, dir |-> dir, nm |-> nm, to |-> to, ino |-> ino]

RmDirs(ns, X) == {e \in ns : e.nm.d \notin X /\ ~(e.nm.k = "dir" /\ e.nm.e \in X)}

Apply(ns, f) ==
  CASE f.op = "add"   -> {e \in ns : e.nm # f.nm} \cup {[nm |-> f.nm, ino |-> f.ino]}
    [] f.op = "del"   -> {e \in ns : e.nm # f.nm}
    [] f.op = "ren"   -> {e \in ns : e.nm # f.nm /\ e.nm # f.to} \cup {[nm |-> f.to, ino |-> f.ino]}
    [] f.op = "rmall" -> RmDirs(ns, {f.nm.e})

RECURSIVE ApplySeq(_, _)
ApplySeq(ns, s) == IF s = <<>> THEN ns ELSE ApplySeq(Apply(ns, Head(s)), Tail(s))

InDir(f, d)    == f.dir = d
NotInDir(f, d) == f.dir # d

(***************************************************************************)
(* The operations.  o = [op, nm, to]                                       *)
(***************************************************************************)
FsMkdir(nm) ==
  LET f == Eff("add", 0, nm, nm, nm) IN
  /\ vol' = Apply(vol, f) /\ pend' = Append(pend, f)
  /\ UNCHANGED <<dur, full, dirty>>

FsCreate(nm) ==          \* open(O_CREAT|O_TRUNC): a fresh, empty inode under nm
  LET f == Eff("add", nm.d, nm, nm, nm) IN
  /\ nm.d = 0 \/ Has(vol, DirNm(nm.d))
  /\ vol' = Apply(vol, f) /\ pend' = Append(pend, f)
  /\ full' = full \ {nm} /\ dirty' = dirty \ {nm}
  /\ UNCHANGED dur

FsWrite(nm, complete) == \* data handed to the OS; complete = the content is now whole
  /\ Has(vol, nm)
  /\ LET i == InoOf(vol, nm) IN
       /\ full' = IF complete THEN full \cup {i} ELSE full
       /\ dirty' = dirty \cup {i}
  /\ UNCHANGED <<vol, dur, pend>>

FsFsync(nm) ==
  /\ Has(vol, nm)
  /\ dirty' = dirty \ {InoOf(vol, nm)}
  /\ UNCHANGED <<vol, dur, pend, full>>

FsRename(a, b) ==
  /\ Has(vol, a)
  /\ LET f == Eff("ren", a.d, a, b, InoOf(vol, a)) IN
       vol' = Apply(vol, f) /\ pend' = Append(pend, f)
  /\ UNCHANGED <<dur, full, dirty>>

FsSyncDir(d) ==          \* fsync of directory d: its pending dirent changes become durable, in order
  /\ dur' = ApplySeq(dur, SelectSeq(pend, LAMBDA f : InDir(f, d)))
  /\ pend' = SelectSeq(pend, LAMBDA f : NotInDir(f, d))
  /\ UNCHANGED <<vol, full, dirty>>

FsUnlink(nm) ==
  LET f == Eff("del", nm.d, nm, nm, nm) IN
  /\ vol' = Apply(vol, f) /\ pend' = Append(pend, f)
  /\ UNCHANGED <<dur, full, dirty>>

FsRmAll(x) ==            \* RemoveAll(part dir x), completed
  LET f == Eff("rmall", 0, DirNm(x), DirNm(x), DirNm(x)) IN
  /\ vol' = Apply(vol, f) /\ pend' = Append(pend, f)
  /\ UNCHANGED <<dur, full, dirty>>

FsApply(o) ==
  CASE o.op = "mkdir"   -> FsMkdir(o.nm)
    [] o.op = "create"  -> FsCreate(o.nm)
    [] o.op = "write"   -> FsWrite(o.nm, TRUE)
    [] o.op = "fsync"   -> FsFsync(o.nm)
    [] o.op = "rename"  -> FsRename(o.nm, o.to)
    [] o.op = "syncdir" -> FsSyncDir(DirKey(o.nm))
    [] o.op = "unlink"  -> FsUnlink(o.nm)
    [] o.op = "rmall"   -> FsRmAll(o.nm.e)

(***************************************************************************)
(* Crash images.  An image is [ns, full]: the name space after the crash   *)
(* and the set of inodes whose content is complete.                        *)
(***************************************************************************)
RECURSIVE SubSeqBy(_, _, _)
SubSeqBy(s, S, i) == IF i > Len(s) THEN <<>>
                     ELSE (IF i \in S THEN <<s[i]>> ELSE <<>>) \o SubSeqBy(s, S, i + 1)

Reach(ns) == {e \in ns : e.nm.d = 0 \/ Has(ns, DirNm(e.nm.d))}

OneData == CHOOSE f \in DataFiles : TRUE
(* a RemoveAll of the directories X that got only part of the way: class    *)
(* "meta" = metadata.json already gone, "data" = one data file already gone *)
PartialRm(ns, X, cls) ==
  CASE cls = "none" -> ns
    [] cls = "meta" -> {e \in ns : ~(e.nm.d \in X /\ e.nm.k = "meta" /\ ~e.nm.t)}
    [] cls = "data" -> {e \in ns : ~(e.nm.d \in X /\ e.nm = DataNm(e.nm.d, OneData))}

(* kill -9: everything completed stays; inflight = part dirs whose RemoveAll was running *)
KillImages(inflight) ==
  {[ns |-> vol, full |-> full]} \cup
  {[ns |-> PartialRm(vol, {x}, cls), full |-> full] : x \in inflight, cls \in {"meta", "data"}}

(* power loss: a subset S of the pending effects survives (in order), a subset keep of the    *)
(* dirty inodes keeps its data, pending-but-lost (or running) RemoveAlls may be partly applied *)
PowerImage(S, keep, cls, inflight) ==
  LET ns0    == ApplySeq(dur, SubSeqBy(pend, S, 1))
      lostRm == {pend[i].nm.e : i \in {j \in (DOMAIN pend) \ S : pend[j].op = "rmall"}} \cup inflight
  IN [ns |-> Reach(PartialRm(ns0, lostRm, cls)), full |-> (full \ dirty) \cup (keep \cap full)]

PendingRm == \E i \in DOMAIN pend : pend[i].op = "rmall"
LossSets == IF Len(pend) <= MaxPend THEN SUBSET (DOMAIN pend)
            ELSE {{}, DOMAIN pend} \cup {{i} : i \in DOMAIN pend} \cup {(DOMAIN pend) \ {i} : i \in DOMAIN pend}
PowerImages(inflight) ==
  {PowerImage(S, keep, cls, inflight) : S \in LossSets, keep \in SUBSET dirty,
                                        cls \in (IF PendingRm \/ inflight # {} THEN {"none", "meta", "data"} ELSE {"none"})}
=============================================================================
