--------------------------- MODULE SegHoldTrace ---------------------------
(* Events of a real concurrent run of the storage package (harness stor -mode segstress): HoldBegin/HoldEnd are   *)
(* logged by the clients (after the acquisition returned / before the release), SegClosed/SegDeleted and the        *)
(* SnapClosedBegin/End of a file snapshot's closed path by hooks under the segment's mutex.  The merged log must be a behaviour of SegHold.tla.                                 *)
EXTENDS SegHold, Json, Sequences, Integers

Trace == ndJsonDeserialize("trace.ndjson")
VARIABLE l
Ev == Trace[l]
Is(name) == l <= Len(Trace) /\ Ev.event = name /\ l' = l + 1

TraceInit == HInit /\ l = 1
TraceNext == \/ Is("HoldBegin") /\ HoldBegin(Ev.c, Ev.k, Ev.seg)
             \/ Is("HoldEnd") /\ HoldEnd(Ev.c, Ev.k, Ev.seg)
             \/ Is("SegClosed") /\ Close(Ev.seg)
             \/ Is("SegDeleted") /\ Delete(Ev.seg)
             \/ Is("SnapClosedBegin") /\ CopyBegin(Ev.seg)
             \/ Is("SnapClosedEnd") /\ CopyEnd(Ev.seg)
TraceSpec == TraceInit /\ [][TraceNext]_<<hvars, l>>
TraceAccepted == TLCGet("stats").diameter - 1 = Len(Trace)
=============================================================================
