---------------------------- MODULE TSTableTrace ----------------------------
(***************************************************************************)
(* Trace validation of the part / snapshot life cycle of the real engine   *)
(* (banyand/measure snapshot.go, introducer.go, part.go; stream and trace  *)
(* share the structure).  The design is checked exhaustively in            *)
(* TSTable.tla; this module replays the events recorded at the             *)
(* linearization points of a REAL concurrent execution (writers, queries,  *)
(* the introducer / flusher / merger loops, file snapshots, close) and     *)
(* requires every step to be a step the design allows:                     *)
(*                                                                         *)
(*   Replace(tbl, snap, epoch, parts)   under tst.Lock, after the swap     *)
(*   SnapInc(snap)                      a reader pinned the snapshot       *)
(*   SnapDec(snap, n)                   n = the counter after the decrement*)
(*   PartZero(part, removable)          last reference of a part wrapper   *)
(*   PartRemove(part)                   its directory is about to go       *)
(*                                                                         *)
(* Because decrements are lock-free, SnapDec events of different           *)
(* goroutines may be logged in another order than they happened; the       *)
(* logged counter value n is authoritative (n = 0 marks the death of the   *)
(* snapshot and is logged by the goroutine that then releases the parts).  *)
(***************************************************************************)
EXTENDS Integers, Sequences, FiniteSets, Json, TLC

Trace == ndJsonDeserialize("trace.ndjson")

VARIABLES l,        \* next event
          cur,      \* table -> current snapshot id (function built as a set of pairs)
          epochOf,  \* set of <<tbl, last epoch>>
          live,     \* snapshots published and not yet dead
          dead,     \* snapshots whose counter reached 0
          partsOf,  \* set of <<snap, part>>
          zeroed,   \* part wrappers released
          removableZ, \* released wrappers that were flagged removable
          removed,  \* part wrappers whose directory removal was announced
          filePids, \* set of <<snap, pid>>: file-backed parts of a published snapshot
          snapOpen, \* file snapshots in progress: set of <<id, tbl>>
          snapSaw,  \* set of <<id, snap>>: snapshots that were current at some moment of file snapshot id
          curPids   \* set of <<tbl, pid>>: part ids (directory names) of the table's current snapshot

vars == <<l, cur, epochOf, live, dead, partsOf, zeroed, removableZ, removed, filePids, snapOpen, snapSaw, curPids>>

SetOf(seq) == { seq[i] : i \in 1..Len(seq) }

TraceInit == /\ l = 1 /\ cur = {} /\ epochOf = {} /\ live = {} /\ dead = {} /\ partsOf = {}
             /\ zeroed = {} /\ removableZ = {} /\ removed = {} /\ filePids = {} /\ snapOpen = {} /\ snapSaw = {}
             /\ curPids = {}

Ev == Trace[l]
Is(name) == l <= Len(Trace) /\ Ev.event = name /\ l' = l + 1

LiveHolders(p) == { s \in live : <<s, p>> \in partsOf }

\* ---- what one publication may do to the set of parts (C05: a reader sees either the inputs of a merge or its output,
\* never both, never neither; TSTable.tla Introduce / Flush / Merge / Sync).  creator: 0 a new part was introduced,
\* 1 flusher (memory parts become file parts under the same ids), 2 merger, 3 the flusher's merge of memory parts,
\* 4 syncer (shipped parts leave).  The first snapshot of a table (loaded at start-up) is unconstrained.
Publication(tbl, creator, newPids) ==
  LET known == \E pr \in cur : pr[1] = tbl
      old == { pr[2] : pr \in { x \in curPids : x[1] = tbl } }
      gone == old \ newPids
      added == newPids \ old
  IN \/ ~known
     \/ creator = 0 /\ gone = {} /\ Cardinality(added) = 1
     \/ creator = 1 /\ gone = {} /\ added = {}
     \/ creator \in {2, 3} /\ gone # {} /\ Cardinality(added) = 1     \* the inputs leave in the step that adds the output
     \/ creator = 4 /\ added = {}

Replace ==
  /\ Is("Replace")
  /\ LET ps == SetOf(Ev.parts) IN
     /\ Ev.snap \notin live /\ Ev.snap \notin dead
     \* epochs of one table strictly increase: one introducer serialises every transition
     /\ \A pr \in epochOf : pr[1] = Ev.tbl => pr[2] < Ev.epoch
     \* a published snapshot never contains a released part
     /\ ps \cap zeroed = {}
     /\ Publication(Ev.tbl, Ev.creator, SetOf(Ev.pids))
     /\ curPids' = { pr \in curPids : pr[1] # Ev.tbl } \cup { <<Ev.tbl, Ev.pids[i]>> : i \in 1..Len(Ev.pids) }
     /\ cur' = { pr \in cur : pr[1] # Ev.tbl } \cup { <<Ev.tbl, Ev.snap>> }
     /\ epochOf' = { pr \in epochOf : pr[1] # Ev.tbl } \cup { <<Ev.tbl, Ev.epoch>> }
     /\ live' = live \cup { Ev.snap }
     /\ partsOf' = partsOf \cup { <<Ev.snap, p>> : p \in ps }
     /\ filePids' = filePids \cup { <<Ev.snap, Ev.pids[i]>> : i \in { j \in 1..Len(Ev.parts) : Ev.parts[j] \notin SetOf(Ev.mem) } }
     /\ snapSaw' = snapSaw \cup { <<o[1], Ev.snap>> : o \in { x \in snapOpen : x[2] = Ev.tbl } }
  /\ UNCHANGED <<dead, zeroed, removableZ, removed, snapOpen>>

SnapInc ==          \* pinning a dead snapshot would resurrect freed parts
  /\ Is("SnapInc")
  /\ Ev.snap \notin dead
  /\ UNCHANGED <<cur, epochOf, live, dead, partsOf, zeroed, removableZ, removed, filePids, snapOpen, snapSaw, curPids>>

SnapDec ==          \* a decrement that left the counter above 0 may be logged after the one that reached 0
  /\ Is("SnapDec")
  /\ Ev.n >= 0
  /\ (Ev.n = 0) => Ev.snap \notin dead          \* the counter reaches 0 once
  /\ IF Ev.n = 0
       THEN /\ dead' = dead \cup { Ev.snap } /\ live' = live \ { Ev.snap }
            \* the current snapshot of a table dies only when it is being replaced or the table closes;
            \* either way it stops being current
            /\ cur' = { pr \in cur : pr[2] # Ev.snap }
            \* bookkeeping of a dead snapshot is dropped (its file parts are kept while a file snapshot that saw it
            \* is still in progress)
            /\ partsOf' = { pr \in partsOf : pr[1] # Ev.snap }
            /\ filePids' = { pr \in filePids : pr[1] # Ev.snap \/ (\E x \in snapSaw : x[2] = Ev.snap) }
       ELSE UNCHANGED <<dead, live, cur, partsOf, filePids, curPids>>
  /\ UNCHANGED <<epochOf, zeroed, removableZ, removed, snapOpen, snapSaw, curPids>>

PartZero ==         \* the last reference goes only after every snapshot holding the part is dead
  /\ Is("PartZero")
  /\ Ev.part \notin zeroed
  /\ LiveHolders(Ev.part) = {}
  /\ zeroed' = zeroed \cup { Ev.part }
  /\ removableZ' = IF Ev.removable THEN removableZ \cup { Ev.part } ELSE removableZ
  /\ UNCHANGED <<cur, epochOf, live, dead, partsOf, removed, filePids, snapOpen, snapSaw, curPids>>

PartRemove ==       \* files are deleted once, only for replaced (removable) parts, only after release
  /\ Is("PartRemove")
  /\ Ev.part \in removableZ
  /\ Ev.part \notin removed
  /\ LiveHolders(Ev.part) = {}
  /\ removed' = removed \cup { Ev.part }
  /\ UNCHANGED <<cur, epochOf, live, dead, partsOf, zeroed, removableZ, filePids, snapOpen, snapSaw, curPids>>

\* ---- file snapshots (C19): the copy holds exactly the file parts of ONE snapshot that was current during the
\* call, its manifest lists nothing that is not in the copy, and the copy opens with exactly those parts
FileSnapBegin ==
  /\ Is("FileSnapBegin")
  /\ snapOpen' = snapOpen \cup { <<Ev.id, Ev.tbl>> }
  /\ snapSaw' = snapSaw \cup { <<Ev.id, pr[2]>> : pr \in { x \in cur : x[1] = Ev.tbl } }
  /\ UNCHANGED <<cur, epochOf, live, dead, partsOf, zeroed, removableZ, removed, filePids, curPids>>

FilePidsOf(s) == { pr[2] : pr \in { x \in filePids : x[1] = s } }

FileSnapEnd ==
  /\ Is("FileSnapEnd")
  /\ <<Ev.id, Ev.tbl>> \in snapOpen
  /\ LET copied == SetOf(Ev.copied) listed == SetOf(Ev.listed) opened == SetOf(Ev.opened)
         seen == { pr[2] : pr \in { x \in snapSaw : x[1] = Ev.id } }
     IN IF Ev.wrote
          THEN /\ \E s \in seen : FilePidsOf(s) = copied      \* SnapshotEqualsSomeState
               /\ listed \subseteq copied                      \* ManifestPartsPresent
               /\ opened = copied                              \* the copy opens with exactly its parts
          ELSE copied = {}
  /\ snapOpen' = snapOpen \ { <<Ev.id, Ev.tbl>> }
  /\ snapSaw' = { x \in snapSaw : x[1] # Ev.id }
  /\ filePids' = { pr \in filePids : pr[1] \in live \/ (\E x \in snapSaw : x[1] # Ev.id /\ x[2] = pr[1]) }
  /\ UNCHANGED <<cur, epochOf, live, dead, partsOf, zeroed, removableZ, removed, curPids>>

TraceNext == Replace \/ SnapInc \/ SnapDec \/ PartZero \/ PartRemove \/ FileSnapBegin \/ FileSnapEnd

TraceSpec == TraceInit /\ [][TraceNext]_vars

\* invariants evaluated after every consumed event
NoLiveSnapshotHoldsReleasedPart == \A pr \in partsOf : pr[1] \in live => pr[2] \notin zeroed
CurrentIsLive == \A pr \in cur : pr[2] \in live
RemovedWereReleased == removed \subseteq zeroed

TraceAccepted == TLCGet("stats").diameter - 1 = Len(Trace)
=============================================================================
