SPECIFICATION TraceSpec
CONSTANTS
  Coordinators = {"A", "B"}
  Keys = {1}
  MaxShards = 5
INVARIANTS
  InRange
  PureFunction
POSTCONDITION TraceAccepted
