----------------------------- MODULE ChunkedSync -----------------------------
(***************************************************************************)
(* Chunked part transfer between nodes                                     *)
(*   sender   banyand/queue/pub/chunked_sync.go  (SyncStreamingParts,      *)
(*            streamPartsAsChunks, sendChunk: stop-and-wait, retries,      *)
(*            completion, what it reports) + the caller's rule in          *)
(*            banyand/measure/syncer.go (a part stays queued iff the call  *)
(*            returned an error or listed it as failed)                    *)
(*   receiver banyand/queue/sub/chunked_sync.go  (SyncPart: session        *)
(*            start/switch, sequential and reordering mode, CRC, buffer    *)
(*            window, part switch => FinishSync, completion, stream end)   *)
(*   handler  banyand/measure/write_data.go (a part is installed only by   *)
(*            FinishSync; Close without FinishSync discards it)            *)
(*                                                                         *)
(* The messages, the counters and the order of the steps are the code's.   *)
(* Where the code and the property disagree the spec states the INTENDED   *)
(* design (marked "intended"):                                             *)
(*   I1 a chunk that is rejected (CRC) does not advance the expected index *)
(*   I2 Completion installs the open part only if every announced chunk    *)
(*      has been processed (Completion.total_chunks / total_bytes_sent),   *)
(*      otherwise the part is discarded and the result is a failure        *)
(*   I3 a session that is replaced (new metadata) or ends without a        *)
(*      Completion discards its open part                                  *)
(*   I4 the sender reports success only on a positive SyncResult           *)
(* (the pinned tree does none of the four: it installs whatever the open   *)
(* handler holds on Completion and on a session switch, advances past a    *)
(* rejected chunk in reordering mode, and turns a negative or missing      *)
(* result into success; fixes/C17-completeness.patch implements I1-I4)     *)
(* Deliberate properties of the code that are kept as they are: the sender *)
(* is stop-and-wait and takes the next response as the answer to the chunk *)
(* it is waiting for (it never looks at the index in the response); a      *)
(* buffered chunk is answered twice (when buffered, when drained); an      *)
(* unacknowledged transfer is repeated as a whole (at-least-once).         *)
(*                                                                         *)
(* A part is a sequence of files, a file a number of bytes; the content of *)
(* a byte is opaque, so what a receiver holds is a sequence of slices      *)
(* [p, f, off, len] of the sender's files - it has exactly the sender's    *)
(* content iff that sequence is the sender's slicing of the part.          *)
(*                                                                         *)
(* Config "A": sender + receiver + a channel per direction with at most    *)
(* MaxFaults faults.  Normal steps are scheduled deterministically         *)
(* (requests first, then responses, then time-outs), so a behaviour IS a   *)
(* fault schedule.  Config "B": the receiver alone against every sequence  *)
(* of at most MaxMsgs requests over the alphabet.                          *)
(***************************************************************************)
EXTENDS Integers, Sequences, FiniteSets, TLC

CONSTANTS Layouts,      \* set of layouts: <<part, ...>>, part = <<file size, ...>>
          ChunkSizes,   \* set of chunk sizes (bytes)
          Modes,        \* subset of {"seq", "reorder"}
          MaxChunks,    \* only (layout, chunk size) pairs with at most that many chunks
          MaxGap,       \* server.maxChunkGapSize
          MaxBuf,       \* server.maxChunkBufferSize
          MaxRetries,   \* pub: maxRetries = MaxOOORetries = 3
          Config,       \* "A" | "B"
          FaultKinds,   \* A: enabled fault kinds
          MaxFaults,    \* A
          MaxAttempts,  \* A: sync attempts (2 = one retry by the caller)
          MaxMsgs       \* B

VARIABLES cfg,       \* [L, C, mode, ...] chosen initially (MkCfg)
          queue,     \* sender: part ids not yet delivered
          sPc,       \* "idle" | "wait" (in sendChunk) | "final" (completion sent) | "done"
          sIdx,      \* chunk index being sent = chunks acknowledged so far
          sRetry,    \* retry counter of the current chunk
          sAtt,      \* attempt number (= session)
          sRes,      \* result of the last finished attempt: "none" | "ok" | "fail"
          req, resp, \* messages in flight
          held,      \* a delayed copy of a request: <<>> or <<[m, after]>>
          rAlive,    \* a SyncPart call is running
          rHas,      \* it has a session (metadata seen)
          rExp,      \* chunksReceived / chunkBuffer.expectedIndex
          rBuf,      \* buffered out-of-order chunks
          rPart,     \* part id of the open part handler, 0 = none
          rGot,      \* slices written to the open handler
          rSes,      \* number of sessions the receiver has started so far
          installs,  \* sequence of [p, ses, full]: FinishSync calls (ses = receiver session)
          faults, nmsg,
          out,       \* responses produced by the last receiver step
          last       \* history: the action that produced this state

vars == <<cfg, queue, sPc, sIdx, sRetry, sAtt, sRes, req, resp, held, rAlive, rHas, rExp, rBuf, rPart, rGot, rSes,
          installs, faults, nmsg, out, last>>

Min(a, b) == IF a < b THEN a ELSE b
Max(a, b) == IF a > b THEN a ELSE b

\* ---- layout arithmetic (streamPartsAsChunks) ---------------------------
RECURSIVE Flat(_, _)
Flat(L, i) == IF i > Len(L) THEN <<>>
              ELSE [j \in 1..Len(L[i]) |-> [p |-> i, f |-> j, size |-> L[i][j]]] \o Flat(L, i + 1)
RECURSIVE StartOf(_, _)
StartOf(F, i) == IF i <= 1 THEN 0 ELSE StartOf(F, i - 1) + F[i - 1].size
TotalOf(F) == StartOf(F, Len(F) + 1)
NChunksOf(F, C) == (TotalOf(F) + C - 1) \div C
\* the slices of chunk k (k = 0 ..): the buffer is filled across file and part boundaries
SlicesOf(F, C, k) ==
  LET lo == k * C
      hi == Min((k + 1) * C, TotalOf(F))
      all == [i \in 1..Len(F) |->
                LET s == StartOf(F, i)
                    a == Max(s, lo)
                    b == Min(s + F[i].size, hi)
                IN [p |-> F[i].p, f |-> F[i].f, off |-> a - s, len |-> b - a]]
  IN SelectSeq(all, LAMBDA x : x.len > 0)
RECURSIVE PartSlicesOf(_, _, _, _)
PartSlicesOf(F, C, p, k) == IF k >= NChunksOf(F, C) THEN <<>>
                            ELSE SelectSeq(SlicesOf(F, C, k), LAMBDA x : x.p = p) \o PartSlicesOf(F, C, p, k + 1)

\* cfg carries the tables derived from (L, C) so that they are computed once per behaviour
MkCfg(L, cs, mode) ==
  LET fl == Flat(L, 1) n == NChunksOf(fl, cs) IN
  [L |-> L, C |-> cs, mode |-> mode, n |-> n, t |-> TotalOf(fl),
   sl |-> [k \in 1..n |-> SlicesOf(fl, cs, k - 1)],                 \* sl[k+1] = slices of chunk k
   content |-> [p \in 1..Len(L) |-> PartSlicesOf(fl, cs, p, 0)]]    \* the sender's content of part p
N == cfg.n
T == cfg.t
PartIds == 1..Len(cfg.L)
Content(p) == cfg.content[p]
Slices(k) == cfg.sl[k + 1]

\* ---- messages ----------------------------------------------------------
Chunk(k, meta, bad) == [t |-> "chunk", idx |-> k, meta |-> meta, ok |-> (bad = ""), bad |-> bad, tc |-> 0, tb |-> 0]
Completion == [t |-> "completion", idx |-> N + 1, meta |-> FALSE, ok |-> TRUE, bad |-> "", tc |-> N, tb |-> T]
Eos == [t |-> "eos", idx |-> 0, meta |-> FALSE, ok |-> TRUE, bad |-> "", tc |-> 0, tb |-> 0]
R(idx, st, note, succ) == [t |-> "resp", idx |-> idx, st |-> st, note |-> note, succ |-> succ]
End(st) == [t |-> "end", idx |-> 0, st |-> st, note |-> "", succ |-> FALSE]      \* the handler returned: "eof" (nil) | "err"

\* ---- receiver (one step = one Recv and everything SyncPart does with it) ----
RS == [exp |-> rExp, buf |-> rBuf, part |-> rPart, got |-> rGot, inst |-> <<>>, out |-> <<>>]
Discard(s) == [s EXCEPT !.part = 0, !.got = <<>>]                      \* partCtx.Close() without FinishSync
Finish(s) == IF s.part = 0 THEN s                                      \* Handler.FinishSync()
             ELSE [s EXCEPT !.inst = Append(@, [p |-> s.part, full |-> (s.got = Content(s.part))]), !.part = 0, !.got = <<>>]

\* processExpectedChunk, the loop over PartsInfo: a new part id finishes the previous part
RECURSIVE Feed(_, _)
Feed(s, sl) == IF sl = <<>> THEN s
               ELSE LET x == Head(sl) IN
                    IF s.part = x.p THEN Feed([s EXCEPT !.got = Append(@, x)], Tail(sl))
                    ELSE Feed([Finish(s) EXCEPT !.part = x.p, !.got = <<x>>], Tail(sl))

Expected(s, m) ==     \* processExpectedChunk; I1: the index advances only when the chunk was accepted
  IF ~m.ok THEN [s |-> [s EXCEPT !.out = Append(@, R(m.idx, "mismatch", "", FALSE))], acc |-> FALSE]
  ELSE [s |-> [Feed(s, Slices(m.idx)) EXCEPT !.out = Append(@, R(m.idx, "received", "", FALSE)), !.exp = s.exp + 1],
        acc |-> TRUE]

RECURSIVE Drain(_)
Drain(s) ==           \* processBufferedChunks
  LET bs == {b \in s.buf : b.idx = s.exp} IN
  IF bs = {} THEN s
  ELSE LET b == CHOOSE x \in bs : TRUE
           r == Expected([s EXCEPT !.buf = @ \ {b}], b)
       IN IF r.acc THEN Drain(r.s) ELSE r.s

OnChunk(s, m) ==
  IF cfg.mode = "seq"
    THEN IF m.idx # s.exp THEN [s EXCEPT !.out = Append(@, R(m.idx, "ooo", "order", FALSE))]
         ELSE Expected(s, m).s
    ELSE IF m.idx = s.exp THEN LET r == Expected(s, m) IN IF r.acc THEN Drain(r.s) ELSE r.s
         ELSE IF m.idx > s.exp
           THEN IF m.idx - s.exp > MaxGap THEN [s EXCEPT !.out = Append(@, R(m.idx, "ooo", "gap", FALSE))]
                ELSE IF Cardinality(s.buf) >= MaxBuf THEN [s EXCEPT !.out = Append(@, R(m.idx, "ooo", "full", FALSE))]
                ELSE [s EXCEPT !.buf = {b \in @ : b.idx # m.idx} \cup {m}, !.out = Append(@, R(m.idx, "received", "buffered", FALSE))]
           ELSE [s EXCEPT !.out = Append(@, R(m.idx, "received", "dup", FALSE))]

\* result of receiving m: [s, alive, has, end]
Recv(m) ==
  IF m.t = "eos" THEN [s |-> Discard(RS), alive |-> FALSE, has |-> rHas, end |-> "eof"]          \* I3
  ELSE LET s0 == IF m.meta THEN [Discard(RS) EXCEPT !.exp = 0, !.buf = {}] ELSE RS               \* startOrSwitchSession, I3
           has == rHas \/ m.meta
       IN IF ~has THEN [s |-> [s0 EXCEPT !.out = <<R(m.idx, "notfound", "", FALSE)>>], alive |-> FALSE, has |-> FALSE, end |-> "eof"]
          ELSE IF m.t = "completion"
            THEN LET okc == (s0.exp = m.tc) /\ (s0.buf = {})                                     \* I2
                     s1 == IF okc THEN Finish(s0) ELSE Discard(s0)
                 IN [s |-> [s1 EXCEPT !.out = <<R(m.idx, "complete", "", okc)>>], alive |-> FALSE, has |-> has, end |-> "eof"]
            ELSE [s |-> OnChunk(s0, m), alive |-> TRUE, has |-> has, end |-> ""]

\* apply a receive result to the receiver variables (session state is canonical once the call has returned)
Apply(m, r) ==
  /\ rSes' = IF m.meta THEN rSes + 1 ELSE rSes
  /\ rAlive' = r.alive
  /\ rHas' = (r.alive /\ r.has)
  /\ rExp' = IF r.alive THEN r.s.exp ELSE 0
  /\ rBuf' = IF r.alive THEN r.s.buf ELSE {}
  /\ rPart' = IF r.alive THEN r.s.part ELSE 0
  /\ rGot' = IF r.alive THEN r.s.got ELSE <<>>
  /\ installs' = installs \o [i \in 1..Len(r.s.inst) |-> [p |-> r.s.inst[i].p, ses |-> rSes', full |-> r.s.inst[i].full]]
  /\ out' = r.s.out

RecvIdle == /\ UNCHANGED rSes /\ rAlive' = FALSE /\ rHas' = FALSE /\ rExp' = 0 /\ rBuf' = {} /\ rPart' = 0 /\ rGot' = <<>>   \* ctx cancelled: deferred Close
RecvUnchanged == UNCHANGED <<rAlive, rHas, rExp, rBuf, rPart, rGot, rSes, installs>>

\* ---- initial states ----------------------------------------------------
Init ==
  /\ cfg \in { MkCfg(c.L, c.C, c.mode) : c \in { d \in [L : Layouts, C : ChunkSizes, mode : Modes] :
                 LET n == NChunksOf(Flat(d.L, 1), d.C) IN n >= 1 /\ n <= MaxChunks } }
  /\ queue = 1..Len(cfg.L)
  /\ sPc = "idle" /\ sIdx = 0 /\ sRetry = 0 /\ sAtt = 0 /\ sRes = "none"
  /\ req = <<>> /\ resp = <<>> /\ held = <<>>
  /\ rAlive = (Config = "B") /\ rHas = FALSE /\ rExp = 0 /\ rBuf = {} /\ rPart = 0 /\ rGot = <<>>
  /\ rSes = 0 /\ installs = <<>> /\ faults = 0 /\ nmsg = 0 /\ out = <<>>
  /\ last = [op |-> "init"]

\* ======================= Config B: receiver alone =======================
Alphabet == { Chunk(k, FALSE, b) : k \in 0..(N - 1), b \in {"", "flip", "cut"} }
            \cup { Chunk(0, TRUE, b) : b \in {"", "flip", "cut"} }
            \cup { Completion, Eos }

BMsg(m) ==
  /\ Config = "B" /\ rAlive /\ nmsg < MaxMsgs
  /\ nmsg' = nmsg + 1
  /\ Apply(m, Recv(m))
  /\ last' = [op |-> "msg", m |-> m]
  /\ UNCHANGED <<cfg, queue, sPc, sIdx, sRetry, sAtt, sRes, req, resp, held, faults>>

\* ================= Config A: sender, channel, receiver ==================
\* the sender puts a request on the wire; a delayed copy waiting for that many further requests follows it
Push(q, m) == IF held # <<>> /\ held[1].after <= 1 THEN q \o <<m, held[1].m>> ELSE Append(q, m)
HeldAfterPush == IF held = <<>> THEN <<>> ELSE IF held[1].after <= 1 THEN <<>> ELSE <<[held[1] EXCEPT !.after = @ - 1]>>

SStart ==     \* SyncStreamingParts: new session, new stream, first chunk with the metadata
  /\ Config = "A"
  /\ \/ sPc = "idle"
     \/ sPc = "done" /\ sRes = "fail" /\ sAtt < MaxAttempts
  /\ queue # {}
  /\ sAtt' = sAtt + 1 /\ sPc' = "wait" /\ sIdx' = 0 /\ sRetry' = 0 /\ sRes' = "none"
  /\ req' = <<Chunk(0, TRUE, "")>> /\ resp' = <<>> /\ held' = <<>>
  /\ rAlive' = TRUE /\ rHas' = FALSE /\ rExp' = 0 /\ rBuf' = {} /\ rPart' = 0 /\ rGot' = <<>> /\ UNCHANGED rSes
  /\ out' = <<>>
  /\ last' = [op |-> "sstart", att |-> sAtt + 1]
  /\ UNCHANGED <<cfg, queue, installs, faults, nmsg>>

RDeliver ==   \* the receiver takes the next request
  /\ Config = "A" /\ rAlive /\ req # <<>>
  /\ LET r == Recv(Head(req)) IN
       /\ Apply(Head(req), r)
       /\ req' = IF r.alive THEN Tail(req) ELSE <<>>            \* the call returned: the stream is closed,
       /\ held' = IF r.alive THEN held ELSE <<>>                \* whatever is still on its way is lost
       /\ resp' = resp \o r.s.out \o (IF r.alive THEN <<>> ELSE <<End(r.end)>>)
  /\ nmsg' = nmsg + 1
  /\ last' = [op |-> "rdeliver", m |-> Head(req)]
  /\ UNCHANGED <<cfg, queue, sPc, sIdx, sRetry, sAtt, sRes, faults>>

\* the sender's attempt ends: the stream is cancelled, a receiver that is still in the call gives up (deferred Close)
SenderEnds(res) ==
  /\ sPc' = "done" /\ sRes' = res
  /\ queue' = IF res = "ok" THEN {} ELSE queue          \* measure/syncer.go: error => every part is kept for retry
  /\ req' = <<>> /\ resp' = <<>> /\ held' = <<>>
  /\ RecvIdle /\ UNCHANGED installs
  /\ UNCHANGED <<sIdx, sRetry>>

SenderSends(m, idx, retry) ==
  /\ req' = Push(req, m) /\ held' = HeldAfterPush /\ resp' = Tail(resp)
  /\ sIdx' = idx /\ sRetry' = retry
  /\ UNCHANGED <<queue, sRes>> /\ RecvUnchanged

SDeliver ==   \* the sender takes the next response (or the end of the stream)
  /\ Config = "A" /\ sPc \in {"wait", "final"} /\ resp # <<>>
  /\ ~(rAlive /\ req # <<>>)                              \* requests are delivered first
  /\ LET r == Head(resp) IN
       /\ last' = [op |-> "sdeliver", r |-> r]
       /\ IF sPc = "wait" THEN
            CASE r.t = "end" -> SenderEnds("fail")
              [] r.t = "resp" /\ r.st = "received" ->
                   IF sIdx + 1 < N
                     THEN sPc' = "wait" /\ SenderSends(Chunk(sIdx + 1, FALSE, ""), sIdx + 1, 0)
                     ELSE sPc' = "final" /\ SenderSends(Completion, sIdx + 1, 0)
              [] r.t = "resp" /\ r.st = "mismatch" ->
                   IF sRetry + 1 > MaxRetries THEN SenderEnds("fail")
                   ELSE sPc' = "wait" /\ SenderSends(Chunk(sIdx, sIdx = 0, ""), sIdx, sRetry + 1)
              [] r.t = "resp" /\ r.st = "ooo" ->
                   IF r.note \in {"gap", "full"} \/ sRetry + 1 > MaxRetries THEN SenderEnds("fail")
                   ELSE sPc' = "wait" /\ SenderSends(Chunk(sIdx, sIdx = 0, ""), sIdx, sRetry + 1)
              [] OTHER -> SenderEnds("fail")              \* session not found, unexpected status
          ELSE
            CASE r.t = "end" -> SenderEnds("fail")        \* I4: no SyncResult, no success
              [] r.t = "resp" /\ r.st = "complete" -> SenderEnds(IF r.succ THEN "ok" ELSE "fail")     \* I4
              [] OTHER -> /\ resp' = Tail(resp)           \* late acknowledgements are skipped
                          /\ UNCHANGED <<sPc, sIdx, sRetry, queue, sRes, req, held>> /\ RecvUnchanged
  /\ out' = <<>>
  /\ UNCHANGED <<cfg, sAtt, faults, nmsg>>

Timeout ==    \* the sender waits for a response that will never come: its context expires
  /\ Config = "A" /\ sPc \in {"wait", "final"} /\ req = <<>> /\ resp = <<>> /\ rAlive      \* (a delayed copy still on its way is lost)
  /\ SenderEnds("fail")
  /\ last' = [op |-> "timeout"] /\ out' = <<>>
  /\ UNCHANGED <<cfg, sAtt, faults, nmsg>>

Normal == SStart \/ RDeliver \/ SDeliver \/ Timeout

\* ---- faults (at the moment the head message would be delivered) --------
FaultStep(kind) == /\ Config = "A" /\ faults < MaxFaults /\ kind \in FaultKinds /\ faults' = faults + 1
                   /\ out' = <<>> /\ UNCHANGED <<cfg, queue, sPc, sIdx, sRetry, sAtt, sRes, nmsg>>
ReqHead == rAlive /\ req # <<>> /\ sPc \in {"wait", "final"}

FCorrupt(b) ==   \* bit flip / cut in the chunk data (the checksum travels unchanged)
  /\ ReqHead /\ Head(req).t = "chunk" /\ Head(req).ok /\ FaultStep("corrupt")
  /\ req' = <<[Head(req) EXCEPT !.ok = FALSE, !.bad = b]>> \o Tail(req)
  /\ last' = [op |-> "fault", kind |-> "corrupt", bad |-> b, pos |-> nmsg]
  /\ UNCHANGED <<resp, held>> /\ RecvUnchanged
FDrop ==
  /\ ReqHead /\ FaultStep("drop")
  /\ req' = Tail(req)
  /\ last' = [op |-> "fault", kind |-> "drop", pos |-> nmsg]
  /\ UNCHANGED <<resp, held>> /\ RecvUnchanged
FDup ==          \* the request arrives twice
  /\ ReqHead /\ FaultStep("dup")
  /\ req' = <<Head(req)>> \o req
  /\ last' = [op |-> "fault", kind |-> "dup", pos |-> nmsg]
  /\ UNCHANGED <<resp, held>> /\ RecvUnchanged
FDupLate(d) ==   \* ... and the second copy arrives after d later requests (reordering)
  /\ ReqHead /\ held = <<>> /\ FaultStep("duplate")
  /\ held' = <<[m |-> Head(req), after |-> d]>>
  /\ last' = [op |-> "fault", kind |-> "duplate", after |-> d, pos |-> nmsg]
  /\ UNCHANGED <<req, resp>> /\ RecvUnchanged
FTruncate ==     \* the request stream ends early: the receiver reads EOF instead of this message
  /\ ReqHead /\ FaultStep("truncate")
  /\ req' = <<Eos>> /\ held' = <<>>
  /\ last' = [op |-> "fault", kind |-> "truncate", pos |-> nmsg]
  /\ UNCHANGED resp /\ RecvUnchanged
FRestart ==      \* the receiver goes away (shutdown / connection reset) before taking this message
  /\ ReqHead /\ FaultStep("restart")
  /\ req' = <<>> /\ held' = <<>> /\ resp' = Append(resp, End("err"))
  /\ RecvIdle /\ UNCHANGED installs
  /\ last' = [op |-> "fault", kind |-> "restart", pos |-> nmsg]
FRespDrop ==     \* a response is lost
  /\ sPc \in {"wait", "final"} /\ resp # <<>> /\ Head(resp).t = "resp" /\ ~(rAlive /\ req # <<>>) /\ FaultStep("respdrop")
  /\ resp' = Tail(resp)
  /\ last' = [op |-> "fault", kind |-> "respdrop", st |-> Head(resp).st, pos |-> nmsg]
  /\ UNCHANGED <<req, held>> /\ RecvUnchanged

Fault == \/ \E b \in {"flip", "cut"} : FCorrupt(b)
         \/ FDrop \/ FDup \/ \E d \in 1..2 : FDupLate(d)
         \/ FTruncate \/ FRestart \/ FRespDrop

BStep == \E m \in Alphabet : BMsg(m)

Next == BStep \/ Normal \/ Fault

Spec == Init /\ [][Next]_vars

View == <<cfg, queue, sPc, sIdx, sRetry, sAtt, sRes, req, resp, held, rAlive, rHas, rExp, rBuf, rPart, rGot, rSes,
          installs, faults, nmsg, out>>

---------------------------------------------------------------------------
\* C17(a)
InstallsOf(p) == { i \in 1..Len(installs) : installs[i].p = p }
Installed(p) == InstallsOf(p) # {}
Quiet == sPc = "done" /\ ~rAlive                 \* no transfer in progress

\* content identity: whatever FinishSync saw is exactly the sender's part, for every chunk size and layout
InstalledEqualsSent == \A i \in 1..Len(installs) : installs[i].full
\* the open handler only ever holds a prefix of the sender's part, in order, from accepted chunks
NeverInstallCorruptOrPartial ==
  /\ \A i \in 1..Len(installs) : installs[i].full
  /\ rPart # 0 => /\ Len(rGot) <= Len(Content(rPart))
                  /\ rGot = SubSeq(Content(rPart), 1, Len(rGot))
\* once the call has returned nothing of an unfinished part is left behind
FailedTransferLeavesReceiverUnchanged ==
  ~rAlive => (rPart = 0 /\ rGot = <<>> /\ rBuf = {})
\* a part leaves the sender's queue only when the receiver has installed it
SenderKeepsPartUntilSuccess == \A p \in PartIds : p \in queue \/ Installed(p)
\* The protocol is at-least-once (a transfer whose outcome the sender did not learn is repeated as a whole, and
\* a repeated first chunk restarts the session), so "once" is: at most one install of a part per receiver
\* session, never a second one after the sender has been told, and - without any fault - exactly one.
AtMostOnceInstall ==
  /\ \A i, j \in 1..Len(installs) : (i # j /\ installs[i].p = installs[j].p) => installs[i].ses # installs[j].ses
  /\ \A p \in PartIds : Cardinality(InstallsOf(p)) <= rSes
  /\ (Config = "A" /\ faults = 0) => \A p \in PartIds : Cardinality(InstallsOf(p)) <= 1
SuccessImpliesInstalled == (sRes = "ok") => \A p \in PartIds : Installed(p)
\* B: a positive completion response means every part is installed
CompleteMeansInstalled ==
  \A i \in 1..Len(out) : (out[i].st = "complete" /\ out[i].succ) => \A p \in PartIds : Installed(p)
=============================================================================
