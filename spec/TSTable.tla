------------------------------ MODULE TSTable ------------------------------
(***************************************************************************)
(* Part / snapshot life cycle of one shard table (design level)           *)
(* (banyand/measure; stream and trace share the structure):                *)
(*                                                                         *)
(*   tsTable.snapshot          cur      epoch of the current snapshot or 0 *)
(*   snapshot{parts,ref}       snap[e]  copy-on-write snapshot objects     *)
(*   partWrapper{mp,p,ref,     wr[w]    one record per wrapper object; a   *)
(*               removable}             flushed part gets a NEW wrapper    *)
(*                                      with the same part id              *)
(*   part directories          disk     set of part ids present on disk    *)
(*                                                                         *)
(* The introducer goroutine serialises every snapshot transition; it is    *)
(* modelled by its sub-steps (pin current, build next, replace under the   *)
(* table lock, signal `applied`, unpin) so that queries, the flusher, the  *)
(* merger and the asynchronous directory removal interleave with it.       *)
(***************************************************************************)
EXTENDS Integers, FiniteSets, Sequences, TLC

CONSTANTS MaxWrites,     \* number of batches written
          MaxMerges,     \* number of file merges
          MaxFlushes,    \* number of flusher rounds
          Queries        \* set of query process ids

VARIABLES
  cur, snap, wr, disk, nextW, nextPid, nextEpoch,
  ipc, ireq, ipin,          \* introducer: pc, request being applied, epoch it pinned
  wpc, writesLeft,          \* writer
  fpc, fpin, fmap, flushesLeft,   \* flusher
  mpc, mpin, min, mout, mergesLeft, \* merger
  qpc, qpin,                \* queries
  removedCount              \* pid -> how many times its directory was removed

vars == <<cur, snap, wr, disk, nextW, nextPid, nextEpoch, ipc, ireq, ipin, wpc, writesLeft,
          fpc, fpin, fmap, flushesLeft, mpc, mpin, min, mout, mergesLeft, qpc, qpin, removedCount>>

NoReq == [kind |-> "none"]

Init ==
  /\ cur = 0 /\ snap = <<>> /\ wr = <<>> /\ disk = {} /\ nextW = 1 /\ nextPid = 1 /\ nextEpoch = 1
  /\ ipc = "idle" /\ ireq = NoReq /\ ipin = 0
  /\ wpc = "idle" /\ writesLeft = MaxWrites
  /\ fpc = "idle" /\ fpin = 0 /\ fmap = <<>> /\ flushesLeft = MaxFlushes
  /\ mpc = "idle" /\ mpin = 0 /\ min = {} /\ mout = 0 /\ mergesLeft = MaxMerges
  /\ qpc = [q \in Queries |-> "idle"] /\ qpin = [q \in Queries |-> 0]
  /\ removedCount = <<>>

(* ---------- reference counting helpers (atomic cascades, see DESIGN) ---------- *)
\* wrappers after decrementing every wrapper in W once; a wrapper reaching 0 is released
DecWrappers(w0, W) ==
  [w \in DOMAIN w0 |->
     IF w \in W
       THEN [w0[w] EXCEPT !.ref = @ - 1, !.live = (w0[w].ref - 1 > 0)]
       ELSE w0[w]]

\* snapshot e loses one reference; at zero its parts are released
DecSnap(s0, w0, e) ==
  LET n == s0[e].ref - 1 IN
  IF n > 0
    THEN <<[s0 EXCEPT ![e].ref = n], w0>>
    ELSE <<[s0 EXCEPT ![e].ref = 0, ![e].parts = {}], DecWrappers(w0, s0[e].parts)>>

PinCur(s0) == [s0 EXCEPT ![cur].ref = @ + 1]

NewWrapper(pid, isMem) == [pid |-> pid, mem |-> isMem, ref |-> 1, removable |-> FALSE, live |-> TRUE]

(* ---------- writer: mustAddMemPart ---------- *)
WriterSend ==
  /\ wpc = "idle" /\ writesLeft > 0 /\ ipc = "idle"
  /\ wr' = wr @@ (nextW :> NewWrapper(nextPid, TRUE))
  /\ ireq' = [kind |-> "part", w |-> nextW]
  /\ nextW' = nextW + 1 /\ nextPid' = nextPid + 1
  /\ ipc' = "pin" /\ wpc' = "wait" /\ writesLeft' = writesLeft - 1
  /\ UNCHANGED <<cur, snap, disk, nextEpoch, ipin, fpc, fpin, fmap, flushesLeft, mpc, mpin, min, mout,
                 mergesLeft, qpc, qpin, removedCount>>

(* ---------- flusher ---------- *)
MemOf(e) == { w \in snap[e].parts : wr[w].mem }
FileOf(e) == { w \in snap[e].parts : ~wr[w].mem }

FlusherPin ==
  /\ fpc = "idle" /\ flushesLeft > 0 /\ cur # 0 /\ MemOf(cur) # {}
  /\ snap' = PinCur(snap) /\ fpin' = cur /\ fpc' = "write" /\ flushesLeft' = flushesLeft - 1
  /\ UNCHANGED <<cur, wr, disk, nextW, nextPid, nextEpoch, ipc, ireq, ipin, wpc, writesLeft, fmap,
                 mpc, mpin, min, mout, mergesLeft, qpc, qpin, removedCount>>

\* mustFlush every memory part of the pinned snapshot and open the new file wrappers
FlusherWrite ==
  /\ fpc = "write"
  /\ LET ms == MemOf(fpin)
         k  == Cardinality(ms)
         order == CHOOSE f \in [1..k -> ms] : \A i, j \in 1..k : i # j => f[i] # f[j]
     IN /\ disk' = disk \cup { wr[w].pid : w \in ms }
        /\ wr' = wr @@ [i \in nextW..(nextW + k - 1) |-> NewWrapper(wr[order[i - nextW + 1]].pid, FALSE)]
        /\ fmap' = [i \in nextW..(nextW + k - 1) |-> wr[order[i - nextW + 1]].pid]
        /\ nextW' = nextW + k
  /\ fpc' = "send"
  /\ UNCHANGED <<cur, snap, nextPid, nextEpoch, ipc, ireq, ipin, wpc, writesLeft, fpin, flushesLeft,
                 mpc, mpin, min, mout, mergesLeft, qpc, qpin, removedCount>>

FlusherSend ==
  /\ fpc = "send" /\ ipc = "idle"
  /\ ireq' = [kind |-> "flushed", m |-> fmap] /\ ipc' = "pin" /\ fpc' = "wait"
  /\ UNCHANGED <<cur, snap, wr, disk, nextW, nextPid, nextEpoch, ipin, wpc, writesLeft, fpin, fmap,
                 flushesLeft, mpc, mpin, min, mout, mergesLeft, qpc, qpin, removedCount>>

FlusherUnpin ==
  /\ fpc = "unpin"
  /\ LET r == DecSnap(snap, wr, fpin) IN snap' = r[1] /\ wr' = r[2]
  /\ fpin' = 0 /\ fmap' = <<>> /\ fpc' = "idle"
  /\ UNCHANGED <<cur, disk, nextW, nextPid, nextEpoch, ipc, ireq, ipin, wpc, writesLeft, flushesLeft,
                 mpc, mpin, min, mout, mergesLeft, qpc, qpin, removedCount>>

(* ---------- merger ---------- *)
MergerPin ==
  /\ mpc = "idle" /\ mergesLeft > 0 /\ cur # 0 /\ Cardinality(FileOf(cur)) >= 2
  /\ snap' = PinCur(snap) /\ mpin' = cur /\ mpc' = "merge" /\ mergesLeft' = mergesLeft - 1
  /\ UNCHANGED <<cur, wr, disk, nextW, nextPid, nextEpoch, ipc, ireq, ipin, wpc, writesLeft, fpc, fpin,
                 fmap, flushesLeft, min, mout, qpc, qpin, removedCount>>

MergerMerge ==
  /\ mpc = "merge"
  /\ \E S \in SUBSET FileOf(mpin) :
        /\ Cardinality(S) >= 2
        /\ \A w \in S : wr[w].live /\ wr[w].pid \in disk      \* the inputs are read here
        /\ min' = { wr[w].pid : w \in S }
  /\ disk' = disk \cup {nextPid}
  /\ wr' = wr @@ (nextW :> NewWrapper(nextPid, FALSE))
  /\ mout' = nextW /\ nextW' = nextW + 1 /\ nextPid' = nextPid + 1
  /\ mpc' = "send"
  /\ UNCHANGED <<cur, snap, nextEpoch, ipc, ireq, ipin, wpc, writesLeft, fpc, fpin, fmap, flushesLeft,
                 mpin, mergesLeft, qpc, qpin, removedCount>>

MergerSend ==
  /\ mpc = "send" /\ ipc = "idle"
  /\ ireq' = [kind |-> "merged", pids |-> min, w |-> mout] /\ ipc' = "pin" /\ mpc' = "wait"
  /\ UNCHANGED <<cur, snap, wr, disk, nextW, nextPid, nextEpoch, ipin, wpc, writesLeft, fpc, fpin, fmap,
                 flushesLeft, mpin, min, mout, mergesLeft, qpc, qpin, removedCount>>

MergerUnpin ==
  /\ mpc = "unpin"
  /\ LET r == DecSnap(snap, wr, mpin) IN snap' = r[1] /\ wr' = r[2]
  /\ mpin' = 0 /\ min' = {} /\ mout' = 0 /\ mpc' = "idle"
  /\ UNCHANGED <<cur, disk, nextW, nextPid, nextEpoch, ipc, ireq, ipin, wpc, writesLeft, fpc, fpin, fmap,
                 flushesLeft, mergesLeft, qpc, qpin, removedCount>>

(* ---------- introducer ---------- *)
IntroPin ==                    \* cur := tst.currentSnapshot()
  /\ ipc = "pin"
  /\ IF cur # 0 THEN snap' = PinCur(snap) /\ ipin' = cur ELSE UNCHANGED snap /\ ipin' = 0
  /\ ipc' = "build"
  /\ UNCHANGED <<cur, wr, disk, nextW, nextPid, nextEpoch, ireq, wpc, writesLeft, fpc, fpin, fmap,
                 flushesLeft, mpc, mpin, min, mout, mergesLeft, qpc, qpin, removedCount>>

IncAll(w0, W) == [w \in DOMAIN w0 |-> IF w \in W THEN [w0[w] EXCEPT !.ref = @ + 1] ELSE w0[w]]
CurParts == IF ipin = 0 THEN {} ELSE snap[ipin].parts

IntroBuild ==                  \* copyAllTo / merge / remove : build the next snapshot object
  /\ ipc = "build"
  /\ LET e == nextEpoch IN
     CASE ireq.kind = "part" ->
            /\ wr' = IncAll(wr, CurParts)
            /\ snap' = snap @@ (e :> [parts |-> CurParts \cup {ireq.w}, ref |-> 1])
       [] ireq.kind = "flushed" ->
            LET replaced == { w \in CurParts : \E n \in DOMAIN ireq.m : ireq.m[n] = wr[w].pid /\ wr[w].mem }
                kept == CurParts \ replaced
                \* a new wrapper is used only if its memory twin is in the current snapshot
                news == { n \in DOMAIN ireq.m : \E w \in replaced : wr[w].pid = ireq.m[n] }
            IN /\ wr' = IncAll(wr, kept)
               /\ snap' = snap @@ (e :> [parts |-> kept \cup news, ref |-> 1])
       [] ireq.kind = "merged" ->
            LET gone == { w \in CurParts : wr[w].pid \in ireq.pids /\ ~wr[w].mem }
                kept == CurParts \ gone
            IN /\ wr' = [w \in DOMAIN wr |->
                          IF w \in kept THEN [wr[w] EXCEPT !.ref = @ + 1]
                          ELSE IF w \in gone THEN [wr[w] EXCEPT !.removable = TRUE]
                          ELSE wr[w]]
               /\ snap' = snap @@ (e :> [parts |-> kept \cup {ireq.w}, ref |-> 1])
  /\ ipc' = "replace"
  /\ UNCHANGED <<cur, disk, nextW, nextPid, nextEpoch, ireq, ipin, wpc, writesLeft, fpc, fpin, fmap,
                 flushesLeft, mpc, mpin, min, mout, mergesLeft, qpc, qpin, removedCount>>

IntroReplace ==                \* replaceSnapshot under tst.Lock: old.decRef(); tst.snapshot = next
  /\ ipc = "replace"
  /\ IF cur # 0
       THEN LET r == DecSnap(snap, wr, cur) IN snap' = r[1] /\ wr' = r[2]
       ELSE UNCHANGED <<snap, wr>>
  /\ cur' = nextEpoch /\ nextEpoch' = nextEpoch + 1
  /\ ipc' = "applied"
  /\ UNCHANGED <<disk, nextW, nextPid, ireq, ipin, wpc, writesLeft, fpc, fpin, fmap, flushesLeft,
                 mpc, mpin, min, mout, mergesLeft, qpc, qpin, removedCount>>

IntroApplied ==                \* close(applied): the producer continues
  /\ ipc = "applied"
  /\ wpc' = IF ireq.kind = "part" THEN "idle" ELSE wpc
  /\ fpc' = IF ireq.kind = "flushed" THEN "unpin" ELSE fpc
  /\ mpc' = IF ireq.kind = "merged" THEN "unpin" ELSE mpc
  /\ ipc' = "unpin"
  /\ UNCHANGED <<cur, snap, wr, disk, nextW, nextPid, nextEpoch, ireq, ipin, writesLeft, fpin, fmap,
                 flushesLeft, mpin, min, mout, mergesLeft, qpc, qpin, removedCount>>

IntroUnpin ==                  \* deferred cur.decRef()
  /\ ipc = "unpin"
  /\ IF ipin # 0
       THEN LET r == DecSnap(snap, wr, ipin) IN snap' = r[1] /\ wr' = r[2]
       ELSE UNCHANGED <<snap, wr>>
  /\ ipin' = 0 /\ ireq' = NoReq /\ ipc' = "idle"
  /\ UNCHANGED <<cur, disk, nextW, nextPid, nextEpoch, wpc, writesLeft, fpc, fpin, fmap, flushesLeft,
                 mpc, mpin, min, mout, mergesLeft, qpc, qpin, removedCount>>

(* ---------- asynchronous directory removal (go func in partWrapper.decRef) ---------- *)
Remove(w) ==
  /\ w \in DOMAIN wr /\ ~wr[w].live /\ wr[w].removable /\ ~wr[w].mem /\ wr[w].pid \in disk
  /\ disk' = disk \ {wr[w].pid}
  /\ removedCount' = IF wr[w].pid \in DOMAIN removedCount
                       THEN [removedCount EXCEPT ![wr[w].pid] = @ + 1]
                       ELSE removedCount @@ (wr[w].pid :> 1)
  /\ UNCHANGED <<cur, snap, wr, nextW, nextPid, nextEpoch, ipc, ireq, ipin, wpc, writesLeft, fpc, fpin,
                 fmap, flushesLeft, mpc, mpin, min, mout, mergesLeft, qpc, qpin>>

(* ---------- queries (also TakeFileSnapshot: two read steps) ---------- *)
QueryPin(q) ==
  /\ qpc[q] = "idle" /\ cur # 0
  /\ snap' = PinCur(snap) /\ qpin' = [qpin EXCEPT ![q] = cur] /\ qpc' = [qpc EXCEPT ![q] = "read1"]
  /\ UNCHANGED <<cur, wr, disk, nextW, nextPid, nextEpoch, ipc, ireq, ipin, wpc, writesLeft, fpc, fpin, fmap,
                 flushesLeft, mpc, mpin, min, mout, mergesLeft, removedCount>>

QueryRead(q) ==
  /\ qpc[q] \in {"read1", "read2"}
  /\ qpc' = [qpc EXCEPT ![q] = IF qpc[q] = "read1" THEN "read2" ELSE "unpin"]
  /\ UNCHANGED <<cur, snap, wr, disk, nextW, nextPid, nextEpoch, ipc, ireq, ipin, wpc, writesLeft, fpc, fpin,
                 fmap, flushesLeft, mpc, mpin, min, mout, mergesLeft, qpin, removedCount>>

QueryUnpin(q) ==
  /\ qpc[q] = "unpin"
  /\ LET r == DecSnap(snap, wr, qpin[q]) IN snap' = r[1] /\ wr' = r[2]
  /\ qpin' = [qpin EXCEPT ![q] = 0] /\ qpc' = [qpc EXCEPT ![q] = "done"]
  /\ UNCHANGED <<cur, disk, nextW, nextPid, nextEpoch, ipc, ireq, ipin, wpc, writesLeft, fpc, fpin, fmap,
                 flushesLeft, mpc, mpin, min, mout, mergesLeft, removedCount>>

Next ==
  \/ WriterSend
  \/ FlusherPin \/ FlusherWrite \/ FlusherSend \/ FlusherUnpin
  \/ MergerPin \/ MergerMerge \/ MergerSend \/ MergerUnpin
  \/ IntroPin \/ IntroBuild \/ IntroReplace \/ IntroApplied \/ IntroUnpin
  \/ \E w \in DOMAIN wr : Remove(w)
  \/ \E q \in Queries : QueryPin(q) \/ QueryRead(q) \/ QueryUnpin(q)

Spec == Init /\ [][Next]_vars

(* ---------- properties (C05, C19) ---------- *)
RefsNonNegative ==
  /\ \A e \in DOMAIN snap : snap[e].ref >= 0
  /\ \A w \in DOMAIN wr : wr[w].ref >= 0

\* every part of a pinned (or current) snapshot is open and, if file-backed, on disk
PinnedPartsExist ==
  \A e \in DOMAIN snap : snap[e].ref > 0 =>
     \A w \in snap[e].parts : wr[w].live /\ (~wr[w].mem => wr[w].pid \in disk)

\* what a running query / file snapshot reads is there
ReadersSafe ==
  \A q \in Queries : qpc[q] \in {"read1", "read2"} =>
     \A w \in snap[qpin[q]].parts : wr[w].live /\ (~wr[w].mem => wr[w].pid \in disk)

RemovedAtMostOnce == \A p \in DOMAIN removedCount : removedCount[p] <= 1

\* a directory disappears only after no snapshot references a wrapper of that part id
RemovedOnlyWhenUnreferenced ==
  \A p \in DOMAIN removedCount :
     \A e \in DOMAIN snap : snap[e].ref > 0 => \A w \in snap[e].parts : wr[w].mem \/ wr[w].pid # p

\* the current snapshot never shows a merge output together with one of its inputs
NotBothOutputAndInput ==
  (cur # 0 /\ mpc \in {"unpin", "idle"} /\ ireq.kind # "merged") =>
     \A w \in snap[cur].parts : ~wr[w].removable
=============================================================================
