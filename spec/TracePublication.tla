---------------------------- MODULE TracePublication ----------------------------
(* The publication fence of the trace engine (banyand/trace/tstable.go snapshotPublicationMu).

   A trace table publishes a CORE snapshot and one snapshot per secondary index (sidx).  A publication
   (introducer.go commitSnapshotTransaction) replaces them one manager after another while it holds the fence for
   writing.  An ordered query (query_vectorized.go buildConsistentVectorizedScanBatch) is two-phase: it selects trace
   ids from the sidx snapshot, then pins the core snapshot and scans it.  The fence, held for reading from before the
   selection until the core snapshot is pinned, is the only thing that makes {sidx view, core view} one publication.

   One table, one query, one publication that RETIRES the part holding trace t (sync hand-off, or a sampling merge
   that drops t): epoch 0 = t present in both snapshots, epoch 1 = t in neither.

   Each action is one critical section of the code:
     QAcquire   acquireSnapshotPublicationView                (RLock)
     QSelect    buildVectorizedPhase1TraceBatch               (reads the sidx snapshot)
     QPin       buildVectorizedScanBatch: table.currentSnapshot() (reads + pins the core snapshot)
     QRelease   deferred releasePublicationView               (RUnlock)
     PubRequest introduceSync/introduceMerged reaches commitSnapshotTransaction
     PubLock    snapshotPublicationMu.Lock()                  (needs no reader)
     PubCore / PubSidx   txn.Commit: managers replaced one after another
     PubUnlock
   FenceCoversPin = FALSE models the tempting "optimisation" that releases the fence right after the selection
   (QReleaseEarly); TLC then finds the torn view.  It is used as the specification's own self-test.              *)
EXTENDS Naturals

CONSTANT FenceCoversPin

VARIABLES core, sidx, readers, writer, pub, qpc, qs, qc, last
vars == <<core, sidx, readers, writer, pub, qpc, qs, qc, last>>
view == <<core, sidx, readers, writer, pub, qpc, qs, qc>>

None == 9

Init == /\ core = 0 /\ sidx = 0 /\ readers = 0 /\ writer = FALSE /\ pub = "idle"
        /\ qpc = "start" /\ qs = None /\ qc = None /\ last = [op |-> "init", at |-> "start"]

QAcquire == /\ qpc = "start" /\ ~writer
            /\ readers' = readers + 1 /\ qpc' = "fenced"
            /\ last' = [op |-> "QAcquire", at |-> qpc]
            /\ UNCHANGED <<core, sidx, writer, pub, qs, qc>>

QSelect == /\ qpc = "fenced"
           /\ qs' = sidx /\ qpc' = "selected"
           /\ last' = [op |-> "QSelect", at |-> qpc]
           /\ UNCHANGED <<core, sidx, readers, writer, pub, qc>>

QReleaseEarly == /\ ~FenceCoversPin /\ qpc = "selected"
                 /\ readers' = readers - 1 /\ qpc' = "unfenced"
                 /\ last' = [op |-> "QReleaseEarly", at |-> qpc]
                 /\ UNCHANGED <<core, sidx, writer, pub, qs, qc>>

QPin == /\ qpc = (IF FenceCoversPin THEN "selected" ELSE "unfenced")
        /\ qc' = core /\ qpc' = "pinned"
        /\ last' = [op |-> "QPin", at |-> qpc]
        /\ UNCHANGED <<core, sidx, readers, writer, pub, qs>>

QRelease == /\ qpc = "pinned"
            /\ readers' = IF FenceCoversPin THEN readers - 1 ELSE readers
            /\ qpc' = "done"
            /\ last' = [op |-> "QRelease", at |-> qpc]
            /\ UNCHANGED <<core, sidx, writer, pub, qs, qc>>

PubRequest == /\ pub = "idle" /\ pub' = "waiting"
              /\ last' = [op |-> "PubRequest", at |-> qpc]
              /\ UNCHANGED <<core, sidx, readers, writer, qpc, qs, qc>>

PubLock == /\ pub = "waiting" /\ readers = 0
           /\ writer' = TRUE /\ pub' = "locked"
           /\ last' = [op |-> "PubLock", at |-> qpc]
           /\ UNCHANGED <<core, sidx, readers, qpc, qs, qc>>

PubCore == /\ pub = "locked" /\ core' = 1 /\ pub' = "core"
           /\ last' = [op |-> "PubCore", at |-> qpc]
           /\ UNCHANGED <<sidx, readers, writer, qpc, qs, qc>>

PubSidx == /\ pub = "core" /\ sidx' = 1 /\ pub' = "sidx"
           /\ last' = [op |-> "PubSidx", at |-> qpc]
           /\ UNCHANGED <<core, readers, writer, qpc, qs, qc>>

PubUnlock == /\ pub = "sidx" /\ writer' = FALSE /\ pub' = "done"
             /\ last' = [op |-> "PubUnlock", at |-> qpc]
             /\ UNCHANGED <<core, sidx, readers, qpc, qs, qc>>

Next == QAcquire \/ QSelect \/ QReleaseEarly \/ QPin \/ QRelease
        \/ PubRequest \/ PubLock \/ PubCore \/ PubSidx \/ PubUnlock

Spec == Init /\ [][Next]_vars

(* C05: an ordered trace query never receives an index entry whose spans are not visible: the trace is selected
   (index view 0) only if its spans are in the pinned core view (core view 0).                                      *)
SelectedImpliesVisible == qpc \in {"pinned", "done"} => (qs = 0 => qc = 0)
(* stronger, true of this design: both views are one publication *)
OnePublication == qpc \in {"pinned", "done"} => qs = qc
FenceExclusive == ~(writer /\ readers > 0)
TornNeverObservable == (core # sidx) => writer
=============================================================================
