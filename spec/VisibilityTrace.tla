-------------------------- MODULE VisibilityTrace --------------------------
(* Client-side events of a real concurrent run (harness eng -mode stress), in the order of a global      *)
(* sequence number taken under one mutex, must be a behaviour of Visibility.tla.  The introduction of a *)
(* batch is not observable from the client: it is inferred (the trace spec takes the internal step        *)
(* Introduce(b) lazily, right before the first event that needs b visible).                               *)
EXTENDS Visibility, Json

Trace == ndJsonDeserialize("trace.ndjson")

VARIABLE l

Ev == Trace[l]
Is(name) == l <= Len(Trace) /\ Ev.event = name /\ l' = l + 1
SetOf(seq) == { seq[i] : i \in 1..Len(seq) }

TBegin == Is("WriteBegin") /\ WriteBegin(Ev.batch, Ev.rows)

TAck ==              \* Introduce(b) . WriteAck(b) when the introduction was not needed earlier
  /\ Is("WriteAck")
  /\ \E x \in begun : x.b = Ev.batch
  /\ Ev.batch \notin acked
  /\ visible' = visible \cup {Ev.batch} /\ acked' = acked \cup {Ev.batch}
  /\ UNCHANGED <<begun, must>>

TQBegin == Is("QueryBegin") /\ QueryBegin(Ev.q)

TQEnd ==             \* batches seen before their acknowledgement are introduced now (they had begun)
  /\ Is("QueryEnd")
  /\ LET seen == { <<s[1], s[2]>> : s \in SetOf(Ev.seen) }
         bs == { s[1] : s \in seen }
     IN /\ \A b \in bs : \E x \in begun : x.b = b
        /\ \E m \in must : m.q = Ev.q /\ m.bs \subseteq bs
        /\ \A s \in seen : s[2] = RowsOf(s[1])
        /\ visible' = visible \cup bs
        /\ must' = { m \in must : m.q # Ev.q }
        /\ UNCHANGED <<begun, acked>>

TraceInit == VInit /\ l = 1
TraceNext == TBegin \/ TAck \/ TQBegin \/ TQEnd
TraceSpec == TraceInit /\ [][TraceNext]_<<vvars, l>>
TraceAccepted == TLCGet("stats").diameter - 1 = Len(Trace)
=============================================================================
