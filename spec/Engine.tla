------------------------------- MODULE Engine -------------------------------
(***************************************************************************)
(* Client-visible semantics of one group of a BanyanDB engine (measure;    *)
(* stream and trace instantiate it with Versioned = FALSE): acknowledged   *)
(* batches, parts (memory / file), flush, merge, and the reference         *)
(* semantics of a query.                                                   *)
(*                                                                         *)
(* A row is identified by the write that produced it (id); its payload     *)
(* (field value, non-indexed tags) is opaque: the store must be the        *)
(* identity on it, which is what "returned exactly as written" means.  The *)
(* Go replayer maps every id to adversarial concrete values.  The tags     *)
(* that queries talk about (a : integer, b : integer standing for an       *)
(* ordered string, arr : set of integers) are a function of the id given   *)
(* by the model constant RowTags, so that TLC evaluates criteria itself.   *)
(*                                                                         *)
(* Two views of the data are kept and must agree:                          *)
(*   layout-free   Resolve(all acknowledged rows)              (the claim) *)
(*   layout-based  what the part structure yields with the three dedup     *)
(*                 sites of the implementation (in-batch, merge, query)    *)
(* Queries are observations: the expected answer is recorded in `last`     *)
(* and every behaviour is replayed against the real engine.                *)
(***************************************************************************)
EXTENDS Integers, Sequences, FiniteSets, SequencesExt, TLC

CONSTANTS Series, Times, Versions,   \* small sets of naturals
          Versioned,                 \* TRUE: (series, ts) is a key and the highest version wins (measure)
          MaxRows,                   \* rows per batch
          MaxTotal,                  \* rows overall
          MaxOps,
          RowTags,                   \* [id -> [a, b, arr]]  (defined in the MC module)
          TagsBySeries,              \* TRUE: the queried tags are a function of the series (measure: indexed tags are
                                     \* series-level attributes by documented contract); FALSE: of the row
          Queries,                   \* set of query records  (defined in the MC module)
          Script                     \* <<>> = any order of operations; otherwise step i must be of kind Script[i]
                                     \* (exhaustive enumeration of one scenario shape, e.g. write, write, flush, merge)

VARIABLES acked,    \* set of rows [id, s, t, v, batch]
          parts,    \* set of [pid, mem, rows]  (rows = set of ids that the part stores)
          nextId, nextPart, nbatch,
          view,     \* Resolve(acked): the logical content every covering query must return (derived; kept as a
                    \* variable so that it is part of every dumped state)
          last, ops

vars == <<acked, parts, nextId, nextPart, nbatch, view, last, ops>>

Row(i) == CHOOSE r \in acked : r.id = i
KeyOf(r) == <<r.s, r.t>>

\* ---- highest version wins; ties admit any tied row ---------------------
MaxV(rows, k) == LET vs == { r.v : r \in { x \in rows : KeyOf(x) = k } } IN CHOOSE m \in vs : \A o \in vs : o <= m
Winners(rows, k) == { r \in rows : KeyOf(r) = k /\ r.v = MaxV(rows, k) }
Keys(rows) == { KeyOf(r) : r \in rows }
\* the logical content: one group of admissible rows per result row
Resolve(rows) == IF Versioned THEN { Winners(rows, k) : k \in Keys(rows) } ELSE { {r} : r \in rows }

\* what a part keeps of a set of rows (in-batch sort + skip, merge of equal timestamps)
KeepIn(rows) == IF Versioned THEN { CHOOSE r \in w : TRUE : w \in Resolve(rows) } ELSE rows
LayoutRows == UNION { { Row(i) : i \in p.rows } : p \in parts }

Init == /\ acked = {} /\ view = {} /\ parts = {} /\ nextId = 1 /\ nextPart = 1 /\ nbatch = 0
        /\ last = [op |-> "init"] /\ ops = 0

Step == ops < MaxOps /\ ops' = ops + 1
Allowed(kind) == Script = <<>> \/ (ops + 1 <= Len(Script) /\ Script[ops + 1] = kind)

\* ---- writes ------------------------------------------------------------
\* a batch is a non-empty sequence of (series, ts, version) triples; row ids are assigned in order
Triples == [s : Series, t : Times, v : Versions]
Batches == UNION { [1..n -> Triples] : n \in 1..MaxRows }

Write(b) ==
  /\ Step /\ Allowed("write")
  /\ nextId + Len(b) - 1 <= MaxTotal
  /\ (~Versioned) => \A i \in 1..Len(b) : b[i].v = CHOOSE x \in Versions : \A y \in Versions : x <= y
  /\ LET rs == { [id |-> nextId + i - 1, s |-> b[i].s, t |-> b[i].t, v |-> b[i].v, batch |-> nbatch + 1] : i \in 1..Len(b) }
     IN /\ acked' = acked \cup rs
        /\ view' = Resolve(acked \cup rs)
        /\ parts' = parts \cup { [pid |-> nextPart, mem |-> TRUE,
                                  rows |-> { r.id : r \in (IF Versioned THEN { CHOOSE r \in w : TRUE : w \in { Winners(rs, k) : k \in Keys(rs) } } ELSE rs) }] }
        /\ last' = [op |-> "write", rows |-> rs, part |-> nextPart]
  /\ nextId' = nextId + Len(b) /\ nextPart' = nextPart + 1 /\ nbatch' = nbatch + 1

MemParts == { p \in parts : p.mem }
FileParts == { p \in parts : ~p.mem }

Flush ==                 \* the flusher persists every memory part of the snapshot it looked at
  /\ Step /\ Allowed("flush") /\ MemParts # {}
  /\ parts' = { [p EXCEPT !.mem = FALSE] : p \in parts }
  /\ last' = [op |-> "flush", flushed |-> { p.pid : p \in MemParts }]
  /\ UNCHANGED <<acked, view, nextId, nextPart, nbatch>>

Merge(S) ==              \* any subset of the file parts, any fan-in
  /\ Step /\ Allowed("merge") /\ S \subseteq FileParts /\ Cardinality(S) >= 2
  /\ LET ids == UNION { p.rows : p \in S }
         kept == { r.id : r \in KeepIn({ Row(i) : i \in ids }) }
     IN parts' = (parts \ S) \cup { [pid |-> nextPart, mem |-> FALSE, rows |-> kept] }
  /\ last' = [op |-> "merge", inputs |-> { p.pid : p \in S }, out |-> nextPart]
  /\ nextPart' = nextPart + 1
  /\ UNCHANGED <<acked, view, nextId, nbatch>>

\* ---- queries -----------------------------------------------------------
\* leaf = [op, tag, v]; v is a set of integers (a singleton for the binary comparisons)
TagVal(r, tag) == IF TagsBySeries THEN RowTags[r.s][tag] ELSE RowTags[r.id][tag]
Only(S) == CHOOSE x \in S : TRUE
SatLeaf(r, c) ==
  CASE c.op = "true"   -> TRUE
    [] c.op = "eq"     -> TagVal(r, c.tag) = Only(c.v)
    [] c.op = "ne"     -> TagVal(r, c.tag) # Only(c.v)
    [] c.op = "lt"     -> TagVal(r, c.tag) < Only(c.v)
    [] c.op = "le"     -> TagVal(r, c.tag) <= Only(c.v)
    [] c.op = "gt"     -> TagVal(r, c.tag) > Only(c.v)
    [] c.op = "ge"     -> TagVal(r, c.tag) >= Only(c.v)
    [] c.op = "in"     -> TagVal(r, c.tag) \in c.v
    [] c.op = "notin"  -> TagVal(r, c.tag) \notin c.v
    [] c.op = "having" -> c.v \subseteq TagVal(r, c.tag)
    [] c.op = "nothaving" -> ~(c.v \subseteq TagVal(r, c.tag))
\* criteria = [conn, c1, c2] with conn in {"one", "and", "or"}
Sat(r, c) ==
  CASE c.conn = "one" -> SatLeaf(r, c.c1)
    [] c.conn = "and" -> SatLeaf(r, c.c1) /\ SatLeaf(r, c.c2)
    [] c.conn = "or"  -> SatLeaf(r, c.c1) \/ SatLeaf(r, c.c2)

\* q = [lo, hi, series, crit, order ("none"|"time"), asc, offset, limit (0 = none)]
InRange(r, q) == r.t >= q.lo /\ r.t <= q.hi /\ r.s \in q.series
\* the criteria are evaluated on the stored (winning) row of each key
Selected(q) == { w \in Resolve({ r \in acked : InRange(r, q) }) : \E r \in w : Sat(r, q.crit) }
\* with tied versions different candidates may disagree on the criteria: such groups are ambiguous and
\* the replayer accepts either outcome for them
Ambiguous(q) == { w \in Resolve({ r \in acked : InRange(r, q) }) : (\E r \in w : Sat(r, q.crit)) /\ (\E r \in w : ~Sat(r, q.crit)) }

\* ordering and windowing (C09): the rows of the full result sorted by the sort key (time), ties in any order;
\* offset/limit select a contiguous window.  The sequence of sort keys of the window is unique even with ties.
TOf(w) == (CHOOSE r \in w : TRUE).t
SortedKeys(q) ==
  LET S == SetToSeq(Selected(q))
      ks == [i \in 1..Len(S) |-> TOf(S[i])]
  IN SortSeq(ks, LAMBDA x, y : IF q.asc THEN x < y ELSE x > y)
Window(seq, off, lim) ==
  LET hi == IF lim = 0 \/ off + lim > Len(seq) THEN Len(seq) ELSE off + lim
  IN IF off >= Len(seq) THEN <<>> ELSE SubSeq(seq, off + 1, hi)
Answer(q) == [q |-> q, groups |-> Selected(q), ambiguous |-> Ambiguous(q),
              wkeys |-> IF q.order = "none" THEN <<>> ELSE Window(SortedKeys(q), q.offset, q.limit)]

DoQuery(q) ==
  /\ Step /\ Allowed("query") /\ acked # {}
  /\ last' = [op |-> "query"] @@ Answer(q)
  /\ UNCHANGED <<acked, view, parts, nextId, nextPart, nbatch>>

QueryAll ==              \* every query of the family against the same layout
  /\ Step /\ Allowed("queryall") /\ acked # {} /\ Queries # {} /\ last.op # "queryall"
  /\ last' = [op |-> "queryall", res |-> { Answer(q) : q \in Queries }]
  /\ UNCHANGED <<acked, view, parts, nextId, nextPart, nbatch>>

Next == \/ \E b \in Batches : Write(b)
        \/ Flush
        \/ \E S \in SUBSET FileParts : Merge(S)
        \/ QueryAll

Spec == Init /\ [][Next]_vars

View == <<acked, parts, nextId, nextPart, nbatch, ops>>

---------------------------------------------------------------------------
\* C01: nothing that was not written is ever stored; every acknowledged key is stored
NoPhantom == LayoutRows \subseteq acked
Complete == \A k \in Keys(acked) : k \in Keys(LayoutRows)
\* C02/C03 at the design level: whatever the layout, the admissible winners are those of the
\* layout-free reference, i.e. no dedup site discards a row that could still win
LayoutAgrees ==
  Versioned => \A k \in Keys(acked) : Winners(LayoutRows, k) # {} /\ Winners(LayoutRows, k) \subseteq Winners(acked, k)
AllKept == (~Versioned) => LayoutRows = acked
\* C03: maintenance never changes the reference answer
MaintenanceInvisible == [][(last'.op \in {"flush", "merge"}) => (acked' = acked /\ Resolve(acked') = Resolve(acked))]_vars
ViewIsResolve == view = Resolve(acked)
PartsDisjointIds == \A p, q \in parts : p # q => p.pid # q.pid
=============================================================================
