---------------------------- MODULE Aggregation ----------------------------
(***************************************************************************)
(* C10 - aggregates, group-by and top-N equal a reference; partials        *)
(* compose.                                                                *)
(*                                                                         *)
(* Code modelled (pinned tree):                                            *)
(*   pkg/query/aggregation/function.go      Map accumulators (In / Val /   *)
(*        Partial) and Reduce combiners (Combine / Val) of SUM COUNT MIN   *)
(*        MAX MEAN, transcribed statement by statement below               *)
(*   pkg/query/aggregation/aggregation.go   Partial = (Value, Count), the  *)
(*        wire form (MEAN: two field values, the others one)               *)
(*   pkg/query/logical/measure/measure_plan_aggregation.go  a data node    *)
(*        emits ONE partial per group (none for an empty input)            *)
(*   pkg/query/logical/measure/measure_plan_distributed.go                 *)
(*        deduplicateAggregatedDataPointsWithShard: replica answers are    *)
(*        dropped by the key (shard id [, group key]), first one wins      *)
(*   pkg/query/logical/measure/measure_plan_groupby.go  formatGroupByKey   *)
(*   pkg/query/logical/measure/measure_top.go  TopQueue (bounded heap)     *)
(*   pkg/query/vectorized/measure/{aggregation,aggregation_reduce,reduce,  *)
(*        top}.go  the columnar twins (same Map/Reduce objects, own key    *)
(*        encoding, own (shard, group) replica filter)                     *)
(*                                                                         *)
(*   pkg/query/logical/measure/measure_analyzer.go  Analyze: the group-by   *)
(*        METHOD ("sort" = groupSortIterator, a group is a run of          *)
(*        consecutive points, the scan is asked for series order; "hash"   *)
(*        = first-seen table); DistributedAnalyze + distributedPlan.Limit  *)
(*        / Execute: the limit the node request carries                    *)
(*   pkg/query/logical/measure/measure_plan.go  limitIterator (offset,     *)
(*        limit), on the node and on the coordinator                       *)
(*                                                                         *)
(* Three small state machines (constant Family):                           *)
(*  "agg"  rows [v, s, g1, g2] (field value, shard, two group-key tokens)  *)
(*         are added one at a time in canonical (sorted) order, so every   *)
(*         reachable state is one multiset of rows together with one       *)
(*         partition of it over the shards (empty shards included).  The   *)
(*         variable obs holds what the aggregation objects must show after *)
(*         that step: the partial of every shard / every (shard, group),   *)
(*         and the final values.                                           *)
(*  "top"  values arrive one at a time (order matters for a heap); obs     *)
(*         holds the values a TOP-n / BOTTOM-n must return.                *)
(*  "ord"  the measure's entity is the tag list (k1, k2): a series is one   *)
(*         (g1, g2), rows is the ARRIVAL order of its points (every order  *)
(*         is a state, no canonical order).  GROUP BY k1 / k2 / (k1, k2)   *)
(*         with the method Analyze picks, over the scan order the engine   *)
(*         delivers for that method; a client page (limit, offset) and a   *)
(*         TOP-n over the groups; obs holds the groups, the page sizes and *)
(*         the paged top values the plans must return.                     *)
(* last is the history variable the replayer reads.                        *)
(*                                                                         *)
(* Three deviations of the pinned code from the intended design are        *)
(* modelled as they are and NAMED; all checks run with them FALSE          *)
(* (intended design), TRUE reproduces the counterexample at spec level:    *)
(*   MeanFloorsAtOne  meanFunc.Val / meanReduceFunc.Val: "if v < 1 {       *)
(*                    return 1 }"                                          *)
(*   ScalarShardZero  aggAllIterator.Current stamps ShardId 0 on the       *)
(*                    partial of an aggregation without group-by, and the  *)
(*                    coordinator filters replicas by shard id alone       *)
(*   ConcatGroupKey   formatGroupByKey hashes the tag values back to back  *)
(*                    (no length / separator): ("a","bc") = ("ab","c")     *)
(* Two decisions of the planner are modelled together with their wrong     *)
(* alternative, NAMED for the same purpose (FALSE = the design, TRUE must  *)
(* give a counterexample: the laws of family "ord" are not vacuous):       *)
(*   StreamOnPrefix        "sort" also when the group-by tags are only a   *)
(*                         leading prefix of the entity                    *)
(*   NodePageIsClientPage  the node request keeps the client's page        *)
(*                         (limit + offset) instead of "unbounded" when    *)
(*                         group-by / aggregation is pushed down           *)
(***************************************************************************)
EXTENDS Integers, Sequences, FiniteSets, TLC

CONSTANTS
  Family,          \* "agg" | "top" | "ord"
  Vals,            \* field values of family "agg"
  Shards,          \* shard ids (0 must be one of them: ScalarShardZero stamps 0)
  K1, K2,          \* tuples of strings: concretisation of the key tokens 1..Len(K1), 1..Len(K2)
  MaxRows,
  MaxRep,          \* a shard is answered by 1..MaxRep replicas
  Grouped,         \* BOOLEAN: export the grouped observations too
  TopVals, MaxItems, MaxN,
  IntMax, IntMin,  \* stand for math.MaxInt64 / math.MinInt64 (sentinels of minFunc / maxFunc)
  MeanFloorsAtOne, ScalarShardZero, ConcatGroupKey,
  Pages,           \* family "ord": the client pages <<limit, offset>> that are asked for
  StreamOnPrefix, NodePageIsClientPage

VARIABLES rows,    \* family "agg": sequence of [v, s, g1, g2], canonical order; family "ord": arrival order
          items,   \* family "top": sequence of values in arrival order
          obs,     \* what the implementation must show in this state
          last     \* the step that produced the state

vars == <<rows, items, obs, last>>

FuncSeq == <<"SUM", "COUNT", "MIN", "MAX", "MEAN">>
Funcs == { FuncSeq[i] : i \in 1..5 }

ASSUME /\ \A v \in Vals \cup TopVals : IntMin < v /\ v < IntMax
       /\ 0 \in Shards

---------------------------------------------------------------------------
\* generic helpers
RECURSIVE SumSeq(_)
SumSeq(q) == IF q = <<>> THEN 0 ELSE Head(q) + SumSeq(Tail(q))
SetMin(S) == CHOOSE x \in S : \A y \in S : x <= y
SetMax(S) == CHOOSE x \in S : \A y \in S : x >= y
Range(q) == { q[i] : i \in 1..Len(q) }
ValuesOf(rs) == [i \in 1..Len(rs) |-> rs[i].v]
\* Go's integer division truncates toward zero (TLA+ \div floors); the divisor is a count > 0
GoDiv(a, b) == IF a >= 0 THEN a \div b ELSE -((-a) \div b)

---------------------------------------------------------------------------
\* Reference (the documented meaning) over a NON-EMPTY bag of integers given as a sequence
Agg(f, q) ==
  CASE f = "SUM"   -> SumSeq(q)
    [] f = "COUNT" -> Len(q)
    [] f = "MIN"   -> SetMin(Range(q))
    [] f = "MAX"   -> SetMax(Range(q))
    [] f = "MEAN"  -> GoDiv(SumSeq(q), Len(q))
\* MEAN of an integer field is an integer quotient; the rounding direction is not documented,
\* so either integer neighbour of the exact mean is a valid answer
MeanLo(q) == SumSeq(q) \div Len(q)
MeanHi(q) == IF SumSeq(q) % Len(q) = 0 THEN MeanLo(q) ELSE MeanLo(q) + 1
IsMean(r, q) == MeanLo(q) <= r /\ r <= MeanHi(q)

---------------------------------------------------------------------------
\* function.go, as coded.  An accumulator state is [value, count]; count is used by MEAN only.
MapInit(f) ==
  CASE f = "MIN" -> [value |-> IntMax, count |-> 0]       \* minFunc.Reset: val = max
    [] f = "MAX" -> [value |-> IntMin, count |-> 0]       \* maxFunc.Reset: val = min
    [] OTHER     -> [value |-> 0, count |-> 0]
MapIn(f, st, v) ==
  CASE f = "SUM"   -> [st EXCEPT !.value = @ + v]
    [] f = "COUNT" -> [st EXCEPT !.value = @ + 1]
    [] f = "MIN"   -> IF v < st.value THEN [st EXCEPT !.value = v] ELSE st
    [] f = "MAX"   -> IF v > st.value THEN [st EXCEPT !.value = v] ELSE st
    [] f = "MEAN"  -> [value |-> st.value + v, count |-> st.count + 1]
MeanFinal(s, c) ==
  IF c = 0 THEN 0
  ELSE LET v == GoDiv(s, c) IN IF MeanFloorsAtOne /\ v < 1 THEN 1 ELSE v
MapVal(f, st) == IF f = "MEAN" THEN MeanFinal(st.value, st.count) ELSE st.value
RECURSIVE MapFold(_, _, _)
MapFold(f, st, q) == IF q = <<>> THEN st ELSE MapFold(f, MapIn(f, st, Head(q)), Tail(q))
\* Map.Partial() after feeding the block q (possibly empty): Partial{Value, Count}
MapPartial(f, q) == MapFold(f, MapInit(f), q)

ReduceInit(f) == MapInit(f)
Combine(f, st, p) ==
  CASE f = "SUM"   -> [st EXCEPT !.value = @ + p.value]
    [] f = "COUNT" -> [st EXCEPT !.value = @ + p.value]
    [] f = "MIN"   -> IF st.value = IntMax \/ p.value < st.value THEN [st EXCEPT !.value = p.value] ELSE st
    [] f = "MAX"   -> IF p.value > st.value THEN [st EXCEPT !.value = p.value] ELSE st
    [] f = "MEAN"  -> [value |-> st.value + p.value, count |-> st.count + p.count]
RECURSIVE ReduceFold(_, _, _)
ReduceFold(f, st, ps) == IF ps = <<>> THEN st ELSE ReduceFold(f, Combine(f, st, Head(ps)), Tail(ps))
\* Reduce.Val() after Combine of the partials in arrival order ps
Reduce(f, ps) == MapVal(f, ReduceFold(f, ReduceInit(f), ps))
\* a set of partials reduces to the same value in every arrival order (all |P|! orders are walked)
RECURSIVE AllOrdersOK(_, _, _, _)
AllOrdersOK(f, st, P, want) ==
  IF P = {} THEN MapVal(f, st) = want
  ELSE \A p \in P : AllOrdersOK(f, Combine(f, st, p), P \ {p}, want)
ReduceSetOK(f, P, want) == AllOrdersOK(f, ReduceInit(f), P, want)

---------------------------------------------------------------------------
\* Family "agg": rows, blocks, groups
Cell == [v : Vals, s : Shards, g1 : 1..Len(K1), g2 : 1..Len(K2)]
CellLeq(a, b) ==
  \/ a.v < b.v
  \/ a.v = b.v /\ a.s < b.s
  \/ a.v = b.v /\ a.s = b.s /\ a.g1 < b.g1
  \/ a.v = b.v /\ a.s = b.s /\ a.g1 = b.g1 /\ a.g2 <= b.g2

Block(rs, s) == SelectSeq(rs, LAMBDA r : r.s = s)
\* the identity of a group as the implementation sees it
GroupKey(a, b) == IF ConcatGroupKey THEN K1[a] \o K2[b] ELSE <<a, b>>
RowKey(r) == GroupKey(r.g1, r.g2)
KeysOf(rs) == { RowKey(rs[i]) : i \in 1..Len(rs) }
OfKey(rs, k) == SelectSeq(rs, LAMBDA r : RowKey(r) = k)
\* the tokens a data node reports for a group: those of its first row (first-seen carry forward)
G1Of(rs, k) == OfKey(rs, k)[1].g1
G2Of(rs, k) == OfKey(rs, k)[1].g2

\* --- scalar aggregation over shards and replicas ---
\* A replica of shard s answers with Partial(rows of s); an empty shard sends nothing
\* (aggAllIterator.Next: resultDp == nil).  stamp is the shard id the answer carries.
ScalarStamp(s) == IF ScalarShardZero THEN 0 ELSE s
ShardPartials(f, rs) ==      \* what one replica of every non-empty shard computes
  { [s |-> s, p |-> MapPartial(f, ValuesOf(Block(rs, s)))] : s \in { x \in Shards : Block(rs, x) # <<>> } }
ScalarResponses(P, rep) ==
  UNION { { [stamp |-> ScalarStamp(x.s), s |-> x.s, i |-> i, p |-> x.p] : i \in 1..rep[x.s] } : x \in P }
\* deduplicateAggregatedDataPointsWithShard without group-by: one answer per stamp survives
\* (the first to arrive; CHOOSE stands for "whichever")
DedupScalar(R) == { CHOOSE r \in R : r.stamp = t : t \in { x.stamp : x \in R } }
PartialsOf(R) == { [value |-> r.p.value, count |-> r.p.count, s |-> r.s] : r \in R }

\* --- grouped aggregation ---
GroupPartials(f, rs) ==      \* one partial per (shard, group) on every replica of the shard
  UNION { { [s |-> s, key |-> k, p |-> MapPartial(f, ValuesOf(OfKey(Block(rs, s), k)))] :
              k \in KeysOf(Block(rs, s)) } : s \in Shards }
GroupResponses(P, rep) ==
  UNION { { [stamp |-> x.s, key |-> x.key, s |-> x.s, i |-> i, p |-> x.p] : i \in 1..rep[x.s] } : x \in P }
\* ... with group-by: one answer per (stamp, group key) survives
DedupGrouped(R) == { CHOOSE r \in R : r.stamp = d[1] /\ r.key = d[2] : d \in { <<x.stamp, x.key>> : x \in R } }

\* "a shard answered by several replicas counts once"
DedupReplicas(R, grouped) == IF grouped THEN DedupGrouped(R) ELSE DedupScalar(R)

Reps == [Shards -> 1..MaxRep]

\* --- what is exported to the replayer ---
PartialTuple(q) == [i \in 1..5 |-> <<MapPartial(FuncSeq[i], q).value, MapPartial(FuncSeq[i], q).count>>]
DirectTuple(q) == [i \in 1..5 |-> MapVal(FuncSeq[i], MapPartial(FuncSeq[i], q))]
Result(q) == IF q = <<>> THEN [some |-> FALSE]
             ELSE [some |-> TRUE, r |-> DirectTuple(q), lo |-> MeanLo(q), hi |-> MeanHi(q)]

Better(a, b, dir) == IF dir = "top" THEN a >= b ELSE a <= b
RECURSIVE FirstN(_, _, _)
\* the first n of the bag (a sequence) sorted by dir
FirstN(q, n, dir) ==
  IF n = 0 \/ q = <<>> THEN <<>>
  ELSE LET i == CHOOSE i \in 1..Len(q) : \A j \in 1..Len(q) : Better(q[i], q[j], dir)
       IN <<q[i]>> \o FirstN(SubSeq(q, 1, i - 1) \o SubSeq(q, i + 1, Len(q)), n - 1, dir)
SetToSeq(S) == CHOOSE q \in [1..Cardinality(S) -> S] : \A i, j \in 1..Cardinality(S) : i # j => q[i] # q[j]
GroupSums(rs) == LET ks == SetToSeq(KeysOf(rs)) IN [i \in 1..Len(ks) |-> SumSeq(ValuesOf(OfKey(rs, ks[i])))]

AggObs(rs) ==
  LET scalar == [ n |-> Len(rs),
                  sparts |-> { [s |-> s, n |-> Len(Block(rs, s)), p |-> PartialTuple(ValuesOf(Block(rs, s)))] : s \in Shards },
                  sres |-> Result(ValuesOf(rs)) ]
  IN IF ~Grouped THEN scalar
     ELSE [ n |-> scalar.n, sparts |-> scalar.sparts, sres |-> scalar.sres,
            gparts |-> UNION { { [s |-> s, g1 |-> G1Of(Block(rs, s), k), g2 |-> G2Of(Block(rs, s), k),
                                  p |-> PartialTuple(ValuesOf(OfKey(Block(rs, s), k)))] :
                                  k \in KeysOf(Block(rs, s)) } : s \in Shards },
            gres |-> { [g1 |-> G1Of(rs, k), g2 |-> G2Of(rs, k), res |-> Result(ValuesOf(OfKey(rs, k)))] : k \in KeysOf(rs) },
            \* TOP / BOTTOM n over the groups' SUM
            gtop |-> { [n |-> n, dir |-> d, vals |-> FirstN(GroupSums(rs), n, d)] : n \in 1..MaxN, d \in {"top", "bottom"} } ]

---------------------------------------------------------------------------
\* Family "ord": entity (k1, k2), arrival orders, group-by on a part of the entity, client pages
Entity == <<"k1", "k2">>
Bys == { <<"k1">>, <<"k2">>, <<"k1", "k2">> }             \* the GROUP BY tag lists
ByName(by) == IF Len(by) = 2 THEN "k1k2" ELSE by[1]
TagOf(r, t) == IF t = "k1" THEN r.g1 ELSE r.g2
PKey(r, by) == [i \in 1..Len(by) |-> TagOf(r, by[i])]     \* a group is a tuple of tokens (intended design)
PKeys(rs, by) == { PKey(rs[i], by) : i \in 1..Len(rs) }
OfPKey(rs, by, k) == SelectSeq(rs, LAMBDA r : PKey(r, by) = k)
PG1(by, k) == IF by[1] = "k1" THEN k[1] ELSE 0            \* 0: the tag is not part of the key
PG2(by, k) == IF by[Len(by)] = "k2" THEN k[Len(by)] ELSE 0

\* the scan in series order (index.OrderByTypeSeries, banyand/measure queryResult.Less: by the position of the
\* series in the series-index answer, then by time): series by series, NOT sorted by the entity values.  The
\* position of a series is taken to be its creation order (first arrival).
RECURSIVE BySeries(_)
BySeries(rs) ==
  IF rs = <<>> THEN <<>>
  ELSE LET same(r) == r.g1 = rs[1].g1 /\ r.g2 = rs[1].g2
           other(r) == ~same(r)
       IN SelectSeq(rs, same) \o BySeries(SelectSeq(rs, other))
\* groupBy.hash: the groups in first-seen order, each with all its rows
RECURSIVE FirstSeen(_, _)
FirstSeen(rs, by) ==
  IF rs = <<>> THEN <<>>
  ELSE LET k == PKey(rs[1], by)
       IN <<OfPKey(rs, by, k)>> \o FirstSeen(SelectSeq(rs, LAMBDA r : PKey(r, by) # k), by)
\* groupSortIterator: a group is a maximal run of consecutive rows with the same key
RECURSIVE Runs(_, _)
Runs(rs, by) ==
  IF rs = <<>> THEN <<>>
  ELSE LET k == PKey(rs[1], by)
           n == CHOOSE n \in 1..Len(rs) : /\ \A i \in 1..n : PKey(rs[i], by) = k
                                          /\ (n = Len(rs) \/ PKey(rs[n + 1], by) # k)
       IN <<SubSeq(rs, 1, n)>> \o Runs(SubSeq(rs, n + 1, Len(rs)), by)
IsPrefix(p, q) == Len(p) <= Len(q) /\ p = SubSeq(q, 1, Len(p))
\* measure_analyzer.go Analyze: "sort" iff the group-by tag list EQUALS the entity tag list
Streams(by) == IF StreamOnPrefix THEN IsPrefix(by, Entity) ELSE by = Entity
\* what groupBy hands to the aggregation on one server over the rows rs (time order = arrival order)
PlanGroups(rs, by) == IF Streams(by) THEN Runs(BySeries(rs), by) ELSE FirstSeen(rs, by)

\* the node request's limit (offset 0).  Design: unbounded (uint32(math.MaxInt) = 0xFFFFFFFF) when group-by or
\* aggregation is pushed down, the client's page applies after the reduce.
Unbounded == MaxRows + 1
NodeLimit(pg) == IF NodePageIsClientPage THEN pg[1] + pg[2] ELSE Unbounded
Take(q, n) == SubSeq(q, 1, IF Len(q) < n THEN Len(q) ELSE n)
\* limitIterator: skip offset, pass limit
Page(q, pg) == SubSeq(q, pg[2] + 1, IF Len(q) < pg[1] + pg[2] THEN Len(q) ELSE pg[1] + pg[2])
PageSize(n, pg) == IF n <= pg[2] THEN 0 ELSE IF n - pg[2] < pg[1] THEN n - pg[2] ELSE pg[1]
\* one data node (shard s): limit(aggregation[map](groupBy(scan))).  An answer row is written [s, key, blk]: blk
\* is the run / table entry the node aggregated; its partial for function f is MapPartial(f, ValuesOf(blk)).
NodeAnswer(rs, s, by, lim) ==
  LET gs == Take(PlanGroups(Block(rs, s), by), lim)
  IN [i \in 1..Len(gs) |-> [s |-> s, key |-> PKey(gs[i][1], by), blk |-> gs[i]]]
RECURSIVE Flatten(_)
Flatten(qq) == IF qq = <<>> THEN <<>> ELSE Head(qq) \o Flatten(Tail(qq))
\* deduplicateAggregatedDataPointsWithShard: the first answer per (shard, group) wins
RECURSIVE DedupSeq(_, _)
DedupSeq(q, seen) ==
  IF q = <<>> THEN <<>>
  ELSE LET d == <<q[1].s, q[1].key>>
       IN IF d \in seen THEN DedupSeq(Tail(q), seen) ELSE <<q[1]>> \o DedupSeq(Tail(q), seen \cup {d})
\* the coordinator: groupBy.hash (first-seen order): every group with the answers that reached it, in arrival order
RECURSIVE Gather(_)
Gather(q) ==
  IF q = <<>> THEN <<>>
  ELSE LET k == q[1].key
           mine == SelectSeq(q, LAMBDA x : x.key = k)
       IN <<[key |-> k, blks |-> [i \in 1..Len(mine) |-> mine[i].blk]]>> \o Gather(SelectSeq(q, LAMBDA x : x.key # k))
\* ... when every node request carries the limit lim and the nodes answer in the order so (a sequence of shards)
Gathered(rs, by, lim, so) == Gather(DedupSeq(Flatten([i \in 1..Len(so) |-> NodeAnswer(rs, so[i], by, lim)]), {}))
\* aggregation[reduce] of one gathered group
ReducedVal(f, g) == Reduce(f, [i \in 1..Len(g.blks) |-> MapPartial(f, ValuesOf(g.blks[i]))])
ShardOrders == { q \in [1..Cardinality(Shards) -> Shards] : \A i, j \in 1..Cardinality(Shards) : i # j => q[i] # q[j] }
SumsBy(rs, by) == LET ks == SetToSeq(PKeys(rs, by)) IN [i \in 1..Len(ks) |-> SumSeq(ValuesOf(OfPKey(rs, by, ks[i])))]

OrdObs(rs) ==
  [ n |-> Len(rs), shards |-> Shards,
    bys |-> { [by |-> ByName(by),
               groups |-> { [g1 |-> PG1(by, k), g2 |-> PG2(by, k), res |-> Result(ValuesOf(OfPKey(rs, by, k)))] : k \in PKeys(rs, by) }] :
              by \in Bys },
    \* a client page: without ranking n DISTINCT groups (which ones is not specified), each with its full value;
    \* ranks: <<m, dir, values>> = TOP / BOTTOM m over the groups' SUM, then the page
    pages |-> UNION { LET sums == SumsBy(rs, by)
                          g == Cardinality(PKeys(rs, by))
                      IN { [by |-> ByName(by), lim |-> pg[1], off |-> pg[2], n |-> PageSize(g, pg),
                            ranks |-> { <<m, d, Page(FirstN(sums, m, d), pg)>> : m \in 1..MaxN, d \in {"top", "bottom"} }] : pg \in Pages } :
                      by \in Bys } ]

---------------------------------------------------------------------------
\* Family "top": measure_top.go TopQueue as coded.  The heap root is A least (TOP) / greatest
\* (BOTTOM) retained element; among equal values the heap layout decides, so every choice is
\* a possible execution.
Elems(q) == { [id |-> i, v |-> q[i]] : i \in 1..Len(q) }
Roots(H, dir) == { m \in H : \A x \in H : IF dir = "top" THEN m.v <= x.v ELSE m.v >= x.v }
\* Insert: the "evicted" branch.  The row queue keeps the newcomer on a tie with the root
\* (measure_top.go: minElement.value > element.value rejects); the columnar BatchTop keeps the
\* incumbent (top.go shouldReplace: strictly better only).  Both are modelled (keepOld).
Rejects(m, e, dir, keepOld) ==
  IF dir = "top" THEN (IF keepOld THEN m.v >= e.v ELSE m.v > e.v)
                 ELSE (IF keepOld THEN m.v <= e.v ELSE m.v < e.v)
InsertAll(HS, e, n, dir, keepOld) ==
  UNION { IF Cardinality(H) < n THEN { H \cup {e} }
          ELSE { IF Rejects(m, e, dir, keepOld) THEN H ELSE (H \ {m}) \cup {e} : m \in Roots(H, dir) } : H \in HS }
RECURSIVE HeapStates(_, _, _, _, _)
HeapStates(q, k, n, dir, keepOld) ==      \* possible heap contents after the first k arrivals
  IF k = 0 THEN { {} }
  ELSE InsertAll(HeapStates(q, k - 1, n, dir, keepOld), [id |-> k, v |-> q[k]], n, dir, keepOld)
\* reference: S is a valid TOP/BOTTOM n of E (ties: any choice)
ValidTop(S, E, n, dir) ==
  /\ S \subseteq E
  /\ Cardinality(S) = IF Cardinality(E) < n THEN Cardinality(E) ELSE n
  /\ \A a \in S, b \in E \ S : Better(a.v, b.v, dir)
TopObs(q) == { [n |-> n, dir |-> d, vals |-> FirstN(q, n, d)] : n \in 1..MaxN, d \in {"top", "bottom"} }

---------------------------------------------------------------------------
Init ==
  /\ rows = <<>> /\ items = <<>> /\ last = [op |-> "init"]
  /\ obs = IF Family = "agg" THEN AggObs(<<>>) ELSE IF Family = "ord" THEN OrdObs(<<>>) ELSE TopObs(<<>>)

AddRow(c) ==
  /\ Family = "agg" /\ Len(rows) < MaxRows
  /\ IF rows = <<>> THEN TRUE ELSE CellLeq(rows[Len(rows)], c)
  /\ rows' = Append(rows, c)
  /\ obs' = AggObs(rows')
  /\ last' = [op |-> "row", v |-> c.v, s |-> c.s, g1 |-> c.g1, g2 |-> c.g2]
  /\ UNCHANGED items

Arrive(v) ==
  /\ Family = "top" /\ Len(items) < MaxItems
  /\ items' = Append(items, v)
  /\ obs' = TopObs(items')
  /\ last' = [op |-> "arrive", v |-> v]
  /\ UNCHANGED rows

\* family "ord": the next point arrives (any cell: every arrival order is reachable)
Point(c) ==
  /\ Family = "ord" /\ Len(rows) < MaxRows
  /\ rows' = Append(rows, c)
  /\ obs' = OrdObs(rows')
  /\ last' = [op |-> "row", v |-> c.v, s |-> c.s, g1 |-> c.g1, g2 |-> c.g2]
  /\ UNCHANGED items

Next == (\E c \in Cell : AddRow(c) \/ Point(c)) \/ (\E v \in TopVals : Arrive(v))
Spec == Init /\ [][Next]_vars

---------------------------------------------------------------------------
\* C10 as invariants of every reachable state
AllVals == ValuesOf(rows)

\* the reference itself: MEAN is an integer neighbour of the exact mean
RefMeanValid == rows # <<>> => IsMean(Agg("MEAN", AllVals), AllVals)

\* aggregating everything in one place with the Map accumulator gives the reference
DirectEqualsReference == rows # <<>> => \A f \in Funcs : MapVal(f, MapPartial(f, AllVals)) = Agg(f, AllVals)

\* Reduce(f, {MapPartial(f, b) : b in P}) = Agg(f, UNION P) for the partition of this state, empty
\* blocks contributing their (sentinel) partial, in every arrival order
PartitionLaw ==
  rows # <<>> => \A f \in Funcs :
     ReduceSetOK(f, { [value |-> MapPartial(f, ValuesOf(Block(rows, s))).value,
                       count |-> MapPartial(f, ValuesOf(Block(rows, s))).count, s |-> s] : s \in Shards },
                 Agg(f, AllVals))

\* the same through the coordinator: empty shards send nothing, every shard is answered by
\* 1..MaxRep replicas, replica answers are filtered, the rest is reduced in any order
ReplicasCountOnce ==
  rows # <<>> => \A f \in Funcs :
     LET P == ShardPartials(f, rows)
         want == Agg(f, AllVals) IN
       \A rep \in Reps : ReduceSetOK(f, PartialsOf(DedupReplicas(ScalarResponses(P, rep), FALSE)), want)

\* group-by over the two keys: the groups are the distinct key tuples ...
GroupsAreKeyTuples ==
  Cardinality(KeysOf(rows)) = Cardinality({ <<rows[i].g1, rows[i].g2>> : i \in 1..Len(rows) })
\* ... and every group's value composes from the per-(shard, group) partials of any replica set
GroupedLaw ==
  \A f \in Funcs :
    LET P == GroupPartials(f, rows)
        want == [k \in KeysOf(rows) |->
                   Agg(f, ValuesOf(SelectSeq(rows, LAMBDA r : <<r.g1, r.g2>> = <<G1Of(rows, k), G2Of(rows, k)>>)))] IN
      \A rep \in Reps :
        LET R == DedupReplicas(GroupResponses(P, rep), TRUE) IN
          \A k \in KeysOf(rows) :
            ReduceSetOK(f, { [value |-> r.p.value, count |-> r.p.count, s |-> r.s] : r \in { x \in R : x.key = k } }, want[k])

\* bounded heap = first n of the sorted list, whatever the heap does with ties
TopNLaw ==
  \A n \in 1..MaxN, d \in {"top", "bottom"} :
    \A keepOld \in BOOLEAN : \A H \in HeapStates(items, Len(items), n, d, keepOld) :
       /\ ValidTop(H, Elems(items), n, d)
       /\ FirstN(items, n, d) = FirstN(ValuesOf(SetToSeq(H)), n, d)
\* ---- family "ord" ----
\* the group-by method Analyze picks, over the scan order it asks for, yields exactly the distinct key tuples,
\* each group with all its rows - on the whole input and on every shard's block
GroupMethodLaw ==
  \A by \in Bys : \A rs \in {rows} \cup { Block(rows, s) : s \in Shards } :
    LET gs == PlanGroups(rs, by) IN
      /\ Len(gs) = Cardinality(PKeys(rs, by))
      /\ \A i \in 1..Len(gs) : Len(gs[i]) = Len(OfPKey(rs, by, PKey(gs[i][1], by)))
\* a client page over the reduced groups: PageSize distinct groups, each with the value of the reference over
\* ALL its rows, whatever order the nodes answer in; ranking happens after the reduce and before the page
\* (for every limit the node requests may carry: the groups that reach the coordinator depend on it alone)
PageLawAt(by, so, lim) ==
  LET red == Gathered(rows, by, lim, so)
      pgs == { pg \in Pages : NodeLimit(pg) = lim }
      g == Cardinality(PKeys(rows, by))
  IN /\ \A f \in Funcs :
          LET vals == [i \in 1..Len(red) |-> ReducedVal(f, red[i])] IN
            \A pg \in pgs :
              LET lo == pg[2] + 1
                  hi == pg[2] + PageSize(Len(red), pg) IN
                /\ hi - pg[2] = PageSize(g, pg)
                /\ \A i, j \in lo..hi : i # j => red[i].key # red[j].key
                /\ \A i \in lo..hi : vals[i] = Agg(f, ValuesOf(OfPKey(rows, by, red[i].key)))
     /\ LET sums == [i \in 1..Len(red) |-> ReducedVal("SUM", red[i])]
             want == SumsBy(rows, by) IN
          \A pg \in pgs, m \in 1..MaxN, d \in {"top", "bottom"} :
            Page(FirstN(sums, m, d), pg) = Page(FirstN(want, m, d), pg)
PageLaw == \A by \in Bys, so \in ShardOrders, lim \in { NodeLimit(pg) : pg \in Pages } : PageLawAt(by, so, lim)
=============================================================================
