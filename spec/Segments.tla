------------------------------ MODULE Segments ------------------------------
(***************************************************************************)
(* The time-segment controller of one group (banyand/internal/storage:     *)
(* segment.go segmentController.create/open/selectSegments/remove/         *)
(* removeOldest, storage.go IntervalRule.Standard/NextTime, tsdb.go        *)
(* SelectSegments/DeleteOldestSegment, rotation.go retentionTask.run).     *)
(*                                                                         *)
(* Time is an integer number of ABSOLUTE hours since an origin O (a local  *)
(* midnight in standard time).  The zone is given by a daylight-saving     *)
(* window [DstStart, DstEnd) during which the wall clock is one hour       *)
(* ahead; DstStart >= DstEnd models a zone without DST (UTC).  Segment     *)
(* directories are named by the wall-clock start, the rule's grid is       *)
(*   HOUR x N : absolute hours since the local epoch, in buckets of N      *)
(*   DAY  x N : local midnights, calendar days since the local epoch in    *)
(*              buckets of N                                               *)
(* and NextTime adds N absolute hours (HOUR) or N calendar days (DAY).     *)
(*                                                                         *)
(* One action per public operation of the TSDB interface; the clock is the *)
(* mock clock the retention scheduler and SelectSegments read.             *)
(***************************************************************************)
EXTENDS Integers, FiniteSets, TLC

CONSTANTS Unit,        \* "HOUR" or "DAY"
          Nums,        \* interval multiples: the initial one is InitNum, UpdateInterval may pick another
          InitNum,
          TTL,         \* retention, in hours (the code's IntervalRule.estimatedDuration)
          DstStart, DstEnd,
          OriginDay,   \* calendar days between the local epoch (1970-01-01 local) and O
          Times,       \* timestamps written / queried
          Clocks,      \* values the clock may take (non-decreasing)
          Legacy,      \* set of possible initial segment sets (pre-existing, possibly off-grid)
          Ranges,      \* query ranges <<lo, hi>> (inclusive)
          Ops,         \* enabled operations (each property's configuration focuses on its own)
          MaxOps

VARIABLES segs,     \* set of [s, e]: start inclusive, end exclusive, absolute hours
          num,      \* current interval multiple
          now,      \* clock
          filed,    \* set of [ts, s]: point ts was filed under the segment starting at s
          last,     \* the operation that produced this state, with what it returned
          lastTick, \* time of the last Tick event (ticks closer than 10 minutes are ignored by the code)
          ops

vars == <<segs, num, now, filed, last, lastTick, ops>>

Offset(h) == IF h >= DstStart /\ h < DstEnd THEN 1 ELSE 0
Wall(h) == h + Offset(h)                  \* wall-clock hours since O
DayOf(h) == Wall(h) \div 24               \* local calendar day since O
MidnightAbs(d) == IF Offset(24 * d - 1) = 1 THEN 24 * d - 1 ELSE 24 * d
OriginHour == OriginDay * 24

GridStart(h, n) ==
  IF Unit = "HOUR"
    THEN ((OriginHour + h) \div n) * n - OriginHour
    ELSE MidnightAbs(((OriginDay + DayOf(h)) \div n) * n - OriginDay)

GridNext(s, n) ==
  IF Unit = "HOUR" THEN s + n ELSE MidnightAbs(DayOf(s) + n)

Contains(g, t) == g.s <= t /\ t < g.e
Holder(t) == { g \in segs : Contains(g, t) }

Max(S) == CHOOSE x \in S : \A y \in S : y <= x
Min(S) == CHOOSE x \in S : \A y \in S : x <= y

\* the segment created on demand for t when none contains it: the gap around t, clipped to t's grid bucket
NewSeg(t) ==
  LET a == GridStart(t, num)
      z == GridNext(a, num)
      before == { g.e : g \in { x \in segs : x.e <= t } }
      after == { g.s : g \in { x \in segs : x.s > t } }
      s == IF before = {} THEN a ELSE IF Max(before) > a THEN Max(before) ELSE a
      e == IF after = {} THEN z ELSE IF Min(after) < z THEN Min(after) ELSE z
  IN [s |-> s, e |-> e]

Deadline == now - TTL
Expired(g) == g.e <= Deadline           \* TimeRange.Before(deadline) for an end-exclusive range

\* SelectSegments over the inclusive range [lo, hi]
Overlap(g, lo, hi) == IF g.s = hi THEN TRUE ELSE IF lo = g.e THEN FALSE ELSE g.s <= hi /\ lo <= g.e
Selected(lo, hi) == { g \in segs : Overlap(g, lo, hi) /\ ~Expired(g) }

Init == /\ segs \in Legacy /\ num = InitNum /\ now = Min(Clocks) /\ filed = {}
        /\ last = [op |-> "open"] /\ lastTick = -1 /\ ops = 0

Step == ops < MaxOps /\ ops' = ops + 1
NoTick == UNCHANGED lastTick

Create(t) ==                         \* CreateSegmentIfNotExist(t): the write path
  /\ Step /\ NoTick
  /\ LET g == IF Holder(t) # {} THEN CHOOSE x \in Holder(t) : TRUE ELSE NewSeg(t)
     IN /\ segs' = segs \cup {g}
        /\ filed' = filed \cup {[ts |-> t, s |-> g.s]}
        /\ last' = [op |-> "create", ts |-> t, s |-> g.s, e |-> g.e, new |-> (Holder(t) = {})]
  /\ UNCHANGED <<num, now>>

Reopen ==                            \* Close + OpenTSDB on the same directory
  /\ Step /\ lastTick' = -1 /\ last' = [op |-> "reopen"] /\ UNCHANGED <<segs, num, now, filed>>

UpdateInterval(n) ==                 \* UpdateOptions with another multiple (the unit cannot change)
  /\ Step /\ NoTick /\ n # num /\ num' = n /\ last' = [op |-> "interval", num |-> n]
  /\ UNCHANGED <<segs, now, filed>>

Advance(t) ==
  /\ Step /\ NoTick /\ t > now /\ now' = t /\ last' = [op |-> "clock", now |-> t]
  /\ UNCHANGED <<segs, num, filed>>

Select(lo, hi) ==                    \* a query: observation only
  /\ Step /\ NoTick /\ lo <= hi
  /\ last' = [op |-> "select", lo |-> lo, hi |-> hi, res |-> Selected(lo, hi)]
  /\ UNCHANGED <<segs, num, now, filed>>

Retention ==                         \* retentionTask.run at the current clock
  /\ Step /\ NoTick
  /\ segs' = { g \in segs : ~Expired(g) }
  /\ filed' = { f \in filed : \E g \in segs' : g.s = f.s }
  /\ last' = [op |-> "retention", removed |-> { g \in segs : Expired(g) }]
  /\ UNCHANGED <<num, now>>

Forced ==                            \* DeleteOldestSegment (disk pressure)
  /\ Step /\ NoTick
  /\ LET victim == IF Cardinality(segs) > 1 THEN { g \in segs : \A x \in segs : g.s <= x.s } ELSE {}
     IN /\ segs' = segs \ victim
        /\ filed' = { f \in filed : \E g \in segs' : g.s = f.s }
        /\ last' = [op |-> "forced", removed |-> victim]
  /\ UNCHANGED <<num, now>>

\* Tick(t): the write path reports the time of an incoming event (database.Tick).  The rotation goroutine runs the
\* retention pass with "now" = t and, when t lies within one hour before the end of the newest segment, creates the
\* segment of the next interval ahead of time.
NextOf(t) == IF Unit = "HOUR" THEN t + num ELSE MidnightAbs(DayOf(t) + num) + 1
Tick(t) ==
  /\ Step /\ t > lastTick /\ lastTick' = t
  /\ LET kept == { g \in segs : g.e > t - TTL }
         latestE == IF kept = {} THEN 0 ELSE Max({ g.e : g \in kept })
         x == NextOf(t)
         ahead == kept # {} /\ latestE - t = 1 /\ { g \in kept : Contains(g, x) } = {}
         a == GridStart(x, num)
         z == GridNext(a, num)
         before == { g.e : g \in { y \in kept : y.e <= x } }
         s0 == IF before = {} THEN a ELSE IF Max(before) > a THEN Max(before) ELSE a
     IN /\ segs' = IF ahead THEN kept \cup {[s |-> s0, e |-> z]} ELSE kept
        /\ filed' = { f \in filed : \E g \in kept : g.s = f.s }
        /\ last' = [op |-> "tick", t |-> t, removed |-> segs \ kept, ahead |-> ahead]
  /\ UNCHANGED <<num, now>>

Next == \/ "create" \in Ops /\ \E t \in Times : Create(t)
        \/ "reopen" \in Ops /\ Reopen
        \/ "interval" \in Ops /\ \E n \in Nums : UpdateInterval(n)
        \/ "clock" \in Ops /\ \E t \in Clocks : Advance(t)
        \/ "select" \in Ops /\ \E r \in Ranges : Select(r[1], r[2])
        \/ "retention" \in Ops /\ Retention
        \/ "forced" \in Ops /\ Forced
        \/ "tick" \in Ops /\ \E t \in Clocks : Tick(t)

Spec == Init /\ [][Next]_vars

View == <<segs, num, now, filed, lastTick, ops>>

---------------------------------------------------------------------------
\* C06
NoOverlap == \A a, b \in segs : a # b => (a.e <= b.s \/ b.e <= a.s)
WellFormed == \A g \in segs : g.s < g.e
CreatedContainsTs == last.op = "create" => (last.s <= last.ts /\ last.ts < last.e)
FiledInExactlyOne == \A f \in filed : Cardinality(Holder(f.ts)) = 1 /\ (\E g \in Holder(f.ts) : g.s = f.s)
InsideBucket ==           \* a created segment lies inside the grid bucket of the timestamp that triggered it
  (last.op = "create" /\ last.new) =>
      (last.s >= GridStart(last.ts, num) /\ last.e <= GridNext(GridStart(last.ts, num), num))
StartsOnGrid ==           \* ... and starts on the grid unless an existing segment ends inside the bucket
  (last.op = "create" /\ last.new) =>
      (last.s = GridStart(last.ts, num) \/ \E g \in segs : g.e = last.s)
BoundariesStable ==       \* action property: reopen and interval updates never move a boundary
  [][(last'.op \in {"reopen", "interval", "clock", "select"}) => segs' = segs]_vars
OnlyGrows ==              \* a create adds at most one segment and changes no existing one
  [][(last'.op = "create") => (segs \subseteq segs' /\ Cardinality(segs') <= Cardinality(segs) + 1)]_vars

\* C07
NeverDeleteYoung == last.op = "retention" => \A g \in last.removed : g.e <= Deadline
ForcedAtMostOldestNotLast ==
  last.op = "forced" => /\ Cardinality(last.removed) <= 1
                        /\ segs # {} \/ last.removed = {}
                        /\ \A g \in last.removed : \A x \in segs : g.s < x.s
ExpiredInvisible == last.op = "select" => \A g \in last.res : g.e > Deadline
PartiallyExpiredVisible ==
  last.op = "select" => \A g \in segs : (Overlap(g, last.lo, last.hi) /\ g.e > Deadline) => g \in last.res
TickNeverDeletesYoung == last.op = "tick" => \A g \in last.removed : g.e <= last.t - TTL
RetentionOnlyRemovesExpired ==
  [][(last'.op = "retention") => (segs' \subseteq segs /\ \A g \in segs \ segs' : g.e <= now - TTL)]_vars
=============================================================================
