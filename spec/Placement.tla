----------------------------- MODULE Placement -----------------------------
(***************************************************************************)
(* Shard -> node placement on a coordinator (pkg/node/round_robin.go,      *)
(* banyand/liaison/grpc/node.go) and the shard function                    *)
(* (pkg/partition/route.go, entity.go).                                    *)
(*                                                                         *)
(* The selector is fed by two event streams that arrive in any order and   *)
(* with repetitions: group events from the schema registry (add / update   *)
(* with another shard or replica count / delete / full re-list = OnInit)   *)
(* and node events from the connection manager (a node becoming active is  *)
(* AddNode, a node *update* or a successful writability probe is AddNode   *)
(* again, a health failure is RemoveNode).                                 *)
(*                                                                         *)
(* Design stated by this module: the selector's state is a function of the *)
(* SET of known groups and the SET of live nodes; Pick is computed over    *)
(* the two ascending sequences of those sets.  Group and node names are    *)
(* integers here (their order stands for the byte order of the names).     *)
(***************************************************************************)
EXTENDS Integers, Sequences, FiniteSets, TLC

CONSTANTS Groups, Nodes, MaxShards, MaxReplicas, MaxEvents

VARIABLES gset,    \* set of [g, shards, replicas]: groups the coordinator knows
          nset,    \* set of live node names
          assign,  \* set of [g, s, r, node]: what Pick returns for every known shard copy
          last,    \* the event that produced this state (replay input)
          n        \* number of events so far

vars == <<gset, nset, assign, last, n>>

KeyLess(a, b) == a.g < b.g \/ (a.g = b.g /\ a.s < b.s)

Keys(gs) == UNION { { [g |-> x.g, s |-> i] : i \in 0..(x.shards - 1) } : x \in gs }

\* ascending rank (0-based) of a key in the lookup table / of a node in the node list
KeyIndex(gs, k) == Cardinality({ q \in Keys(gs) : KeyLess(q, k) })
NodeAt(ns, i) == CHOOSE x \in ns : Cardinality({ y \in ns : y < x }) = i

Replicas(gs, g) == (CHOOSE x \in gs : x.g = g).replicas

Assign(gs, ns) ==
  IF ns = {} THEN {}
  ELSE { [g |-> k.g, s |-> k.s, r |-> r,
          node |-> NodeAt(ns, (KeyIndex(gs, k) + r) % Cardinality(ns))] :
            k \in Keys(gs), r \in 0..MaxReplicas }
       \* Pick answers for every replica id it is asked about; the ids that matter are
       \* 0..Replicas(g) and are the ones the invariants talk about.

Init == gset = {} /\ nset = {} /\ assign = {} /\ last = [op |-> "init"] /\ n = 0

Upd(gs, ns, ev) == gset' = gs /\ nset' = ns /\ assign' = Assign(gs, ns) /\ last' = ev /\ n' = n + 1

AddOrUpdateGroup(g, sh, rp) ==
  Upd({ x \in gset : x.g # g } \cup { [g |-> g, shards |-> sh, replicas |-> rp] }, nset,
      [op |-> "group", g |-> g, shards |-> sh, replicas |-> rp])

DeleteGroup(g) ==      \* also for a group that is not known (a late or repeated delete event)
  Upd({ x \in gset : x.g # g }, nset, [op |-> "delgroup", g |-> g])

ReInit ==              \* OnInit: the table is rebuilt from the registry's full list
  Upd(gset, nset, [op |-> "reinit"])

AddNode(x) ==          \* also when the node is already known (update event, probe success)
  Upd(gset, nset \cup {x}, [op |-> "addnode", node |-> x])

RemoveNode(x) ==       \* also for an unknown node
  Upd(gset, nset \ {x}, [op |-> "delnode", node |-> x])

Next ==
  /\ n < MaxEvents
  /\ \/ \E g \in Groups, sh \in 1..MaxShards, rp \in 0..MaxReplicas : AddOrUpdateGroup(g, sh, rp)
     \/ \E g \in Groups : DeleteGroup(g)
     \/ ReInit
     \/ \E x \in Nodes : AddNode(x) \/ RemoveNode(x)

Spec == Init /\ [][Next]_vars

View == <<gset, nset, n>>

---------------------------------------------------------------------------
\* C16, placement half
PickOf(g, s, r) == (CHOOSE a \in assign : a.g = g /\ a.s = s /\ a.r = r).node

Total ==        \* every shard copy of every known group is assigned as soon as one node is live
  nset # {} => \A x \in gset : \A s \in 0..(x.shards - 1), r \in 0..x.replicas :
                  \E a \in assign : a.g = x.g /\ a.s = s /\ a.r = r /\ a.node \in nset

Functional ==   \* exactly one answer per (group, shard, replica)
  \A a, b \in assign : (a.g = b.g /\ a.s = b.s /\ a.r = b.r) => a.node = b.node

ReplicaDisjoint ==
  \A x \in gset : Cardinality(nset) >= x.replicas + 1 =>
     \A s \in 0..(x.shards - 1) : \A r1, r2 \in 0..x.replicas :
         r1 # r2 => PickOf(x.g, s, r1) # PickOf(x.g, s, r2)

Confluent ==    \* the assignment is a function of the two sets only (not of the event history)
  assign = Assign(gset, nset)

Balanced ==     \* consecutive table entries land on consecutive nodes (round robin)
  \A a, b \in assign :
     (a.r = 0 /\ b.r = 0 /\ KeyIndex(gset, [g |-> b.g, s |-> b.s]) = KeyIndex(gset, [g |-> a.g, s |-> a.s]) + 1
        /\ Cardinality(nset) > 1) => a.node # b.node
=============================================================================
