---------------------------- MODULE TSTableCrash ----------------------------
(***************************************************************************)
(* C04 - the persistence protocol of ONE measure tsTable, as coded, over   *)
(* CrashFS; a crash at any point (kill -9 or power loss) followed by the   *)
(* recovery rules of initTSTable/loadSnapshot.                             *)
(*                                                                         *)
(* Code read (banyand/measure, pkg/fs):                                    *)
(*  mustAddMemPart      a batch becomes a mem part (id = ++curPartID), the *)
(*                      introducer publishes a new in-memory snapshot and  *)
(*                      consumes an epoch; NOTHING is written (no WAL).    *)
(*  flush               for every mem part of the snapshot, in order:      *)
(*    memPart.mustFlush   MkdirPanicIfExist(part) = mkdir + fsync(root);   *)
(*                        every data file: fs.Write = open(O_CREAT|O_TRUNC)*)
(*                        , write, fsync(file) (no directory fsync);       *)
(*                        tag.type and metadata.json by WriteAtomic =      *)
(*                        create tmp, write, fsync, rename, fsync(part dir)*)
(*                        - the last one covers the data-file dirents.     *)
(*    then introduceFlushed -> replaceSnapshot -> persistSnapshot =        *)
(*    WriteAtomic(<epoch>.snp) listing ALL parts of the new snapshot       *)
(*    (mem parts too - a deliberate deviation that the model keeps), then  *)
(*    gc.registerSnapshot; back in the introducer loop gc.clean unlinks    *)
(*    the previously registered manifest (no directory fsync afterwards).  *)
(*  mergeParts          output part written like a flushed part (files     *)
(*                      created first, written through bufio, fsync'ed at  *)
(*                      close; then tag.type, metadata.json atomically),   *)
(*                      introduceMerged -> manifest as above; the inputs   *)
(*                      are RemoveAll'ed when the last snapshot holding    *)
(*                      them is released (after the new manifest).         *)
(*  initTSTable         see Recover below.                                 *)
(* Three processes: flusher "F", merger "M", introducer "I" (manifest      *)
(* publication is serialised by the introducer).  Each holds a todo list   *)
(* of file-system operations; one action = one operation.  The data files  *)
(* of a part may be created/written/fsync'ed in any interleaving (pseudo   *)
(* operation "pw"): the flush order and the merge order are both included. *)
(***************************************************************************)
EXTENDS CrashFS, TLC

CONSTANTS MaxBatches,    \* batches acknowledged, 1..MaxBatches in order
          MaxMerges,
          HasTT,         \* parts carry a tag.type file
          Overlap,       \* flusher and merger may run at the same time
          CrashModels,   \* subset of {"kill9", "powerloss"}
          Required,      \* data files a part cannot be opened without (subset of DataFiles)
          Fixes          \* repairs applied to the recovery as coded at the pinned commit (subset of AllFixes);
                         \* {} = as pinned
AllFixes == {"clean-root-tmp",        \* initTSTable removes *.tmp files left in the table root
             "syncdir-before-metadata" \* the part directory is fsync'ed before metadata.json is written
            }

VARIABLES acked,      \* number of acknowledged batches
          nextPart,   \* curPartID
          epoch,      \* next epoch the introducer will use
          mem,        \* ids of the mem parts of the current snapshot
          fparts,     \* ids of the file parts of the current snapshot
          pcont,      \* {[p, b]} : part p contains batch b
          manif,      \* {[e, parts, fp]} : content of manifest e (all listed ids; those that were file parts)
          live,       \* gc.liveEpoch (0 = none)
          cover,      \* batches covered by the last durably published manifest
          todo,       \* [F, M, I] -> sequence of pending operations
          merges,
          phase,      \* "run" | "done" (crashed and recovered)
          rec,        \* the result of the recovery
          last        \* history: the step just taken

pvars == <<acked, nextPart, epoch, mem, fparts, pcont, manif, live, cover, todo, merges, phase, rec>>
vars  == <<fsvars, pvars, last>>
View  == <<fsvars, pvars>>

Procs == {"F", "M", "I"}
SysOps == {"mkdir", "create", "write", "fsync", "rename", "syncdir", "unlink", "rmall"}

Op(op, nm) == [op |-> op, nm |-> nm, to |-> nm, arg |-> {}, e |-> 0, fx |-> ""]
(* WriteAtomic(nm): create tmp, write, fsync, rename over nm, fsync the directory *)
WA(nm, dirnm) == << Op("create", Tmp(nm)), Op("write", Tmp(nm)), Op("fsync", Tmp(nm)),
                    [Op("rename", Tmp(nm)) EXCEPT !.to = nm], Op("syncdir", dirnm) >>
(* one part directory: mustFlush / the merge output *)
PartOps(x) == << Op("mkdir", DirNm(x)), Op("syncdir", RootNm), Op("pw", DirNm(x)) >>
              \o (IF HasTT THEN WA(TagNm(x), DirNm(x)) ELSE <<>>)
              \o (IF "syncdir-before-metadata" \in Fixes THEN << Op("syncdir", DirNm(x)) >> ELSE <<>>)
              \o WA(MetaNm(x), DirNm(x))

Min(S) == CHOOSE x \in S : \A y \in S : x <= y
Max(S) == CHOOSE x \in S : \A y \in S : x >= y
RECURSIVE FlushOps(_)
FlushOps(S) == IF S = {} THEN <<>> ELSE PartOps(Min(S)) \o FlushOps(S \ {Min(S)})

BatchesOf(P) == {r.b : r \in {q \in pcont : q.p \in P}}

NoRec == [panic |-> FALSE, miss |-> {}, served |-> {}, batches |-> {}, torn |-> {}, left |-> {}, stale |-> {}]

Init ==
  /\ FsInit
  /\ acked = 0 /\ nextPart = 0 /\ epoch = 1 /\ mem = {} /\ fparts = {} /\ pcont = {} /\ manif = {}
  /\ live = 0 /\ cover = {} /\ todo = [F |-> <<>>, M |-> <<>>, I |-> <<>>] /\ merges = 0
  /\ phase = "run" /\ rec = NoRec /\ last = [op |-> "init"]

(***************************************************************************)
(* Pseudo operations that need no system call are skipped as soon as their *)
(* condition holds, so that every transition is one observable event.      *)
(***************************************************************************)
PwComplete(x) ==
  /\ \A f \in Required : Has(vol, DataNm(x, f))
  /\ \A e \in vol : (e.nm.d = x /\ e.nm.k = "data") => (e.ino \in full /\ e.ino \notin dirty)
IntroPublished == \A i \in DOMAIN todo["I"] : todo["I"][i].op = "unlink"

RECURSIVE EffTodo(_)
EffTodo(t) ==
  IF t = <<>> THEN t
  ELSE IF Head(t).op = "pw" /\ PwComplete(Head(t).nm.e) THEN EffTodo(Tail(t))
  ELSE IF Head(t).op = "wait" /\ IntroPublished THEN EffTodo(Tail(t))
  ELSE IF Head(t).op = "rmset" /\ Head(t).arg = {} THEN EffTodo(Tail(t))
  ELSE t
Idle(p) == EffTodo(todo[p]) = <<>>

(***************************************************************************)
(* Ingestion and the start of maintenance (no system call)                 *)
(***************************************************************************)
Write ==
  /\ phase = "run" /\ acked < MaxBatches
  /\ acked' = acked + 1 /\ nextPart' = nextPart + 1 /\ epoch' = epoch + 1
  /\ mem' = mem \cup {nextPart + 1}
  /\ pcont' = pcont \cup {[p |-> nextPart + 1, b |-> acked + 1]}
  /\ last' = [op |-> "W", part |-> nextPart + 1]
  /\ UNCHANGED <<fsvars, fparts, manif, live, cover, todo, merges, phase, rec>>

StartFlush ==
  /\ phase = "run" /\ Idle("F") /\ mem # {} /\ (Overlap \/ Idle("M"))
  /\ todo' = [todo EXCEPT !["F"] = FlushOps(mem) \o << [Op("handoff", RootNm) EXCEPT !.arg = mem, !.fx = "flush"] >>]
  /\ last' = [op |-> "F", parts |-> mem]
  /\ UNCHANGED <<fsvars, acked, nextPart, epoch, mem, fparts, pcont, manif, live, cover, merges, phase, rec>>

StartMerge(inp) ==
  /\ phase = "run" /\ Idle("M") /\ merges < MaxMerges /\ (Overlap \/ Idle("F"))
  /\ inp \subseteq fparts /\ Cardinality(inp) >= 2
  /\ LET out == nextPart + 1 IN
       /\ nextPart' = out
       /\ pcont' = pcont \cup {[p |-> out, b |-> b] : b \in BatchesOf(inp)}
       /\ todo' = [todo EXCEPT !["M"] = PartOps(out) \o
                     << [Op("handoff", RootNm) EXCEPT !.arg = inp, !.e = out, !.fx = "merge"],
                        [Op("rmset", RootNm) EXCEPT !.arg = inp] >>]
       /\ last' = [op |-> "M", parts |-> inp, out |-> out]
  /\ merges' = merges + 1
  /\ UNCHANGED <<fsvars, acked, epoch, mem, fparts, manif, live, cover, phase, rec>>

(***************************************************************************)
(* One file-system operation of process p                                  *)
(***************************************************************************)
LastOf(o) == [op |-> o.op, nm |-> o.nm, to |-> o.to]

SysStep(p) ==
  LET t == EffTodo(todo[p]) IN
  /\ phase = "run" /\ t # <<>>
  /\ LET o == Head(t) IN
       /\ o.op \in SysOps
       /\ FsApply(o)
       /\ todo' = [todo EXCEPT ![p] = Tail(t)]
       /\ last' = LastOf(o)
       /\ IF o.fx = "pub"        \* WriteAtomic(manifest) returned: gc.registerSnapshot
            THEN /\ live' = o.e
                 /\ cover' = BatchesOf((CHOOSE m \in manif : m.e = o.e).fp)
            ELSE UNCHANGED <<live, cover>>
  /\ UNCHANGED <<acked, nextPart, epoch, mem, fparts, pcont, manif, merges, phase, rec>>

(* the data files of the part being written: create / write / fsync, any interleaving *)
PwStep(p, f, a) ==
  /\ phase = "run" /\ todo[p] # <<>> /\ Head(todo[p]).op = "pw"
  /\ LET nm == DataNm(Head(todo[p]).nm.e, f) IN
       /\ CASE a = "create" -> ~Has(vol, nm) /\ FsCreate(nm)
            [] a = "write"  -> Has(vol, nm) /\ InoOf(vol, nm) \notin full /\ FsWrite(nm, TRUE)
            [] a = "fsync"  -> Has(vol, nm) /\ InoOf(vol, nm) \in dirty /\ FsFsync(nm)
       /\ last' = [op |-> a, nm |-> nm, to |-> nm]
  /\ UNCHANGED pvars

(* the introducer takes the flushed / merged parts: new in-memory snapshot, then persistSnapshot; *)
(* the first observable step is the creation of the manifest's tmp file                           *)
Handoff(p) ==
  LET t == EffTodo(todo[p]) IN
  /\ phase = "run" /\ t # <<>> /\ Head(t).op = "handoff" /\ todo["I"] = <<>>
  /\ LET h  == Head(t)
         nf == IF h.fx = "flush" THEN fparts \cup h.arg ELSE (fparts \ h.arg) \cup {h.e}
         nm_ == IF h.fx = "flush" THEN mem \ h.arg ELSE mem
         wa == WA(SnpNm(epoch), RootNm)
         dels == IF live > 0 THEN << Op("unlink", SnpNm(live)) >> ELSE <<>>
     IN /\ FsApply(wa[1])
        /\ fparts' = nf /\ mem' = nm_ /\ epoch' = epoch + 1
        /\ manif' = manif \cup {[e |-> epoch, parts |-> nf \cup nm_, fp |-> nf]}
        /\ todo' = [todo EXCEPT ![p] = << [h EXCEPT !.op = "wait"] >> \o Tail(t),
                                !["I"] = << wa[2], wa[3], wa[4], [wa[5] EXCEPT !.fx = "pub", !.e = epoch] >> \o dels]
        /\ last' = LastOf(wa[1])
  /\ UNCHANGED <<acked, nextPart, pcont, live, cover, merges, phase, rec>>

(* the merged inputs are removed once the old snapshot is released (separate goroutines: any order) *)
RmStep(p, x) ==
  LET t == EffTodo(todo[p]) IN
  /\ phase = "run" /\ t # <<>> /\ Head(t).op = "rmset" /\ x \in Head(t).arg
  /\ FsRmAll(x)
  /\ todo' = [todo EXCEPT ![p] = << [Head(t) EXCEPT !.arg = @ \ {x}] >> \o Tail(t)]
  /\ last' = [op |-> "rmall", nm |-> DirNm(x), to |-> DirNm(x)]
  /\ UNCHANGED <<acked, nextPart, epoch, mem, fparts, pcont, manif, live, cover, merges, phase, rec>>

InflightRm == UNION {IF ~Idle(p) /\ Head(EffTodo(todo[p])).op = "rmset" THEN Head(EffTodo(todo[p])).arg ELSE {} : p \in Procs}

(***************************************************************************)
(* Recovery = initTSTable + loadSnapshot on an image [ns, full]            *)
(***************************************************************************)
IsFull(img, nm) == \E e \in img.ns : e.nm = nm /\ e.ino \in img.full
PartIds(ns)     == {e.nm.e : e \in {x \in ns : x.nm.k = "dir"}}
SnapIds(ns)     == {e.nm.e : e \in {x \in ns : x.nm.k = "snp" /\ ~x.nm.t}}
RmSnaps(ns, S)  == {e \in ns : ~(e.nm.k = "snp" /\ ~e.nm.t /\ e.nm.e \in S)}
(* CleanupLeftoverTmp(part x): a .tmp whose final file exists is removed *)
CleanTmp(ns, X) == {e \in ns : ~(e.nm.d \in X /\ e.nm.t /\ Has(ns, [e.nm EXCEPT !.t = FALSE]))}

Outcome(img, miss, served, ns) ==
  [panic   |-> miss # {},        \* mustOpenReader panics on a missing file
   miss    |-> miss,
   served  |-> served,
   batches |-> BatchesOf(served),
   torn    |-> {x \in served : \E e \in ns : e.nm.d = x /\ ~e.nm.t /\ e.ino \notin img.full},
   left    |-> {nm \in Names(ns) : nm.t}
               \cup {DirNm(x) : x \in PartIds(ns) \ served}
               \cup {SnpNm(s) : s \in {u \in SnapIds(ns) : ~IsFull(img, SnpNm(u))}},
   stale   |-> IF SnapIds(ns) = {} THEN {} ELSE SnapIds(ns) \ {Max(SnapIds(ns))}]

RootTmp(ns) == {e \in ns : e.nm.d = 0 /\ e.nm.t}
Recover(img) ==
  LET ns0   == IF "clean-root-tmp" \in Fixes THEN img.ns \ RootTmp(img.ns) ELSE img.ns
      pids  == PartIds(ns0)
      good  == {x \in pids : IsFull(img, MetaNm(x))}      \* validatePartMetadata: metadata.json reads and parses
      ns1   == RmDirs(ns0, pids \ good)                   \* "cannot validate part metadata. skip and delete it"
      snaps == SnapIds(ns0)                                \* *.snp only: a *.snp.tmp has extension .tmp and is skipped
      readable == {s \in snaps : IsFull(img, SnpNm(s))}
  IN IF img.ns = {} THEN Outcome(img, {}, {}, ns0)
     ELSE IF good = {} \/ snaps = {}                       \* no part or no manifest: drop both kinds
       THEN Outcome(img, {}, {}, RmSnaps(RmDirs(ns1, good), snaps))
     ELSE IF readable = {}                                 \* every manifest failed to load: parts are orphans
       THEN Outcome(img, {}, {}, RmDirs(ns1, good))
     ELSE LET s     == Max(readable)                       \* newest loadable manifest
              named == (CHOOSE m \in manif : m.e = s).parts
              miss  == {x \in good \cap named : \E f \in Required : ~Has(ns1, DataNm(x, f))}
              open  == good \cap named                     \* listed ids that are absent are silently skipped
              ns2   == RmDirs(ns1, good \ named)           \* gc.removePart of parts the manifest does not list
              ns3   == RmSnaps(CleanTmp(ns2, open), {t \in snaps : t > s})
          IN Outcome(img, miss, open, ns3)

Crash ==
  /\ phase = "run"
  /\ \E m \in CrashModels :
       \E img \in (IF m = "kill9" THEN KillImages(InflightRm) ELSE PowerImages(InflightRm)) :
          /\ rec' = Recover(img)
          /\ last' = [op |-> "crash", model |-> m]
  /\ phase' = "done"
  /\ UNCHANGED <<fsvars, acked, nextPart, epoch, mem, fparts, pcont, manif, live, cover, todo, merges>>

Next ==
  \/ Write
  \/ StartFlush
  \/ \E inp \in SUBSET fparts : StartMerge(inp)
  \/ \E p \in Procs : SysStep(p) \/ Handoff(p)
  \/ \E p \in Procs, f \in DataFiles, a \in {"create", "write", "fsync"} : PwStep(p, f, a)
  \/ \E p \in Procs, x \in fparts \cup PartIds(vol) : RmStep(p, x)
  \/ Crash

Spec == Init /\ [][Next]_vars

(***************************************************************************)
(* The property, after Crash;Recover                                       *)
(***************************************************************************)
Recovered == phase = "done"
OpensWithoutError   == Recovered => ~rec.panic
RecoveredIsPrefix   == Recovered => \E j \in 0..acked : rec.batches = 1..j
DurablePrefixKept   == Recovered => cover \subseteq rec.batches
NoTornFileServed    == Recovered => rec.torn = {}
NoDanglingManifestEntryServed == Recovered => rec.miss = {}   \* a listed part with a missing file is never opened
LeftoversCleaned    == Recovered => rec.left = {}
NoStaleManifest     == Recovered => rec.stale = {}     \* NOT part of the property; reported as an observation
PendBounded         == Len(pend) <= MaxPend   \* when it holds, EVERY loss subset was explored at every crash point

PartFileNames(x) == {MetaNm(x)} \cup {DataNm(x, f) : f \in Required} \cup (IF HasTT THEN {TagNm(x)} ELSE {})
FileDurable(ns, fl, dt, nm) == Has(ns, nm) /\ InoOf(ns, nm) \in fl /\ InoOf(ns, nm) \notin dt
PartDurable(ns, fl, dt, x) == Has(ns, DirNm(x)) /\ \A nm \in PartFileNames(x) : FileDurable(ns, fl, dt, nm)

(* a manifest naming file part p becomes durable only after p's files and dirents are durable *)
ManifestAfterParts ==
  [][\A m \in manif' : (Has(dur', SnpNm(m.e)) /\ ~Has(dur, SnpNm(m.e)))
        => (FileDurable(dur', full', dirty', SnpNm(m.e)) /\ \A x \in m.fp : PartDurable(dur', full', dirty', x))]_vars
(* an older manifest is unlinked only after a newer one is durable *)
OldManifestDeletedAfterNewDurable ==
  [][\A m \in manif : (Has(vol, SnpNm(m.e)) /\ ~Has(vol', SnpNm(m.e)))
        => \E n \in manif : n.e > m.e /\ FileDurable(dur, full, dirty, SnpNm(n.e))]_vars
(* a part directory is removed only after a durable manifest that does not list it covers its data *)
PartDeletedAfterSuccessorDurable ==
  [][\A x \in PartIds(vol) : ~Has(vol', DirNm(x))
        => \E n \in manif : /\ FileDurable(dur, full, dirty, SnpNm(n.e)) /\ x \notin n.parts
                            /\ BatchesOf({x}) \subseteq BatchesOf(n.fp)
                            /\ \A y \in n.fp : y \in fparts => PartDurable(dur, full, dirty, y)]_vars
=============================================================================
