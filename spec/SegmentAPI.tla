----------------------------- MODULE SegmentAPI -----------------------------
(***************************************************************************)
(* Segment lifetime as seen through the public TSDB interface              *)
(* (banyand/internal/storage tsdb.go, segment.go): every public call is    *)
(* one atomic step, issued by logical clients that keep the handles they   *)
(* were given until they release them.  (The interleavings INSIDE the      *)
(* calls are SegmentRef.tla's subject.)                                    *)
(*                                                                         *)
(*   rc[s]    segment.refCount: number of active references                *)
(*   Open     segments whose series index and shards are open              *)
(*   Flag     segments flagged for deletion (mustBeDeleted)                *)
(*   Dir      segments whose directory exists                              *)
(*   InList   segments the controller still lists                          *)
(*   handles  what clients hold: [c, s, pinned, k]; pinned = the call that *)
(*            returned the handle took a reference.  The non-reopening     *)
(*            selectors return unpinned handles for dormant or closed      *)
(*            segments; releasing such a handle must not release anything. *)
(*   tok[s]   pending unpinned releases (segment.unpinned): callers        *)
(*            release every handle they were given through the same        *)
(*            DecRef, which consumes a pending unpinned release before it  *)
(*            touches rc.  Releases are therefore fungible: rc may exceed  *)
(*            the number of pinned holders by exactly the number of        *)
(*            unpinned handles whose release was consumed by somebody      *)
(*            else, and never under-counts.                                *)
(***************************************************************************)
EXTENDS Integers, FiniteSets, TLC

CONSTANTS NSegs,       \* segments are 1..NSegs, numbered by age (1 = oldest)
          Clients,
          MaxHandles,
          MaxOps

VARIABLES rc, tok, Open, Flag, Dir, InList, handles, nextk, last, ops

Segs == 1..NSegs

vars == <<rc, tok, Open, Flag, Dir, InList, handles, nextk, last, ops>>

Init == /\ rc = [s \in Segs |-> 0] /\ tok = [s \in Segs |-> 0]
        /\ Open = Segs /\ Flag = {} /\ Dir = Segs /\ InList = Segs    \* created, written once, dormant
        /\ handles = {} /\ nextk = 1 /\ last = [op |-> "init"] /\ ops = 0

Step == ops < MaxOps /\ ops' = ops + 1

Pinned(s) == { h \in handles : h.s = s /\ h.pinned }

\* a pin followed by a release through DecRef: when a pending unpinned release exists the release consumes it, so one
\* reference moves from "pending unpinned release" to rc (the accounting identity is unchanged)
XferRc(S) == [s \in Segs |-> IF s \in S /\ tok[s] > 0 THEN rc[s] + 1 ELSE rc[s]]
XferTok(S) == [s \in Segs |-> IF s \in S /\ tok[s] > 0 THEN tok[s] - 1 ELSE tok[s]]

\* ---- acquisition -------------------------------------------------------
\* SelectSegments(range, reopenClosed=TRUE): a query / writer.  Every listed segment in the range is
\* reopened if needed and pinned.
AcquireReopen(c, S) ==
  /\ Step /\ S # {} /\ S \subseteq InList
  /\ Cardinality(handles) + Cardinality(S) <= MaxHandles
  /\ rc' = [s \in Segs |-> IF s \in S THEN rc[s] + 1 ELSE rc[s]]
  /\ Open' = Open \cup S
  /\ handles' = handles \cup { [c |-> c, s |-> s, pinned |-> TRUE, k |-> nextk] : s \in S }
  /\ nextk' = nextk + 1
  /\ last' = [op |-> "select", c |-> c, segs |-> S, reopen |-> TRUE, k |-> nextk]
  /\ UNCHANGED <<tok, Flag, Dir, InList>>

\* SelectSegments(range, reopenClosed=TRUE) where reopening the closed segment `bad` fails (its shard tables do not
\* open): the call fails as a whole.  Segments are visited newest first; those visited before `bad` were reopened and
\* pinned and must be released again (they stay open, dormant); nothing is handed out, nothing stays pinned.
AcquireReopenFails(c, S, bad) ==
  /\ Step /\ S # {} /\ S \subseteq InList /\ bad \in S /\ bad \notin Open /\ bad \notin Flag
  /\ Open' = Open \cup { s \in S : s > bad }
  \* (pin + release of the segments visited first: like a housekeeping scan, the release consumes a pending unpinned
  \* release if there is one - XferRc / XferTok are defined below)
  /\ rc' = XferRc({ s \in S : s > bad }) /\ tok' = XferTok({ s \in S : s > bad })
  /\ last' = [op |-> "selectfail", c |-> c, segs |-> S, bad |-> bad]
  /\ UNCHANGED <<Flag, Dir, InList, handles, nextk>>

\* SelectSegments(range, reopenClosed=FALSE): a read-only stats peek.  Pins a segment only if somebody
\* already holds it; never reopens, never touches a dormant one.
AcquirePeek(c, S) ==
  /\ Step /\ S # {} /\ S \subseteq InList
  /\ Cardinality(handles) + Cardinality(S) <= MaxHandles
  /\ rc' = [s \in Segs |-> IF s \in S /\ rc[s] > 0 THEN rc[s] + 1 ELSE rc[s]]
  /\ tok' = [s \in Segs |-> IF s \in S /\ rc[s] = 0 THEN tok[s] + 1 ELSE tok[s]]
  /\ handles' = handles \cup { [c |-> c, s |-> s, pinned |-> (rc[s] > 0), k |-> nextk] : s \in S }
  /\ nextk' = nextk + 1
  /\ last' = [op |-> "select", c |-> c, segs |-> S, reopen |-> FALSE, k |-> nextk]
  /\ UNCHANGED <<Open, Flag, Dir, InList>>

\* DecRef of one handle.  Dropping the last reference of a flagged segment deletes it.
Release(h) ==
  /\ Step /\ h \in handles
  /\ handles' = handles \ {h}
  /\ IF tok[h.s] > 0
       THEN /\ tok' = [tok EXCEPT ![h.s] = @ - 1]
            /\ UNCHANGED <<rc, Open, Dir>>
       ELSE /\ rc' = [rc EXCEPT ![h.s] = @ - 1]
            /\ IF rc[h.s] = 1 /\ h.s \in Flag
                 THEN Open' = Open \ {h.s} /\ Dir' = Dir \ {h.s}
                 ELSE UNCHANGED <<Open, Dir>>
            /\ UNCHANGED tok
  /\ last' = [op |-> "release", c |-> h.c, s |-> h.s, k |-> h.k, pinned |-> h.pinned]
  /\ UNCHANGED <<Flag, InList, nextk>>

\* ---- housekeeping ------------------------------------------------------
\* Housekeeping scans pin a set of segments and release them again through the same DecRef.  When a
\* pending unpinned release exists for such a segment the scan's own release consumes it, so one
\* reference moves from "pending unpinned release" to rc (the accounting identity is unchanged).

IdleReclaim ==     \* closeIdleSegments with every dormant segment past the idle threshold
  /\ Step
  /\ Open' = Open \ { s \in InList : rc[s] = 0 /\ s \notin Flag }
  /\ last' = [op |-> "idle"]
  /\ UNCHANGED <<rc, tok, Flag, Dir, InList, handles, nextk>>

\* delete(): flag; a dormant segment goes now, a held one at its last release.  The deleting scans pin
\* the referenced segments (rc>0) around the call.
DeleteSet(D, Pin) ==
  /\ Flag' = Flag \cup D
  /\ rc' = XferRc(Pin) /\ tok' = XferTok(Pin)
  /\ Open' = Open \ { s \in D : rc[s] = 0 }
  /\ Dir' = Dir \ { s \in D : rc[s] = 0 }
  /\ InList' = InList \ D

Retention(k) ==    \* retention run whose deadline expires every listed segment of rank <= k
  /\ Step
  /\ DeleteSet({ s \in InList : s <= k }, { s \in InList : rc[s] > 0 })
  /\ last' = [op |-> "retention", upto |-> k]
  /\ UNCHANGED <<handles, nextk>>

Forced ==          \* DeleteOldestSegment: the oldest listed one, never the last (no scan, no pin)
  /\ Step
  /\ DeleteSet(IF Cardinality(InList) > 1 THEN { s \in InList : \A t \in InList : s <= t } ELSE {}, {})
  /\ last' = [op |-> "forced"]
  /\ UNCHANGED <<handles, nextk>>

Scan(reopen) ==    \* rotation tick: segments(ctx, reopen) then DecRef of each
  /\ Step
  /\ Open' = IF reopen THEN Open \cup InList ELSE Open
  /\ LET P == IF reopen THEN InList ELSE { s \in InList : rc[s] > 0 }
     IN rc' = XferRc(P) /\ tok' = XferTok(P)
  /\ last' = [op |-> "scan", reopen |-> reopen]
  /\ UNCHANGED <<Flag, Dir, InList, handles, nextk>>

Snapshot ==        \* TakeFileSnapshot: pins open segments for the copy, links closed ones under their lock
  /\ Step /\ last' = [op |-> "snapshot", copied |-> InList \ Flag]
  /\ LET P == (InList \ Flag) \cap Open IN rc' = XferRc(P) /\ tok' = XferTok(P)
  /\ UNCHANGED <<Open, Flag, Dir, InList, handles, nextk>>

Collect ==         \* metrics collection (read lock only)
  /\ Step /\ last' = [op |-> "collect"]
  /\ UNCHANGED <<rc, tok, Open, Flag, Dir, InList, handles, nextk>>

Ranges == { {s} : s \in Segs } \cup { Segs }

Next == \/ \E c \in Clients, R \in Ranges : AcquireReopen(c, R \cap InList) \/ AcquirePeek(c, R \cap InList)
        \/ \E c \in Clients, R \in Ranges, bad \in Segs : AcquireReopenFails(c, R \cap InList, bad)
        \/ \E h \in handles : Release(h)
        \/ IdleReclaim
        \/ \E k \in 1..Cardinality(Segs) : Retention(k)
        \/ Forced
        \/ \E b \in BOOLEAN : Scan(b)
        \/ Snapshot
        \/ Collect

Spec == Init /\ [][Next]_vars

View == <<rc, tok, Open, Flag, Dir, InList, handles, ops>>

---------------------------------------------------------------------------
\* C14
Unpinned(s) == { h \in handles : h.s = s /\ ~h.pinned }
RcCoversHolders == \A s \in Segs : rc[s] >= Cardinality(Pinned(s))
Accounting ==            \* every reference and every pending unpinned release belongs to a live handle
  \A s \in Segs : /\ tok[s] >= 0 /\ tok[s] <= Cardinality(Unpinned(s))
                   /\ rc[s] - Cardinality(Pinned(s)) = Cardinality(Unpinned(s)) - tok[s]
OpenWhileHeld == \A s \in Segs : Pinned(s) # {} => (s \in Open /\ s \in Dir)
DeletedExactlyAtLastRelease ==
  \A s \in Flag : IF rc[s] > 0 THEN s \in Dir ELSE (s \notin Dir /\ s \notin Open)
NoResurrection == \A s \in Segs : s \notin Dir => s \notin Open
NoLeak == handles = {} => \A s \in Segs : rc[s] = 0 /\ tok[s] = 0
ListedOnDisk == \A s \in InList : s \in Dir /\ s \notin Flag
ReopenKeepsData ==        \* an idle-closed segment keeps its directory (and reopens on next access)
  \A s \in InList : s \notin Open => s \in Dir
ClosedStaysClosedOnSnapshot ==
  [][(last'.op \in {"snapshot", "collect"}) => Open' = Open]_vars
=============================================================================
