------------------------------- MODULE Backup -------------------------------
(* Incremental upload of one file snapshot to the remote store (banyand/backup/backup.go backupSnapshot), the last
   leg of C19: the copy a restore will read must be complete, and a failed backup must leave the previous one intact.

   Local  = files of the snapshot directory (manifests and parts alike)
   Remote0 = what the previous backup left under the same prefix (shared files are kept, the others are orphans)
   One action per step of the code:
     Walk(f)      filepath.Walk callback: already remote -> kept; otherwise a small-file upload is dispatched (g.Go)
     Done(f)      the upload goroutine of f returns: stored, or context.Canceled if the context was cancelled
     Cancel       the caller's context is cancelled (environment; any time)
     Finish       g.Wait() + error triage + pruning of orphans                                                   *)
EXTENDS Naturals, FiniteSets, Sequences

CONSTANTS Local, Remote0, SwallowCancel   \* SwallowCancel = TRUE: the mutation "a context.Canceled is never reported"

VARIABLES todo, inflight, remote, cancelled, failed, walkErr, result, last
vars == <<todo, inflight, remote, cancelled, failed, walkErr, result, last>>
view == <<todo, inflight, remote, cancelled, failed, walkErr, result>>

Init == /\ todo = Local /\ inflight = {} /\ remote = Remote0 /\ cancelled = FALSE /\ failed = FALSE
        /\ walkErr = FALSE /\ result = "running" /\ last = [op |-> "init", f |-> "-"]

Walking == result = "running" /\ ~walkErr /\ todo # {}

Walk(f) == /\ Walking /\ f \in todo
           /\ IF cancelled
                THEN walkErr' = TRUE /\ UNCHANGED <<todo, inflight>>      \* gctx.Err() != nil: stop walking
                ELSE /\ todo' = todo \ {f} /\ walkErr' = FALSE
                     /\ inflight' = IF f \in Remote0 THEN inflight ELSE inflight \cup {f}
           /\ last' = [op |-> "Walk", f |-> f]
           /\ UNCHANGED <<remote, cancelled, failed, result>>

Done(f) == /\ result = "running" /\ f \in inflight
           /\ inflight' = inflight \ {f}
           /\ IF cancelled THEN failed' = TRUE /\ UNCHANGED remote
                           ELSE remote' = remote \cup {f} /\ UNCHANGED failed
           /\ last' = [op |-> "Done", f |-> f]
           /\ UNCHANGED <<todo, cancelled, walkErr, result>>

Cancel == /\ result = "running" /\ ~cancelled /\ cancelled' = TRUE
          /\ last' = [op |-> "Cancel", f |-> "-"]
          /\ UNCHANGED <<todo, inflight, remote, failed, walkErr, result>>

Finish == /\ result = "running" /\ (todo = {} \/ walkErr) /\ inflight = {}
          /\ IF walkErr \/ (failed /\ ~SwallowCancel)
               THEN result' = "error" /\ UNCHANGED remote
               ELSE result' = "ok" /\ remote' = remote \ (Remote0 \ Local)   \* orphans pruned
          /\ last' = [op |-> "Finish", f |-> "-"]
          /\ UNCHANGED <<todo, inflight, cancelled, failed, walkErr>>

Next == (\E f \in Local : Walk(f) \/ Done(f)) \/ Cancel \/ Finish
Spec == Init /\ [][Next]_vars

(* C19: a backup that reports success is a complete copy of the snapshot, and nothing else. *)
SuccessIsComplete == result = "ok" => remote = Local
(* a failed backup leaves the previous copy restorable *)
FailureKeepsPrevious == result = "error" => Remote0 \subseteq remote
NothingPrunedEarly == result = "running" => Remote0 \subseteq remote
=============================================================================
