-------------------------------- MODULE Sidx --------------------------------
(***************************************************************************)
(* The ordered secondary index used by traces (banyand/internal/sidx:      *)
(* sidx.go, introducer.go, merge.go, query.go, iter.go, part_key_iter.go,  *)
(* block_scanner.go).                                                      *)
(*                                                                         *)
(* An index is a set of PARTS.  A part is a memory part or a file part and *)
(* holds entries (k, s, t): user key k (the index only compares it),       *)
(* series s, and an opaque payload t.  The payload is a token that is      *)
(* unique per written entry: the index must be the identity on it.         *)
(*                                                                         *)
(*   Write(b)     ConvertToMemPart + IntroduceMemPart: one new mem part    *)
(*   Flush(F)     Flush + IntroduceFlushed: mem parts F become file parts  *)
(*                with the same ids                                        *)
(*   Merge(M, D)  Merge(keep) + IntroduceMerged: parts M (mem or file, as  *)
(*                the trace merger does) are replaced by ONE new file      *)
(*                part.  keep is a predicate on the payload only; D is the *)
(*                set of payloads it rejects (D = {} is keep = nil, the    *)
(*                lossless bulk merge).                                    *)
(*   Query(q)     StreamingQuery / QuerySync.  Reads only.                 *)
(*                                                                         *)
(* What a query must return is DEFINED here (IsAnswer, IsTopN).  How the   *)
(* index computes it is modelled as designed: every part contributes one   *)
(* key-ordered run per query (part_key_iter / block cursors), the runs are *)
(* merged by key (iter + blockCursorHeap), the merged stream is cut into   *)
(* batches of at most MaxBatchSize entries.  The streaming entry point     *)
(* delivers all batches; the synchronous entry point returns everything    *)
(* when MaxBatchSize = 0 and otherwise stops once MaxBatchSize entries     *)
(* were collected (processSyncLoop's result budget): an ordered top-N.     *)
(* Ties between equal keys may come in any order; the model picks one.     *)
(*                                                                         *)
(* The last section models the scan the way query.go executes it: blocks   *)
(* (per part and series, BlockCap entries), visited by minKey (ASC) or by  *)
(* maxKey (DESC), loaded in scan batches, the heap drained between scan    *)
(* batches up to the bound of the next unscanned block.  ScanEmitsInOrder  *)
(* says that this produces THE ordered answer; with Bounded = FALSE (every *)
(* scan batch drained completely) TLC finds an out-of-order answer, which  *)
(* the check also executes on the real index.  Blocks of one series in one *)
(* part are taken to be disjoint here; a merge that cuts a block at the    *)
(* byte-size limit makes them overlap, which only the block-limit tier of  *)
(* the replay exercises.                                                   *)
(***************************************************************************)
EXTENDS Integers, Sequences, FiniteSets, TLC, SequencesExt    \* SequencesExt: SetToSortSeq, FlattenSeq (Java)

CONSTANTS Keys,         \* user keys, a set of small integers
          Series,       \* series ids
          MaxWrites,    \* number of Write steps
          MaxBatch,     \* entries per write batch
          MaxParts,     \* parts alive at the same time
          AllowDrop,    \* BOOLEAN: merges with a rejecting keep predicate are enabled
          BatchSizes,   \* MaxBatchSize values, 0 = unlimited
          FullMenu,     \* BOOLEAN: the Query action ranges over every query (else over a small menu)
          BlockCap,     \* entries per block (the code: maxBlockLength = 8192)
          ScanBatch,    \* blocks per scan batch when MaxBatchSize = 0 (the code: blockScannerBatchSize = 32)
          Bounded       \* BOOLEAN: emission between scan batches stops at the next block's bound (the design);
                        \* FALSE = every scan batch is drained completely (what query.go did before the repair)

VARIABLES parts,     \* set of [id, kind, ents]
          nextId,    \* next part id (the trace table's curPartID)
          nextTok,   \* next payload token
          writes,    \* number of writes so far
          last       \* history: the operation that produced this state (hidden by View)

vars == <<parts, nextId, nextTok, writes, last>>

Entry(k, s, t) == [k |-> k, s |-> s, t |-> t]

Ids == { p.id : p \in parts }
Contents == UNION { p.ents : p \in parts }
Tokens == { e.t : e \in Contents }
PartOf(e) == CHOOSE p \in parts : e \in p.ents

MinOf(a, b) == IF a <= b THEN a ELSE b

Init == /\ parts = {} /\ nextId = 1 /\ nextTok = 1 /\ writes = 0
        /\ last = [op |-> "init"]

---------------------------------------------------------------------------
\* Batches are sequences of (key, series) pairs in canonical (non-decreasing) order: the replayer
\* shuffles the request order.  The same pair may occur twice in one batch (duplicate sort keys).
Rank(x) == x[1] * 100 + x[2]
Canonical(b) == \A i \in 1..(Len(b) - 1) : Rank(b[i]) <= Rank(b[i + 1])

Write(b) ==
  /\ writes < MaxWrites /\ Cardinality(parts) < MaxParts
  /\ Canonical(b)
  /\ LET new == { Entry(b[i][1], b[i][2], nextTok + i - 1) : i \in 1..Len(b) }
     IN /\ parts' = parts \cup { [id |-> nextId, kind |-> "mem", ents |-> new] }
        /\ last' = [op |-> "write", id |-> nextId,
                    ents |-> [i \in 1..Len(b) |-> Entry(b[i][1], b[i][2], nextTok + i - 1)]]
  /\ nextId' = nextId + 1 /\ nextTok' = nextTok + Len(b) /\ writes' = writes + 1

Flush(F) ==
  /\ F # {} /\ F \subseteq { p \in parts : p.kind = "mem" }
  /\ parts' = (parts \ F) \cup { [p EXCEPT !.kind = "file"] : p \in F }
  /\ last' = [op |-> "flush", ids |-> { p.id : p \in F }]
  /\ UNCHANGED <<nextId, nextTok, writes>>

Merged(M, D) == { e \in UNION { p.ents : p \in M } : e.t \notin D }

Merge(M, D) ==
  /\ M \subseteq parts /\ Cardinality(M) >= 2
  /\ D \subseteq { e.t : e \in UNION { p.ents : p \in M } }
  /\ Cardinality(D) <= 1 /\ (D # {} => AllowDrop)
  /\ parts' = (parts \ M) \cup { [id |-> nextId, kind |-> "file", ents |-> Merged(M, D)] }
  /\ last' = [op |-> "merge", ids |-> { p.id : p \in M }, newid |-> nextId, drop |-> D]
  /\ nextId' = nextId + 1
  /\ UNCHANGED <<nextTok, writes>>

---------------------------------------------------------------------------
\* ---- queries: the reference -------------------------------------------
Q(S, lo, hi, asc) == [series |-> S, lo |-> lo, hi |-> hi, asc |-> asc]
Queries == { Q(S, lo, hi, asc) : S \in (SUBSET Series) \ {{}}, lo \in Keys, hi \in Keys, asc \in BOOLEAN }
ValidQ(q) == q.lo <= q.hi

MatchIn(E, q) == { e \in E : e.s \in q.series /\ q.lo <= e.k /\ e.k <= q.hi }
Matching(q) == MatchIn(Contents, q)

Before(a, b, asc) == IF asc THEN a.k <= b.k ELSE a.k >= b.k        \* non-strict: ties in any order
KeyOrdered(seq, asc) == \A i \in 1..(Len(seq) - 1) : Before(seq[i], seq[i + 1], asc)
Elems(seq) == { seq[i] : i \in DOMAIN seq }
NoRepeat(seq) == \A i, j \in DOMAIN seq : seq[i] = seq[j] => i = j

\* C09: a complete ordered query returns every matching entry exactly once, in key order
IsAnswer(seq, q) == NoRepeat(seq) /\ Elems(seq) = Matching(q) /\ KeyOrdered(seq, q.asc)

\* the ordered top-n: a prefix of an answer that holds at least n entries (or all of them)
IsTopN(seq, q, n) ==
  /\ NoRepeat(seq) /\ Elems(seq) \subseteq Matching(q) /\ KeyOrdered(seq, q.asc)
  /\ Len(seq) >= MinOf(n, Cardinality(Matching(q)))
  /\ \A e \in Elems(seq), m \in Matching(q) \ Elems(seq) : Before(e, m, q.asc)

\* ---- queries: the design ----------------------------------------------
\* Every part contributes one key-ordered run per query (ties inside a part: by payload, the model's
\* choice); the runs are merged by their heads, ties going to the lowest part id.  Written in closed
\* form (TLC evaluates operator arguments by name, recursive merges explode): the k-way merge of
\* sorted runs with that tie rule IS the sort by (key, part id, payload).  RunsPreserved states the
\* defining property of a merge: restricted to a part, the stream is that part's run.
Pid(e) == (CHOOSE p \in parts : e \in p.ents).id
LessIn(a, b, asc) == (IF asc THEN a.k < b.k ELSE a.k > b.k) \/ (a.k = b.k /\ a.t < b.t)
RunOf(p, q) == SetToSortSeq(MatchIn(p.ents, q), LAMBDA a, b : LessIn(a, b, q.asc))      \* the run of one part
Stream(q) ==
  LET M == Matching(q)
      pid == [e \in M |-> Pid(e)]
  IN SetToSortSeq(M, LAMBDA a, b : \/ (IF q.asc THEN a.k < b.k ELSE a.k > b.k)
                                   \/ a.k = b.k /\ pid[a] < pid[b]
                                   \/ a.k = b.k /\ pid[a] = pid[b] /\ a.t < b.t)

Sub(seq, E) == SelectSeq(seq, LAMBDA e : e \in E)       \* the subsequence of seq that lies in E

\* the stream cut into batches of at most mb entries (mb = 0: one batch)
Cut(seq, mb) ==
  IF seq = <<>> THEN <<>>
  ELSE IF mb = 0 THEN <<seq>>
  ELSE [j \in 1..((Len(seq) + mb - 1) \div mb) |-> SubSeq(seq, (j - 1) * mb + 1, MinOf(j * mb, Len(seq)))]

Flatten(bs) == FlattenSeq(bs)

StreamingBatches(q, mb) == Cut(Stream(q), mb)
\* processSyncLoop: everything, or (positive MaxBatchSize) the batches up to the result budget
SyncResult(q, mb) == LET st == Stream(q) IN IF mb = 0 THEN st ELSE SubSeq(st, 1, MinOf(mb, Len(st)))

\* The Query action: state is untouched; `last` carries what the spec defines as the result, so the
\* replayer compares the real answer with values computed by TLC.
Menu == IF FullMenu THEN { q \in Queries : ValidQ(q) }
        ELSE { q \in Queries : q.series = Series /\ (q.lo = Min(Keys) \/ q.lo = q.hi) /\ q.hi = Max(Keys) }
MenuBatch == IF FullMenu THEN BatchSizes ELSE { Min((BatchSizes \ {0}) \cup {Max(BatchSizes)}) }

Query(q) ==
  /\ parts # {} /\ last.op # "query"
  /\ LET st == Stream(q)
         ks == [i \in DOMAIN st |-> st[i].k]
         m == Matching(q)
     IN \E mb \in MenuBatch, mode \in {"stream", "sync"} :
          last' = [op |-> "query", series |-> q.series, lo |-> q.lo, hi |-> q.hi, asc |-> q.asc, mb |-> mb,
                   mode |-> mode, expect |-> m, keys |-> ks]
  /\ UNCHANGED <<parts, nextId, nextTok, writes>>

Next ==
  \/ \E n \in 1..MaxBatch : \E b \in [1..n -> Keys \X Series] : Write(b)
  \/ \E F \in SUBSET parts : Flush(F)
  \/ \E M \in SUBSET parts : \E D \in {{}} \cup { {t} : t \in Tokens } : Merge(M, D)
  \/ \E q \in Menu : Query(q)

Spec == Init /\ [][Next]_vars

View == <<parts, nextId, nextTok, writes>>

---------------------------------------------------------------------------
TypeOK ==
  /\ \A p \in parts : /\ p.kind \in {"mem", "file"} /\ p.id \in 1..(nextId - 1)
                      /\ \A e \in p.ents : e.k \in Keys /\ e.s \in Series /\ e.t \in 1..(nextTok - 1)
  /\ \A p, r \in parts : p.id = r.id => p = r
  /\ Cardinality(parts) <= MaxParts

\* an entry lives in exactly one part (flush and merge move entries, they never copy them)
EntriesInOnePart == \A p, r \in parts : p # r => p.ents \cap r.ents = {}
TokensUnique == \A e, f \in Contents : e.t = f.t => e = f
MemPartsNonEmpty == \A p \in parts : p.kind = "mem" => p.ents # {}

VQ == { q \in Queries : ValidQ(q) }

\* C09 (sidx): every query, over every distribution of the entries over parts
AnswerOK(st, q) == IsAnswer(st, q)
\* the stream is a merge of the parts' runs
RunsOK(st, q) == \A p \in parts : Sub(st, p.ents) = RunOf(p, q)
\* C09 (sidx): both entry points, every batch size
BatchingOK(st, q, mb) ==
  LET bs == Cut(st, mb)
      fl == Flatten(bs)
      sy == IF mb = 0 THEN st ELSE SubSeq(st, 1, MinOf(mb, Len(st)))
  IN /\ fl = st
     /\ \A i \in DOMAIN bs : bs[i] # <<>> /\ (mb > 0 => Len(bs[i]) <= mb)
     /\ IF mb = 0 THEN sy = fl
        ELSE IsTopN(sy, q, mb) /\ SubSeq(fl, 1, Len(sy)) = sy

QueryIsSortedAndExact == \A q \in VQ : AnswerOK(Stream(q), q)
RunsPreserved == \A q \in VQ : RunsOK(Stream(q), q)
StreamingEqualsSync == \A q \in VQ : \A mb \in BatchSizes : BatchingOK(Stream(q), q, mb)
\* the three together, evaluating each query's stream once (what the large configurations check)
QueryDesign ==
  \A q \in VQ : LET st == Stream(q)
                IN AnswerOK(st, q) /\ RunsOK(st, q) /\ \A mb \in BatchSizes : BatchingOK(st, q, mb)

---------------------------------------------------------------------------
\* ---- the scan as implemented (block_scanner.go, iter.go, query.go) ----------------------------------
\* A part stores, per series, its key-ordered run cut into blocks.  A query selects the blocks of its
\* series that overlap the key range, visits them ordered by minKey (ASC) or by maxKey (DESC), and loads
\* them into the merge heap in scan batches of MaxBatchSize blocks (ScanBatch when it is 0).  After every
\* scan batch the heap is drained up to the bound of the next unscanned block, completely after the last.
\* round(e) is the scan batch after which entry e is emitted; the answer is the entries by (round, key).
SeriesRun(p, s) == SetToSortSeq({ e \in p.ents : e.s = s }, LAMBDA a, b : LessIn(a, b, TRUE))
BlocksOf(p, s) == LET c == Cut(SeriesRun(p, s), BlockCap)
                  IN { [part |-> p.id, s |-> s, n |-> j, ents |-> Elems(c[j]), lo |-> c[j][1].k, hi |-> c[j][Len(c[j])].k] :
                       j \in DOMAIN c }
AllBlocks == UNION { BlocksOf(p, s) : p \in parts, s \in Series }
Tie(a, b) == \/ a.s < b.s
             \/ a.s = b.s /\ a.part < b.part
             \/ a.s = b.s /\ a.part = b.part /\ a.n < b.n
\* blocks: all blocks of the index
ScanOrder(blocks, q) ==
  SetToSortSeq({ b \in blocks : b.s \in q.series /\ b.hi >= q.lo /\ b.lo <= q.hi }, LAMBDA a, b :
     IF q.asc THEN \/ a.lo < b.lo
                   \/ a.lo = b.lo /\ a.hi < b.hi
                   \/ a.lo = b.lo /\ a.hi = b.hi /\ Tie(a, b)
              ELSE \/ a.hi > b.hi
                   \/ a.hi = b.hi /\ a.lo > b.lo
                   \/ a.hi = b.hi /\ a.lo = b.lo /\ Tie(b, a))

Emitted(blocks, q, mb) ==       \* [e |-> round] for the matching entries
  LET bl == ScanOrder(blocks, q)
      thr == IF mb > 0 THEN mb ELSE ScanBatch
      nb == (Len(bl) + thr - 1) \div thr
      bound == [j \in 1..(nb - 1) |-> IF q.asc THEN bl[j * thr + 1].lo ELSE bl[j * thr + 1].hi]
      free(k, j) == j = nb \/ (IF q.asc THEN k <= bound[j] ELSE k >= bound[j])
      loaded(e) == ((CHOOSE i \in DOMAIN bl : e \in bl[i].ents) - 1) \div thr + 1
  IN [e \in Matching(q) |-> IF Bounded THEN Min({ j \in loaded(e)..nb : free(e.k, j) }) ELSE loaded(e)]

EmitSeq(r, q) ==
  SetToSortSeq(DOMAIN r, LAMBDA a, b : \/ r[a] < r[b]
                                       \/ r[a] = r[b] /\ (IF q.asc THEN a.k < b.k ELSE a.k > b.k)
                                       \/ r[a] = r[b] /\ a.k = b.k /\ a.t < b.t)
\* processSyncLoop stops scanning after the round in which MaxBatchSize entries have been collected
SyncEmit(r, sq, mb) ==
  LET enough == { j \in { r[e] : e \in DOMAIN r } : Cardinality({ e \in DOMAIN r : r[e] <= j }) >= mb }
  IN IF mb = 0 \/ enough = {} THEN sq ELSE SelectSeq(sq, LAMBDA e : r[e] <= Min(enough))

\* C09 (sidx) for the scan as implemented: what is emitted batch after batch is THE ordered answer
ScanEmitsInOrder ==
  LET blocks == AllBlocks
  IN \A q \in VQ : \A mb \in BatchSizes :
       LET r == Emitted(blocks, q, mb)
           sq == EmitSeq(r, q)
       IN /\ IsAnswer(sq, q)
          /\ IF mb = 0 THEN IsAnswer(SyncEmit(r, sq, mb), q) ELSE IsTopN(SyncEmit(r, sq, mb), q, mb)

\* C03 (sidx): maintenance is invisible
FlushInvisible == [][last'.op = "flush" => Contents' = Contents]_vars
MergeInvisible == [][(last'.op = "merge" /\ last'.drop = {}) => Contents' = Contents]_vars
MergeDropsExactly ==
  [][last'.op = "merge" => Contents' = { e \in Contents : e.t \notin last'.drop }]_vars
QueriesUnchangedByMaintenance ==
  [][(last'.op = "flush" \/ (last'.op = "merge" /\ last'.drop = {})) =>
       \A q \in VQ : Matching(q)' = Matching(q)]_vars

\* C03 (sidx): merging any subset of parts yields a part whose contents equal the union of its inputs
MergedEqualsUnion ==
  [][last'.op = "merge" =>
       LET in == { p \in parts : p.id \in last'.ids }
           out == CHOOSE p \in parts' : p.id = last'.newid
       IN /\ Cardinality({ p \in parts' : p.id = last'.newid }) = 1
          /\ out.kind = "file"
          /\ out.ents = { e \in UNION { p.ents : p \in in } : e.t \notin last'.drop }
          /\ parts' \ {out} = parts \ in
          \* mergeBlocks merges the inputs' per-series runs by key: the output's run is ordered and
          \* keeps the order every input had
          /\ \A s \in Series :
               LET q == Q({s}, Min(Keys), Max(Keys), TRUE)
                   m == RunOf(out, q)
               IN /\ KeyOrdered(m, TRUE) /\ NoRepeat(m)
                  /\ \A p \in in : Sub(m, p.ents) = Sub(RunOf(p, q), out.ents)]_vars
WriteOnlyAdds ==
  [][last'.op = "write" => /\ Contents \subseteq Contents'
                           /\ Contents' \ Contents = Elems(last'.ents)
                           /\ Cardinality(Contents') = Cardinality(Contents) + Len(last'.ents)]_vars
QueryReadsOnly == [][last'.op = "query" => parts' = parts]_vars
=============================================================================
