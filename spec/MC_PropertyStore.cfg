\* Reference configuration (the check generates its per-tier configurations inline, see checks/c18.py).
SPECIFICATION Spec
CONSTANTS
  Replicas = {"a", "b", "c"}
  Keys = {"k1"}
  Tags = {"t1", "t2"}
  MaxOps = 3
  ReadRepairOn = TRUE
  CodedTies = FALSE
  None = None
INVARIANTS
  WellFormed
  MapEquivalence
  Converged
PROPERTIES
  MergeKeepsUnwrittenTags
  ReplaceDiscards
  CreateRevStable
  ModRevStrictlyIncreasing
  ReplicaMonotone
  RepairMonotone
VIEW View
