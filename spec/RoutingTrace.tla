--------------------------- MODULE RoutingTrace ---------------------------
(* Trace validation: Route events recorded from real coordinator processes  *)
(* (harness c16 -mode route), merged, must be a behaviour of Routing.       *)
EXTENDS Routing, Json, Sequences

Trace == ndJsonDeserialize("trace.ndjson")

VARIABLE l

Key(e) == IF e.event = "Route" THEN <<"w", e.subject, e.e1, e.e2>> ELSE <<"t", e.tid>>

TraceInit == RInit /\ l = 1

TraceRoute ==
  /\ l <= Len(Trace)
  /\ l' = l + 1
  /\ LET e == Trace[l] IN Route(e.coord, Key(e), e.shards, e.shard)

TraceSpec == TraceInit /\ [][TraceRoute]_<<rvars, l>>

TraceAccepted == TLCGet("stats").diameter - 1 = Len(Trace)
=============================================================================
