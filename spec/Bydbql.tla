------------------------------- MODULE Bydbql -------------------------------
(***************************************************************************)
(* C20 - bound BydbQL parameters are data, never syntax.                   *)
(*                                                                         *)
(* Models pkg/bydbql (parser.go, grammar.go, binder.go, prepared.go,       *)
(* transformer.go) and the liaison's prepared-statement cache              *)
(* (banyand/liaison/grpc/bydbql_cache.go, bydbql.go).                      *)
(*                                                                         *)
(* A statement is a record (the typed grammar tree of a bounded BydbQL     *)
(* grammar) whose value leaves are literals or the placeholder PH.         *)
(* Binding walks the placeholders in textual order (binder.collect /       *)
(* preparer.walkGrammar), resolves each parameter according to the KIND of *)
(* the position (count / time / scalar / list element) and substitutes the *)
(* resulting literal leaf (or, in a value list, the leaves an array expands *)
(* to).  It never touches anything but value leaves - that is the design   *)
(* stated here and what the conformance harness compares the real code to: *)
(*                                                                         *)
(*    result(stmt, params) = Transform(Literalise(stmt, params))           *)
(*    Shape(result)        = Shape(stmt)                                   *)
(*    Reject  iff  the vector is missing/surplus/ill-typed/out of range    *)
(*    the result depends on (stmt, params) only (no leak through the       *)
(*    prepared template or the cache)                                      *)
(*                                                                         *)
(* The text of a statement is NOT produced here: the statement record and  *)
(* its literalised twin are exported and rendered by ONE renderer in the   *)
(* harness (harness/pkg/c20, func render), which is the trusted definition *)
(* of "properly quoted literal".                                           *)
(*                                                                         *)
(* PROPERTY selects have one special position: a condition on `id`          *)
(* (transformer.go extractIDsFromPredicate) is not a tag condition, its     *)
(* values become the entries of QueryRequest.ids.  It binds like any other *)
(* comparison value / IN element, but has rules of its own on the literal  *)
(* statement: a string is taken as it is, an integer is written in decimal,*)
(* NULL is refused ("ID cannot be NULL"), only = and IN exist.              *)
(*                                                                         *)
(* Integers are tokens (TLC has 32-bit integers): the harness concretises  *)
(* "i32max" -> 2147483647 etc.; only their order matters here (IntToks).   *)
(***************************************************************************)
EXTENDS Integers, Sequences, FiniteSets, TLC

CONSTANTS Stmts,       \* the statements this run quantifies over (a subset of Grammar)
          Values,      \* the parameter value pool (a subset of AllValues)
          Paths,       \* subset of {"oneshot", "cached"}
          CacheSize,   \* count bound of the prepared cache (0 = caching disabled)
          MaxBytes,    \* byte bound (0 = none)
          MaxExec,     \* length of a history
          MaxStmts,    \* distinct statements per history
          FullUpTo,    \* statements with at most this many placeholders get the full product of Values
          Cost(_)      \* accounted bytes of a statement: len(text) + EstimatedSize (taken from the code)

VARIABLES cache,    \* sequence of [key, tmpl, cost], most recently used first
          evicted,  \* sequence of keys (hashes in the code), most recently evicted first
          hist,     \* set of [stmt, params, out]: every execution so far
          n,        \* number of executions
          last      \* the action that produced this state (replay input)

vars == <<cache, evicted, hist, n, last>>

-----------------------------------------------------------------------------
\* ---- leaves and values ----
\* (a value's field v is always a string and an array's field vs always a sequence: TLC cannot compare
\*  a string with a sequence, and it orders record fields in its own way)
PH     == [t |-> "ph"]
None   == [t |-> "absent"]
StrL(s) == [t |-> "str", v |-> s]
IntL(k) == [t |-> "int", v |-> k]      \* k is a token of IntToks
Null   == [t |-> "null"]

IntToks == <<"i64min", "-1", "0", "3", "7", "i32max", "i32max+1", "u32max", "u32max+1", "i64max">>
Rank(k) == CHOOSE i \in 1..Len(IntToks) : IntToks[i] = k
NonNeg(k)  == Rank(k) >= Rank("0")
FitsI32(k) == NonNeg(k) /\ Rank(k) <= Rank("i32max")
FitsU32(k) == NonNeg(k) /\ Rank(k) <= Rank("u32max")

\* strings with a meaning to the transformer: decimal integers (strconv.ParseInt) and RFC3339 times
IntTexts  == {"7", "-3"}
TimeTexts == {"2026-01-01T00:00:00Z", "2026-06-01T00:00:00Z", "2026-02-03T04:05:06Z",
              "2026-03-01T00:00:00Z", "2026-03-01T00:00:00.123456789Z"}

\* hostile strings: quotes, comment markers, list syntax, keywords, a placeholder, escapes, empty
HostileStrs == {"a' OR '1'='1", "x -- c", "/* c */", "a,b", "(", "SELECT", "", "?",
                "') OR s IN ('", "back\\slash\\'q", "dq\"q", "NULL", "1=1 LIMIT 1", "nl\nLIMIT 1"}

\* timestamp parameters: token -> what resolveTimeParam makes of it
ValidTs   == {"ts1", "ts2"}
TsText(k) == IF k = "ts1" THEN "2026-03-01T00:00:00Z" ELSE "2026-03-01T00:00:00.123456789Z"

AllValues ==
     { StrL(s) : s \in HostileStrs \cup IntTexts \cup {"2026-02-03T04:05:06Z", "b1", "b2", "b3", "b4", "b5", "b6"} }
  \cup { IntL(IntToks[i]) : i \in 1..Len(IntToks) }
  \cup { Null, [t |-> "none"], [t |-> "nil"], [t |-> "bin"] }     \* none: TagValue without value; nil: nil entry
  \cup { [t |-> "strs", vs |-> <<>>], [t |-> "strs", vs |-> <<"a,b">>], [t |-> "strs", vs |-> <<"x' OR '1'='1", "7">>],
         [t |-> "strs", vs |-> <<"7", "-3">>] }
  \cup { [t |-> "ints", vs |-> <<>>], [t |-> "ints", vs |-> <<"3">>], [t |-> "ints", vs |-> <<"i64max", "-1">>] }
  \cup { [t |-> "ts", v |-> k] : k \in {"ts1", "ts2", "tsrange", "tsnil"} }   \* tsrange: out of range, tsnil: nil inner

-----------------------------------------------------------------------------
\* ---- the bounded grammar ----
Kinds == {"stream", "measure", "trace", "property", "topn"}
TimeLitA == StrL("2026-01-01T00:00:00Z")
TimeLitB == StrL("2026-06-01T00:00:00Z")

\* every clause comes absent, literal, or with placeholders in each of its value positions; the
\* literal-only variants are kept few so that the product stays enumerable
TimeForms ==
  { [op |-> "none", args |-> <<>>],
    [op |-> "=", args |-> <<PH>>], [op |-> ">", args |-> <<PH>>], [op |-> ">", args |-> <<TimeLitA>>],
    [op |-> "between", args |-> <<PH, PH>>], [op |-> "between", args |-> <<TimeLitA, PH>>],
    [op |-> "between", args |-> <<PH, TimeLitB>>] }

\* a condition = [tag, op, form, args]; form "one": a single value (tag = v, tag MATCH(v), tag HAVING v),
\* form "many": a parenthesised value list (tag IN (..), tag MATCH((..)), tag HAVING (..))
Cond(tag, op, form, args) == [tag |-> tag, op |-> op, form |-> form, args |-> args]
CondsS == { Cond("s", "=", "one", <<StrL("lit")>>), Cond("s", "=", "one", <<PH>>), Cond("s", "!=", "one", <<PH>>),
            Cond("s", "IN", "many", <<PH>>), Cond("s", "IN", "many", <<StrL("lit"), PH>>), Cond("s", "IN", "many", <<PH, PH>>),
            Cond("s", "MATCH", "one", <<PH>>), Cond("s", "MATCH", "many", <<PH, StrL("lit")>>),
            Cond("s", "HAVING", "one", <<PH>>), Cond("s", "HAVING", "many", <<PH>>) }
CondsI == { Cond("i", ">", "one", <<IntL("3")>>), Cond("i", ">", "one", <<PH>>), Cond("i", "=", "one", <<PH>>),
            Cond("i", "IN", "many", <<PH, IntL("3")>>), Cond("i", "IN", "many", <<PH, PH>>),
            Cond("i", "HAVING", "one", <<PH>>), Cond("i", "HAVING", "many", <<PH, IntL("3")>>) }
\* the `id` position of a PROPERTY select: id = v, id IN (..); literal, placeholder and mixed lists (a literal
\* string before and a literal integer after the placeholder: an array parameter expands in the middle)
CondsID == { Cond("id", "=", "one", <<PH>>), Cond("id", "=", "one", <<StrL("lit")>>),
             Cond("id", "IN", "many", <<PH>>), Cond("id", "IN", "many", <<PH, PH>>),
             Cond("id", "IN", "many", <<StrL("lit"), PH, IntL("3")>>) }
\* the tag conditions an id condition is combined with (id first with a string tag, id second with an int tag)
IdMatesS == { Cond("s", "=", "one", <<PH>>), Cond("s", "=", "one", <<StrL("lit")>>), Cond("s", "IN", "many", <<PH, PH>>) }
IdMatesI == { Cond("i", ">", "one", <<PH>>), Cond("i", "IN", "many", <<PH, IntL("3")>>) }
CompareOps == {"=", "!=", ">"}

Wheres(joins) ==
       { [conds |-> <<>>, join |-> "AND"] }
  \cup { [conds |-> <<c>>, join |-> "AND"] : c \in CondsS \cup CondsI }
  \cup { [conds |-> <<c, d>>, join |-> j] : c \in CondsS, d \in CondsI, j \in joins }
  \cup { [conds |-> <<c>>, join |-> "AND"] : c \in CondsID }
  \cup { [conds |-> <<c, d>>, join |-> j] : c \in CondsID, d \in IdMatesS, j \in joins }
  \cup { [conds |-> <<d, c>>, join |-> j] : d \in IdMatesI, c \in CondsID, j \in joins }

LimOffs == { [l |-> None, f |-> None], [l |-> IntL("7"), f |-> None], [l |-> PH, f |-> None],
             [l |-> PH, f |-> PH], [l |-> IntL("7"), f |-> PH], [l |-> PH, f |-> IntL("3")] }
Tops == {None, IntL("3"), PH}

HasId(s) == \E j \in 1..Len(s.w.conds) : s.w.conds[j].tag = "id"

\* a statement = [kind, top, time, w = [conds, join], order, lo = [l, f]]
WellFormed(s) ==
  /\ s.kind \notin {"measure", "topn"} => s.top = None
  /\ s.kind = "topn" => s.top # None /\ s.lo = [l |-> None, f |-> None] /\ s.w.join = "AND"
  /\ s.kind = "property" => s.time.op = "none" /\ s.lo.f = None
  /\ HasId(s) => s.kind = "property"          \* anywhere else `id` would be an ordinary (unknown) tag

RawGrammar == [kind : Kinds, top : Tops, time : TimeForms, w : Wheres({"AND", "OR"}), order : {"none", "DESC"}, lo : LimOffs]

Grammar ==   \* (a filtered set of records: TLC enumerates it lazily, it is never built as a whole)
  { s \in RawGrammar : WellFormed(s) }

\* the well-formed statement nearest to an arbitrary combination of clauses (used to draw random statements)
NoId(w) == LET cs == SelectSeq(w.conds, LAMBDA c : c.tag # "id")
           IN [conds |-> cs, join |-> IF Len(cs) < 2 THEN "AND" ELSE w.join]
Norm(r) ==
  [r EXCEPT !.top = IF r.kind \notin {"measure", "topn"} THEN None ELSE IF r.kind = "topn" /\ r.top = None THEN PH ELSE r.top,
            !.time = IF r.kind = "property" THEN [op |-> "none", args |-> <<>>] ELSE r.time,
            !.w = IF r.kind = "topn" THEN [NoId(r.w) EXCEPT !.join = "AND"] ELSE IF r.kind = "property" THEN r.w ELSE NoId(r.w),
            !.lo = IF r.kind = "topn" THEN [l |-> None, f |-> None]
                   ELSE IF r.kind = "property" THEN [l |-> r.lo.l, f |-> None] ELSE r.lo]

-----------------------------------------------------------------------------
\* ---- placeholders in textual order (binder.collect, preparer.walkGrammar) ----
\* a slot = [k |-> kind of position, tag / op / form |-> the condition it belongs to ("-" when none)]
Slot(k, tag, op, form) == [k |-> k, tag |-> tag, op |-> op, form |-> form]
PhSlot(leaf, sl) == IF leaf = PH THEN <<sl>> ELSE <<>>

RECURSIVE ArgSlots(_, _)
ArgSlots(args, sl) == IF args = <<>> THEN <<>> ELSE PhSlot(Head(args), sl) \o ArgSlots(Tail(args), sl)

\* comparison values are scalar positions; IN / MATCH / HAVING values (single or listed) are list elements
CondSlots(c) == ArgSlots(c.args, Slot(IF c.op \in CompareOps THEN "scalar" ELSE "list", c.tag, c.op, c.form))

RECURSIVE WhereSlots(_)
WhereSlots(w) == IF w = <<>> THEN <<>> ELSE CondSlots(Head(w)) \o WhereSlots(Tail(w))

TimeSlots(s) == ArgSlots(s.time.args, Slot("time", "-", "-", "-"))
Slots(s) ==    PhSlot(s.top, Slot("count32", "-", "-", "-")) \o TimeSlots(s) \o WhereSlots(s.w.conds)
            \o PhSlot(s.lo.l, Slot("countu32", "-", "-", "-")) \o PhSlot(s.lo.f, Slot("countu32", "-", "-", "-"))

NumSlots(s) == Len(Slots(s))

\* clauses that are present but carry no placeholder (used by configurations to bound the literal clutter)
HasPh(args) == \E j \in 1..Len(args) : args[j] = PH
IsLit(leaf) == leaf # None /\ leaf # PH
LitClauses(s) ==   (IF IsLit(s.top) THEN 1 ELSE 0) + (IF s.time.op # "none" /\ ~HasPh(s.time.args) THEN 1 ELSE 0)
                 + Cardinality({ j \in 1..Len(s.w.conds) : ~HasPh(s.w.conds[j].args) })
                 + (IF IsLit(s.lo.l) THEN 1 ELSE 0) + (IF IsLit(s.lo.f) THEN 1 ELSE 0)

\* ---- resolving one parameter at one position (resolveCountParam / resolveTimeParam /
\*      resolveScalarParam / resolveListParam): the leaves it becomes, or a refusal ----
No == [ok |-> FALSE, vals |-> <<>>]
Yes(vals) == [ok |-> TRUE, vals |-> vals]
ScalarLeaf(p) == IF p.t = "null" THEN Null ELSE [t |-> p.t, v |-> p.v]

Resolve(slot, p) ==
  CASE slot.k = "count32"  -> IF p.t = "int" /\ FitsI32(p.v) THEN Yes(<<IntL(p.v)>>) ELSE No
    [] slot.k = "countu32" -> IF p.t = "int" /\ FitsU32(p.v) THEN Yes(<<IntL(p.v)>>) ELSE No
    [] slot.k = "time"     -> IF p.t = "str" THEN Yes(<<StrL(p.v)>>)
                              ELSE IF p.t = "ts" /\ p.v \in ValidTs THEN Yes(<<StrL(TsText(p.v))>>)   \* RFC3339Nano
                              ELSE No
    [] slot.k = "scalar"   -> IF p.t \in {"str", "int", "null"} THEN Yes(<<ScalarLeaf(p)>>) ELSE No
    [] slot.k = "list"     -> IF p.t \in {"str", "int", "null"} THEN Yes(<<ScalarLeaf(p)>>)
                              ELSE IF p.t = "strs" /\ p.vs # <<>> THEN Yes([i \in 1..Len(p.vs) |-> StrL(p.vs[i])])
                              ELSE IF p.t = "ints" /\ p.vs # <<>> THEN Yes([i \in 1..Len(p.vs) |-> IntL(p.vs[i])])
                              ELSE No

\* ---- substitution of value leaves only ----
RECURSIVE SubstArgs(_, _, _)
SubstArgs(args, rs, i) ==
  IF args = <<>> THEN <<>>
  ELSE IF Head(args) = PH THEN rs[i] \o SubstArgs(Tail(args), rs, i + 1)
  ELSE <<Head(args)>> \o SubstArgs(Tail(args), rs, i)

RECURSIVE SubstWhere(_, _, _)
SubstWhere(w, rs, i) ==
  IF w = <<>> THEN <<>>
  ELSE LET c == Head(w)
           a == SubstArgs(c.args, rs, i)
       IN  \* a single-value container stays single unless an array expanded it to several values
           << [c EXCEPT !.args = a, !.form = IF c.form = "one" /\ Len(a) # 1 THEN "many" ELSE c.form] >>
           \o SubstWhere(Tail(w), rs, i + Len(CondSlots(c)))

One(leaf, rs, i) == IF leaf = PH THEN rs[i][1] ELSE leaf
Inc(leaf) == IF leaf = PH THEN 1 ELSE 0

\* rs[i] = the leaves placeholder i resolves to
Subst(s, rs) ==
  LET i1 == 1 + Inc(s.top)
      i2 == i1 + Len(TimeSlots(s))
      i3 == i2 + Len(WhereSlots(s.w.conds))
      i4 == i3 + Inc(s.lo.l)
  IN [s EXCEPT !.top = One(s.top, rs, 1),
               !.time = [s.time EXCEPT !.args = SubstArgs(s.time.args, rs, i1)],
               !.w = [s.w EXCEPT !.conds = SubstWhere(s.w.conds, rs, i2)],
               !.lo = [l |-> One(s.lo.l, rs, i3), f |-> One(s.lo.f, rs, i4)]]

\* Bind: count check, then every parameter; one refusal refuses the whole statement (no partial result)
Bind(s, p) ==
  LET sl == Slots(s) IN
  IF Len(p) # Len(sl) THEN [ok |-> FALSE, why |-> "count"]
  ELSE IF \E i \in 1..Len(sl) : ~Resolve(sl[i], p[i]).ok THEN [ok |-> FALSE, why |-> "bind"]
  ELSE [ok |-> TRUE, lit |-> Subst(s, [i \in 1..Len(sl) |-> Resolve(sl[i], p[i]).vals])]

Literalise(s, p) == Bind(s, p).lit      \* defined when Bind(s, p).ok

\* ---- what the transformer checks on ANY literal statement (bound or written) ----
CountOK(leaf, u32) == leaf = None \/ (leaf.t = "int" /\ IF u32 THEN FitsU32(leaf.v) ELSE FitsI32(leaf.v))
TimeOK(leaf) == leaf.t = "str" /\ leaf.v \in TimeTexts
\* (an ID is any string, or an integer that is written in decimal; "ID cannot be NULL")
ValOK(tag, leaf) == IF tag = "id" THEN leaf.t \in {"str", "int"}
                    ELSE leaf.t \in {"int", "null"} \/ (leaf.t = "str" /\ (tag = "s" \/ leaf.v \in IntTexts))
CondOK(c) ==
  CASE c.op \in CompareOps -> ValOK(c.tag, c.args[1])
    [] c.op = "MATCH" -> \A j \in 1..Len(c.args) : c.args[j] # Null                  \* any value, taken as text
    [] c.op = "HAVING" /\ c.form = "one" -> ValOK(c.tag, c.args[1])
    [] OTHER -> \A j \in 1..Len(c.args) : ValOK(c.tag, c.args[j]) /\ c.args[j] # Null   \* IN, HAVING (..)
LitCheck(l) ==
  /\ CountOK(l.top, FALSE) /\ CountOK(l.lo.l, TRUE) /\ CountOK(l.lo.f, TRUE)
  /\ \A j \in 1..Len(l.time.args) : TimeOK(l.time.args[j])
  /\ \A j \in 1..Len(l.w.conds) : CondOK(l.w.conds[j])

\* ---- shape: everything but the values ----
\* (the conditions on tags become the criteria tree, the conditions on `id` the list of IDs: two places in the
\*  native request, each in textual order; join is the connective of the criteria, void with fewer than two)
Shape(l) == LET cc == SelectSeq(l.w.conds, LAMBDA c : c.tag # "id")
                ic == SelectSeq(l.w.conds, LAMBDA c : c.tag = "id")
            IN [kind |-> l.kind, top |-> l.top # None, time |-> l.time.op,
                where |-> [j \in 1..Len(cc) |-> [tag |-> cc[j].tag, op |-> cc[j].op]],
                ids |-> [j \in 1..Len(ic) |-> ic[j].op],
                join |-> l.w.join, order |-> l.order, limit |-> l.lo.l # None, offset |-> l.lo.f # None]

Rejected(why) == [rej |-> why]
Outcome(tmpl, p) ==
  LET b == Bind(tmpl, p) IN
  IF ~b.ok THEN Rejected(b.why)
  ELSE IF ~LitCheck(b.lit) THEN Rejected("check")
  ELSE [rej |-> "no", lit |-> b.lit, shape |-> Shape(b.lit)]

-----------------------------------------------------------------------------
\* ---- parameter vectors ----
\* a valid baseline, distinct per position so that a value landing in the wrong slot is visible
Base(slot, i) ==
  CASE slot.k \in {"count32", "countu32"} -> IntL(IF i % 2 = 1 THEN "3" ELSE "7")
    [] slot.k = "time" -> StrL(IF i % 2 = 1 THEN "2026-02-03T04:05:06Z" ELSE "2026-03-01T00:00:00Z")
    [] OTHER -> IF slot.tag \in {"s", "id"} THEN StrL(<<"b1", "b2", "b3", "b4", "b5", "b6">>[((i - 1) % 6) + 1])
                ELSE IntL(IF i % 2 = 1 THEN "7" ELSE "3")

BaseVector(s) == [i \in 1..NumSlots(s) |-> Base(Slots(s)[i], i)]

Vectors(s) ==
  LET k == NumSlots(s)
      b == BaseVector(s)
  IN (IF k <= FullUpTo THEN [1..k -> Values]
      ELSE { [b EXCEPT ![i] = v] : i \in 1..k, v \in Values })
     \cup {b, b \o <<StrL("b1")>>}                               \* surplus
     \cup (IF k > 0 THEN {SubSeq(b, 1, k - 1), <<>>} ELSE {})   \* missing

-----------------------------------------------------------------------------
\* ---- the prepared cache (bydbql_cache.go): hashicorp LRU + evicted-hash LRU + byte bound ----
Entry(s) == [key |-> s, tmpl |-> s, cost |-> Cost(s)]
Pos(k) == IF \E i \in 1..Len(cache) : cache[i].key = k
          THEN CHOOSE i \in 1..Len(cache) : cache[i].key = k ELSE 0

RECURSIVE Bytes(_)
Bytes(c) == IF c = <<>> THEN 0 ELSE Head(c).cost + Bytes(Tail(c))

Trim(q, m) == IF Len(q) > m THEN SubSeq(q, 1, m) ELSE q
NoteEvicted(ev, k) == Trim(<<k>> \o SelectSeq(ev, LAMBDA x : x # k), CacheSize)

RECURSIVE Shrink(_, _)
Shrink(c, ev) ==     \* store(): RemoveOldest while over the byte bound and more than one entry
  IF MaxBytes > 0 /\ Bytes(c) > MaxBytes /\ Len(c) > 1
  THEN Shrink(SubSeq(c, 1, Len(c) - 1), NoteEvicted(ev, c[Len(c)].key))
  ELSE [cache |-> c, evicted |-> ev]

GetOrPrepare(s) ==
  LET i == Pos(s) IN
  IF CacheSize = 0 THEN [res |-> "off", cache |-> cache, evicted |-> evicted, tmpl |-> s]
  ELSE IF i > 0 THEN      \* hit: Get moves the entry to the front; the CACHED template is used
    [res |-> "hit", cache |-> <<cache[i]>> \o SubSeq(cache, 1, i - 1) \o SubSeq(cache, i + 1, Len(cache)),
     evicted |-> evicted, tmpl |-> cache[i].tmpl]
  ELSE IF NumSlots(s) = 0 THEN [res |-> "bypass", cache |-> cache, evicted |-> evicted, tmpl |-> s]
  ELSE
    LET was == \E j \in 1..Len(evicted) : evicted[j] = s       \* judged before store()
    IN IF MaxBytes > 0 /\ Cost(s) > MaxBytes
       THEN [res |-> "reparse", cache |-> cache, evicted |-> evicted, tmpl |-> s]   \* too large to cache
       ELSE LET c1 == <<Entry(s)>> \o cache
                over == Len(c1) > CacheSize
                c2 == IF over THEN SubSeq(c1, 1, CacheSize) ELSE c1
                e2 == IF over THEN NoteEvicted(evicted, c1[Len(c1)].key) ELSE evicted
                sh == Shrink(c2, e2)
            IN [res |-> IF was THEN "reparse" ELSE "miss", cache |-> sh.cache, evicted |-> sh.evicted, tmpl |-> s]

-----------------------------------------------------------------------------
Init == cache = <<>> /\ evicted = <<>> /\ hist = {} /\ n = 0 /\ last = [op |-> "init"]

Used == { h.stmt : h \in hist }

Execute(s, p, path) ==
  /\ n < MaxExec
  /\ s \in Used \/ Cardinality(Used) < MaxStmts
  /\ LET g == IF path = "cached" THEN GetOrPrepare(s)
              ELSE [res |-> "-", cache |-> cache, evicted |-> evicted, tmpl |-> s]
         out == Outcome(g.tmpl, p)       \* bound view over the template; the template itself is not changed
     IN /\ cache' = g.cache
        /\ evicted' = g.evicted
        /\ hist' = hist \cup { [stmt |-> s, params |-> p, out |-> out] }
        /\ n' = n + 1
        /\ last' = [op |-> "exec", stmt |-> s, params |-> p, path |-> path, cres |-> g.res,
                    bytes |-> Bytes(g.cache)]

Next == /\ n < MaxExec      \* (hoisted: keeps TLC from enumerating the vectors in final states)
        /\ \E s \in Stmts, path \in Paths : \E p \in Vectors(s) : Execute(s, p, path)

Spec == Init /\ [][Next]_vars

View == <<cache, evicted, hist, n>>

-----------------------------------------------------------------------------
\* ---- C20 ----
\* declarative validity of a parameter at a position (docs/interacting/bydbql.md 2.6.1-2.6.3)
Accept(slot, p) ==
  CASE slot.k = "count32"  -> p.t = "int" /\ FitsI32(p.v)
    [] slot.k = "countu32" -> p.t = "int" /\ FitsU32(p.v)
    [] slot.k = "time"     -> (p.t = "str" /\ p.v \in TimeTexts) \/ (p.t = "ts" /\ p.v \in ValidTs)
    [] slot.k = "scalar" /\ slot.tag = "id" -> p.t \in {"str", "int"}                     \* id = ? : never NULL
    [] slot.k = "scalar"   -> p.t \in {"int", "null"} \/ (p.t = "str" /\ (slot.tag = "s" \/ p.v \in IntTexts))
    [] slot.k = "list" /\ slot.tag = "id" -> p.t \in {"str", "int"} \/ (p.t \in {"strs", "ints"} /\ p.vs # <<>>)   \* id IN (?)
    [] slot.k = "list" /\ slot.op = "MATCH" -> p.t \in {"str", "int"} \/ (p.t \in {"strs", "ints"} /\ p.vs # <<>>)
    [] slot.k = "list"     -> \/ p.t = "int"
                              \/ p.t = "null" /\ slot.op = "HAVING" /\ slot.form = "one"
                              \/ p.t = "str" /\ (slot.tag = "s" \/ p.v \in IntTexts)
                              \/ p.t = "ints" /\ p.vs # <<>>
                              \/ p.t = "strs" /\ p.vs # <<>> /\ (slot.tag = "s" \/ \A j \in 1..Len(p.vs) : p.vs[j] \in IntTexts)

ValidVector(s, p) == Len(p) = NumSlots(s) /\ \A i \in 1..Len(p) : Accept(Slots(s)[i], p[i])

RejectIffInvalid == \A h \in hist : (h.out.rej = "no") <=> ValidVector(h.stmt, h.params)

ShapePreserved == \A h \in hist : h.out.rej = "no" => /\ h.out.shape = Shape(h.stmt)
                                                      /\ NumSlots(h.out.lit) = 0      \* fully bound, never partially

NoLeak ==   \* the outcome is a function of (stmt, params), whatever happened before and on whichever path
  /\ \A a, b \in hist : (a.stmt = b.stmt /\ a.params = b.params) => a.out = b.out
  /\ \A h \in hist : h.out = Outcome(h.stmt, h.params)

CacheClean ==   \* a cached template is the parse of its key: no bound value ever reaches it
  /\ \A i \in 1..Len(cache) : cache[i].tmpl = cache[i].key /\ NumSlots(cache[i].tmpl) > 0
  /\ \A i, j \in 1..Len(cache) : i # j => cache[i].key # cache[j].key

CacheBounded ==
  /\ Len(cache) <= CacheSize
  /\ Len(evicted) <= CacheSize
  /\ MaxBytes > 0 => Bytes(cache) <= MaxBytes
=============================================================================
