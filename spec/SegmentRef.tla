--------------------------- MODULE SegmentRef ---------------------------
(***************************************************************************)
(* One storage segment's dormant-reference protocol                        *)
(* (banyand/internal/storage/segment.go) at the granularity of each atomic *)
(* operation / critical section, including the pending-unpinned-release    *)
(* counter (segment.unpinned): a handle returned without a reference is    *)
(* released through the same DecRef, which consumes a pending unpinned     *)
(* release before it touches refCount.                                     *)
(*                                                                         *)
(*   rc      segment.refCount   (atomic int32)                             *)
(*   open    segment.index != nil (resources open; protected by s.mu)      *)
(*   flag    segment.mustBeDeleted (atomic)                                *)
(*   dir     the segment directory exists on disk                          *)
(*   mu      holder of s.mu (write lock) or None                           *)
(*   old     lastAccessed < idleThreshold (time passing is a free action)  *)
(*                                                                         *)
(* Process kinds:                                                          *)
(*   "holder"  selectSegments(reopen=true)/createSegment: incRef, use,     *)
(*             DecRef                                                      *)
(*   "peeker"  selectSegments(reopen=false)/segments(false): pin only if   *)
(*             rc>0, else register an unpinned handle (tok+1); use; then   *)
(*             DecRef like everybody else                                  *)
(*   "reclaim" closeIfIdle                                                 *)
(*   "deleter" delete() (retention remove / removeOldest)                  *)
(***************************************************************************)
EXTENDS Integers, FiniteSets, TLC

CONSTANTS Holders, Peekers, Reclaimers, Deleters, None

Procs == Holders \cup Peekers \cup Reclaimers \cup Deleters

VARIABLES rc, tok, open, flag, dir, mu, old, pc, cur, owns, failed, ret

vars == <<rc, tok, open, flag, dir, mu, old, pc, cur, owns, failed, ret>>

Init ==
  /\ rc = 0 /\ tok = 0 /\ open = TRUE /\ flag = FALSE /\ dir = TRUE /\ mu = None /\ old = FALSE
  /\ pc = [p \in Procs |-> "start"]
  /\ cur = [p \in Procs |-> 0]
  /\ owns = [p \in Procs |-> FALSE]
  /\ failed = [p \in Procs |-> FALSE]
  /\ ret = [p \in Procs |-> "done"]   \* where performDelete returns to

Goto(p, l) == pc' = [pc EXCEPT ![p] = l]

(* ---------------- incRef (fast path) ---------------- *)
IncLoad(p) ==            \* current := atomic.LoadInt32(&s.refCount)
  /\ pc[p] = "inc_load"
  /\ cur' = [cur EXCEPT ![p] = rc]
  /\ IF rc <= 0 THEN Goto(p, "acq_lock") ELSE Goto(p, "inc_cas")
  /\ UNCHANGED <<rc, open, flag, dir, mu, old, owns, failed, tok, ret>>

IncCas(p) ==             \* CompareAndSwapInt32(&s.refCount, current, current+1)
  /\ pc[p] = "inc_cas"
  /\ IF rc = cur[p]
       THEN /\ rc' = rc + 1 /\ owns' = [owns EXCEPT ![p] = TRUE] /\ Goto(p, "use")
       ELSE /\ UNCHANGED <<rc, owns, tok, ret>> /\ Goto(p, "inc_load")
  /\ UNCHANGED <<open, flag, dir, mu, old, cur, failed, tok, ret>>

(* ---------------- acquire (slow path, under s.mu) ---------------- *)
AcqLock(p) ==
  /\ pc[p] = "acq_lock" /\ mu = None
  /\ mu' = p /\ Goto(p, "acq_check")
  /\ UNCHANGED <<rc, open, flag, dir, old, cur, owns, failed, tok, ret>>

AcqCheck(p) ==           \* if LoadInt32(&rc) > 0 { ... } else if flag ... else initialize
  /\ pc[p] = "acq_check"
  /\ IF rc > 0 THEN Goto(p, "acq_add")
     ELSE IF flag THEN Goto(p, "acq_refused")
     ELSE Goto(p, "acq_init")
  /\ UNCHANGED <<rc, open, flag, dir, mu, old, cur, owns, failed, tok, ret>>

AcqAdd(p) ==             \* atomic.AddInt32(&s.refCount, 1); unlock; return nil
  /\ pc[p] = "acq_add"
  /\ rc' = rc + 1 /\ owns' = [owns EXCEPT ![p] = TRUE] /\ mu' = None /\ Goto(p, "use")
  /\ UNCHANGED <<open, flag, dir, old, cur, failed, tok, ret>>

AcqRefused(p) ==         \* return ErrSegmentClosed
  /\ pc[p] = "acq_refused"
  /\ mu' = None /\ failed' = [failed EXCEPT ![p] = TRUE] /\ Goto(p, "done")
  /\ UNCHANGED <<rc, open, flag, dir, old, cur, owns, tok, ret>>

AcqInit(p) ==            \* initialize(): opens index + shards (creates files under the dir)
  /\ pc[p] = "acq_init"
  /\ open' = TRUE /\ dir' = TRUE
  /\ Goto(p, "acq_store")
  /\ UNCHANGED <<rc, flag, mu, old, cur, owns, failed, tok, ret>>

AcqStore(p) ==           \* atomic.StoreInt32(&s.refCount, 1); unlock
  /\ pc[p] = "acq_store"
  /\ rc' = 1 /\ owns' = [owns EXCEPT ![p] = TRUE] /\ mu' = None /\ Goto(p, "use")
  /\ UNCHANGED <<open, flag, dir, old, cur, failed, tok, ret>>

(* ---------------- the holder touches lastAccessed and uses the segment ---------------- *)
Use(p) ==
  /\ pc[p] = "use"
  /\ old' = IF p \in Holders THEN FALSE ELSE old   \* selectSegments(reopen=true) stores lastAccessed
  /\ Goto(p, "dec_begin")
  /\ UNCHANGED <<rc, open, flag, dir, mu, cur, owns, failed, tok, ret>>

(* ---------------- DecRef ---------------- *)
DecBegin(p) ==           \* the caller gives up its reference: from here on it no longer "holds"
  /\ pc[p] = "dec_begin"
  /\ owns' = [owns EXCEPT ![p] = FALSE] /\ Goto(p, "dec_tok_load")
  /\ UNCHANGED <<rc, open, flag, dir, mu, old, cur, failed, tok, ret>>

DecTokLoad(p) ==         \* if u := LoadInt32(&s.unpinned); u > 0 { CAS(u, u-1) ... }
  /\ pc[p] = "dec_tok_load"
  /\ cur' = [cur EXCEPT ![p] = tok]
  /\ IF tok > 0 THEN Goto(p, "dec_tok_cas") ELSE Goto(p, "dec_load")
  /\ UNCHANGED <<rc, tok, open, flag, dir, mu, old, owns, failed, ret>>

DecTokCas(p) ==
  /\ pc[p] = "dec_tok_cas"
  /\ IF tok = cur[p]
       THEN tok' = tok - 1 /\ Goto(p, "done")
       ELSE UNCHANGED tok /\ Goto(p, "dec_tok_load")
  /\ UNCHANGED <<rc, open, flag, dir, mu, old, cur, owns, failed, ret>>

DecLoad(p) ==
  /\ pc[p] = "dec_load"
  /\ cur' = [cur EXCEPT ![p] = rc]
  /\ IF rc <= 0 THEN Goto(p, "done") ELSE Goto(p, "dec_cas")
  /\ UNCHANGED <<rc, open, flag, dir, mu, old, owns, failed, tok, ret>>

DecCas(p) ==
  /\ pc[p] = "dec_cas"
  /\ IF rc = cur[p]
       THEN /\ rc' = rc - 1
            /\ IF cur[p] = 1 THEN Goto(p, "dec_flag") ELSE Goto(p, "done")
       ELSE /\ UNCHANGED rc /\ Goto(p, "dec_tok_load")
  /\ UNCHANGED <<open, flag, dir, mu, old, cur, owns, failed, tok, ret>>

DecFlag(p) ==            \* if current == 1 && LoadUint32(&mustBeDeleted) != 0 { performDelete() }
  /\ pc[p] = "dec_flag"
  /\ IF flag THEN Goto(p, "pd_lock") ELSE Goto(p, "done")
  /\ ret' = [ret EXCEPT ![p] = "done"]
  /\ UNCHANGED <<rc, open, flag, dir, mu, old, cur, owns, failed, tok>>

(* ---------------- performDelete ---------------- *)
PdLock(p) ==
  /\ pc[p] = "pd_lock" /\ mu = None
  /\ mu' = p /\ Goto(p, "pd_body")
  /\ UNCHANGED <<rc, open, flag, dir, old, cur, owns, failed, tok, ret>>

PdBody(p) ==             \* if rc > 0 return; closeResourcesLocked(); MustRMAll(location)
  /\ pc[p] = "pd_body"
  /\ IF rc > 0 THEN UNCHANGED <<open, dir, tok, ret>> ELSE (open' = FALSE /\ dir' = FALSE)
  /\ mu' = None
  /\ Goto(p, ret[p])
  /\ UNCHANGED <<rc, flag, old, cur, owns, failed, tok, ret>>

(* ---------------- peeker: pin only if already referenced ---------------- *)
PeekLoad(p) ==
  /\ pc[p] = "peek_load"
  /\ cur' = [cur EXCEPT ![p] = rc]
  /\ IF rc <= 0 THEN Goto(p, "peek_tok") ELSE Goto(p, "peek_cas")
  /\ UNCHANGED <<rc, open, flag, dir, mu, old, owns, failed, tok, ret>>

PeekTok(p) ==            \* atomic.AddInt32(&s.unpinned, 1): the handle is returned unpinned
  /\ pc[p] = "peek_tok"
  /\ tok' = tok + 1 /\ Goto(p, "use")
  /\ UNCHANGED <<rc, open, flag, dir, mu, old, cur, owns, failed, ret>>

PeekCas(p) ==
  /\ pc[p] = "peek_cas"
  /\ IF rc = cur[p]
       THEN /\ rc' = rc + 1 /\ owns' = [owns EXCEPT ![p] = TRUE] /\ Goto(p, "use")
       ELSE /\ UNCHANGED <<rc, owns, tok, ret>> /\ Goto(p, "peek_load")
  /\ UNCHANGED <<open, flag, dir, mu, old, cur, failed, tok, ret>>

(* ---------------- idle reclaimer: closeIfIdle ---------------- *)
IdleLock(p) ==
  /\ pc[p] = "idle_lock" /\ mu = None
  /\ mu' = p /\ Goto(p, "idle_body")
  /\ UNCHANGED <<rc, open, flag, dir, old, cur, owns, failed, tok, ret>>

IdleBody(p) ==
  /\ pc[p] = "idle_body"
  /\ IF open /\ rc = 0 /\ ~flag /\ old THEN open' = FALSE ELSE UNCHANGED open
  /\ mu' = None /\ Goto(p, "done")
  /\ UNCHANGED <<rc, flag, dir, old, cur, owns, failed, tok, ret>>

(* ---------------- deleter: segments(false) pin, delete(), DecRef ---------------- *)
DelFlag(p) ==            \* atomic.StoreUint32(&s.mustBeDeleted, 1)
  /\ pc[p] = "del_flag"
  /\ flag' = TRUE /\ Goto(p, "del_load")
  /\ UNCHANGED <<rc, open, dir, mu, old, cur, owns, failed, tok, ret>>

DelLoad(p) ==            \* if LoadInt32(&rc) == 0 { performDelete() }
  /\ pc[p] = "del_load"
  /\ IF rc = 0 THEN Goto(p, "pd_lock") ELSE Goto(p, "del_decref")
  /\ ret' = [ret EXCEPT ![p] = "del_decref"]      \* delete() is followed by the scan's own DecRef
  /\ UNCHANGED <<rc, open, flag, dir, mu, old, cur, owns, failed, tok>>

DelDecRef(p) ==          \* s.DecRef() at the end of remove(): same convention as the peeker
  /\ pc[p] = "del_decref"
  /\ Goto(p, "dec_begin")
  /\ UNCHANGED <<rc, open, flag, dir, mu, old, cur, owns, failed, tok, ret>>

(* ---------------- time passes ---------------- *)
Tick == /\ ~old /\ old' = TRUE
        /\ UNCHANGED <<rc, open, flag, dir, mu, pc, cur, owns, failed, tok, ret>>

Start(p) ==
  /\ pc[p] = "start"
  /\ Goto(p, CASE p \in Holders    -> "inc_load"
               [] p \in Peekers    -> "peek_load"
               [] p \in Reclaimers -> "idle_lock"
               [] p \in Deleters   -> "peek_load_del")
  /\ UNCHANGED <<rc, open, flag, dir, mu, old, cur, owns, failed, tok, ret>>

\* the deleter first runs segments(ctx,false): same pin-if-referenced as the peeker, then delete()
DelPeekLoad(p) ==
  /\ pc[p] = "peek_load_del"
  /\ cur' = [cur EXCEPT ![p] = rc]
  /\ IF rc <= 0 THEN Goto(p, "peek_tok_del") ELSE Goto(p, "peek_cas_del")
  /\ UNCHANGED <<rc, open, flag, dir, mu, old, owns, failed, tok, ret>>

DelPeekTok(p) ==
  /\ pc[p] = "peek_tok_del"
  /\ tok' = tok + 1 /\ Goto(p, "del_flag")
  /\ UNCHANGED <<rc, open, flag, dir, mu, old, cur, owns, failed, ret>>

DelPeekCas(p) ==
  /\ pc[p] = "peek_cas_del"
  /\ IF rc = cur[p]
       THEN /\ rc' = rc + 1 /\ owns' = [owns EXCEPT ![p] = TRUE] /\ Goto(p, "del_flag")
       ELSE /\ UNCHANGED <<rc, owns, tok, ret>> /\ Goto(p, "peek_load_del")
  /\ UNCHANGED <<open, flag, dir, mu, old, cur, failed, tok, ret>>

Step(p) ==
  \/ Start(p) \/ IncLoad(p) \/ IncCas(p) \/ AcqLock(p) \/ AcqCheck(p) \/ AcqAdd(p)
  \/ AcqRefused(p) \/ AcqInit(p) \/ AcqStore(p) \/ Use(p) \/ DecBegin(p) \/ DecLoad(p)
  \/ DecCas(p) \/ DecFlag(p) \/ PdLock(p) \/ PdBody(p) \/ PeekLoad(p) \/ PeekCas(p)
  \/ IdleLock(p) \/ IdleBody(p) \/ DelFlag(p) \/ DelLoad(p) \/ DelDecRef(p)
  \/ DelPeekLoad(p) \/ DelPeekCas(p) \/ DelPeekTok(p) \/ PeekTok(p) \/ DecTokLoad(p) \/ DecTokCas(p)

Next == Tick \/ \E p \in Procs : Step(p)

Spec == Init /\ [][Next]_vars

(* ---------------- properties (C14) ---------------- *)
\* While any process holds the segment, its resources stay open and its directory stays on disk.
OpenWhileHeld == \A p \in Procs : owns[p] => (open /\ dir)

\* A segment whose directory was removed is never reopened.
NoResurrection == (flag /\ ~dir) => ~open

\* The reference count never under-counts the real holders.
CountCoversHolders == rc >= Cardinality({p \in Procs : owns[p]})

\* Quiescent states leave no reference behind.
AllDone == \A p \in Procs : pc[p] = "done"
NoLeak == AllDone => (rc = 0 /\ tok = 0)
TokNonNegative == tok >= 0 /\ rc >= 0
=============================================================================
