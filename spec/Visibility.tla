----------------------------- MODULE Visibility -----------------------------
(***************************************************************************)
(* What concurrent clients of one shard may observe (C05, with C01's       *)
(* "immediately after the acknowledgement"): write batches become visible  *)
(* atomically, at some point between the start of the write and its        *)
(* acknowledgement, and stay visible while maintenance (flush, merge,      *)
(* garbage collection) runs.  A query evaluates one point-in-time view:    *)
(*   - every batch acknowledged before the query began is in the view,     *)
(*   - a batch is in the view with ALL its rows or not at all,             *)
(*   - nothing that was not written (or not yet begun) is in the view,     *)
(*   - no row twice (a merged part together with its inputs).              *)
(***************************************************************************)
EXTENDS Integers, FiniteSets, Sequences, TLC

CONSTANTS Batches, MaxRows, Queries

VARIABLES begun,    \* set of [b, rows] whose write began
          acked,    \* batches acknowledged
          visible,  \* batches introduced into the shard's snapshot (the linearization point of a write)
          must      \* query -> batches it is obliged to see (those acknowledged when it began)

vvars == <<begun, acked, visible, must>>

VInit == begun = {} /\ acked = {} /\ visible = {} /\ must = {}

WriteBegin(b, n) ==
  /\ ~\E x \in begun : x.b = b
  /\ begun' = begun \cup {[b |-> b, rows |-> n]} /\ UNCHANGED <<acked, visible, must>>

Introduce(b) ==           \* internal: the batch's part enters the snapshot, all rows at once
  /\ (\E x \in begun : x.b = b) /\ b \notin visible
  /\ visible' = visible \cup {b} /\ UNCHANGED <<begun, acked, must>>

WriteAck(b) ==            \* the acknowledgement is sent only after the introduction
  /\ b \in visible /\ b \notin acked
  /\ acked' = acked \cup {b} /\ UNCHANGED <<begun, visible, must>>

QueryBegin(q) ==
  /\ ~\E m \in must : m.q = q
  /\ must' = must \cup {[q |-> q, bs |-> acked]} /\ UNCHANGED <<begun, acked, visible>>

RowsOf(b) == (CHOOSE x \in begun : x.b = b).rows

\* seen = set of <<batch, count>>: what the response contained
QueryEnd(q, seen) ==
  /\ \E m \in must : m.q = q /\ m.bs \subseteq { s[1] : s \in seen }
  /\ \A s \in seen : s[1] \in visible /\ s[2] = RowsOf(s[1])
  /\ must' = { m \in must : m.q # q } /\ UNCHANGED <<begun, acked, visible>>

VNext == \/ \E b \in Batches, n \in 1..MaxRows : WriteBegin(b, n)
         \/ \E b \in Batches : Introduce(b) \/ WriteAck(b)
         \/ \E q \in Queries : QueryBegin(q)
         \/ \E q \in Queries : \E V \in SUBSET visible : QueryEnd(q, { <<b, RowsOf(b)>> : b \in V })

VSpec == VInit /\ [][VNext]_vvars

AckedAreVisible == acked \subseteq visible
VisibleWereBegun == \A b \in visible : \E x \in begun : x.b = b
=============================================================================
