------------------------- MODULE TSTableCrashTrace -------------------------
(***************************************************************************)
(* Trace validation for C04: the syscall log recorded from the REAL        *)
(* banyand/measure flush / merge / manifest publication (pkg/fs tracer,    *)
(* harness c04) must be a behaviour of TSTableCrash - every operation in   *)
(* the order the protocol prescribes (a missing fsync, a rename before the *)
(* fsync, metadata before the data files are synced, a manifest before its *)
(* parts, an unlink of the old manifest before the new one is durable =>   *)
(* no successor => rejected).  All invariants and action properties of the *)
(* spec are evaluated along the trace.                                     *)
(* The run also EMITS THE ORACLE for the fault enumeration (DESIGN 4.3):   *)
(* after every event the acknowledged prefix, the batches covered by the   *)
(* last durably published manifest, the un-synced name-space effects and   *)
(* the dirty inodes - i.e. what a crash at that point may lose and what    *)
(* the recovery must still serve.                                          *)
(***************************************************************************)
EXTENDS TSTableCrash, Json

Trace == ndJsonDeserialize("trace.ndjson")

VARIABLES l, orc
tvars == <<vars, l, orc>>

ToSet(s) == {s[i] : i \in DOMAIN s}

TraceInit == Init /\ l = 1 /\ orc = <<>>

Matches(e) == last'.op = e.op /\ last'.nm = e.nm /\ last'.to = e.to

Consume(e) ==
  \/ e.ev = "W" /\ Write /\ nextPart' = e.part
  \/ e.ev = "F" /\ StartFlush /\ mem = ToSet(e.parts)
  \/ e.ev = "M" /\ StartMerge(ToSet(e.parts)) /\ nextPart' = e.out
  \/ /\ e.ev = "sys"
     /\ \/ \E p \in Procs : SysStep(p) \/ Handoff(p)
        \/ \E p \in Procs : e.nm.k = "data" /\ e.op \in {"create", "write", "fsync"} /\ PwStep(p, e.nm.f, e.op)
        \/ \E p \in Procs : e.op = "rmall" /\ RmStep(p, e.nm.e)
     /\ Matches(e)

Oracle(e) == [seq |-> e.seq, acked |-> acked', cover |-> cover',
              pend |-> [i \in DOMAIN pend' |-> [op |-> pend'[i].op, nm |-> pend'[i].nm, to |-> pend'[i].to]],
              dirty |-> dirty']

TraceStep ==
  /\ l <= Len(Trace)
  /\ Consume(Trace[l])
  /\ l' = l + 1
  /\ orc' = Append(orc, Oracle(Trace[l]))

TraceFinish ==
  /\ l = Len(Trace) + 1
  /\ ndJsonSerialize("oracle.ndjson", orc)
  /\ l' = l + 1
  /\ UNCHANGED <<vars, orc>>

TraceSpec == TraceInit /\ [][TraceStep \/ TraceFinish]_tvars

TraceAccepted == TLCGet("stats").diameter - 2 = Len(Trace)
=============================================================================
