SPECIFICATION Spec
CONSTANTS
  Groups = {1, 2}
  Nodes = {1, 2, 3}
  MaxShards = 2
  MaxReplicas = 1
  MaxEvents = 4
INVARIANTS
  Total
  Functional
  ReplicaDisjoint
  Confluent
  Balanced
