--------------------------- MODULE PropertyStore ---------------------------
(***************************************************************************)
(* C18 - properties are last-writer-wins and replicas converge.            *)
(*                                                                         *)
(* The property store of BanyanDB: a liaison (banyand/liaison/grpc/        *)
(* property.go) in front of the replicas of one shard (banyand/property/db *)
(* shard.go), every replica an inverted index of DOCUMENTS.  A document is *)
(* one revision of one property:                                           *)
(*                                                                         *)
(*   [r, k, rev, crev, tags, del]   replica, key (group/name/id),          *)
(*                                  ModRevision, CreateRevision,           *)
(*                                  tags = set of [t, v], del = tombstone? *)
(*                                                                         *)
(* The document id is key/rev (db.GetPropertyID), so a replica holds at    *)
(* most one document per key and revision, and writing a document with an  *)
(* existing id replaces it.  deleteTime is abstracted to "deleted or not": *)
(* the property only distinguishes a value from a tombstone.               *)
(*                                                                         *)
(* Client history (sequential, one liaison):                               *)
(*   Apply(k, merge|replace, T, S)  propertyServer.Apply: read ALL         *)
(*        replicas (queryProperties), take the newest previous revision    *)
(*        (findPrevAndOlderProperties; a tombstone is "no previous"),      *)
(*        compute the new document (mergeProperty / replaceProperty:       *)
(*        ModRevision = now, CreateRevision kept or = now), write it to    *)
(*        the replicas S that are reached (the others miss it), then       *)
(*        tombstone on S every older live document that was read (remove). *)
(*   Delete(k, S)   propertyServer.Delete: read all, send the ids of all   *)
(*        live documents to S; shard.deleteFromTime re-writes each of them *)
(*        with a deleteTime and THE SAME REVISION.                         *)
(*   Query          dedup across replicas by highest revision.  Because a  *)
(*        delete keeps the revision, the tombstone of a revision is the    *)
(*        later state of that revision: on a revision tie the tombstone    *)
(*        wins (sortedQueryWithDedup / simpleDedupWithoutSort).            *)
(* Anti-entropy:                                                           *)
(*   Repair(a, b, k)  a's newest document of k is offered to b             *)
(*        (shard.repair): no local document => insert; local newer =>      *)
(*        refuse; equal revision => only a tombstone may replace a value;  *)
(*        otherwise tombstone the local live documents and insert.         *)
(*   ReadRepair(k)  propertyServer.Query + repairQueue: the dedup winner   *)
(*        is offered to every replica that does not hold it.               *)
(*                                                                         *)
(* `model` is the reference: a plain sequential map key -> value, updated  *)
(* by the client operations only, with no notion of replicas.              *)
(*                                                                         *)
(* CodedTies = TRUE replaces the repair tie rule by the one found in the   *)
(* pinned tree (equal revision and different deleteTime => proceed, in     *)
(* both directions); it exists only to show that the invariants below      *)
(* reject it (DESIGN.md S10).  The design stated here is CodedTies = FALSE.*)
(***************************************************************************)
EXTENDS Integers, FiniteSets, TLC

CONSTANTS Replicas,      \* e.g. {"a", "b", "c"}
          Keys,          \* e.g. {"k1", "k2"}
          Tags,          \* e.g. {"t1", "t2"}
          MaxOps,        \* bound on client operations (Apply + Delete)
          ReadRepairOn,  \* BOOLEAN: include the liaison's read repair
          CodedTies,     \* BOOLEAN: see above
          None           \* model value

VARIABLES docs,    \* set of documents on all replicas
          model,   \* set of [k, rev, crev, tags]: the sequential map (absent key = no value)
          clock,   \* liaison clock: the next revision
          nops,    \* client operations so far
          last     \* history: the action that produced this state (replay input)

vars == <<docs, model, clock, nops, last>>

Strategies == {"merge", "replace"}

---------------------------------------------------------------------------
\* documents, versions, "newest"
At(r, k) == { d \in docs : d.r = r /\ d.k = k }
Ver(d) == [rev |-> d.rev, crev |-> d.crev, tags |-> d.tags, del |-> d.del]
Versions(S, k) == { Ver(d) : d \in { e \in docs : e.r \in S /\ e.k = k } }

\* strict order on versions: higher revision, and on one revision the tombstone is the later state
Newer(x, y) == x.rev > y.rev \/ (x.rev = y.rev /\ x.del /\ ~y.del)
MaxVer(V) == CHOOSE x \in V : \A y \in V : ~Newer(y, x)

Newest(S, k) == IF Versions(S, k) = {} THEN None ELSE MaxVer(Versions(S, k))
Latest(r, k) == Newest({r}, k)

Value(v) == IF v = None THEN None
            ELSE IF v.del THEN None
            ELSE [rev |-> v.rev, crev |-> v.crev, tags |-> v.tags]

\* what a query that reaches the replicas S answers for key k (None = not found)
QueryAt(S, k) == Value(Newest(S, k))
Query(k) == QueryAt(Replicas, k)

ModelVal(k) == IF \E m \in model : m.k = k
               THEN LET m == CHOOSE x \in model : x.k = k
                    IN [rev |-> m.rev, crev |-> m.crev, tags |-> m.tags]
               ELSE None

LiveRevs(k) == { d.rev : d \in { e \in docs : e.k = k /\ ~e.del } }

\* shard.deleteFromTime on the replicas S for the document ids k/rev, rev \in revs
Tombstone(S, k, revs) ==
  { IF d.r \in S /\ d.k = k /\ d.rev \in revs THEN [d EXCEPT !.del = TRUE] ELSE d : d \in docs }

MkDoc(r, k, v) == [r |-> r, k |-> k, rev |-> v.rev, crev |-> v.crev, tags |-> v.tags, del |-> v.del]

---------------------------------------------------------------------------
Init ==
  /\ docs = {} /\ model = {} /\ clock = 1 /\ nops = 0
  /\ last = [op |-> "init"]

\* mergeProperty / replaceProperty against `prev` (a value or None)
Compute(prev, strat, T) ==
  LET written == { [t |-> t, v |-> clock] : t \in T }
      kept == IF prev = None \/ strat = "replace" THEN {}
              ELSE { x \in prev.tags : x.t \notin T }
  IN [rev |-> clock,
      crev |-> IF prev = None THEN clock ELSE prev.crev,
      tags |-> written \cup kept]

Apply(k, strat, T, S) ==
  /\ nops < MaxOps /\ T # {} /\ S # {}
  /\ LET prev == Query(k)                       \* as coded: read all replicas, newest previous revision
         nv == Compute(prev, strat, T)
         mv == Compute(ModelVal(k), strat, T)   \* the sequential map, by definition
     IN /\ docs' = Tombstone(S, k, LiveRevs(k))
                     \cup { MkDoc(r, k, nv @@ [del |-> FALSE]) : r \in S }
        /\ model' = { m \in model : m.k # k } \cup { [k |-> k, rev |-> mv.rev, crev |-> mv.crev, tags |-> mv.tags] }
        /\ last' = [op |-> "apply", k |-> k, strategy |-> strat, tags |-> T, reach |-> S,
                    rev |-> clock, created |-> (prev = None), ntags |-> Cardinality(nv.tags)]
  /\ clock' = clock + 1 /\ nops' = nops + 1

\* A delete is acknowledged to mean something only if a reached replica holds the current value
\* (a delete that reaches none of its holders tombstones nothing and is lost: not claimed).
Delete(k, S) ==
  /\ nops < MaxOps /\ S # {}
  /\ LET g == Newest(Replicas, k)
     IN IF g = None THEN TRUE
        ELSE IF g.del THEN TRUE
        ELSE \E r \in S : Latest(r, k) = g
  /\ docs' = Tombstone(S, k, LiveRevs(k))
  /\ model' = { m \in model : m.k # k }
  /\ last' = [op |-> "delete", k |-> k, reach |-> S]
  /\ clock' = clock + 1 /\ nops' = nops + 1

\* shard.repair: does the holder of `loc` refuse the offered `off`?
Refuses(loc, off) ==
  IF CodedTies
    THEN loc.rev > off.rev \/ (loc.rev = off.rev /\ loc.del = off.del)
    ELSE ~Newer(off, loc)

\* b's documents of k after it has taken `off`
AfterRepair(b, k, off) ==
  { [d EXCEPT !.del = TRUE] : d \in { e \in At(b, k) : e.rev # off.rev } } \cup { MkDoc(b, k, off) }

Takes(b, k, off) == Latest(b, k) = None \/ ~Refuses(Latest(b, k), off)

Repair(a, b, k) ==
  /\ a # b /\ At(a, k) # {}
  /\ LET off == Latest(a, k)
         take == Takes(b, k, off)
     IN /\ docs' = IF take THEN (docs \ At(b, k)) \cup AfterRepair(b, k, off) ELSE docs
        /\ last' = [op |-> "repair", from |-> a, to |-> b, k |-> k, took |-> take]
  /\ UNCHANGED <<model, clock, nops>>

\* Query(k) by a client + the repair queue: the winner goes to every replica not holding it
ReadRepair(k) ==
  /\ ReadRepairOn
  /\ Newest(Replicas, k) # None
  /\ LET w == Newest(Replicas, k)
         holders == { r \in Replicas : \E d \in At(r, k) : d.rev = w.rev /\ d.del = w.del }
         takers == { r \in Replicas \ holders : Takes(r, k, w) }
     IN /\ docs' = { d \in docs : ~(d.r \in takers /\ d.k = k) }
                     \cup UNION { AfterRepair(b, k, w) : b \in takers }
        /\ last' = [op |-> "readrepair", k |-> k, targets |-> Replicas \ holders]
  /\ UNCHANGED <<model, clock, nops>>

Next ==
  \/ \E k \in Keys, S \in SUBSET Replicas :
        \/ \E st \in Strategies, T \in SUBSET Tags : Apply(k, st, T, S)
        \/ Delete(k, S)
  \/ \E a, b \in Replicas, k \in Keys : Repair(a, b, k)
  \/ \E k \in Keys : ReadRepair(k)

Spec == Init /\ [][Next]_vars

View == <<docs, model, clock, nops>>

---------------------------------------------------------------------------
\* C18 - invariants

\* a revision identifies its content; a replica's only live document is its newest
WellFormed ==
  /\ \A d, e \in docs : (d.k = e.k /\ d.rev = e.rev) => (d.crev = e.crev /\ d.tags = e.tags)
  /\ \A d, e \in docs : (d.r = e.r /\ d.k = e.k /\ d.rev = e.rev) => d = e
  /\ \A d \in docs : ~d.del => Ver(d) = Latest(d.r, d.k)
  /\ \A d \in docs : d.rev < clock /\ d.crev <= d.rev

\* a query that reaches all replicas answers exactly like the sequential map
MapEquivalence == \A k \in Keys : Query(k) = ModelVal(k)

\* no repair step can change anything any more
Quiescent ==
  \A a, b \in Replicas, k \in Keys :
     (a # b /\ At(a, k) # {}) => (Latest(b, k) # None /\ ~Takes(b, k, Latest(a, k)))

Agreed == \A k \in Keys : \A a, b \in Replicas : Latest(a, k) = Latest(b, k)

\* ... then all replicas hold the same newest version, it is the newest version that existed anywhere
\* (so it does not depend on the order of the repairs), and every replica ALONE answers like the map
Converged ==
  Quiescent => /\ Agreed
               /\ \A k \in Keys, r \in Replicas :
                     At(r, k) # {} => /\ Latest(r, k) = Newest(Replicas, k)
                                      /\ QueryAt({r}, k) = ModelVal(k)

---------------------------------------------------------------------------
\* C18 - step properties ([][...]_vars)

IsApply == last'.op = "apply"
IsRepair == last'.op \in {"repair", "readrepair"}

\* merge keeps exactly the earlier tags it does not overwrite (of a value that exists: not of a deleted one)
MergeKeepsUnwrittenTags ==
  [][\A k \in Keys : (IsApply /\ last'.k = k /\ last'.strategy = "merge") =>
        LET old == Query(k)
            new == Query(k)'
        IN /\ new # None
           /\ { x.t : x \in new.tags } = last'.tags \cup (IF old = None THEN {} ELSE { x.t : x \in old.tags })
           /\ \A x \in new.tags : IF x.t \in last'.tags THEN x.v = new.rev
                                  ELSE x \in old.tags]_vars

ReplaceDiscards ==
  [][\A k \in Keys : (IsApply /\ last'.k = k /\ last'.strategy = "replace") =>
        LET new == Query(k)'
        IN new # None /\ new.tags = { [t |-> t, v |-> new.rev] : t \in last'.tags }]_vars

CreateRevStable ==
  [][\A k \in Keys :
        LET old == Query(k)
            new == Query(k)'
        IN new # None => IF old = None THEN (new = old \/ new.crev = new.rev) ELSE new.crev = old.crev]_vars

ModRevStrictlyIncreasing ==
  [][\A k \in Keys :
        LET old == Query(k)
            new == Query(k)'
        IN (new # None /\ new # old) =>
              /\ \A d \in docs : d.k = k => new.rev > d.rev
              /\ IsApply /\ last'.k = k]_vars

\* no step - and in particular no repair - ever replaces a replica's newest version by an older one
\* (a value by a lower revision, a tombstone by the value of the same revision), or loses it
ReplicaMonotone ==
  [][\A r \in Replicas, k \in Keys :
        Latest(r, k) # None =>
           /\ Latest(r, k)' # None
           /\ (Latest(r, k)' = Latest(r, k) \/ Newer(Latest(r, k)', Latest(r, k)))]_vars

\* repair moves existing versions around: it neither changes the map nor the newest version in the system,
\* touches only the target, and what the target gets is the offered version
RepairMonotone ==
  [][IsRepair =>
        /\ \A k \in Keys : Newest(Replicas, k)' = Newest(Replicas, k) /\ Query(k)' = Query(k)
        /\ \A r \in Replicas, k \in Keys :
              Latest(r, k)' # Latest(r, k) =>
                 /\ Latest(r, k) = None \/ Newer(Latest(r, k)', Latest(r, k))
                 /\ \E a \in Replicas : Latest(a, k) = Latest(r, k)']_vars

---------------------------------------------------------------------------
\* C18 - liveness: under weak fairness of effective repairs the replicas agree again and again
\* (and, as no step is enabled forever after the last client operation, finally for good)
EffectiveRepair == \E a, b \in Replicas, k \in Keys : Repair(a, b, k) /\ docs' # docs
LiveSpec == Spec /\ WF_vars(EffectiveRepair)
Converges == []<>Agreed
=============================================================================
