------------------------------ MODULE SegHold ------------------------------
(***************************************************************************)
(* What holders of storage segments may observe while housekeeping runs    *)
(* concurrently (C14): a segment that some client holds (acquired through  *)
(* SelectSegments(reopen) / CreateSegmentIfNotExist and not yet released)  *)
(* is neither closed nor deleted; a deleted segment is never handed out    *)
(* again.  The interleavings inside the calls are explored exhaustively at *)
(* the design level in SegmentAPI.tla (call granularity); this module is   *)
(* the observer against which traces of REAL concurrent runs are checked.  *)
(***************************************************************************)
EXTENDS FiniteSets, TLC

CONSTANTS Clients, Segs

VARIABLES holds,    \* set of <<client, hold id, segment>>
          closed, deleted

hvars == <<holds, closed, deleted>>

HInit == holds = {} /\ closed = {} /\ deleted = {}

Held(s) == \E h \in holds : h[3] = s

HoldBegin(c, k, s) ==        \* the acquisition returned: the segment is open (reopened if it was idle-closed)
  /\ s \notin deleted
  /\ holds' = holds \cup {<<c, k, s>>} /\ closed' = closed \ {s} /\ UNCHANGED deleted

HoldEnd(c, k, s) ==
  /\ <<c, k, s>> \in holds
  /\ holds' = holds \ {<<c, k, s>>} /\ UNCHANGED <<closed, deleted>>

Close(s) == /\ ~Held(s) /\ closed' = closed \cup {s} /\ UNCHANGED <<holds, deleted>>

Delete(s) == /\ ~Held(s) /\ deleted' = deleted \cup {s} /\ closed' = closed \cup {s} /\ UNCHANGED holds

HNext == \/ \E c \in Clients, s \in Segs : HoldBegin(c, 1, s) \/ HoldEnd(c, 1, s)
         \/ \E s \in Segs : Close(s) \/ Delete(s)

HSpec == HInit /\ [][HNext]_hvars

HeldIsOpen == \A h \in holds : h[3] \notin closed /\ h[3] \notin deleted
=============================================================================
