------------------------------ MODULE SegHold ------------------------------
(***************************************************************************)
(* What holders of storage segments may observe while housekeeping runs    *)
(* concurrently (C14): a segment that some client holds (acquired through  *)
(* SelectSegments(reopen) / CreateSegmentIfNotExist and not yet released)  *)
(* is neither closed nor deleted; a deleted segment is never handed out    *)
(* again.  The interleavings inside the calls are explored exhaustively at *)
(* the design level in SegmentAPI.tla (call granularity); this module is   *)
(* the observer against which traces of REAL concurrent runs are checked.  *)
(***************************************************************************)
EXTENDS FiniteSets, TLC

CONSTANTS Clients, Segs

VARIABLES holds,    \* set of <<client, hold id, segment>>
          closed, deleted,
          copying   \* segments whose directory is being hard-linked by the closed path of a file snapshot (C19)

hvars == <<holds, closed, deleted, copying>>

HInit == holds = {} /\ closed = {} /\ deleted = {} /\ copying = {}

Held(s) == \E h \in holds : h[3] = s

HoldBegin(c, k, s) ==        \* the acquisition returned: the segment is open (reopened if it was idle-closed)
  /\ s \notin deleted
  /\ s \notin copying        \* a closed segment is not reopened while its files are being copied
  /\ holds' = holds \cup {<<c, k, s>>} /\ closed' = closed \ {s} /\ UNCHANGED <<deleted, copying>>

HoldEnd(c, k, s) ==
  /\ <<c, k, s>> \in holds
  /\ holds' = holds \ {<<c, k, s>>} /\ UNCHANGED <<closed, deleted, copying>>

Close(s) == /\ ~Held(s) /\ s \notin copying /\ closed' = closed \cup {s} /\ UNCHANGED <<holds, deleted, copying>>

Delete(s) == /\ ~Held(s) /\ s \notin copying
             /\ deleted' = deleted \cup {s} /\ closed' = closed \cup {s} /\ UNCHANGED <<holds, copying>>

\* the closed path of TakeFileSnapshot: only a segment nobody holds is copied from its files, and until the copy is
\* complete it is neither reopened (its tables would flush and merge under the copy) nor deleted
CopyBegin(s) == /\ ~Held(s) /\ s \notin deleted /\ s \notin copying
                /\ copying' = copying \cup {s} /\ UNCHANGED <<holds, closed, deleted>>

CopyEnd(s) == /\ s \in copying /\ copying' = copying \ {s} /\ UNCHANGED <<holds, closed, deleted>>

HNext == \/ \E c \in Clients, s \in Segs : HoldBegin(c, 1, s) \/ HoldEnd(c, 1, s)
         \/ \E s \in Segs : Close(s) \/ Delete(s) \/ CopyBegin(s) \/ CopyEnd(s)

HSpec == HInit /\ [][HNext]_hvars

HeldIsOpen == \A h \in holds : h[3] \notin closed /\ h[3] \notin deleted
CopyUndisturbed == \A s \in copying : ~Held(s) /\ s \notin deleted
=============================================================================
