------------------------------ MODULE Routing ------------------------------
(***************************************************************************)
(* The shard function seen from outside (pkg/partition route.go,           *)
(* entity.go): every coordinator process, at any time, maps                *)
(* (resource, entity values, shard count) -- or (trace id, shard count) -- *)
(* to one shard in range.  The hash itself is not modelled: the first      *)
(* routing of a key by anybody fixes its shard, every later routing of the *)
(* same key by any coordinator must agree, and nothing else about the      *)
(* write (non-entity tags, layout) is an input.                            *)
(***************************************************************************)
EXTENDS Integers, FiniteSets, TLC

CONSTANTS Coordinators, Keys, MaxShards

VARIABLES memo,     \* set of [key, shards, shard] fixed so far
          routed    \* number of routings

rvars == <<memo, routed>>

RInit == memo = {} /\ routed = 0

Route(c, k, n, s) ==
  /\ s \in 0..(n - 1)
  /\ \A m \in memo : (m.key = k /\ m.shards = n) => m.shard = s
  /\ memo' = memo \cup { [key |-> k, shards |-> n, shard |-> s] }
  /\ routed' = routed + 1

RNext == \E c \in Coordinators, k \in Keys, n \in 1..MaxShards, s \in 0..(MaxShards - 1) : Route(c, k, n, s)

RSpec == RInit /\ [][RNext]_rvars

InRange == \A m \in memo : m.shard >= 0 /\ m.shard < m.shards
RBound == routed < 5
PureFunction == \A a, b \in memo : (a.key = b.key /\ a.shards = b.shards) => a.shard = b.shard
=============================================================================
