------------------------------- MODULE Engine -------------------------------
(***************************************************************************)
(* DRAFT (design phase).  Client-visible semantics of one measure shard:    *)
(* acknowledged batches, parts (memory / file), flush, merge, and the       *)
(* reference semantics of a query.  Values are opaque: a row's payload is   *)
(* identified by the write that produced it (batch index, position), which  *)
(* is what "returned exactly as written" means; the Go replayer maps each   *)
(* payload token to adversarial concrete tag/field values.                  *)
(*                                                                         *)
(* The spec keeps TWO views of the data and requires them to agree:         *)
(*   layout-free   Resolve(all acknowledged rows)            (the claim)    *)
(*   layout-based  what the part structure yields when the three dedup      *)
(*                 sites of the implementation are applied (in-batch,       *)
(*                 merge, query-time)                                       *)
(* so TLC checks the design, and every behaviour (with the expected query   *)
(* answers in `hist`) is replayed against the real engine.                  *)
(***************************************************************************)
EXTENDS Integers, Sequences, FiniteSets, TLC

CONSTANTS Series, Times, Versions,   \* small finite sets of naturals
          MaxBatches, MaxRows,       \* bounds on the write history
          MaxOps                     \* bound on the behaviour length (model checking only)

Key == Series \X Times

\* A row: series, timestamp, version, payload token <<batch, pos>>
Row == [s : Series, t : Times, v : Versions, id : (1..MaxBatches) \X (1..MaxRows)]

VARIABLES
  acked,      \* sequence of acknowledged batches; a batch is a sequence of [s,t,v]
  parts,      \* function partId -> [mem : BOOLEAN, rows : SUBSET Row]
  nextPart,   \* next part id
  ops,        \* number of actions taken (bounds the model; part of the VIEW)
  hist        \* history for replay: sequence of action records incl. expected answers

vars == <<acked, parts, nextPart, ops, hist>>

RowsOfBatch(b, bi) == { [s |-> b[i].s, t |-> b[i].t, v |-> b[i].v, id |-> <<bi, i>>] : i \in 1..Len(b) }
AllAcked == UNION { RowsOfBatch(acked[bi], bi) : bi \in 1..Len(acked) }

\* ---- highest version wins; ties admit any tied row ------------------------
MaxV(rows, k) == LET vs == { r.v : r \in { x \in rows : <<x.s, x.t>> = k } }
                 IN CHOOSE m \in vs : \A o \in vs : o <= m
KeysOf(rows) == { <<r.s, r.t>> : r \in rows }
\* set of admissible winners per key
Winners(rows, k) == { r \in rows : <<r.s, r.t>> = k /\ r.v = MaxV(rows, k) }
\* a deterministic resolution used for the layout-based view (the implementation is free to
\* pick any tied row; the invariants below only ever compare *winner sets*)
ResolveSet(rows) == { Winners(rows, k) : k \in KeysOf(rows) }

\* the layout-based view: every part holds rows already de-duplicated inside the part
\* (in-batch skip / merge), the query merges across parts
LayoutRows == UNION { parts[p].rows : p \in DOMAIN parts }

\* ---- queries ---------------------------------------------------------------
Query == [lo : Times, hi : Times, series : SUBSET Series, asc : BOOLEAN, limit : 0..3, offset : 0..2]
InQ(r, q) == r.t >= q.lo /\ r.t <= q.hi /\ r.s \in q.series
\* expected answer: for each selected key the set of admissible rows; order by (t, then any)
Answer(rows, q) == { Winners(rows, k) : k \in { kk \in KeysOf({ r \in rows : InQ(r, q) }) : TRUE } }

Init == /\ acked = <<>> /\ parts = <<>> /\ nextPart = 1 /\ ops = 0 /\ hist = <<>>

\* ---- actions ---------------------------------------------------------------
\* keep one admissible winner per key inside a new part (in-batch dedup: sort by version desc, skip)
PickOnePerKey(rows) == { CHOOSE r \in w : TRUE : w \in ResolveSet(rows) }

Write(b) ==
  /\ Len(acked) < MaxBatches
  /\ LET bi == Len(acked) + 1
         rs == RowsOfBatch(b, bi)
     IN /\ acked' = Append(acked, b)
        /\ parts' = parts @@ (nextPart :> [mem |-> TRUE, rows |-> PickOnePerKey(rs)])
        /\ nextPart' = nextPart + 1
        /\ hist' = Append(hist, [op |-> "Write", batch |-> b, part |-> nextPart])

MemParts  == { p \in DOMAIN parts : parts[p].mem }
FileParts == { p \in DOMAIN parts : ~parts[p].mem }

\* the flusher flushes every memory part of the snapshot it looked at
Flush ==
  /\ MemParts # {}
  /\ parts' = [p \in DOMAIN parts |-> [parts[p] EXCEPT !.mem = FALSE]]
  /\ hist' = Append(hist, [op |-> "Flush", flushed |-> MemParts])
  /\ UNCHANGED <<acked, nextPart>>

Restrict(f, S) == [x \in S |-> f[x]]

Merge(S) ==
  /\ S \subseteq FileParts /\ Cardinality(S) >= 2
  /\ LET rs == UNION { parts[p].rows : p \in S }
     IN parts' = Restrict(parts, DOMAIN parts \ S) @@ (nextPart :> [mem |-> FALSE, rows |-> PickOnePerKey(rs)])
  /\ nextPart' = nextPart + 1
  /\ hist' = Append(hist, [op |-> "Merge", inputs |-> S, out |-> nextPart])
  /\ UNCHANGED acked

DoQuery(q) ==
  /\ q.lo <= q.hi /\ q.series # {}
  /\ hist' = Append(hist, [op |-> "Query", q |-> q, expect |-> Answer(AllAcked, q)])
  /\ UNCHANGED <<acked, parts, nextPart>>

Batches == UNION { [1..n -> [s : Series, t : Times, v : Versions]] : n \in 1..MaxRows }

Step ==
  \/ \E b \in Batches : Write(b)
  \/ Flush
  \/ \E S \in SUBSET FileParts : Merge(S)
  \/ \E q \in Query : q.limit = 0 /\ q.offset = 0 /\ q.asc /\ q.series = Series /\ DoQuery(q)

Next == Step /\ ops' = ops + 1

Spec == Init /\ [][Next]_vars

Bound == ops < MaxOps
View == <<acked, parts, nextPart, ops>>

\* ---- properties --------------------------------------------------------------
\* C02/C03 at the design level: whatever the layout, the admissible winners are those of the
\* layout-free reference, i.e. the per-part dedup never discards a row that could still win.
LayoutAgrees ==
  \A k \in KeysOf(AllAcked) :
     /\ k \in KeysOf(LayoutRows)
     /\ Winners(LayoutRows, k) \subseteq Winners(AllAcked, k)

\* C01: nothing that was not written is ever stored
NoPhantom == LayoutRows \subseteq AllAcked

\* C03 as an action property: maintenance never changes the reference answer
MaintenanceInvisible == [][(Flush \/ \E S \in SUBSET FileParts : Merge(S)) => AllAcked' = AllAcked]_vars
=============================================================================
