--------------------------- MODULE PropertyStore ---------------------------
(***************************************************************************)
(* DRAFT (design phase).  One property key on R replicas.  A replica keeps *)
(* documents (rev, del): rev = ModRevision, del = deleteTime (0 = alive).  *)
(* Only the newest document per replica matters for queries and repair     *)
(* (older ones are tombstoned by the writer), so a replica's state is its  *)
(* newest (rev, del) or None.                                              *)
(*                                                                         *)
(*   Apply   liaison/grpc/property.go replaceProperty: ModRevision = now   *)
(*   Delete  property/db deleteFromTime: the tombstone KEEPS the revision  *)
(*           of the document it deletes                                    *)
(*   Repair  property/db/shard.go repair(): the receiver refuses iff its   *)
(*           newest doc has a greater revision, or the same revision AND   *)
(*           the same deleteTime; otherwise it takes the offered doc       *)
(***************************************************************************)
EXTENDS Integers, FiniteSets, TLC

CONSTANTS Replicas, MaxOps, None

VARIABLES doc,      \* replica -> None or [rev, del]
          clock,    \* liaison clock (revisions and delete times)
          lastOp,   \* "none" | "apply" | "delete" : the last acknowledged client operation
          ops

vars == <<doc, clock, lastOp, ops>>

Init == doc = [r \in Replicas |-> None] /\ clock = 1 /\ lastOp = "none" /\ ops = 0

Apply(reached) ==
  /\ ops < MaxOps /\ reached # {}
  /\ doc' = [r \in Replicas |-> IF r \in reached THEN [rev |-> clock, del |-> 0] ELSE doc[r]]
  /\ clock' = clock + 1 /\ lastOp' = "apply" /\ ops' = ops + 1

\* Delete is acknowledged when at least one replica holding a live document tombstoned it
Delete(reached) ==
  /\ ops < MaxOps /\ reached # {}
  /\ \E r \in reached : doc[r] # None /\ doc[r].del = 0
  /\ doc' = [r \in Replicas |->
               IF r \in reached /\ doc[r] # None /\ doc[r].del = 0
                 THEN [rev |-> doc[r].rev, del |-> clock] ELSE doc[r]]
  /\ clock' = clock + 1 /\ lastOp' = "delete" /\ ops' = ops + 1

\* shard.repair on replica b when replica a's newest document is offered
Refuses(local, offered) ==
  local # None /\ (local.rev > offered.rev \/ (local.rev = offered.rev /\ local.del = offered.del))

Repair(a, b) ==
  /\ a # b /\ doc[a] # None
  /\ ~Refuses(doc[b], doc[a])
  /\ doc' = [doc EXCEPT ![b] = doc[a]]
  /\ UNCHANGED <<clock, lastOp, ops>>

Next ==
  \/ \E S \in SUBSET Replicas : Apply(S) \/ Delete(S)
  \/ \E a, b \in Replicas : Repair(a, b)

Spec == Init /\ [][Next]_vars

\* ---- C18 ----
\* "newer" puts the tombstone of a revision after the value of the same revision
Newer(x, y) == x.rev > y.rev \/ (x.rev = y.rev /\ x.del > 0 /\ y.del = 0)

\* repair never replaces a newer local value by an older one
RepairMonotone ==
  [][\A a, b \in Replicas : Repair(a, b) => (doc[b] = None \/ ~Newer(doc[b], doc'[b]))]_vars

\* when no repair step can change anything any more, the replicas agree ...
Quiescent == \A a, b \in Replicas : a # b /\ doc[a] # None => Refuses(doc[b], doc[a])
Converged == Quiescent => \A a, b \in Replicas : doc[a] = doc[b]
\* ... and they agree on the outcome of the last acknowledged operation (last writer wins)
LastWriterWins ==
  (Quiescent /\ lastOp # "none") =>
     \A r \in Replicas : doc[r] # None /\ ((lastOp = "delete") <=> (doc[r].del > 0))
=============================================================================
