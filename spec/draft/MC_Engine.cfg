SPECIFICATION Spec
CONSTANTS
  Series = {1, 2}
  Times = {1, 2}
  Versions = {1, 2}
  MaxBatches = 2
  MaxRows = 2
  MaxOps = 5
CONSTRAINT Bound
VIEW View
INVARIANTS
  LayoutAgrees
  NoPhantom
PROPERTIES
  MaintenanceInvisible
CHECK_DEADLOCK FALSE
