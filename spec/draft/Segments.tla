------------------------------ MODULE Segments ------------------------------
(***************************************************************************)
(* DRAFT (design phase).  The segment controller's `create` path           *)
(* (banyand/internal/storage/segment.go, storage.go IntervalRule) over an  *)
(* integer clock of absolute hours, with an explicit daylight-saving zone: *)
(* offset 0 outside [T1, T2), offset 1 inside.  Wall(h) = h + Off(h).      *)
(* time.Date(wall...) is modelled by Abs: the first absolute hour with     *)
(* that wall clock reading, or -- for the non-existent hour of the spring  *)
(* gap -- the reading interpreted with the pre-transition offset.          *)
(***************************************************************************)
EXTENDS Integers, Sequences, FiniteSets, TLC

CONSTANTS Horizon,      \* absolute hours 1..Horizon are candidate timestamps
          T1, T2,       \* daylight saving is in force for T1 <= h < T2
          Unit, Num,    \* "HOUR" | "DAY", Num >= 1
          MaxCreates

VARIABLES segs,    \* set of [start, end, suffix]
          outcome, \* result of the last create: "ok" | "panic" | "none"
          lastTs, lastSeg, creates

vars == <<segs, outcome, lastTs, lastSeg, creates>>

Off(h) == IF h >= T1 /\ h < T2 THEN 1 ELSE 0
Wall(h) == h + Off(h)
Hours == (0 - 48)..(Horizon + 96)
Abs(w) == IF \E h \in Hours : Wall(h) = w
            THEN CHOOSE h \in Hours : Wall(h) = w /\ \A g \in Hours : Wall(g) = w => h <= g
            ELSE w          \* spring gap: Go normalises with the offset in force before the jump
FloorDiv(a, b) == a \div b      \* TLA+ \div already floors

\* IntervalRule.Standard, transcribed
Standard(t) ==
  IF Unit = "HOUR"
    THEN IF Num = 1 THEN Abs(Wall(t))
         ELSE LET todayHour == Abs(Wall(t))
                  hours == todayHour - Abs(0)
                  bucket == FloorDiv(hours, Num)
              IN Abs(bucket * Num)
    ELSE LET midnight == Abs(24 * FloorDiv(Wall(t), 24)) IN
         IF Num = 1 THEN midnight
         ELSE LET days == FloorDiv((midnight - Abs(0)) + 12, 24)
                  bucket == FloorDiv(days, Num)
              IN Abs(24 * bucket * Num)

\* IntervalRule.NextTime: HOUR adds absolute hours, DAY adds calendar days (wall clock)
NextTime(s) == IF Unit = "HOUR" THEN s + Num ELSE Abs(Wall(s) + 24 * Num)

\* directory suffix: local wall-clock hour (HOUR) or local day (DAY)
Suffix(s) == IF Unit = "HOUR" THEN Wall(s) ELSE FloorDiv(Wall(s), 24)

Contains(sg, t) == sg.start <= t /\ t < sg.end

Init == segs = {} /\ outcome = "none" /\ lastTs = 0 /\ lastSeg = [start |-> 0, end |-> 0, suffix |-> 0] /\ creates = 0

\* segmentController.create(ts)
Create(ts) ==
  /\ creates < MaxCreates /\ creates' = creates + 1 /\ lastTs' = ts
  /\ IF \E sg \in segs : Contains(sg, ts)
       THEN /\ lastSeg' = CHOOSE sg \in segs : Contains(sg, ts)
            /\ outcome' = "ok" /\ UNCHANGED segs
       ELSE LET aligned == Standard(ts)
                stdEnd  == NextTime(aligned)
                \* bump the start past every existing segment that swallows it (ascending pass)
                bumped  == IF \E sg \in segs : Contains(sg, aligned)
                             THEN (CHOOSE sg \in segs : Contains(sg, aligned)).end ELSE aligned
                later   == { sg \in segs : sg.start > bumped }
                next    == IF later = {} THEN 0 ELSE (CHOOSE sg \in later : \A o \in later : sg.start <= o.start).start
                end     == IF later # {} /\ next < stdEnd THEN next ELSE stdEnd
                new     == [start |-> bumped, end |-> end, suffix |-> Suffix(bumped)]
            IN IF \E sg \in segs : sg.suffix = new.suffix
                 THEN /\ outcome' = "panic" /\ UNCHANGED <<segs, lastSeg>>     \* MkdirPanicIfExist
                 ELSE /\ segs' = segs \cup {new} /\ lastSeg' = new /\ outcome' = "ok"

Next == \E ts \in 1..Horizon : Create(ts)
Spec == Init /\ [][Next]_vars

\* ---- C06 ----
NoPanic == outcome # "panic"
CreatedContainsTs == (outcome = "ok" /\ creates > 0) => Contains(lastSeg, lastTs)
NoEmptySegment == \A sg \in segs : sg.start < sg.end
NoOverlap == \A a, b \in segs : a # b => (a.end <= b.start \/ b.end <= a.start)
=============================================================================
