SPECIFICATION Spec
CONSTANTS
  Holders = {h1, h2}
  Peekers = {k1}
  Reclaimers = {r1}
  Deleters = {d1}
  None = None
INVARIANTS
  OpenWhileHeld
  NoResurrection
  CountCoversHolders
  NoLeak
CHECK_DEADLOCK FALSE
