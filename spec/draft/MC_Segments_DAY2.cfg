SPECIFICATION Spec
CONSTANTS
  Horizon = 72
  T1 = 20
  T2 = 50
  Unit = "DAY"
  Num = 2
  MaxCreates = 2
INVARIANTS
  NoPanic
  CreatedContainsTs
  NoEmptySegment
  NoOverlap
CHECK_DEADLOCK FALSE
