------------------------------ MODULE KeyCodec ------------------------------
(***************************************************************************)
(* DRAFT (design phase).  pkg/convert/number.go at reduced width.          *)
(* A float is a bit pattern sign(1) | exponent(E) | mantissa(M); byte-wise *)
(* comparison of the big-endian encoding is unsigned comparison of the     *)
(* pattern.  Float64ToOrderedBytes is transcribed AS WRITTEN: it branches  *)
(* on the numeric test `f >= 0`, not on the sign bit.                      *)
(***************************************************************************)
EXTENDS Integers, TLC

CONSTANTS E, M            \* exponent and mantissa widths

RECURSIVE Pow2(_)
Pow2(n) == IF n = 0 THEN 1 ELSE 2 * Pow2(n - 1)
W == 1 + E + M
SignMask == Pow2(E + M)
AllOnes == Pow2(W) - 1
Bits == 0..AllOnes

Sign(b) == b \div SignMask
Exp(b) == (b % SignMask) \div Pow2(M)
Man(b) == b % Pow2(M)
IsNaN(b) == Exp(b) = Pow2(E) - 1 /\ Man(b) # 0
IsZero(b) == Exp(b) = 0 /\ Man(b) = 0
Magnitude(b) == b % SignMask            \* (exp, mant) as one unsigned number: monotone in |value|

\* numeric comparison of two non-NaN patterns (IEEE: -0 = +0)
NumLess(a, b) ==
  CASE IsZero(a) /\ IsZero(b) -> FALSE
    [] Sign(a) = 0 /\ Sign(b) = 0 -> Magnitude(a) < Magnitude(b)
    [] Sign(a) = 1 /\ Sign(b) = 1 -> Magnitude(a) > Magnitude(b)
    [] Sign(a) = 1 /\ Sign(b) = 0 -> TRUE
    [] OTHER -> FALSE
NumGeqZero(b) == Sign(b) = 0 \/ IsZero(b)        \* `f >= 0` is true for -0.0

\* bitwise XOR with the two masks used by the code
XorSign(b) == IF b >= SignMask THEN b - SignMask ELSE b + SignMask
XorAll(b) == AllOnes - b

Enc(b) == IF NumGeqZero(b) THEN XorSign(b) ELSE XorAll(b)            \* Float64ToOrderedBytes
Dec(x) == IF x >= SignMask THEN XorSign(x) ELSE XorAll(x)            \* OrderedBytesToFloat64

Finite == { b \in Bits : ~IsNaN(b) }

VARIABLE dummy
Init == dummy = 0
Next == UNCHANGED dummy
Spec == Init /\ [][Next]_dummy

RoundTrip == \A b \in Finite : Dec(Enc(b)) = b
OrderPreserved == \A a, b \in Finite : NumLess(a, b) => Enc(a) < Enc(b)
DecodesToNumber == \A b \in Finite : ~IsNaN(Dec(Enc(b)))
=============================================================================
