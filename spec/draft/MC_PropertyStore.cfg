SPECIFICATION Spec
CONSTANTS
  Replicas = {a, b}
  MaxOps = 2
  None = None
INVARIANTS
  Converged
  LastWriterWins
PROPERTIES
  RepairMonotone
CHECK_DEADLOCK FALSE
