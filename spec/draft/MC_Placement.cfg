SPECIFICATION Spec
CONSTANTS
  Groups = {1, 2}
  Nodes = {1, 2, 3}
  MaxShards = 2
  MaxReplicas = 1
  MaxEvents = 5
INVARIANTS
  TableIsFunctionOfGroups
  Total
  Confluent
  ReplicaDisjoint
CHECK_DEADLOCK FALSE
