----------------------------- MODULE Placement -----------------------------
(***************************************************************************)
(* DRAFT (design phase).  pkg/node/round_robin.go as coded: a sorted       *)
(* lookup table of (group, shard) keys and a sorted list of node names     *)
(* maintained from schema / node events, and Pick = nodes[(index+replica)  *)
(* mod len(nodes)].  Node names and group names are small integers (their  *)
(* order is the string order).                                             *)
(***************************************************************************)
EXTENDS Integers, Sequences, FiniteSets, TLC

CONSTANTS Groups, Nodes, MaxShards, MaxReplicas, MaxEvents

VARIABLES table,   \* sorted sequence of [g, s, r]  (lookupTable)
          nodes,   \* sorted sequence of node names (may contain duplicates: AddNode appends)
          gset,    \* ground truth: group -> [shards, replicas] for the groups that exist
          nset,    \* ground truth: set of live nodes
          n        \* number of events so far

vars == <<table, nodes, gset, nset, n>>

Init == table = <<>> /\ nodes = <<>> /\ gset = <<>> /\ nset = {} /\ n = 0

SeqToSet(s) == { s[i] : i \in 1..Len(s) }

\* insertion into a sorted sequence (sort.StringSlice(r.nodes).Sort() after append)
SortedInsert(s, x) ==
  LET k == Cardinality({ i \in 1..Len(s) : s[i] <= x })
  IN SubSeq(s, 1, k) \o <<x>> \o SubSeq(s, k + 1, Len(s))

RemoveFirst(s, x) ==
  IF \E i \in 1..Len(s) : s[i] = x
    THEN LET k == CHOOSE i \in 1..Len(s) : s[i] = x /\ \A j \in 1..(i-1) : s[j] # x
         IN SubSeq(s, 1, k - 1) \o SubSeq(s, k + 1, Len(s))
    ELSE s

KeyLess(a, b) == a.g < b.g \/ (a.g = b.g /\ a.s < b.s)
SortKeys(S) ==   \* the unique ascending sequence of a set of keys with distinct (g,s)
  CHOOSE q \in [1..Cardinality(S) -> S] :
     /\ \A i, j \in 1..Cardinality(S) : i < j => KeyLess(q[i], q[j])

WithoutGroup(t, g) == SelectSeq(t, LAMBDA k : k.g # g)

AddOrUpdateGroup(g, sh, rp) ==
  /\ LET keys == SeqToSet(WithoutGroup(table, g)) \cup { [g |-> g, s |-> i, r |-> rp] : i \in 0..(sh-1) }
     IN table' = SortKeys(keys)
  /\ gset' = [x \in (DOMAIN gset) \cup {g} |-> IF x = g THEN [shards |-> sh, replicas |-> rp] ELSE gset[x]]
  /\ UNCHANGED <<nodes, nset>>

DeleteGroup(g) ==
  /\ g \in DOMAIN gset
  /\ table' = WithoutGroup(table, g)
  /\ gset' = [x \in (DOMAIN gset) \ {g} |-> gset[x]]
  /\ UNCHANGED <<nodes, nset>>

AddNode(x) ==        \* also what a node *update* event does (OnAddOrUpdate -> AddNode)
  /\ nodes' = SortedInsert(nodes, x) /\ nset' = nset \cup {x}
  /\ UNCHANGED <<table, gset>>

RemoveNode(x) ==
  /\ x \in nset
  /\ nodes' = RemoveFirst(nodes, x) /\ nset' = nset \ {x}
  /\ UNCHANGED <<table, gset>>

Next ==
  /\ n < MaxEvents /\ n' = n + 1
  /\ \/ \E g \in Groups, sh \in 1..MaxShards, rp \in 0..MaxReplicas : AddOrUpdateGroup(g, sh, rp)
     \/ \E g \in Groups : DeleteGroup(g)
     \/ \E x \in Nodes : AddNode(x) \/ RemoveNode(x)

Spec == Init /\ [][Next]_vars

\* ---- Pick as coded ----
IndexOf(g, s) == CHOOSE i \in 1..Len(table) : table[i].g = g /\ table[i].s = s
Known(g, s) == \E i \in 1..Len(table) : table[i].g = g /\ table[i].s = s
Pick(g, s, r) == nodes[(((IndexOf(g, s) - 1) + r) % Len(nodes)) + 1]

\* ---- the reference: a function of the SETS only ----
\* ascending sequence of the live node set
RefNodes == CHOOSE q \in [1..Cardinality(nset) -> nset] : \A i, j \in 1..Cardinality(nset) : i < j => q[i] < q[j]
RefTable == SortKeys(UNION { { [g |-> g, s |-> i, r |-> gset[g].replicas] : i \in 0..(gset[g].shards - 1) } : g \in DOMAIN gset })

\* C16
TableIsFunctionOfGroups == table = RefTable
Confluent == nodes = RefNodes     \* the node list (hence every Pick) depends only on the live set
Total == nset # {} => \A g \in DOMAIN gset : \A s \in 0..(gset[g].shards - 1) : Known(g, s)
ReplicaDisjoint ==
  \A g \in DOMAIN gset : \A s \in 0..(gset[g].shards - 1) :
     (nset # {} /\ Cardinality(nset) >= gset[g].replicas + 1) =>
        \A r1, r2 \in 0..gset[g].replicas : r1 # r2 => Pick(g, s, r1) # Pick(g, s, r2)
=============================================================================
