SPECIFICATION Spec
CONSTANTS
  MaxWrites = 3
  MaxMerges = 1
  MaxFlushes = 2
  Queries = {q1, q2}
INVARIANTS
  RefsNonNegative
  PinnedPartsExist
  ReadersSafe
  RemovedAtMostOnce
  RemovedOnlyWhenUnreferenced
  NotBothOutputAndInput
CHECK_DEADLOCK FALSE
