SPECIFICATION Spec
CONSTANTS
  E = 3
  M = 2
INVARIANTS
  DecodesToNumber
  RoundTrip
  OrderPreserved
