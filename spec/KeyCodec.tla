------------------------------ MODULE KeyCodec ------------------------------
(***************************************************************************)
(* C12 - sort-key encodings preserve order; series identity is unambiguous *)
(*                                                                         *)
(* pkg/convert/number.go  Int64ToBytes/BytesToInt64 (and the 32-bit        *)
(*                        variants), Uint64ToBytes, Float64ToOrderedBytes/ *)
(*                        OrderedBytesToFloat64                            *)
(* pkg/pb/v1/value.go     marshalEntityValue/unmarshalEntityValue,         *)
(*                        marshalTagValue/unmarshalTagValue                *)
(* pkg/pb/v1/series.go    Series.Marshal/Unmarshal                         *)
(*                                                                         *)
(* The algorithms are width generic, so they are written here at a reduced *)
(* width: integers of W bits, floats of 1+E+M bits (sign, biased exponent, *)
(* mantissa: +-0, subnormals, normals, +-Inf and NaN patterns exist as in  *)
(* IEEE-754), entity contents over a four byte alphabet that contains the  *)
(* real delimiter and escape bytes.  A fixed-width big-endian byte string  *)
(* is written as its bit string (one "byte" = one bit): bytes.Compare of   *)
(* the encodings is LexLess of those strings.                              *)
(*                                                                         *)
(* Every state is one CASE (variable c): a pair of numbers with their      *)
(* encodings and the order relation the property demands, or a series key  *)
(* under construction (subject, entity values so far, marshaled buffer).   *)
(* TLC enumerates all cases within the bounds and evaluates the invariants *)
(* on each; the check exports the enumerated cases, embeds them into the   *)
(* 64-bit / real-byte domain and executes the real functions on them.      *)
(*                                                                         *)
(* Intended design stated here                                             *)
(*   numbers : Enc is an order isomorphism from the numeric order onto the *)
(*             byte order, Dec(Enc(x)) = x bit for bit.  -0.0 and +0.0 are *)
(*             numerically equal: their encodings may be ordered either    *)
(*             way (or be adjacent), but they stay above every negative    *)
(*             and below every positive number.  NaN is unordered: nothing *)
(*             is demanded of its position, only that it decodes to a NaN. *)
(*             The float encoder therefore branches on the SIGN BIT.       *)
(*             AsWritten = TRUE selects the encoder as it is written at    *)
(*             the pinned commit (branch on the numeric test f >= 0); it   *)
(*             is used only to show that the invariants discriminate.      *)
(*   series  : Marshal is injective on (subject, values), Unmarshal is its *)
(*             inverse except that an empty string / byte value may read   *)
(*             back as null, and the key does not depend on the code path  *)
(*             or on nil-vs-empty representation of the same value.        *)
(***************************************************************************)
EXTENDS Integers, Sequences, FiniteSets, TLC

CONSTANTS Kinds,      \* subset of {"int", "uint", "comp", "float", "entity"}: the families of cases of this run
          Widths,     \* set of integer widths in bits    (int, uint)
          CompWidths, \* set of component widths in bits  (comp)
          E, M,       \* exponent and mantissa widths     (float)
          AsWritten,  \* BOOLEAN, see above               (float)
          Alphabet,   \* byte values of entity contents   (entity)
          MaxLen,     \* longest string / binary value    (entity)
          MaxSubj,    \* longest subject                  (entity)
          MaxVals,    \* most entity values per series    (entity)
          ZigCodes    \* integer entity values, given by their zig-zag codes u < 2^16 (0 -> 0, 1 -> -1, 2 -> 1, ...; a
                      \* configuration file cannot hold negative numbers); 92 and 124 put '\' and '|' into the bytes

VARIABLE c            \* the case

RECURSIVE Pow2(_)
Pow2(n) == IF n = 0 THEN 1 ELSE 2 * Pow2(n - 1)

\* big-endian string of an unsigned n-bit number, and bytes.Compare(s, t) < 0
BE(n, u) == [i \in 1..n |-> (u \div Pow2(n - i)) % 2]
LexLess(s, t) ==
  \E i \in 1..(Len(s) + 1) :
     /\ \A j \in 1..(i - 1) : j <= Len(t) /\ s[j] = t[j]
     /\ IF i <= Len(s) THEN i <= Len(t) /\ s[i] < t[i] ELSE i <= Len(t)

Rel(lt, gt) == IF lt THEN "lt" ELSE IF gt THEN "gt" ELSE "eq"

---------------------------------------------------------------------------
(* Signed and unsigned integers.                                           *)

IntDom(w) == (0 - Pow2(w - 1))..(Pow2(w - 1) - 1)
UDom(w) == 0..(Pow2(w) - 1)
WrapS(w, x) == LET y == x % Pow2(w) IN IF y >= Pow2(w - 1) THEN y - Pow2(w) ELSE y   \* intW(x)
WrapU(w, x) == x % Pow2(w)                                                            \* uintW(x)

\* intended design: flip the sign bit of the two's complement pattern
EncInt(w, i) == i + Pow2(w - 1)
DecInt(w, u) == u - Pow2(w - 1)

\* Int64ToBytes / BytesToInt64 step by step as written (abs, then OR or subtract), at width w
EncIntCode(w, i) ==
  LET abs == IF i < 0 THEN WrapS(w, 0 - i) ELSE i      \* -MinInt wraps to MinInt
      u == WrapU(w, abs)
  IN IF i >= 0 THEN u + Pow2(w - 1)                      \* u |= 1<<(w-1), the bit is clear
     ELSE WrapU(w, Pow2(w - 1) - u)
DecIntCode(w, u) ==
  LET top == u >= Pow2(w - 1)                            \* b[0] >= 128
      v == IF top THEN u - Pow2(w - 1) ELSE WrapU(w, Pow2(w - 1) - u)
      abs == WrapS(w, v)
  IN IF top THEN abs ELSE WrapS(w, 0 - abs)

IntCase(w, a, b) ==
  [k |-> "int", w |-> w, a |-> a, b |-> b, ea |-> EncIntCode(w, a), eb |-> EncIntCode(w, b), rel |-> Rel(a < b, a > b)]
UintCase(w, a, b) ==
  [k |-> "uint", w |-> w, a |-> a, b |-> b, ea |-> a, eb |-> b, rel |-> Rel(a < b, a > b)]

\* composite key: two fixed-width encodings concatenated; tuples compare lexicographically
TupleLess(a1, a2, b1, b2) == a1 < b1 \/ (a1 = b1 /\ a2 < b2)
CompCase(w, a1, a2, b1, b2) ==
  [k |-> "comp", w |-> w, a1 |-> a1, a2 |-> a2, b1 |-> b1, b2 |-> b2,
   rel |-> Rel(TupleLess(a1, a2, b1, b2), TupleLess(b1, b2, a1, a2))]
CompKey(w, x1, x2) == BE(w, EncIntCode(w, x1)) \o BE(w, EncIntCode(w, x2))

---------------------------------------------------------------------------
(* Floats: sign(1) | exponent(E) | mantissa(M).                            *)

FW == 1 + E + M
SignMask == Pow2(E + M)
AllOnes == Pow2(FW) - 1
Bits == 0..AllOnes

Sign(b) == b \div SignMask
Exp(b) == (b % SignMask) \div Pow2(M)
Man(b) == b % Pow2(M)
MaxExp == Pow2(E) - 1
IsNaN(b) == Exp(b) = MaxExp /\ Man(b) # 0
IsZero(b) == Exp(b) = 0 /\ Man(b) = 0
Magnitude(b) == b % SignMask         \* (exponent, mantissa) as one unsigned number: monotone in |value|

Class(b) ==
  CASE IsNaN(b) -> "nan"
    [] IsZero(b) -> IF Sign(b) = 1 THEN "negzero" ELSE "poszero"
    [] Exp(b) = MaxExp -> IF Sign(b) = 1 THEN "neginf" ELSE "posinf"
    [] Exp(b) = 0 -> IF Sign(b) = 1 THEN "negsub" ELSE "possub"
    [] OTHER -> IF Sign(b) = 1 THEN "negnormal" ELSE "posnormal"

\* numeric comparison of two non-NaN patterns (IEEE: -0 = +0)
NumLess(a, b) ==
  CASE IsZero(a) /\ IsZero(b) -> FALSE
    [] Sign(a) = 0 /\ Sign(b) = 0 -> Magnitude(a) < Magnitude(b)
    [] Sign(a) = 1 /\ Sign(b) = 1 -> Magnitude(a) > Magnitude(b)
    [] Sign(a) = 1 /\ Sign(b) = 0 -> TRUE
    [] OTHER -> FALSE
NumGeqZero(b) == ~IsNaN(b) /\ (Sign(b) = 0 \/ IsZero(b))     \* the Go test `f >= 0`: true for -0.0, false for NaN

XorSign(b) == IF b >= SignMask THEN b - SignMask ELSE b + SignMask
XorAll(b) == AllOnes - b

EncFloat(b) ==
  IF AsWritten THEN (IF NumGeqZero(b) THEN XorSign(b) ELSE XorAll(b))       \* pinned Float64ToOrderedBytes
  ELSE (IF Sign(b) = 0 THEN XorSign(b) ELSE XorAll(b))                      \* intended: branch on the sign bit
DecFloat(x) == IF x >= SignMask THEN XorSign(x) ELSE XorAll(x)               \* OrderedBytesToFloat64

FloatRel(a, b) == IF IsNaN(a) \/ IsNaN(b) THEN "un" ELSE Rel(NumLess(a, b), NumLess(b, a))
FloatCase(a, b) ==
  [k |-> "float", e |-> E, m |-> M, a |-> a, b |-> b, ca |-> Class(a), cb |-> Class(b),
   ea |-> EncFloat(a), eb |-> EncFloat(b), rel |-> FloatRel(a, b)]

---------------------------------------------------------------------------
(* Series key: subject and typed entity values, escaped and delimited.     *)
(* Bytes are their real values: the buffer of a case is byte for byte the  *)
(* buffer the real Series.Marshal produces (the harness compares them).    *)

Delim == 124      \* entityDelimiter '|'
Esc == 92         \* escape '\'
TypeByte(t) == CASE t = "null" -> 0 [] t = "str" -> 1 [] t = "int" -> 2 [] t = "bin" -> 4    \* pbv1.ValueType*

UnZigZag(u) == IF u % 2 = 0 THEN u \div 2 ELSE 0 - ((u + 1) \div 2)
IntVals == { UnZigZag(u) : u \in ZigCodes }

Strings(n) == UNION { [1..k -> Alphabet] : k \in 0..n }
Val(t, s, i) == [t |-> t, c |-> s, i |-> i]
NullVal == Val("null", <<>>, 0)
Values == {NullVal} \cup { Val("str", s, 0) : s \in Strings(MaxLen) }
                    \cup { Val("bin", s, 0) : s \in Strings(MaxLen) }
                    \cup { Val("int", <<>>, i) : i \in IntVals }
Subjects == Strings(MaxSubj)

\* encoding.Int64ToBytes / BytesToInt64 (zig-zag, 8 bytes big-endian) for |i| < 2^15
ZigZag(i) == IF i >= 0 THEN 2 * i ELSE (0 - 2 * i) - 1
IntBytes(i) == <<0, 0, 0, 0, 0, 0, (ZigZag(i) \div 256) % 256, ZigZag(i) % 256>>
BytesInt(s) == UnZigZag(s[7] * 256 + s[8])

Content(v) == IF v.t = "int" THEN IntBytes(v.i) ELSE v.c
IsEmptyVal(v) == v.t \in {"str", "bin"} /\ v.c = <<>>

\* marshalEntityValue(dest, src): nil source, fast path (no special byte: copy), slow path (escape loop)
Special(x) == x = Delim \/ x = Esc
HasSpecial(src) == \E j \in 1..Len(src) : Special(src[j])
RECURSIVE EscapeLoop(_, _)
EscapeLoop(src, j) ==
  IF j > Len(src) THEN <<>>
  ELSE (IF Special(src[j]) THEN <<Esc, src[j]>> ELSE <<src[j]>>) \o EscapeLoop(src, j + 1)
MarshalEV(src, isNil, fast) ==
  IF isNil /\ src = <<>> THEN <<Delim>>
  ELSE IF fast /\ ~HasSpecial(src) THEN src \o <<Delim>>
  ELSE EscapeLoop(src, 1) \o <<Delim>>

\* marshalTagValue: type byte, then the escaped content.  nilRep: an empty value is held as a nil slice
MarshalTV(v, nilRep, fast) == <<TypeByte(v.t)>> \o MarshalEV(Content(v), v.t = "null" \/ nilRep, fast)
RECURSIVE MarshalVals(_, _, _, _)
MarshalVals(vals, j, nilRep, fast) ==
  IF j > Len(vals) THEN <<>> ELSE MarshalTV(vals[j], nilRep, fast) \o MarshalVals(vals, j + 1, nilRep, fast)
\* Series.Marshal
MarshalSeriesBy(subj, vals, nilRep, fast) == MarshalEV(subj, nilRep, fast) \o MarshalVals(vals, 1, nilRep, fast)
MarshalSeries(subj, vals) == MarshalSeriesBy(subj, vals, FALSE, TRUE)

\* unmarshalEntityValue(dest, src) reading src from position p: [ok, dest, next]
Fail == [ok |-> FALSE, dest |-> <<>>, next |-> 0]
RECURSIVE UnLoop(_, _, _)
UnLoop(src, p, dest) ==
  IF p > Len(src) THEN Fail                                           \* "invalid entity value"
  ELSE IF src[p] = Esc THEN (IF p + 1 > Len(src) THEN Fail            \* "invalid escape character"
                             ELSE UnLoop(src, p + 2, Append(dest, src[p + 1])))
  ELSE IF src[p] = Delim THEN [ok |-> TRUE, dest |-> dest, next |-> p + 1]
  ELSE UnLoop(src, p + 1, Append(dest, src[p]))
UnEV(src, p) ==
  IF p > Len(src) THEN Fail                                           \* "empty entity value"
  ELSE IF src[p] = Delim THEN [ok |-> TRUE, dest |-> <<>>, next |-> p + 1]
  ELSE UnLoop(src, p, <<>>)

\* unmarshalTagValue: [ok, val, next]
FailV == [ok |-> FALSE, val |-> NullVal, next |-> 0]
UnTV(src, p) ==
  LET t == src[p] r == UnEV(src, p + 1) IN
  IF t = 0 THEN [ok |-> TRUE, val |-> NullVal, next |-> p + 2]        \* skips the type byte and the delimiter
  ELSE IF t \notin {1, 2, 4} \/ ~r.ok THEN FailV
  ELSE IF t = 1 THEN [ok |-> TRUE, val |-> IF r.dest = <<>> THEN NullVal ELSE Val("str", r.dest, 0), next |-> r.next]
  ELSE IF t = 4 THEN [ok |-> TRUE, val |-> IF r.dest = <<>> THEN NullVal ELSE Val("bin", r.dest, 0), next |-> r.next]
  ELSE IF Len(r.dest) < 8 THEN FailV
  ELSE [ok |-> TRUE, val |-> Val("int", <<>>, BytesInt(r.dest)), next |-> r.next]
RECURSIVE UnVals(_, _, _)
UnVals(src, p, acc) ==
  IF p > Len(src) THEN [ok |-> TRUE, vals |-> acc]
  ELSE LET r == UnTV(src, p) IN IF ~r.ok THEN [ok |-> FALSE, vals |-> acc] ELSE UnVals(src, r.next, Append(acc, r.val))
\* Series.Unmarshal
UnSeries(src) ==
  LET s == UnEV(src, 1) IN
  IF ~s.ok THEN [ok |-> FALSE, subj |-> <<>>, vals |-> <<>>]
  ELSE LET r == UnVals(src, s.next, <<>>) IN [ok |-> r.ok, subj |-> s.dest, vals |-> r.vals]

\* the witness of injectivity: the buffer splits uniquely into <<subject>> and <<type byte, content>> fields
ParseError == << <<0 - 1>> >>
RECURSIVE RawFields(_, _, _)
RawFields(src, p, acc) ==
  IF p > Len(src) THEN acc
  ELSE LET r == UnEV(src, p + 1) IN
       IF ~r.ok THEN ParseError ELSE RawFields(src, r.next, Append(acc, <<src[p], r.dest>>))
RawParse(src) == LET s == UnEV(src, 1) IN IF ~s.ok THEN ParseError ELSE RawFields(src, s.next, <<s.dest>>)
Raw(subj, vals) == <<subj>> \o [j \in 1..Len(vals) |-> <<TypeByte(vals[j].t), Content(vals[j])>>]

Tuples(n) == UNION { [1..k -> Values] : k \in 0..n }

---------------------------------------------------------------------------
\* (the cases are enumerated by quantifiers, not as one big set: TLC would build such a constant set eagerly)
Init ==
  \/ "int" \in Kinds /\ \E w \in Widths : \E a, b \in IntDom(w) : c = IntCase(w, a, b)
  \/ "uint" \in Kinds /\ \E w \in Widths : \E a, b \in UDom(w) : c = UintCase(w, a, b)
  \/ "comp" \in Kinds /\ \E w \in CompWidths : \E a1, a2, b1, b2 \in IntDom(w) : c = CompCase(w, a1, a2, b1, b2)
  \/ "float" \in Kinds /\ \E a, b \in Bits : c = FloatCase(a, b)
  \/ "entity" \in Kinds /\ \E s \in Subjects : c = [k |-> "entity", subj |-> s, vals |-> <<>>, buf |-> MarshalSeries(s, <<>>)]

\* MarshalTagValues(dest, tags) appends to the buffer: one more entity value
AppendValue(v) ==
  /\ c.k = "entity"
  /\ Len(c.vals) < MaxVals
  /\ c' = [c EXCEPT !.vals = Append(@, v), !.buf = @ \o MarshalTV(v, FALSE, TRUE)]

Next == \E v \in Values : AppendValue(v)

Spec == Init /\ [][Next]_c

---------------------------------------------------------------------------
(* Invariants (each one is guarded by the kind of the case).               *)

\* the code's integer steps compute the sign-flipped pattern
IntCodeIsSignFlip == c.k = "int" => c.ea = EncInt(c.w, c.a) /\ c.eb = EncInt(c.w, c.b)

OrderIsoInt ==
  c.k \in {"int", "uint"} =>
    /\ (c.a < c.b) <=> LexLess(BE(c.w, c.ea), BE(c.w, c.eb))
    /\ (c.a = c.b) <=> (c.ea = c.eb)

RoundTripInt ==
  /\ c.k = "int" => DecIntCode(c.w, c.ea) = c.a /\ DecInt(c.w, c.ea) = c.a
  /\ c.k = "uint" => c.ea = c.a

OrderIsoComp ==
  c.k = "comp" =>
    /\ TupleLess(c.a1, c.a2, c.b1, c.b2) <=> LexLess(CompKey(c.w, c.a1, c.a2), CompKey(c.w, c.b1, c.b2))
    /\ (c.a1 = c.b1 /\ c.a2 = c.b2) <=> (CompKey(c.w, c.a1, c.a2) = CompKey(c.w, c.b1, c.b2))

\* numeric order is carried onto the byte order; the only numerically equal distinct patterns (-0, +0) may go
\* either way; equal bytes only for identical patterns
OrderIsoFloat ==
  (c.k = "float" /\ c.rel # "un") =>
    LET less == LexLess(BE(FW, c.ea), BE(FW, c.eb))
        more == LexLess(BE(FW, c.eb), BE(FW, c.ea)) IN
    /\ c.rel = "lt" => less
    /\ c.rel = "gt" => more
    /\ less => c.rel \in {"lt", "eq"}
    /\ (c.ea = c.eb) <=> (c.a = c.b)

RoundTripFloat ==
  c.k = "float" =>
    /\ ~IsNaN(c.a) => DecFloat(c.ea) = c.a            \* bit for bit, -0.0 included
    /\ IsNaN(c.a) => IsNaN(DecFloat(c.ea))

OrderIso == OrderIsoInt /\ OrderIsoComp /\ OrderIsoFloat
RoundTrip == RoundTripInt /\ RoundTripFloat

\* ---- series key ----
BufIsMarshal == c.k = "entity" => c.buf = MarshalSeries(c.subj, c.vals)

\* decodes to the same subject and values; an empty string / byte value may read back as null
RoundTripEntity ==
  c.k = "entity" =>
    LET d == UnSeries(c.buf) IN
    /\ d.ok /\ d.subj = c.subj /\ Len(d.vals) = Len(c.vals)
    /\ \A j \in 1..Len(c.vals) : d.vals[j] = c.vals[j] \/ (IsEmptyVal(c.vals[j]) /\ d.vals[j] = NullVal)

\* different (subject, values) => different buffers.  (i) every buffer has a unique field split from which
\* subject and values are read off (left inverse); (ii) pairwise over ALL series of the bound, evaluated once
LeftInverse == c.k = "entity" => RawParse(c.buf) = Raw(c.subj, c.vals)
RawIsInjective == \A v1, v2 \in Values : <<TypeByte(v1.t), Content(v1)>> = <<TypeByte(v2.t), Content(v2)>> => v1 = v2
AllSeries == Subjects \X Tuples(MaxVals)
Injective ==
  (c.k = "entity" /\ c.subj = <<>> /\ c.vals = <<>>) =>
    /\ RawIsInjective
    /\ Cardinality({ MarshalSeries(t[1], t[2]) : t \in AllSeries }) = Cardinality(AllSeries)

\* the same entity always gives the same key: independent of the code path (copy vs escape loop) and of the
\* nil-vs-empty representation of empty values
SameEntitySameKey ==
  c.k = "entity" => \A nilRep, fast \in BOOLEAN : MarshalSeriesBy(c.subj, c.vals, nilRep, fast) = c.buf
=============================================================================
