\* C12: all pairs of 1+3+2-bit floats (set AsWritten = TRUE to see the pinned encoder rejected)
\* (checks/c12.py generates its configurations inline; this file is the same model for a manual run:
\*  java -cp /opt/veriftools/tla/tla2tools.jar tlc2.TLC -deadlock -config MC_KeyCodec_float.cfg KeyCodec.tla)
SPECIFICATION Spec
CONSTANTS
  Kinds = {"float"}
  Widths = {3}
  CompWidths = {3}
  E = 3
  M = 2
  AsWritten = FALSE
  Alphabet = {0, 97, 124, 92}
  MaxLen = 1
  MaxSubj = 1
  MaxVals = 1
  ZigCodes = {0, 1, 92, 124, 31836}
INVARIANTS
  IntCodeIsSignFlip
  OrderIso
  RoundTrip
  BufIsMarshal
  RoundTripEntity
  LeftInverse
  Injective
  SameEntitySameKey
