#!/usr/bin/env python3
"""C10 - aggregates, group-by and top-N equal a reference; partials compose.

spec/Aggregation.tla (TLC, exhaustive within bounds: the reference Agg, the Map/Reduce objects of
pkg/query/aggregation/function.go transcribed as coded, the partition law with empty blocks, replica answers counted
once, group-by over two keys, the bounded top-N heap; family "ord": entity (k1,k2), every ARRIVAL order of the points,
GROUP BY k1 / k2 / (k1,k2) with the method Analyze picks over the scan order it asks for, client pages (limit, offset)
and TOP-n through data nodes that are sent a limit) -> every state of the four TLC state graphs is rebuilt step by
step on the real code (harness c10) at three layers: the aggregation package (int64 and float64), the row plans exactly as
the data node / the coordinator build them (Analyze / DistributedAnalyze; only the storage scan and the transport are
stand-ins), and the columnar twins (BatchAggregation All/Map/Reduce, frames, BatchTop)."""
import atexit
import concurrent.futures as cf
import copy
import json
import multiprocessing
import os
import re
import sys
import threading
import time
sys.path.insert(0, '/verif/tools')
from vf import core, tla, tlc

c = core.Check('C10', 'model_checking')
c.setup()
binp = c.gobuild('c10')

NAMES = ('Family Vals Shards K1 K2 MaxRows MaxRep Grouped TopVals MaxItems MaxN IntMax IntMin '
         'MeanFloorsAtOne ScalarShardZero ConcatGroupKey Pages StreamOnPrefix NodePageIsClientPage').split()
INTMAX = 1000000
BASE = dict(Family='"agg"', Vals='-3..3', Shards='{0, 1, 2}', K1='<<"a">>', K2='<<"c">>', MaxRows=4, MaxRep=2, Grouped='FALSE',
            TopVals='-3..3', MaxItems=0, MaxN=3, IntMax=INTMAX, IntMin=-INTMAX,
            MeanFloorsAtOne='FALSE', ScalarShardZero='FALSE', ConcatGroupKey='FALSE',
            Pages='{}', StreamOnPrefix='FALSE', NodePageIsClientPage='FALSE')
AGG_INV = ['RefMeanValid', 'DirectEqualsReference', 'PartitionLaw', 'ReplicasCountOnce', 'GroupsAreKeyTuples', 'GroupedLaw']
SCALAR_INV = AGG_INV[:4]  # one group only: the grouped laws coincide with the scalar ones
ORD_INV = ['GroupMethodLaw', 'PageLaw']
# family "ord": rankings (TOP/BOTTOM m, of the 2 x MaxN the spec lists) executed per state and client page, seeded choice
ORD_RANKS = 1 if c.quick else 0  # 0: all
# adversarial concretisation of the group-key tokens: ("a","bc") and ("ab","c") concatenate to the same bytes
K1, K2 = ['a', 'ab'], ['c', 'bc']


def tla_strs(l):
    return '<<' + ', '.join('"%s"' % x for x in l) + '>>'


def model(tag, consts, invs):
    """TLC cannot read negative numbers, tuples or strings-in-tuples from a .cfg: constants live in a generated module."""
    d = dict(BASE)
    d.update(consts)
    mod = 'MC%s' % tag
    files = {mod + '.tla': '---- MODULE %s ----\nEXTENDS Aggregation\n%s====\n' % (mod, ''.join('c%s == %s\n' % (n, d[n]) for n in NAMES)),
             mod + '.cfg': 'SPECIFICATION Spec\nCONSTANTS\n%sINVARIANTS\n%s' % (''.join('  %s <- c%s\n' % (n, n) for n in NAMES), ''.join('  %s\n' % i for i in invs))}
    return mod, files, d


def tree_behaviours(nodes, edges, inits):
    """Every edge of the state graph in one behaviour from the initial state (the graphs are trees: a state is a
    canonically ordered sequence, its parent is the sequence without the last element).  A state's obs is kept only in
    the first behaviour that reaches it, so every state is compared exactly once and prefixes are only re-applied."""
    parent, children = {}, {}
    for u, v, _ in edges:
        if u == v:
            continue
        if v in parent or v in inits:
            return None  # not a tree
        parent[v] = u
        children.setdefault(u, []).append(v)
    out, emitted = [], set()
    for leaf in nodes:
        if leaf in children or (leaf not in parent and leaf not in inits):
            continue
        path = [leaf]
        while path[-1] in parent:
            path.append(parent[path[-1]])
        path.reverse()
        if path[0] not in inits:
            return None
        beh = []
        for x in path:
            st = nodes[x]
            if x in emitted:
                st = {k: v for k, v in st.items() if k != 'obs'}
            emitted.add(x)
            beh.append(st)
        out.append(beh)
    if len(emitted) != len(nodes):
        return None
    return out


def last_rows(out):
    """rows of the last state of a TLC counterexample (multi-line values)"""
    m = re.findall(r'^/\\ rows = (.*?)(?=^/\\ |^\s*$)', out, flags=re.M | re.S)
    try:
        return tla.parse_value(m[-1]) if m else None
    except tla.ParseError:
        return None


def harness_args(mode, consts):
    keyed = consts.get('Grouped') == 'TRUE' or mode == 'ord'
    return ['-mode', mode, '-k1', ','.join(K1 if keyed else ['a']), '-k2', ','.join(K2 if keyed else ['c']),
            '-maxrep', str(consts['MaxRep']), '-intmax', str(INTMAX), '-intmin', str(-INTMAX)] + (['-ranks', str(ORD_RANKS)] if mode == 'ord' else [])


if c.replay:
    obj = json.load(open(c.replay))
    if obj.get('mode') == 'extremes':
        res = c.run_harness(binp, ['-mode', 'extremes', '-n', str(obj['n']), '-only', str(obj['case']), '-maxrep', '2'], env={'VERIF_SEED': str(obj['seed'])})
    else:
        f = c.write_behaviours('replay', [obj['behaviour']])
        res = c.run_harness(binp, obj['args'] + ['-in', f], env={'VERIF_SEED': str(obj['seed'])})
        os.remove(f)
    seen = set()
    for v in res['violations']:
        if v['signature'] not in seen:
            seen.add(v['signature'])
            c.report(v['signature'], v['detail'], {k: obj[k] for k in obj if k in ('mode', 'behaviour', 'args', 'n', 'case', 'harness')})
    c.cov.update(states=1, transitions=1, traces_validated_against_impl=0, samples=[obj.get('behaviour', obj.get('case'))])
    c.finish()

# ---- 1+2. design: TLC exhaustive, three state graphs (dumped), and spec -> code: every state becomes an implementation case ----
if c.quick:
    fam = {
        'scalar': ('agg', dict(Vals='-2..2', Shards='{0, 1, 2}', MaxRows=4), SCALAR_INV),
        'group': ('agg', dict(Vals='{-2, 0, 3}', Shards='{0, 1}', K1=tla_strs(K1), K2=tla_strs(K2), MaxRows=3, Grouped='TRUE', MaxN=2), AGG_INV),
        'top': ('top', dict(Family='"top"', TopVals='-3..3', MaxItems=4, MaxN=3), ['TopNLaw']),
        # entity (k1,k2); every arrival order of up to 3 points; pages <<limit, offset>>: a node with 2 (3) groups holds
        # more groups than limit+offset = 1 (2)
        'ord': ('ord', dict(Family='"ord"', Vals='{-2, 3}', Shards='{0, 1}', K1=tla_strs(K1), K2=tla_strs(K2), MaxRows=3, MaxN=2,
                            Pages='{<<1, 0>>, <<1, 1>>}'), ORD_INV),
    }
else:
    fam = {
        'scalar': ('agg', dict(Vals='-3..3', Shards='{0, 1, 2}', MaxRows=5), SCALAR_INV),
        'group': ('agg', dict(Vals='{-3, -1, 0, 2}', Shards='{0, 1}', K1=tla_strs(K1), K2=tla_strs(K2), MaxRows=4, Grouped='TRUE', MaxN=3), AGG_INV),
        'top': ('top', dict(Family='"top"', TopVals='-3..3', MaxItems=5, MaxN=3), ['TopNLaw']),
        # every arrival order of <= 3 points over 3 values, and of <= 4 points of one value (two nodes that both hold more
        # groups than the page, in different first-seen orders; the aggregates then differ by the counts)
        'ord': ('ord', dict(Family='"ord"', Vals='{-2, 0, 3}', Shards='{0, 1}', K1=tla_strs(K1), K2=tla_strs(K2), MaxRows=3, MaxN=2,
                            Pages='{<<1, 0>>, <<1, 1>>, <<2, 0>>}'), ORD_INV),
        'ord4': ('ord', dict(Family='"ord"', Vals='{3}', Shards='{0, 1}', K1=tla_strs(K1), K2=tla_strs(K2), MaxRows=4, MaxN=2,
                             Pages='{<<1, 0>>, <<1, 1>>, <<2, 0>>, <<2, 1>>}'), ORD_INV),
    }
FAMILIES = tuple(fam)


# several TLC instances run side by side: a bounded heap and few collector threads each (the default - a quarter of
# the machine's memory and one collector thread per core, per JVM - costs more than the model checking itself); the
# short runs of the quick tier do not pay for the optimising JIT
TLC_JVM = dict(heap='2g' if c.quick else '4g', java_opts=['-XX:ParallelGCThreads=2'] + (['-XX:TieredStopAtLevel=1'] if c.quick else []))
launch = threading.Lock()


def harness(args, timeout=1500):
    # harness runs overlap; their result files are named by the millisecond they start in
    with launch:
        time.sleep(0.01)
    return c.run_harness(binp, args, timeout=timeout)


NONTRIVIAL = lambda st: len({s['last'].get('s') for s in st[1:]}) >= 2 and len({s['last'].get('v') for s in st[1:]}) >= 2  # noqa: E731
SAMPLE_AT = {'scalar': 2, 'group': 3, 'top': 2, 'ord': 3, 'ord4': 3}  # the sample behaviour of a family is number len // SAMPLE_AT


def explore(name):
    """TLC on one family, then every state of its graph replayed on the real code.  Runs in a worker PROCESS (parsing
    a state graph is pure python: side by side in threads the four parses would take turns); only summaries travel
    back, the behaviours stay in their file (one per line, line number = behaviour id)."""
    mode, consts, invs = fam[name]
    mod, files, d = model(name.capitalize(), consts, invs)
    r = tlc.run(mod + '.tla', mod + '.cfg', tag='c10' + name, files=files, dump=True, workers=5, timeout=1500, **TLC_JVM)
    out = dict(name=name, d=d, tlc=dict(distinct=r.distinct, generated=r.generated, depth=r.depth, wall_s=round(r.wall, 1)), err=None)
    if r.violated or r.error or r.timed_out or not r.ok:
        out['err'] = 'TLC on Aggregation.tla (%s): violated=%s error=%s timeout=%s\n%s' % (name, r.violated, r.error, r.timed_out, r.output[-1500:])
        return out
    nodes, edges, inits = tlc.graph(r)
    tlc.cleanup(r)
    b = tree_behaviours(nodes, edges, inits)
    if b is None or len(nodes) != r.distinct:
        out['err'] = 'state graph of family %s is not the expected tree (%d nodes, %d distinct)' % (name, len(nodes), r.distinct)
        return out
    c.log('TLC Aggregation[%s]: %d distinct states, invariants hold (%.1fs) -> %d behaviours' % (name, r.distinct, r.wall, len(b)))
    f = c.write_behaviours(name, b)
    cand = [i for i, x in enumerate(b) if len(x) >= 3 and 'obs' in x[-1]]
    out.update(file=f, behaviours=len(b), sample=b[len(b) // SAMPLE_AT[name]], selftest=b[cand[len(cand) // 2]] if cand else None,
               nontrivial=core.nontrivial_count(b, NONTRIVIAL) if name != 'top' else 0)
    del nodes, edges, b
    out['res'] = harness(harness_args(mode, d) + ['-in', f])
    return out


def behaviour(name, i):
    """behaviour number i of a family, from its file"""
    with open(beh_file[name]) as fh:
        for k, line in enumerate(fh):
            if k == i:
                x = json.loads(line)
                if x.get('id') != i:
                    c.inconclusive('internal: behaviour file of family %s is not indexed by line' % name)
                return x['states']
    c.inconclusive('internal: behaviour %d of family %s not found' % (i, name))


# the three named deviations of the pinned code: with each switched on TLC must find the counterexample (this shows the
# invariants are not vacuous and documents the spec-level shape of what the replay may find)
# ... and the two planner decisions of family "ord" with their named wrong alternative
ORD_QUIRKS = ('StreamOnPrefix', 'NodePageIsClientPage')


def quirk(q):
    if q in ORD_QUIRKS:
        mod, files, d = model('Q' + q, dict(fam['ord'][1], MaxRows=3, **{q: 'TRUE'}), ORD_INV)
    else:
        mod, files, d = model('Q' + q, dict(Vals='{-2, 0, 3}', Shards='{0, 1}', K1=tla_strs(K1), K2=tla_strs(K2), MaxRows=3, Grouped='TRUE', MaxN=1, **{q: 'TRUE'}), AGG_INV)
    return q, tlc.run(mod + '.tla', mod + '.cfg', tag='c10q' + q, files=files, workers=2, timeout=600, **TLC_JVM)


# ---- 3. int64 extremes: metamorphic, outside the bounded TLC domain ----
nx = 3000 if c.quick else 30000

beh_file = {}


def drop_files():
    for f in beh_file.values():
        if os.path.exists(f):
            os.remove(f)


atexit.register(drop_files)
with cf.ProcessPoolExecutor(len(FAMILIES), mp_context=multiprocessing.get_context('fork')) as px, cf.ThreadPoolExecutor(8) as ex:
    fut_fam = [px.submit(explore, n) for n in FAMILIES]
    fut_q = [ex.submit(quirk, q) for q in ('MeanFloorsAtOne', 'ScalarShardZero', 'ConcatGroupKey') + ORD_QUIRKS]
    fut_x = ex.submit(harness, ['-mode', 'extremes', '-n', str(nx), '-maxrep', '2'], 900)
    fam_out = [f.result() for f in fut_fam]
    quirk_out = [f.result() for f in fut_q]
    xres = fut_x.result()

states = transitions = 0
tlc_stats, results, args_of, all_viol, quirks, sample_of, selftest_of, nontriv = {}, {}, {}, [], {}, {}, {}, 0
for o in fam_out:
    if o.get('file'):
        beh_file[o['name']] = o['file']
for o in fam_out:
    name, d, res = o['name'], o['d'], o.get('res')
    if o['err']:
        c.inconclusive(o['err'])
    if res.get('inconclusive'):
        c.inconclusive('; '.join(res['inconclusive'][:3]))
    results[name], args_of[name], sample_of[name], selftest_of[name] = res, harness_args(fam[name][0], d), o['sample'], o['selftest']
    nontriv += o['nontrivial']
    states += o['tlc']['distinct']
    transitions += o['tlc']['generated']
    tlc_stats[name] = dict(o['tlc'], behaviours=o['behaviours'],
                           constants={k: d[k] for k in ('Vals', 'Shards', 'K1', 'K2', 'MaxRows', 'MaxRep', 'TopVals', 'MaxItems', 'MaxN', 'Pages')})
    c.log('replayed %s: %d behaviours, %d states compared, %d mismatches %s' % (
        name, res['behaviours'], res['stats'].get('states_compared', 0), res['stats'].get('violations_total', 0),
        sorted(k[4:] for k in res['stats'] if k.startswith('sig:'))))
    for v in res['violations']:
        all_viol.append((name, v))
for q, r in quirk_out:
    if not r.violated:
        c.inconclusive('spec self-check: deviation %s does not violate any invariant (error=%s)' % (q, r.error))
    quirks[q] = dict(violates=r.violated, rows=last_rows(r.output))
c.log('spec self-check: each named deviation violates an invariant: %s' % {k: v['violates'] for k, v in quirks.items()})
if xres.get('inconclusive'):
    c.inconclusive('; '.join(xres['inconclusive'][:3]))
c.log('extremes: %d cases, %d mismatches' % (xres['stats'].get('extreme_cases', 0), xres['stats'].get('violations_total', 0)))
for v in xres['violations']:
    all_viol.append(('extremes', v))

# ---- 4. every distinct signature is re-executed once from scratch before it is reported ----
seen = set()
for name, v in all_viol:
    if v['signature'] in seen:
        continue
    seen.add(v['signature'])
    if name == 'extremes':
        again = c.run_harness(binp, ['-mode', 'extremes', '-n', str(nx), '-only', str(v['behaviour']), '-maxrep', '2'])
        replay = {'mode': 'extremes', 'n': nx, 'case': v['behaviour'], 'harness': 'c10'}
    else:
        # the prefix is only re-applied, the failing state carries its expectation
        full = behaviour(name, v['behaviour'])[: v['step'] + 1]
        if 'obs' not in full[-1]:
            c.inconclusive('internal: violation reported on a state without expectation')
        f2 = c.write_behaviours('repro', [full])
        again = c.run_harness(binp, args_of[name] + ['-in', f2])
        os.remove(f2)
        replay = {'mode': fam[name][0], 'behaviour': full, 'args': args_of[name], 'harness': 'c10'}
    if v['signature'] not in [x['signature'] for x in again['violations']]:
        c.unreproduced('violation %s not reproduced' % v['signature'])
        continue
    c.report(v['signature'], v['detail'], replay)

# ---- 5. binding self-test: a corrupted expectation must be rejected by the replayer ----
selftest = {}
for name, path, mut in (('scalar', ('obs', 'sres', 'r', 0), 1), ('group', ('obs', 'gparts', 0, 'p', 2, 0), 1), ('top', ('obs', 0, 'vals', 0), 1),
                        ('ord', ('obs', 'bys', 0, 'groups', 0, 'res', 'r', 0), 1)):
    if selftest_of[name] is None:
        c.inconclusive('binding self-test: family %s has no behaviour of 2 steps' % name)
    b = copy.deepcopy(selftest_of[name])
    x = b[-1]
    for k in path[:-1]:
        x = x[k]
    x[path[-1]] += mut
    f3 = c.write_behaviours('selftest', [b])
    r3 = c.run_harness(binp, args_of[name] + ['-in', f3, '-layers', 'plan' if name == 'ord' else 'pkg'])
    os.remove(f3)
    selftest[name] = bool(r3['violations'])
if not all(selftest.values()):
    c.inconclusive('binding self-test failed: a corrupted expectation was accepted: %s' % selftest)

# ---- evidence ----
stats = {}
for name, res in list(results.items()) + [('extremes', xres)]:
    for k, v in res['stats'].items():
        if not k.startswith('sig:'):
            stats[k] = stats.get(k, 0) + v
sample_s, sample_g, sample_t, sample_o = (sample_of[n] for n in ('scalar', 'group', 'top', 'ord'))
# non-vacuity of family "ord", measured by the harness: the plans really executed
ordc = {k: v for k, v in stats.items() if k.startswith('ord_')}
ord_cov = dict(
    entity2_groupby_plans_by_method={k[len('ord_entity2_groupby_plans:'):]: v for k, v in ordc.items() if k.startswith('ord_entity2_groupby_plans:')},
    entity2_prefix_groupby_plans=sum(v for k, v in ordc.items() if k.startswith('ord_entity2_groupby_plans:k1:')),
    entity2_prefix_groupby_plans_same_prefix_series_not_adjacent=ordc.get('ord_entity2_prefix_groupby_plans_nonadjacent', 0),
    states_where_series_order_cuts_a_group={k[len('ord_states_series_order_cuts_groups:'):]: v for k, v in ordc.items() if k.startswith('ord_states_series_order_cuts_groups:')},
    entity2_distributed_groupby_plans={k[len('ord_entity2_distributed_groupby_plans:'):]: v for k, v in ordc.items() if k.startswith('ord_entity2_distributed_groupby_plans:')},
    limited_distributed_groupby_plans=ordc.get('ord_limited_distributed_groupby_plans', 0),
    limited_distributed_groupby_plans_node_holds_more_groups_than_page=ordc.get('ord_limited_distributed_groupby_plans_node_holds_more_groups_than_page', 0),
    limited_distributed_top_plans=ordc.get('ord_limited_distributed_top_plans', 0),
    limited_distributed_top_plans_node_holds_more_groups_than_page=ordc.get('ord_limited_distributed_top_plans_node_holds_more_groups_than_page', 0),
    node_requests_unbounded=ordc.get('ord_node_requests_unbounded', 0), node_requests_bounded=ordc.get('ord_node_requests_bounded', 0))
# the extended coverage must not be vacuous (these are counts of executed plans, no verdict on the code)
for k in ('entity2_prefix_groupby_plans_same_prefix_series_not_adjacent', 'limited_distributed_groupby_plans_node_holds_more_groups_than_page',
          'limited_distributed_top_plans_node_holds_more_groups_than_page'):
    if not ord_cov[k]:
        c.inconclusive('family "ord" is vacuous: %s = 0' % k)
c.log('family ord: %s' % json.dumps(ord_cov))
c.cov.update(
    states=states, transitions=transitions, traces_validated_against_impl=0,
    behaviours_replayed=sum(r['behaviours'] for r in results.values()), steps_replayed=sum(r['steps'] for r in results.values()),
    states_compared=stats.get('states_compared', 0), exhaustive=True,
    evaluations=stats.get('states_compared', 0) + stats.get('extreme_cases', 0), distinct_nontrivial=nontriv,
    rule='every state of the %d TLC state graphs (trees: one behaviour per leaf, every state compared once) is rebuilt on the real code; ' % len(FAMILIES) +
         'non-trivial = rows in at least two shards with at least two distinct values; distinct by full state sequence',
    tlc=tlc_stats, harness_stats=stats, family_ord=ord_cov, extreme_cases=stats.get('extreme_cases', 0),
    spec_deviation_counterexamples=quirks, binding_selftest_rejected=all(selftest.values()), binding_selftest=selftest,
    signatures={n: sorted(k[4:] for k in r['stats'] if k.startswith('sig:')) for n, r in list(results.items()) + [('extremes', xres)]},
    samples=[{'family': 'scalar', 'steps': [s['last'] for s in sample_s[1:]], 'obs': sample_s[-1].get('obs')},
             {'family': 'group', 'steps': [s['last'] for s in sample_g[1:]], 'obs': sample_g[-1].get('obs')},
             {'family': 'top', 'steps': [s['last'] for s in sample_t[1:]], 'obs': sample_t[-1].get('obs')},
             {'family': 'ord', 'steps': [s['last'] for s in sample_o[1:]], 'obs': sample_o[-1].get('obs')}],
)
c.assumptions += [
    'the storage scan (MeasureExecutionContext.Query) and the transport (Broadcast) are stand-ins: a node is the real data-node plan over the rows of one shard replica; replicas of a shard hold the same rows',
    'field values beyond the TLC domain (int64 extremes) are checked metamorphically only (partition invariance, wrap-around-aware reference for SUM/MEAN): outside the TLA+ scope',
    'MEAN of an integer field: either integer neighbour of the exact mean is accepted (rounding direction is not documented)',
    'top-N ties: any tie-valid choice is accepted (values in order must match, identities must be consistent and distinct)',
    'float64: only integral values (exactly representable sums); the float mean is the correctly rounded quotient',
    'family "ord": the position of a series in the series-index answer (index.OrderByTypeSeries) is taken to be its creation order (first arrival); '
    'time order is arrival order; a data node plans the request it is sent unchanged (limit and offset included), as measureInternalQueryProcessor.Rev does',
    'family "ord": the data nodes run the row plan (the stand-in execution context is not vectorized-capable, as with the flag off); '
    'per state and client page COUNT plus one seeded other function, and %s of the %d rankings the spec lists, are executed' % ('%d seeded' % ORD_RANKS if ORD_RANKS else 'all', 2 * int(fam['ord'][1]['MaxN'])),
    'a client page (limit, offset) over groups without ranking: any PageSize distinct groups are accepted, each must carry the reference value over all its rows',
    'group keys are concretised adversarially (a|bc vs ab|c); 64-bit hash collisions of group keys are not searched for',
    'TLC bounds: %s' % json.dumps({k: v['constants'] for k, v in tlc_stats.items()}),
]
c.finish()
