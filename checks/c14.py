#!/usr/bin/env python3
"""C14 - a segment is never closed or deleted while in use, and never leaks."""
import json, os, sys
sys.path.insert(0, '/verif/tools')
from vf import core, tlc

c = core.Check('C14', 'model_checking')
c.setup()
binp = c.gobuild('stor')

INV = ['RcCoversHolders', 'Accounting', 'OpenWhileHeld', 'DeletedExactlyAtLastRelease', 'NoResurrection', 'NoLeak', 'ListedOnDisk', 'ReopenKeepsData']
CFG = '''SPECIFICATION Spec
CONSTANTS
  NSegs = %d
  Clients = {"c1", "c2"}
  MaxHandles = %d
  MaxOps = %d
INVARIANTS
''' + ''.join('  %s\n' % i for i in INV) + 'PROPERTIES\n  ClosedStaysClosedOnSnapshot\n'


def replay(behs, name):
    return c.run_harness_parallel(binp, ['-mode', 'segapi'], behs, name=name, procs=12, timeout=1500)


if c.replay and 'behaviour' not in json.load(open(c.replay)):
    c.replay = None   # a race found by the concurrent leg: re-running the whole check is the replay
if c.replay:
    obj = json.load(open(c.replay))
    res = replay([obj['behaviour']], 'replay')
    for v in res['violations']:
        c.report(v['signature'], v['detail'], {'behaviour': obj['behaviour'], 'harness': 'stor/segapi'})
    c.cov.update(states=1, transitions=1, traces_validated_against_impl=0, samples=[obj['behaviour'][-1]])
    c.finish()

# 1. design: exhaustive
nsegs, mh, ops = (2, 3, 7) if c.quick else (3, 4, 8)
r = tlc.run('SegmentAPI.tla', 'mc.cfg', tag='c14', files={'mc.cfg': CFG % (nsegs, mh, ops) + 'VIEW View\n'}, coverage=not c.quick, timeout=2400, workers=12)
if r.violated or r.error or r.timed_out:
    c.inconclusive('TLC on SegmentAPI.tla: violated=%s error=%s timeout=%s\n%s' % (r.violated, r.error, r.timed_out, r.output[-1500:]))
c.log('TLC SegmentAPI: %d distinct states, %d transitions, invariants hold (%.1fs)' % (r.distinct, r.generated, r.wall))

# 2. every transition of a smaller graph + deep random behaviours, replayed on the real TSDB
gops = 3 if c.quick else 4
g = tlc.run('SegmentAPI.tla', 'g.cfg', tag='c14g', files={'g.cfg': CFG % (2, 3, gops)}, dump=True, timeout=1500)
if not g.ok:
    c.inconclusive('graph dump failed: %s' % (g.error or g.violated))
nodes, edges, inits = tlc.graph(g)
behs, unc = tlc.cover_edges(nodes, edges, inits, max_len=gops + 1)
tlc.cleanup(g)
s = tlc.run('SegmentAPI.tla', 's.cfg', tag='c14s', files={'s.cfg': CFG % (3, 5, 16)}, simulate={'num': 400 if c.quick else 4000}, depth=17, seed=c.seed, timeout=900)
sb = tlc.sim_behaviours(s)
tlc.cleanup(s)
allb = behs + sb
c.log('graph: %d states, %d edges -> %d behaviours (+%d simulated, 3 segments, depth 16)' % (len(nodes), len(edges), len(behs), len(sb)))
res = replay(allb, 'segapi')
if res['inconclusive']:
    c.inconclusive('; '.join(res['inconclusive'][:3]))
seen = set()
for v in res['violations']:
    if v['signature'] in seen:
        continue
    seen.add(v['signature'])
    b = allb[v['behaviour']][: v['step'] + 1]
    again = replay([b], 'repro')
    if not [x for x in again['violations'] if x['signature'] == v['signature']]:
        c.unreproduced('violation %s not reproduced on a second run' % v['signature'])
        continue
    c.report(v['signature'], v['detail'], {'behaviour': b, 'harness': 'stor/segapi'})

# ---- 2b. design at the granularity of every atomic operation (incRef fast/slow path, DecRef with the pending
# unpinned releases, performDelete, closeIfIdle, the deleting scan), all interleavings ----
SR = 'SPECIFICATION Spec\nCONSTANTS\n  Holders = {h1, h2}\n  Peekers = {k1}\n  Reclaimers = {r1}\n  Deleters = %s\n  None = None\nINVARIANTS\n  OpenWhileHeld\n  NoResurrection\n  CountCoversHolders\n  NoLeak\n  TokNonNegative\n'
ra = tlc.run('SegmentRef.tla', 'sr.cfg', tag='c14a', files={'sr.cfg': SR % ('{}' if c.quick else '{d1}')}, timeout=2400, workers=10)
if not ra.ok:
    c.inconclusive('TLC on SegmentRef.tla: violated=%s error=%s timeout=%s\n%s' % (ra.violated, ra.error, ra.timed_out, ra.output[-1500:]))
c.log('TLC SegmentRef (atomic level): %d distinct states, invariants hold (%.0fs)' % (ra.distinct, ra.wall))

# ---- 3. code -> spec under real concurrency: holders vs housekeeping on one TSDB, trace validated by SegHoldTrace.tla ----
HCFG = 'SPECIFICATION TraceSpec\nCONSTANTS\n  Clients = {"q"}\n  Segs = {"s"}\nINVARIANTS\n  HeldIsOpen\n  CopyUndisturbed\nPOSTCONDITION TraceAccepted\n'
hd = tlc.run('SegHold.tla', 'h.cfg', tag='c14h', files={'h.cfg': 'SPECIFICATION HSpec\nCONSTANTS\n  Clients = {"q1", "q2"}\n  Segs = {"s1", "s2"}\nINVARIANTS\n  HeldIsOpen\n  CopyUndisturbed\n'}, timeout=600)
if not hd.ok:
    c.inconclusive('TLC on SegHold.tla: %s %s' % (hd.violated, hd.error))


def stress(i, millis):
    tp = os.path.join(core.BUILD, 'out', 'c14-seg-%d-%d.ndjson' % (os.getpid(), i))
    rr = c.run_harness(binp, ['-mode', 'segstress', '-cfg', json.dumps(dict(trace=tp, millis=millis, segs=6))], timeout=600, env={'VERIF_SEED': str(c.seed * 100 + i)})
    lines = open(tp).read().splitlines() if os.path.exists(tp) else []
    if os.path.exists(tp):
        os.remove(tp)
    return rr, lines


def trace_verdict(lines):
    t = tlc.run('SegHoldTrace.tla', 't.cfg', tag='c14t', files={'t.cfg': HCFG, 'trace.ndjson': '\n'.join(lines) + '\n'}, workers=1, timeout=900)
    if t.ok:
        return None
    if t.timed_out or (t.error and 'TraceAccepted' not in t.output and not t.violated):
        c.inconclusive('trace validation did not run: %s\n%s' % (t.error, t.output[-1200:]))
    k = max(t.depth - 1, 0)
    ev = json.loads(lines[k]) if k < len(lines) else {}
    return ('segment-%s-while-held' % {'SegClosed': 'closed', 'SegDeleted': 'deleted', 'HoldBegin': 'handed-out-after-delete-or-during-copy', 'SnapClosedBegin': 'copied-while-held'}.get(ev.get('event'), 'trace-rejected'),
            'event %d of %d rejected by SegHoldTrace.tla: %s' % (k + 1, len(lines), lines[k] if k < len(lines) else 'end'), lines[: k + 1])


runs, millis = (2, 2500) if c.quick else (10, 6000)
straces, sevents, sstats, found = 0, 0, {}, {}
for i in range(runs):
    sr, lines = stress(i, millis)
    if sr['inconclusive']:
        c.inconclusive('; '.join(sr['inconclusive'][:3]))
    for k2, v2 in sr['stats'].items():
        sstats[k2] = sstats.get(k2, 0) + v2
    for vv in sr['violations']:
        found.setdefault(vv['signature'], (vv['detail'], lines[-60:]))
    if len(lines) < 200:
        c.inconclusive('segment stress run %d produced only %d events' % (i, len(lines)))
    tv = trace_verdict(lines)
    sevents += len(lines)
    if tv:
        found.setdefault(tv[0], (tv[1], tv[2][-60:]))
    else:
        straces += 1
    if i == 0:
        # binding self-test: a close event moved inside a hold must be rejected
        hb = [j for j, x in enumerate(lines) if '"HoldBegin"' in x]
        if hb:
            seg = json.loads(lines[hb[len(hb) // 2]])['seg']
            mut = lines[: hb[len(hb) // 2] + 1] + [json.dumps({'event': 'SegClosed', 'seg': seg})] + lines[hb[len(hb) // 2] + 1:]
            if trace_verdict(mut) is None:
                c.inconclusive('binding self-test failed: a close inside a hold was accepted')
# a race found once must show up again within a few more runs before it is reported
for sig, (detail, ctx) in found.items():
    again = False
    for j in range(6):
        sr, lines = stress(100 + j, millis)
        tv = trace_verdict(lines)
        if any(v['signature'] == sig for v in sr['violations']) or (tv and tv[0] == sig):
            again = True
            break
    if not again:
        c.unreproduced('concurrency violation %s seen once but not again in 6 further runs: %s' % (sig, detail))
        continue
    c.report(sig, detail, {'trace_tail': ctx, 'harness': 'stor/segstress'})
c.log('concurrent runs: %d traces accepted, %d events, %s' % (straces, sevents, sstats))

nontriv = core.nontrivial_count(allb, lambda st: any(x['last'].get('op') == 'select' for x in st[1:]) and
                                any(x['last'].get('op') in ('idle', 'retention', 'forced') for x in st[1:]) and
                                any(x['last'].get('op') == 'release' for x in st[1:]))
c.cov.update(states=r.distinct + hd.distinct + ra.distinct, transitions=r.generated + hd.generated + ra.generated, atomic_level_states=ra.distinct, traces_validated_against_impl=straces, trace_events=sevents, stress_stats=sstats,
             behaviours_replayed=res['behaviours'], steps_replayed=res['steps'], graph_edges=len(edges), graph_edges_uncovered=unc,
             simulated_behaviours=len(sb), exhaustive=(unc == 0), evaluations=res['behaviours'], distinct_nontrivial=nontriv,
             rule='API-level behaviours of SegmentAPI.tla (2 logical clients; select with/without reopen, release, idle reclaim, retention, forced cleanup, scan, snapshot, metrics) = edge cover of the TLC graph (2 segments, %d ops) + -simulate (3 segments, 16 ops), replayed through the public TSDB interface; (refCount, open, mustBeDeleted, directory, listed) of every segment and the view of every holder compared after every call; non-trivial = has a select, a release and a housekeeping step' % gops,
             harness_stats=res['stats'], action_coverage=r.coverage, tlc_constants=dict(nsegs=nsegs, max_handles=mh, max_ops=ops),
             samples=[[x['last'] for x in allb[len(allb) // 3][1:]], [x['last'] for x in allb[-1][1:]]])
c.assumptions += ['replay leg: API calls are atomic steps (single goroutine); interleavings inside the calls are exercised by the concurrent leg (real goroutines: 3 queriers, a stats peeker, idle reclaimer, rotation scans, retention/forced delete, file snapshots, metrics) whose trace must be a behaviour of SegHold.tla - schedules are those the Go scheduler produces, not enumerated',
                  'fake TSTable (records Close), real series index and directories, mock clock']
c.finish()
