#!/usr/bin/env python3
"""C14 - a segment is never closed or deleted while in use, and never leaks."""
import json, os, sys
sys.path.insert(0, '/verif/tools')
from vf import core, tlc

c = core.Check('C14', 'model_checking')
c.setup()
binp = c.gobuild('stor')

INV = ['RcCoversHolders', 'Accounting', 'OpenWhileHeld', 'DeletedExactlyAtLastRelease', 'NoResurrection', 'NoLeak', 'ListedOnDisk', 'ReopenKeepsData']
CFG = '''SPECIFICATION Spec
CONSTANTS
  NSegs = %d
  Clients = {"c1", "c2"}
  MaxHandles = %d
  MaxOps = %d
INVARIANTS
''' + ''.join('  %s\n' % i for i in INV) + 'PROPERTIES\n  ClosedStaysClosedOnSnapshot\n'


def replay(behs, name):
    return c.run_harness_parallel(binp, ['-mode', 'segapi'], behs, name=name, procs=12, timeout=1500)


if c.replay:
    obj = json.load(open(c.replay))
    res = replay([obj['behaviour']], 'replay')
    for v in res['violations']:
        c.report(v['signature'], v['detail'], {'behaviour': obj['behaviour'], 'harness': 'stor/segapi'})
    c.cov.update(states=1, transitions=1, traces_validated_against_impl=0, samples=[obj['behaviour'][-1]])
    c.finish()

# 1. design: exhaustive
nsegs, mh, ops = (2, 3, 7) if c.quick else (3, 4, 8)
r = tlc.run('SegmentAPI.tla', 'mc.cfg', tag='c14', files={'mc.cfg': CFG % (nsegs, mh, ops) + 'VIEW View\n'}, coverage=not c.quick, timeout=2400, workers=12)
if r.violated or r.error or r.timed_out:
    c.inconclusive('TLC on SegmentAPI.tla: violated=%s error=%s timeout=%s\n%s' % (r.violated, r.error, r.timed_out, r.output[-1500:]))
c.log('TLC SegmentAPI: %d distinct states, %d transitions, invariants hold (%.1fs)' % (r.distinct, r.generated, r.wall))

# 2. every transition of a smaller graph + deep random behaviours, replayed on the real TSDB
gops = 3 if c.quick else 4
g = tlc.run('SegmentAPI.tla', 'g.cfg', tag='c14g', files={'g.cfg': CFG % (2, 3, gops)}, dump=True, timeout=1500)
if not g.ok:
    c.inconclusive('graph dump failed: %s' % (g.error or g.violated))
nodes, edges, inits = tlc.graph(g)
behs, unc = tlc.cover_edges(nodes, edges, inits, max_len=gops + 1)
tlc.cleanup(g)
s = tlc.run('SegmentAPI.tla', 's.cfg', tag='c14s', files={'s.cfg': CFG % (3, 5, 16)}, simulate={'num': 400 if c.quick else 4000}, depth=17, seed=c.seed, timeout=900)
sb = tlc.sim_behaviours(s)
tlc.cleanup(s)
allb = behs + sb
c.log('graph: %d states, %d edges -> %d behaviours (+%d simulated, 3 segments, depth 16)' % (len(nodes), len(edges), len(behs), len(sb)))
res = replay(allb, 'segapi')
if res['inconclusive']:
    c.inconclusive('; '.join(res['inconclusive'][:3]))
seen = set()
for v in res['violations']:
    if v['signature'] in seen:
        continue
    seen.add(v['signature'])
    b = allb[v['behaviour']][: v['step'] + 1]
    again = replay([b], 'repro')
    if not [x for x in again['violations'] if x['signature'] == v['signature']]:
        c.inconclusive('violation %s not reproduced on a second run' % v['signature'])
    c.report(v['signature'], v['detail'], {'behaviour': b, 'harness': 'stor/segapi'})

nontriv = core.nontrivial_count(allb, lambda st: any(x['last'].get('op') == 'select' for x in st[1:]) and
                                any(x['last'].get('op') in ('idle', 'retention', 'forced') for x in st[1:]) and
                                any(x['last'].get('op') == 'release' for x in st[1:]))
c.cov.update(states=r.distinct, transitions=r.generated, traces_validated_against_impl=0,
             behaviours_replayed=res['behaviours'], steps_replayed=res['steps'], graph_edges=len(edges), graph_edges_uncovered=unc,
             simulated_behaviours=len(sb), exhaustive=(unc == 0), evaluations=res['behaviours'], distinct_nontrivial=nontriv,
             rule='API-level behaviours of SegmentAPI.tla (2 logical clients; select with/without reopen, release, idle reclaim, retention, forced cleanup, scan, snapshot, metrics) = edge cover of the TLC graph (2 segments, %d ops) + -simulate (3 segments, 16 ops), replayed through the public TSDB interface; (refCount, open, mustBeDeleted, directory, listed) of every segment and the view of every holder compared after every call; non-trivial = has a select, a release and a housekeeping step' % gops,
             harness_stats=res['stats'], action_coverage=r.coverage, tlc_constants=dict(nsegs=nsegs, max_handles=mh, max_ops=ops),
             samples=[[x['last'] for x in allb[len(allb) // 3][1:]], [x['last'] for x in allb[-1][1:]]])
c.assumptions += ['API calls are atomic steps here (single goroutine); interleavings inside the calls are the subject of SegmentRef.tla',
                  'fake TSTable (records Close), real series index and directories, mock clock']
c.finish()
