#!/usr/bin/env python3
"""C19 - a file snapshot is a consistent, openable point-in-time copy (measure tsTable level + segment level).

tsTable level: real concurrent runs (writers, queries, real flusher/merger loops) in which TakeFileSnapshot is called
every 15 ms; every copy is inspected (part directories, manifest) and opened with the real start-up code; the calls
are bracketed by FileSnapBegin/FileSnapEnd events in the lifecycle trace and TLC validates the trace against
TSTableTrace.tla (SnapshotEqualsSomeState, ManifestPartsPresent, the copy opens with exactly its parts).
segment level (closed segments are linked, never reopened; flagged ones skipped): SegmentAPI.tla Snapshot action,
replayed on the real TSDB by the C14 harness (behaviours containing a snapshot step are re-run here)."""
import json, os, random, sys
sys.path.insert(0, '/verif/tools')
from vf import core, tlc

c = core.Check('C19', 'model_checking')
c.setup()
binp = c.gobuild('eng')
stor = c.gobuild('stor')
LIFE_CFG = 'SPECIFICATION TraceSpec\nINVARIANTS\n  NoLiveSnapshotHoldsReleasedPart\n  CurrentIsLive\n  RemovedWereReleased\nPOSTCONDITION TraceAccepted\n'


def validate(lines, tag='c19t'):
    r = tlc.run('TSTableTrace.tla', 't.cfg', tag=tag, files={'t.cfg': LIFE_CFG, 'trace.ndjson': '\n'.join(lines) + '\n'}, workers=1, timeout=1200)
    if r.ok:
        return True, None, r
    if r.timed_out or (r.error and 'TraceAccepted' not in r.output and not r.violated):
        c.inconclusive('trace validation did not run: %s\n%s' % (r.error, r.output[-1500:]))
    return False, max(r.depth - 1, 0), r


def classify(ev):
    if ev.get('event') != 'FileSnapEnd':
        return 'lifecycle:' + ev.get('event', 'end')
    copied, listed, opened = set(ev['copied']), set(ev['listed']), set(ev['opened'])
    if not listed <= copied:
        return 'manifest-lists-part-missing-from-copy'
    if opened != copied:
        return 'copy-opens-with-other-parts'
    return 'copy-is-not-one-snapshot-state'


if c.replay and 'trace' not in json.load(open(c.replay)) and 'behaviour' not in json.load(open(c.replay)):
    c.replay = None   # a race found by the concurrent segment leg: re-running the whole check is the replay
if c.replay and 'behaviour' in json.load(open(c.replay)):
    obj = json.load(open(c.replay))
    res = c.run_harness_parallel(stor, ['-mode', 'segapi'], [obj['behaviour']], name='c19r', procs=1)
    for v in res['violations']:
        c.report('segment:' + v['signature'], v['detail'], {'behaviour': obj['behaviour'], 'harness': 'stor/segapi'})
    c.cov.update(states=1, transitions=1, traces_validated_against_impl=0, samples=[obj['behaviour'][-1]])
    c.finish()
if c.replay:
    obj = json.load(open(c.replay))
    ok, k, r = validate(obj['trace'], 'c19r')
    if not ok:
        c.report(obj['signature'], 'recorded trace rejected again at event %d' % (k + 1), {'trace': obj['trace']})
    c.cov.update(states=1, transitions=1, traces_validated_against_impl=1, samples=[obj['trace'][-1]])
    c.finish()

# ---- segment level: SegmentAPI behaviours that contain a snapshot, on the real TSDB ----
CFG = 'SPECIFICATION Spec\nCONSTANTS\n  NSegs = %d\n  Clients = {"c1", "c2"}\n  MaxHandles = %d\n  MaxOps = %d\nINVARIANTS\n  OpenWhileHeld\n  NoResurrection\n  ListedOnDisk\nPROPERTIES\n  ClosedStaysClosedOnSnapshot\n'
d = tlc.run('SegmentAPI.tla', 'mc.cfg', tag='c19d', files={'mc.cfg': CFG % (2, 3, 6 if c.quick else 7) + 'VIEW View\n'}, timeout=1500, workers=12)
if not d.ok:
    c.inconclusive('TLC on SegmentAPI.tla: %s %s' % (d.violated, d.error))
s = tlc.run('SegmentAPI.tla', 's.cfg', tag='c19s', files={'s.cfg': CFG % (3, 4, 14)}, simulate={'num': 600 if c.quick else 5000}, depth=15, seed=c.seed, timeout=900)
sb = [b for b in tlc.sim_behaviours(s) if any(x['last'].get('op') == 'snapshot' for x in b[1:]) and any(x['last'].get('op') in ('idle', 'retention', 'forced') for x in b[1:])]
tlc.cleanup(s)
sb = sb[: (150 if c.quick else 1500)]
res = c.run_harness_parallel(stor, ['-mode', 'segapi'], sb, name='c19seg', procs=8, timeout=1500)
if res['inconclusive']:
    c.inconclusive('; '.join(res['inconclusive'][:3]))
seen = set()
for v in res['violations']:
    if v['signature'] in seen:
        continue
    seen.add(v['signature'])
    b = sb[v['behaviour']][: v['step'] + 1]
    again = c.run_harness_parallel(stor, ['-mode', 'segapi'], [b], name='c19r', procs=1)
    if not [x for x in again['violations'] if x['signature'] == v['signature']]:
        c.unreproduced('violation %s not reproduced' % v['signature'])
        continue
    c.report('segment:' + v['signature'], v['detail'], {'behaviour': b, 'harness': 'stor/segapi'})
c.log('segment level: %d behaviours with snapshot + housekeeping steps replayed (%d steps)' % (res['behaviours'], res['steps']))

# ---- segment level under real concurrency: snapshots racing with queries (reopen), idle reclaim, retention and forced
# delete on one TSDB; the closed path is bracketed by SnapClosedBegin/End events (hooks, under the segment mutex in the
# pinned code) and the merged trace must be a behaviour of SegHold.tla: nothing reopens, closes or deletes a segment
# while its directory is being hard-linked; and TakeFileSnapshot never fails ----
import segstress_common as ssc
sruns, smillis = (1, 2500) if c.quick else (6, 5000)
sfound, sclosed, sstats_seg = {}, 0, {}
for i in range(sruns):
    sr, slines = ssc.stress(c, stor, i, smillis, 'c19')
    if sr['inconclusive']:
        c.inconclusive('; '.join(sr['inconclusive'][:3]))
    for k2, v2 in sr['stats'].items():
        sstats_seg[k2] = sstats_seg.get(k2, 0) + v2
    sclosed += sum(1 for x in slines if '"SnapClosedBegin"' in x)
    for vv in sr['violations']:
        if vv['signature'].startswith('snapshot-failed'):
            sfound.setdefault('segment:snapshot-failed-under-concurrency', (vv['detail'], slines[-60:]))
    k = ssc.rejected_at(c, slines, 'c19h')
    if k is not None and k < len(slines):
        ev = json.loads(slines[k])
        if ev.get('event') in ('SnapClosedBegin', 'SnapClosedEnd') or ev.get('seg') in ssc.copying_at(slines, k):
            sfound.setdefault('segment:closed-copy-disturbed:' + ev.get('event', '?'), ('event %d of %d rejected by SegHoldTrace.tla: %s' % (k + 1, len(slines), slines[k]), slines[max(0, k - 60): k + 1]))
    if i == 0:
        # binding self-test: a delete moved inside a closed-path copy must be rejected
        cb = [j for j, x in enumerate(slines) if '"SnapClosedBegin"' in x]
        if cb:
            j = cb[len(cb) // 2]
            mut = slines[: j + 1] + [json.dumps({'event': 'SegDeleted', 'seg': json.loads(slines[j])['seg']})] + slines[j + 1:]
            if ssc.rejected_at(c, mut, 'c19hs') is None:
                c.inconclusive('binding self-test failed: a delete inside a closed-path copy was accepted')
if sclosed == 0:
    c.inconclusive('segment stress: the closed path of TakeFileSnapshot was never taken')
for sig, (detail, ctx) in sfound.items():
    again = False
    for j in range(6):
        sr, slines = ssc.stress(c, stor, 100 + j, smillis, 'c19')
        k = ssc.rejected_at(c, slines, 'c19h')
        hit = any(v['signature'].startswith('snapshot-failed') for v in sr['violations']) if 'snapshot-failed' in sig else (
            k is not None and k < len(slines) and (json.loads(slines[k]).get('event', '').startswith('SnapClosed') or json.loads(slines[k]).get('seg') in ssc.copying_at(slines, k)))
        if hit:
            again = True
            break
    if not again:
        c.unreproduced('concurrency violation %s seen once but not again in 6 further runs: %s' % (sig, detail))
        continue
    c.report(sig, detail, {'trace_tail': ctx, 'harness': 'stor/segstress'})
c.log('segment level, concurrent: %d run(s), %d closed-path copies bracketed in the validated trace, %s' % (sruns, sclosed, sstats_seg))

# ---- tsTable level: concurrent runs, every copy inspected and opened, trace validated ----
runs = 3 if c.quick else 9          # every third run drives the stream engine
rnd = random.Random(c.seed)
traces, nsnaps, events, samples, selftest = 0, 0, 0, [], None
for i in range(runs):
    life = os.path.join(core.BUILD, 'out', 'c19-life-%d-%d.ndjson' % (os.getpid(), i))
    vis = os.path.join(core.BUILD, 'out', 'c19-vis-%d-%d.ndjson' % (os.getpid(), i))
    cfg = dict(lifecycle=life, visibility=vis, millis=2500 if c.quick else 8000, writers=rnd.choice([2, 3]), readers=1, batchRows=rnd.choice([1, 2]), snapshots=True,
               engine='stream' if i % 3 == 2 else 'measure')
    for attempt in range(3):
        r = c.run_harness(binp, ['-mode', 'stress', '-cfg', json.dumps(cfg)], timeout=900)
        if r['inconclusive']:
            c.inconclusive('; '.join(r['inconclusive'][:3]))
        for vv in r['violations']:
            c.report(vv['signature'], vv['detail'], {'cfg': cfg, 'harness': 'eng/stress'})
        ll = open(life).read().splitlines()[: (8000 if c.quick else 30000)]   # a prefix of a trace is a trace
        os.remove(life); os.remove(vis)
        ends = [json.loads(x) for x in ll if '"FileSnapEnd"' in x]
        wrote = [e for e in ends if e['wrote']]
        if len(wrote) >= 3 or r['violations']:
            break
        cfg['millis'] *= 3          # a loaded machine: give the run more time before calling it vacuous
    if len(wrote) < 3:
        c.inconclusive('run %d took only %d non-empty file snapshots' % (i, len(wrote)))
    nsnaps += len(wrote)
    events += len(ll)
    ok, k, rr = validate(ll)
    if ok:
        traces += 1
    else:
        ev = json.loads(ll[k]) if k < len(ll) else {}
        c.report(classify(ev), 'event %d of %d rejected by TSTableTrace.tla: %s' % (k + 1, len(ll), ll[k] if k < len(ll) else 'end'), {'trace': ll[: k + 1], 'harness': 'eng/stress'})
    if i == 0:
        samples = wrote[:3]
        # binding self-test: a copy that misses one of its parts must be rejected
        j = max(n for n, x in enumerate(ll) if '"FileSnapEnd"' in x and '"wrote":true' in x)
        e = json.loads(ll[j]); e['copied'] = e['copied'][1:]; e['opened'] = e['opened'][1:]
        selftest = not validate(ll[:j] + [json.dumps(e)] + ll[j + 1:], 'c19s')[0]
        if not selftest:
            c.inconclusive('binding self-test failed: an incomplete copy was accepted')
    c.log('run %d (%s): %d events, %d non-empty file snapshots (%d with merges in between)' % (i, cfg['engine'], len(ll), len(wrote), sum(1 for e in wrote if len(e['copied']) > 1)))

# ---- 3. upload of the snapshot to the remote store (banyand/backup backupSnapshot) ----
# design: Backup.tla exhaustive (walk, concurrent uploads, cancellation at any point, error triage, orphan pruning);
# spec self-test: with "context.Canceled is never reported" TLC must find a success with an incomplete copy.
# binding: every maximal behaviour whose shape the harness can schedule (cancel before the walk, or all files walked
# and then any interleaving of upload completions and a cancellation) is replayed on the REAL backupSnapshot with a
# gated in-memory remote store.
BK = 'SPECIFICATION Spec\nCONSTANTS\n  Local = %s\n  Remote0 = %s\n  SwallowCancel = %s\nINVARIANTS\n  SuccessIsComplete\n  FailureKeepsPrevious\n  NothingPrunedEarly\nCHECK_DEADLOCK FALSE\n'
bk_fams = [('{"a", "b", "c"}', '{"a", "o"}')] if c.quick else [('{"a", "b", "c"}', '{"a", "o"}'), ('{"a", "b", "c", "d"}', '{"o", "p"}'), ('{"a", "b"}', '{}')]
bk_binp = c.gobuild('c19backup')
bk_probes, bk_states, bk_skipped = [], 0, 0
for (loc, rem) in bk_fams:
    bx = tlc.run('Backup.tla', 'bx.cfg', tag='c19x', files={'bx.cfg': BK % (loc, rem, 'TRUE')}, timeout=600, workers=2)
    if bx.violated != 'SuccessIsComplete':
        c.inconclusive('spec self-test: Backup.tla with SwallowCancel did not violate SuccessIsComplete (%s %s)' % (bx.violated, bx.error))
    bg = tlc.run('Backup.tla', 'bg.cfg', tag='c19g', files={'bg.cfg': BK % (loc, rem, 'FALSE')}, dump=True, timeout=900, workers=4)
    if not bg.ok:
        c.inconclusive('TLC on Backup.tla: violated=%s error=%s\n%s' % (bg.violated, bg.error, bg.output[-1500:]))
    bn, be, bi = tlc.graph(bg)
    tlc.cleanup(bg)
    bk_states += len(bn)
    succ = {}
    for (u, v, _lab) in be:
        if u != v and v not in succ.setdefault(u, []):
            succ[u].append(v)
    local = sorted(json.loads('[' + loc.strip('{}') + ']'))
    stack = [[x] for x in bi]
    while stack:
        path = stack.pop()
        nxt = succ.get(path[-1], [])
        if nxt:
            # prune shapes the harness cannot schedule as early as possible
            ops = [bn[x]['last'] for x in path[1:]]
            walks = [o['f'] for o in ops if o['op'] == 'Walk']
            first_other = next((k for k, o in enumerate(ops) if o['op'] != 'Walk'), None)
            if first_other is not None and not (ops[0]['op'] == 'Cancel' or (first_other == len(local) and walks[:len(local)] == local)):
                bk_skipped += 1
                continue
            if walks[:len(local)] != local[:len(walks[:len(local)])]:
                bk_skipped += 1
                continue
            for y in nxt:
                stack.append(path + [y])
            continue
        ops = [bn[x]['last'] for x in path[1:]]
        fin = bn[path[-1]]
        if fin['result'] == 'running':
            continue
        if ops[0]['op'] == 'Cancel':
            evs = ['cancel!']
        else:
            evs = ['cancel' if o['op'] == 'Cancel' else 'done:' + o['f'] for o in ops if o['op'] in ('Cancel', 'Done')]
        bk_probes.append({'id': len(bk_probes), 'local': local, 'remote0': sorted(json.loads('[' + rem.strip('{}') + ']')),
                          'events': evs, 'result': fin['result'], 'remote': sorted(fin['remote'])})
if len(bk_probes) < 5 or not any('cancel' in p['events'] and p['events'][0].startswith('done') for p in bk_probes):
    c.inconclusive('Backup.tla produced too few realisable behaviours (%d)' % len(bk_probes))


def bk_run(pp, name):
    f = os.path.join(core.BUILD, 'out', 'c19-backup-%d-%s.json' % (os.getpid(), name))
    json.dump(pp, open(f, 'w'))
    try:
        return c.run_harness(bk_binp, ['-in', f], timeout=1200)
    finally:
        os.remove(f)


bres = bk_run(bk_probes, 'all')
for vv in bres['violations']:
    one = [p for p in bk_probes if p['id'] == vv['behaviour']]
    again = bk_run(one, 'repro')
    if not [x for x in again['violations'] if x['signature'] == vv['signature']]:
        c.unreproduced('violation %s not reproduced on a second run' % vv['signature'])
        continue
    c.report(vv['signature'], vv['detail'], {'probe': one, 'harness': 'c19backup'})
    break
if bres['inconclusive']:
    c.inconclusive('; '.join(bres['inconclusive'][:3]))
# binding self-test: a behaviour with a corrupted expected remote set must be flagged
badp = [dict(p, id=0, remote=p['remote'][1:]) for p in bk_probes if p['result'] == 'ok'][:1]
bst = bk_run(badp, 'selftest')
bk_selftest = bool(bst['inconclusive']) and 'spec result' in bst['inconclusive'][0]
if not bk_selftest:
    c.inconclusive('binding self-test failed: a corrupted expected remote set was accepted by c19backup')
c.log('backup upload: %d spec states, %d realisable maximal behaviours replayed on the real backupSnapshot (%d path prefixes of other shapes skipped): %s' % (bk_states, len(bk_probes), bk_skipped, bres['stats']))
c.cov.update(backup_upload=dict(spec_states=bk_states, behaviours_replayed=len(bk_probes), with_cancel=sum(1 for p in bk_probes if any(e.startswith('cancel') for e in p['events'])),
                                spec_selftest_swallow_cancel_violates=True, binding_selftest_rejected=bk_selftest, samples=bres['samples'][:2]))

c.cov.update(states=d.distinct, transitions=d.generated, traces_validated_against_impl=traces, trace_events=events, file_snapshots_checked=nsnaps,
             segment_behaviours_replayed=res['behaviours'], evaluations=nsnaps + res['behaviours'], distinct_nontrivial=nsnaps,
             binding_selftest_rejected=selftest,
             rule='tsTable level: every TakeFileSnapshot call of a concurrent real run (15 ms period, while writes/flushes/merges/GC run) is inspected and opened with initTSTable and must be accepted by TSTableTrace.tla (copy = file parts of one snapshot current during the call; manifest parts present; opens with exactly those parts); segment level: SegmentAPI behaviours with a snapshot step after idle-close/retention/forced steps replayed on a real TSDB (closed segments stay closed, flagged ones skipped, one directory per copied segment); non-trivial = non-empty snapshot copy',
             samples=samples)
c.assumptions += ['measure and stream tsTables (trace engine not driven); the upload leg of banyand/backup (backupSnapshot) is replayed from Backup.tla with small files only (the sequential large-file path and cancellation in the middle of the walk have no gate); restore is not exercised',
                  'row content of a hard-linked part equals the source by construction; consistency is decided on part identities']
c.finish()
