#!/usr/bin/env python3
"""C09 - ordered results are globally sorted; limit/offset is a window of them (measure engine over gRPC + sidx)."""
import sys
sys.path.insert(0, '/verif/tools'); sys.path.insert(0, '/verif/checks')
from vf import core
import engcommon as ec
from engcommon import leaf, crit, query

c = core.Check('C09', 'model_checking')
c.setup()
binp = c.gobuild('eng')
if c.replay and 'sidx' not in open(c.replay).read(200):
    ec.replay_one(c, binp)

S = [1, 2, 3]
T = [1, 2, 3]
qs = []
for asc in (True, False):
    for off in (0, 1, 2, 4):
        for lim in (0, 1, 2, 3, 9):
            qs.append(query(1, 3, S, crit('one', leaf()), 'time', asc, off, lim))
    qs.append(query(2, 3, [1, 2], crit('one', leaf('ge', 'a', (1,))), 'time', asc, 1, 2))
    qs.append(query(1, 2, [2], crit('one', leaf()), 'time', asc, 0, 1))
fams = [dict(name='measure-order-window', series=S, times=T, versions=[1, 2], versioned=True, maxrows=1, maxtotal=3,
             maxops=3, graphops=0, sims=40 if c.quick else 600, simops=12, queries=qs, index='inverted', tags_by_series=True, sim=dict(maxrows=3, maxtotal=9))]
fams.append(dict(fams[0], name='measure-order-window-2shards', shards=2, sims=15 if c.quick else 400))
def nontrivial(st):
    ops = [x['last'].get('op') for x in st[1:]]
    return 'queryall' in ops and sum(1 for o in ops if o == 'write') >= 2
import stream_fams
fams += stream_fams.c09(c)
import trace_fams
fams += trace_fams.c09(c)
tot, stats, samples, nontriv, cover = ec.run_families(c, fams, binp, nontrivial)
extra = {}
try:
    import sidx
    extra = sidx.run(c) or {}
except ImportError:
    pass
c.cov.update(states=tot['states'] + extra.get('states', 0), transitions=tot['transitions'] + extra.get('transitions', 0), traces_validated_against_impl=0,
             behaviours_replayed=tot['behaviours'] + extra.get('behaviours', 0), steps_replayed=tot['steps'] + extra.get('steps', 0), simulated_behaviours=tot['sims'],
             evaluations=tot['behaviours'] + extra.get('behaviours', 0), distinct_nontrivial=nontriv + extra.get('nontrivial', 0), queries_per_family=len(qs),
             rule='(engine) Engine.tla computes, for %d ordered queries (ASC/DESC by time x offsets x limits incl. beyond the end, with criteria and series restrictions), the window of sort keys of the full result; -simulate behaviours spread the rows over batches, memory and file parts and merges; every QueryAll step sends each query over gRPC: rows must be admissible rows of the full result, sorted, and their sort-key sequence equal to the spec window (ties in any order); (sidx) see sidx component; non-trivial = a QueryAll after at least two batches' % len(qs),
             harness_stats=stats, sidx=extra, action_coverage=cover,
             samples=[{'family': s['family'], 'ops': [o if o.get('op') != 'queryall' else {'op': 'queryall', 'n': len(o['res'])} for o in s['ops']]} for s in samples])
c.assumptions += ['one or two shards, one segment; duplicate sort keys accept any tie order; measure engine only for the gRPC leg']
c.finish()
