#!/usr/bin/env python3
"""C17 - a cluster answers like a stand-alone node; part transfer is exact.
Part (a) (transfer, fault enumeration): checks/c17a.py.  Part (b) (cluster == stand-alone): checks/c17b.py."""
import json, sys
sys.path.insert(0, '/verif/tools'); sys.path.insert(0, '/verif/checks')
from vf import core
import c17a, c17b
import engcommon as ec

c = core.Check('C17', 'fault_enumeration')
c.setup()
if c.replay:
    obj = json.load(open(c.replay))
    if obj.get('harness') == 'eng':
        ec.replay_one(c, c.gobuild('eng'))
    binp = c.gobuild('c17a')
    res = c17a.replay(c, binp, obj)
    for v in res['violations']:
        c.report(v['signature'], v['detail'], {k: obj[k] for k in ('behaviour', 'leg', 'harness')})
    c.cov.update(states=1, transitions=1, traces_validated_against_impl=0, evaluations=1, samples=[v['detail'] for v in res['violations']][:1])
    c.finish()
a = c17a.run(c)
b = c17b.run(c)
cov = dict(a)
for k in ('states', 'transitions', 'evaluations', 'distinct_nontrivial', 'behaviours_replayed', 'steps_replayed'):
    if isinstance(b.get(k), int):
        cov[k] = cov.get(k, 0) + b[k]
cov['cluster_vs_standalone'] = {k: v for k, v in b.items() if k not in ('samples',)}
cov['samples'] = list(a.get('samples', []))[:3] + list(b.get('samples', []))[:2]
cov['rule'] = '(a) ' + str(a.get('rule', '')) + ' (b) ' + str(b.get('rule', ''))
c.cov.update(**cov)
c.assumptions += getattr(c17b, 'ASSUMPTIONS', [])
c.finish()
