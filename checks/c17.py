#!/usr/bin/env python3
"""C17 - a cluster answers like a stand-alone node; part transfer is exact.
Part (a) (transfer) is decided by checks/c17a.py; part (b) (cluster == stand-alone) is not built yet (see level_note)."""
import runpy, sys
sys.path.insert(0, '/verif/tools'); sys.path.insert(0, '/verif/checks')
runpy.run_path('/verif/checks/c17a.py', run_name='__main__')
