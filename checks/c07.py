#!/usr/bin/env python3
"""C07 - retention removes only fully expired segments and hides them at once."""
import sys
sys.path.insert(0, '/verif/tools'); sys.path.insert(0, '/verif/checks')
from vf import core
import segcommon as sc

c = core.Check('C07', 'model_checking')
c.setup()
binp = c.gobuild('stor')
if c.replay:
    sc.replay_one(c, binp)

OPS = ['create', 'clock', 'retention', 'forced', 'select']
NY, UTC = sc.NY, sc.UTC
fams = [
    # HOUR x 2 segments, TTL 3 h: clock positions on and around every boundary
    dict(name='hour2-ttl3-utc', unit='HOUR', init=2, nums=[2], ttl=3, zone=UTC, times=[30, 32, 34], clocks=[30, 34, 35, 36, 37, 38, 39],
         legacy=[[]], ranges=[(30, 35), (32, 32)], ops=OPS, maxops=6),
    dict(name='hour1-ttl2-utc', unit='HOUR', init=1, nums=[1], ttl=2, zone=UTC, times=[30, 31, 32], clocks=[30, 32, 33, 34, 35],
         legacy=[[]], ranges=[(30, 33), (31, 31)], ops=OPS, maxops=6),
    dict(name='day1-ttl48-ny-spring', unit='DAY', init=1, nums=[1], ttl=48, zone=NY, times=[0, 24, 47], clocks=[0, 47, 71, 72, 94, 95, 96, 119],
         legacy=[[]], ranges=[(0, 70), (24, 24)], ops=OPS, maxops=6),
    dict(name='hour3-ttl3-legacy-utc', unit='HOUR', init=3, nums=[3], ttl=3, zone=UTC, times=[30, 33, 35], clocks=[30, 35, 36, 37, 38, 39],
         legacy=[[], [(31, 32)]], ranges=[(30, 36)], ops=OPS, maxops=5),
]
# the tick path (database.Tick -> rotation goroutine): retention with the event time and creation of the next segment
# one hour before the newest one ends
fams.append(dict(name='hour2-ttl3-tick-utc', unit='HOUR', init=2, nums=[2], ttl=3, zone=UTC, times=[30, 32], clocks=[30, 31, 33, 34, 35, 36, 37, 39],
                 legacy=[[]], ranges=[(30, 37)], ops=['create', 'tick', 'select', 'clock'], maxops=5))
fams.append(dict(name='day1-ttl48-tick-ny', unit='DAY', init=1, nums=[1], ttl=48, zone=NY, times=[0, 24], clocks=[0, 23, 46, 47, 70, 71, 72, 94, 95],
                 legacy=[[]], ranges=[(0, 95)], ops=['create', 'tick', 'select', 'clock'], maxops=5))
for f in fams:
    if c.quick:
        f['graphops'] = f['maxops'] - 2
        f['sims'] = 120
    else:
        f['maxops'] += 1
        f['graphops'] = f['maxops'] - 2
tot, stats, samples, nontriv, cover = sc.run_families(c, fams, binp, {'retention', 'forced', 'clock', 'select'})
c.cov.update(states=tot['states'], transitions=tot['transitions'], traces_validated_against_impl=0,
             behaviours_replayed=tot['behaviours'], steps_replayed=tot['steps'], graph_edges=tot['edges'],
             graph_edges_uncovered=tot['uncovered'], simulated_behaviours=tot['sims'], exhaustive=(tot['uncovered'] == 0),
             evaluations=tot['behaviours'], distinct_nontrivial=nontriv,
             rule='per family (interval x TTL x zone): edge cover of the TLC state graph + -simulate behaviours replayed on a real storage.TSDB with a mock clock; the retention task body, DeleteOldestSegment and SelectSegments are the real ones; segment list, seg-* directories and every select result compared after every step; non-trivial = contains at least two of {clock, retention, forced, select}',
             harness_stats=stats, families=[f['name'] for f in fams], action_coverage=cover, samples=samples[:4])
c.assumptions += ['time in whole hours; TTL given in hours (IntervalRule.estimatedDuration)',
                  'the retention task body is invoked synchronously (rt.run) with the mock clock time; the cron trigger itself is not exercised',
                  'races between retention, queries and forced cleanup are covered by C14 (SegmentRef), not here']
c.finish()
