#!/usr/bin/env python3
"""C01 - acknowledged writes are returned exactly as written (measure engine; stream/trace are added as engines grow)."""
import sys
sys.path.insert(0, '/verif/tools'); sys.path.insert(0, '/verif/checks')
from vf import core
import engcommon as ec

c = core.Check('C01', 'model_checking')
c.setup()
binp = c.gobuild('eng')
if c.replay:
    ec.replay_one(c, binp)

fams = [
    # TLC exhaustive on small constants; -simulate on larger ones (several rows per batch, many distinct keys):
    # immediate read-back after every acknowledgement and after every later step
    dict(name='measure-batches', series=[1, 2], times=[1, 2], versions=[1], versioned=True, maxrows=2, maxtotal=4, maxops=4 if c.quick else 6, negzero=True,
         graphops=0, sims=200 if c.quick else 1500, simops=8, sim=dict(series=[1, 2, 3], times=[1, 2, 3], maxrows=3, maxtotal=9)),
    dict(name='measure-batches-maint', series=[1, 2], times=[1, 2], versions=[1, 2], versioned=True, maxrows=2, maxtotal=4, maxops=4 if c.quick else 7,
         graphops=0, sims=100 if c.quick else 800, simops=10, sim=dict(times=[1, 2, 3], maxtotal=6)),
]
if not c.quick:
    fams.append(dict(name='measure-big-blocks', series=[1, 2], times=[1, 2], versions=[1], versioned=True, maxrows=2, maxtotal=4,
                     maxops=4, graphops=0, sims=60, simops=10, big=True, sim=dict(times=[1, 2, 3], maxrows=3, maxtotal=9)))
import stream_fams
fams += stream_fams.c01(c)
import trace_fams
fams += trace_fams.c01(c)
tot, stats, samples, nontriv, cover = ec.run_families(c, fams, binp, lambda st: sum(1 for x in st[1:] if x['last'].get('op') == 'write') >= 2)
c.cov.update(states=tot['states'], transitions=tot['transitions'], traces_validated_against_impl=0,
             behaviours_replayed=tot['behaviours'], steps_replayed=tot['steps'], simulated_behaviours=tot['sims'],
             evaluations=tot['behaviours'], distinct_nontrivial=nontriv,
             rule='-simulate behaviours of Engine.tla (batches of 1..3 rows over several series/timestamps, flush/merge in between) replayed over gRPC: each batch is one write stream; immediately after the last acknowledgement and after every later step a covering query must return every acknowledged row with every tag and field bit-identical (int64 extremes, 17-digit and sub-normal floats, empty/NUL/long strings, nil/empty binaries, arrays, explicit nulls - drawn per row id from seeded pools) and nothing else; non-trivial = at least two batches',
             harness_stats=stats, action_coverage=cover, samples=samples)
c.assumptions += ['the value-domain half of the claim is sampled from adversarial pools (seeded), not exhausted; only the measure engine is bound so far',
                  'known finding: -0.0 float fields come back as +0.0 (pinned upstream tests require that encoding)']
c.finish()
