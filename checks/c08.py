#!/usr/bin/env python3
"""C08 - criteria mean the same with or without indexes and pruning (measure engine; stream/trace as engines grow)."""
import sys
sys.path.insert(0, '/verif/tools'); sys.path.insert(0, '/verif/checks')
from vf import core
import engcommon as ec
from engcommon import leaf, crit, query

c = core.Check('C08', 'model_checking')
c.setup()
binp = c.gobuild('eng')
if c.replay:
    ec.replay_one(c, binp)

S = [1, 2, 3]
leaves = []
for v in (0, 1, 2):
    for op in ('eq', 'ne', 'lt', 'le', 'gt', 'ge'):
        leaves.append(leaf(op, 'a', (v,)))
for v in (0, 1, 2):
    for op in ('eq', 'ne'):
        leaves.append(leaf(op, 'b', (v,)))
for vs in ((0,), (0, 2), (1, 2), (0, 1, 2)):
    leaves += [leaf('in', 'a', vs), leaf('notin', 'a', vs), leaf('in', 'b', vs), leaf('notin', 'b', vs)]
qs = [query(1, 3, S, crit('one', l)) for l in leaves]
pairs = [(leaves[0], leaves[20]), (leaves[3], leaves[-1]), (leaves[7], leaves[25]), (leaves[10], leaves[30]), (leaves[14], leaves[22]), (leaves[1], leaves[4])]
for a, b in pairs:
    qs += [query(1, 3, S, crit('and', a, b)), query(1, 3, S, crit('or', a, b))]
# time-range and series restrictions combined with a predicate (block/part/series pruning)
qs += [query(1, 1, S, crit('one', leaves[0])), query(2, 3, [1], crit('one', leaves[2])), query(3, 3, [2], crit('one', leaf()))]

fams = []
# measure: criteria are only accepted on tags covered by an index rule, and indexed tags are series-level attributes by the
# documented contract (docs/concept/data-model.md): tags are a function of the series here; the unindexed configuration is
# exercised with entity/time restrictions only
for idx in ('inverted',):
    fams.append(dict(name='measure-criteria-' + idx, series=S, times=[1, 2, 3], versions=[1, 2], versioned=True, maxrows=1, maxtotal=3,
                     maxops=3, graphops=0, sims=40 if c.quick else 400, simops=11, queries=qs, index=idx, tags_by_series=True, sim=dict(maxrows=3, maxtotal=8)))
def nontrivial(st):
    ops = [x['last'].get('op') for x in st[1:]]
    return 'queryall' in ops and ('flush' in ops or 'merge' in ops)
import stream_fams
fams += stream_fams.c08(c)
import trace_fams
fams += trace_fams.c08(c)
tot, stats, samples, nontriv, cover = ec.run_families(c, fams, binp, nontrivial)
c.cov.update(states=tot['states'], transitions=tot['transitions'], traces_validated_against_impl=0,
             behaviours_replayed=tot['behaviours'], steps_replayed=tot['steps'], simulated_behaviours=tot['sims'],
             evaluations=tot['behaviours'], distinct_nontrivial=nontriv, queries_per_family=len(qs),
             rule='Engine.tla evaluates Sat(row, criteria) itself for %d criteria (EQ/NE/LT/LE/GT/GE/IN/NOT_IN on an int and a string tag, HAVING/NOT_HAVING on an int-array tag, AND/OR pairs, time/series restrictions); -simulate behaviours vary the dataset split, flush and merge states; at every QueryAll step every criteria query is sent over gRPC and the returned rows must be exactly the spec-selected ones; the same behaviours run against index configurations none / inverted; non-trivial = a QueryAll step after at least one flush or merge' % len(qs),
             harness_stats=stats, action_coverage=cover, samples=[{'family': s['family'], 'ops': [o if o.get('op') != 'queryall' else {'op': 'queryall', 'n': len(o['res'])} for o in s['ops']]} for s in samples])
c.assumptions += ['string order = byte order; MATCH/analyzers out of scope; measure engine only so far (skipping/bloom indexes belong to stream/trace)']
c.finish()
