#!/usr/bin/env python3
"""Stand-alone runner for the trace-engine families of trace_fams.py:

    python3 checks/trace_try.py c08 --tier quick [--fam substring] [--sims N] [--procs N]

Builds the eng harness and runs the trace families of one property through engcommon.run_families with a
core.Check carrying that property id.  Evidence and replay files go to /verif/.build/trace_try (the registered
checks own /verif/evidence)."""
import os, sys, time
sys.path.insert(0, '/verif/tools'); sys.path.insert(0, '/verif/checks')
from vf import core

prop = sys.argv[1].lower() if len(sys.argv) > 1 else ''
argv = sys.argv[2:]


def take(flag, default=None):
    if flag in argv:
        i = argv.index(flag)
        v = argv[i + 1]
        del argv[i:i + 2]
        return v
    return default


only = take('--fam')
sims = take('--sims')
procs = int(take('--procs', '4'))
altbin = take('--bin')      # a prebuilt eng binary (e.g. built with an overlay that leaves a repair out) instead of the tree's
if prop not in ('c01', 'c03', 'c08', 'c09'):
    print('usage: trace_try.py c01|c03|c08|c09 [--tier quick|thorough] [--fam substring] [--sims N] [--procs N] [--bin harness-binary] [--replay file]')
    sys.exit(2)

core.EVID = os.path.join(core.BUILD, 'trace_try', 'evidence')
core.REPLAYS = os.path.join(core.EVID, 'replays')
import engcommon as ec
import trace_fams

c = core.Check(prop.upper(), 'model_checking', argv=argv)
c.setup()
binp = altbin or c.gobuild('eng')
if c.replay:
    ec.replay_one(c, binp)
fams = getattr(trace_fams, prop)(c)
if only:
    fams = [f for f in fams if only in f['name']]
if sims:
    for f in fams:
        f['sims'] = int(sims)


def ops(st):
    return [x['last'].get('op') for x in st[1:]]


NONTRIVIAL = {
    'c01': lambda st: sum(1 for o in ops(st) if o == 'write') >= 2,
    'c03': lambda st: 'merge' in ops(st),
    'c08': lambda st: 'queryall' in ops(st) and ('flush' in ops(st) or 'merge' in ops(st)),
    'c09': lambda st: 'queryall' in ops(st) and sum(1 for o in ops(st) if o == 'write') >= 2,
}


def binding_selftest():
    """the harness is told (VERIF_TRACE_SELFTEST) to expect one wrong tag value / one wrong span body / one span that was
    never written: each corrupted expectation must be reported, and the untouched one must not"""
    import json
    rows = [dict(id=1, s=1, t=1, v=1, batch=1), dict(id=2, s=1, t=2, v=1, batch=1), dict(id=3, s=2, t=2, v=1, batch=1)]
    beh = [dict(parts=[], view=[], acked=[], nextId=1, nextPart=1, nbatch=0, ops=0, last=dict(op='init')),
           dict(parts=[dict(pid=1, mem=True, rows=[1, 2, 3])], view=[[r] for r in rows], acked=rows, nextId=4, nextPart=2, nbatch=1, ops=1,
                last=dict(op='write', rows=rows, part=1))]
    tags = ec.row_tags(3)
    hcfg = dict(rowTags={str(k): v for k, v in tags.items()}, index='tree/series', engine='trace', versioned=False, flags=[], big=False,
                tagsBySeries=False, negZero=False, ballast=0, ballastMode='deep', lifecycle='', shards=1)
    want = {'': None, 'corrupt-tag': 'value-not-as-written:tag:ps', 'corrupt-body': 'value-not-as-written:span-body', 'drop-span': 'missing-row'}
    rejected = {}
    for mode, sig in want.items():
        res = c.run_harness_parallel(binp, ['-cfg', json.dumps(hcfg)], [beh], name='selftest', procs=1, timeout=600,
                                     env={'VERIF_TRACE_SELFTEST': mode} if mode else None)
        if res['inconclusive']:
            c.inconclusive('binding self-test (%s): %s' % (mode or 'control', res['inconclusive'][:2]))
        sigs = [v['signature'] for v in res['violations']]
        if sig is None:
            if sigs:
                c.inconclusive('binding self-test: the uncorrupted control replay reports %s' % sigs[:3])
            continue
        if not [x for x in sigs if x.startswith(sig)]:
            c.inconclusive('binding self-test: corrupted expectation %s was not rejected (reported: %s)' % (mode, sigs[:3]))
        rejected[mode] = sigs[0]
    c.log('binding self-test: corrupted expectations rejected: %s' % rejected)
    return rejected


selftest = binding_selftest() if not only and (prop == 'c01' or not c.quick) else {}   # quick tier: once (C01); thorough: every property
t0 = time.time()
tot, stats, samples, nontriv, cover = ec.run_families(c, fams, binp, NONTRIVIAL[prop], procs=procs)
c.log('trace families of %s: %d behaviours, %d steps, %d simulated, %d non-trivial in %.0fs' % (
    prop.upper(), tot['behaviours'], tot['steps'], tot['sims'], nontriv, time.time() - t0))
c.log('harness stats: ' + ', '.join('%s=%d' % kv for kv in sorted(stats.items())))
if c.violations:
    sigs = sorted({v[0] for v in c.violations})
    c.log('%d distinct violation signatures: %s' % (len(sigs), '; '.join(sigs)[:6000]))
c.cov.update(states=tot['states'], transitions=tot['transitions'], traces_validated_against_impl=0,
             behaviours_replayed=tot['behaviours'], steps_replayed=tot['steps'], simulated_behaviours=tot['sims'],
             evaluations=tot['behaviours'], distinct_nontrivial=nontriv, harness_stats=stats, binding_selftest_rejected=selftest,
             families=[f['name'] for f in fams],
             rule='trace families of %s (trace_fams.py) replayed over gRPC against an in-process stand-alone server' % prop.upper())
c.finish()
