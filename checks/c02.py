#!/usr/bin/env python3
"""C02 - highest version wins: one point per series and timestamp (measure)."""
import sys
sys.path.insert(0, '/verif/tools'); sys.path.insert(0, '/verif/checks')
from vf import core
import engcommon as ec

c = core.Check('C02', 'model_checking')
c.setup()
binp = c.gobuild('eng')
if c.replay:
    ec.replay_one(c, binp)

# all multisets of competing rows over 1 series x 2 timestamps x 3 versions, every arrival order, every split into
# batches, every flush/merge state (exhaustive state graph), deeper by simulation
fams = [
    # one scenario shape enumerated exhaustively: every pair of batches (competing versions inside a batch and across
    # the two parts), flushed, then merged by the real merger; query after every step
    dict(name='two-parts-merged', series=[1], times=[1, 2], versions=[1, 2, 3], versioned=True, maxrows=2, maxtotal=3 if c.quick else 4,
         maxops=4, graphops=4, sims=0, simops=5, script=['write', 'write', 'flush', 'merge']),
    dict(name='versions-1x2x3', series=[1], times=[1, 2], versions=[1, 2, 3], versioned=True, maxrows=2, maxtotal=4,
         maxops=5 if c.quick else 7, graphops=2 if c.quick else 3, sims=150 if c.quick else 900, simops=10),
    dict(name='versions-2x1x2-ties', series=[1, 2], times=[1], versions=[1, 2], versioned=True, maxrows=3, maxtotal=5,
         maxops=4 if c.quick else 6, graphops=0 if c.quick else 2, sims=120 if c.quick else 900, simops=10),
]
# three parts competing for one key: every arrival order of three versions (and of two equal ones), on the vectorized
# pipeline (default) and on the row pipeline, whose merge of the parts' cursors is separate code
for pname, flags in (('vec', []), ('row', ['--measure-vectorized-enabled=false'])):
    fams.append(dict(name='three-parts-one-key-' + pname, series=[1], times=[1], versions=[1, 2, 3], versioned=True, maxrows=1, maxtotal=3,
                     maxops=5, graphops=5, sims=0, simops=6, script=['write', 'write', 'write', 'flush', 'merge'], flags=flags))
def nontrivial(st):
    ops = [x['last'].get('op') for x in st[1:]]
    keys = [(r['s'], r['t']) for x in st[1:] if x['last'].get('op') == 'write' for r in x['last']['rows']]
    return len(keys) != len(set(keys)) and ('flush' in ops or 'merge' in ops)
tot, stats, samples, nontriv, cover = ec.run_families(c, fams, binp, nontrivial)
c.cov.update(states=tot['states'], transitions=tot['transitions'], traces_validated_against_impl=0,
             behaviours_replayed=tot['behaviours'], steps_replayed=tot['steps'], graph_edges=tot['edges'], graph_edges_uncovered=tot['uncovered'],
             simulated_behaviours=tot['sims'], exhaustive=(tot['uncovered'] == 0), evaluations=tot['behaviours'], distinct_nontrivial=nontriv,
             rule='behaviours of Engine.tla (Versioned) = edge cover of the TLC graph + -simulate; each replayed over gRPC on an in-process stand-alone server: every batch is one write stream, flush and merge of the TLC-chosen subset are run by the real flusher/merger code, and after EVERY step a covering query must return exactly one admissible (max-version) row per (series, ts), bit-identical to what was written; non-trivial = some (series, ts) written more than once and at least one maintenance step',
             harness_stats=stats, action_coverage=cover, samples=samples)
c.assumptions += ['values are opaque tokens in the spec and are concretised by the replayer from seeded pools',
                  'one shard, one segment; ties between equal versions accept any tied row']
c.finish()
