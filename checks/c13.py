#!/usr/bin/env python3
"""C13 - a trace is stored, returned and sampled as a whole.

spec/TraceSampling.tla (TLC, exhaustive within bounds: WholeOrNothing, KeptIfFragmentOutside,
NoLossWithoutSampler, SidxEntriesMatchSurvivors, FailOpen, RejectedMergeLeavesNoOutput, GuardRulesAgree)
-> behaviours (edge cover of the state graph + -simulate with 3 traces / 2 concurrent merges / all merge kinds)
replayed on REAL trace tsTables (harness/pkg/c13): the real merge functions run on their own goroutines and are
parked at the stub sampler, at the secondary-index merge and at the introduction channel, so the writer steps
TLC placed between two merge steps are executed exactly there; spans returned by the query-by-trace-id path,
index entries, parts and epoch are compared with the spec state after every step and the property is
evaluated directly on the observations around every publication.

The claimed check assumes RespectGap = TRUE (fragments of one trace lie within merge_grace of each other, the
documented assumption of the fragment guard).  The RespectGap = FALSE probe (S15) is reported as a note and in
the evidence only; it never influences the verdict."""
import json
import os
import random
import sys
sys.path.insert(0, '/verif/tools')
from vf import core, tlc  # noqa: E402

c = core.Check('C13', 'model_checking')
c.setup()
binp = c.gobuild('c13')

INV = ['TypeOK', 'SidxEntriesMatchSurvivors', 'FailOpenState', 'RejectedMergeLeavesNoOutput', 'GuardRulesAgree', 'NoSamplerNoLoss']
PROPS = ['WholeOrNothing', 'KeptIfFragmentOutside', 'NoLossWithoutSampler', 'FailOpen']
SEG_SPLIT, GRACE = 4, 1


def tset(xs):
    return '{' + ', '.join(json.dumps(x) if isinstance(x, str) else ('TRUE' if x is True else 'FALSE' if x is False else str(x)) for x in xs) + '}'


def cfg(traces=('a', 'b'), frag=2, parts=3, batch=2, times=(2, 3, 4), gap=True, coded=False, sampling=True, merges=('m1',),
        kinds=('hot', 'finalize'), frontiers=(2,), decisions=('Keep', 'Drop', 'Error', 'Panic'), timeouts=(False, True),
        inv=True, view=True):
    s = 'SPECIFICATION Spec\nCONSTANTS\n'
    s += '  Traces = %s\n  MaxFrag = %d\n  MaxParts = %d\n  MaxBatch = %d\n  Times = %s\n' % (tset(traces), frag, parts, batch, tset(times))
    s += '  SegSplit = %d\n  Grace = %d\n  RespectGap = %s\n  CodedGuard = %s\n  Sampling = %s\n' % (
        SEG_SPLIT, GRACE, str(gap).upper(), str(coded).upper(), str(sampling).upper())
    s += '  Merges = %s\n  Kinds = %s\n  Frontiers = %s\n  Decisions = %s\n  Timeouts = %s\n' % (
        tset(merges), tset(kinds), tset(frontiers), tset(decisions), tset(timeouts))
    if inv:
        s += 'INVARIANTS\n' + ''.join('  %s\n' % i for i in INV) + 'PROPERTIES\n' + ''.join('  %s\n' % p for p in PROPS)
    if view:
        s += 'VIEW View\n'
    return s


def hcfg(sampling=True, mutate=0):
    return json.dumps({'seg_split': SEG_SPLIT, 'grace': GRACE, 'sampling': sampling, 'mutate': mutate})


def replay(behs, name, sampling=True, mutate=0, procs=6):
    return c.run_harness_parallel(binp, ['-cfg', hcfg(sampling, mutate)], behs, name=name, procs=procs, timeout=2400)


def ops(b):
    return [s['last'].get('op') for s in b[1:]]


def score(b):
    """interesting first: rejected attempts, real drops, a writer between the steps of a merge"""
    o = ops(b)
    sc = 0
    if 'retrysidx' in o or 'retryintroduce' in o:
        sc += 4
    if any(s['last'].get('op') == 'decide' and s['last'].get('dropped') for s in b[1:]):
        sc += 2
    if 'start' in o:
        i = o.index('start')
        j = max([k for k, x in enumerate(o) if x in ('introduce', 'retryintroduce')] or [len(o)])
        if any(x in ('write', 'flush') for x in o[i:j]):
            sc += 1
    return sc


def counterexample(out):
    """states of a TLC error trace (vf.tlc.parse_trace stops at the '>' of a '|->' inside an action label)"""
    import re
    from vf import tla
    sts = []
    chunks = re.split(r'^State \d+: .*$', out, flags=re.M)[1:]
    for ch in chunks:
        body = []
        for line in ch.split('\n')[1:] if ch.startswith('\n') else ch.split('\n'):
            if line.strip() == '':
                if body:
                    break
                continue
            body.append(line)
        sts.append(tla.parse_state('\n'.join(body)))
    return sts


if c.replay:
    obj = json.load(open(c.replay))
    res = replay([obj['behaviour']], 'replay', sampling=obj.get('sampling', True), procs=1)
    if res['inconclusive']:
        c.inconclusive('; '.join(res['inconclusive'][:3]))
    for v in res['violations']:
        c.report(v['signature'], v['detail'], {'behaviour': obj['behaviour'], 'sampling': obj.get('sampling', True), 'harness': 'c13'})
    c.cov.update(states=1, transitions=1, traces_validated_against_impl=0, samples=[[s['last'] for s in obj['behaviour'][1:]]],
                 evaluations=res['behaviours'], distinct_nontrivial=1, rule='replay of one stored behaviour', exhaustive=False)
    c.finish()

W = 8
# ---- 1. design: TLC exhaustive (claimed configuration: RespectGap = TRUE, intended guard rule) ----------------
if c.quick:
    main = dict(traces=('a', 'b'), parts=3, batch=1, times=(2, 3, 4), kinds=('hot', 'finalize'), frontiers=(2,))
    nos = dict(traces=('a', 'b'), parts=3, batch=2, times=(2, 4), kinds=('hot', 'mem'), frontiers=(2,), sampling=False, timeouts=(False,), decisions=('Keep',))
else:
    main = dict(traces=('a', 'b'), parts=3, batch=2, times=(1, 2, 3, 4), kinds=('hot', 'finalize', 'mem'), frontiers=(1, 3))
    nos = dict(traces=('a', 'b', 'c'), parts=4, batch=2, times=(2, 4), kinds=('hot', 'mem'), frontiers=(2,), sampling=False, timeouts=(False,), decisions=('Keep',))
runs = {}
r = tlc.run('TraceSampling.tla', 'mc.cfg', tag='c13mc', files={'mc.cfg': cfg(**main)}, coverage=not c.quick, timeout=3000, workers=W)
if r.violated or r.error or r.timed_out:
    c.inconclusive('TLC on TraceSampling.tla: violated=%s error=%s timeout=%s\n%s' % (r.violated, r.error, r.timed_out, r.output[-1500:]))
c.log('TLC TraceSampling (sampler, 1 merge): %d distinct states, %d transitions, invariants hold (%.1fs)' % (r.distinct, r.generated, r.wall))
runs['sampler_1merge'] = dict(states=r.distinct, transitions=r.generated, wall=round(r.wall, 1), constants=main)
states, transitions = r.distinct, r.generated
r0 = tlc.run('TraceSampling.tla', 'ns.cfg', tag='c13ns', files={'ns.cfg': cfg(**nos)}, timeout=3000, workers=W)
if r0.violated or r0.error or r0.timed_out:
    c.inconclusive('TLC on TraceSampling.tla (no sampler): violated=%s error=%s timeout=%s\n%s' % (r0.violated, r0.error, r0.timed_out, r0.output[-1500:]))
c.log('TLC TraceSampling (no sampler): %d distinct states, %d transitions (%.1fs)' % (r0.distinct, r0.generated, r0.wall))
runs['no_sampler'] = dict(states=r0.distinct, transitions=r0.generated, wall=round(r0.wall, 1), constants=nos)
states += r0.distinct
transitions += r0.generated
if not c.quick:
    two = dict(traces=('a', 'b'), parts=3, batch=1, times=(2, 3, 4), merges=('m1', 'm2'), kinds=('hot', 'finalize'), frontiers=(2,),
               decisions=('Keep', 'Drop', 'Error'), timeouts=(False,))
    r2 = tlc.run('TraceSampling.tla', 'm2.cfg', tag='c13m2', files={'m2.cfg': cfg(**two)}, timeout=3000, workers=W)
    if r2.violated or r2.error or r2.timed_out:
        c.inconclusive('TLC on TraceSampling.tla (2 merges): violated=%s error=%s timeout=%s\n%s' % (r2.violated, r2.error, r2.timed_out, r2.output[-1500:]))
    c.log('TLC TraceSampling (2 concurrent merges): %d distinct states, %d transitions (%.1fs)' % (r2.distinct, r2.generated, r2.wall))
    runs['sampler_2merges'] = dict(states=r2.distinct, transitions=r2.generated, wall=round(r2.wall, 1), constants=two)
    states += r2.distinct
    transitions += r2.generated

# ---- 2. behaviours: edge cover of a small graph (history variable kept: every edge carries its `last`) --------
gc = dict(traces=('a', 'b'), parts=3, batch=1, times=(2, 4), kinds=('hot',), frontiers=(2,), decisions=('Keep', 'Drop', 'Error'),
          timeouts=(False,), inv=False, view=False)
g = tlc.run('TraceSampling.tla', 'g.cfg', tag='c13g', files={'g.cfg': cfg(**gc)}, dump=True, timeout=1800, workers=W)
if not g.ok:
    c.inconclusive('graph dump failed: %s' % (g.error or g.violated))
nodes, edges, inits = tlc.graph(g)
cover, unc = tlc.cover_edges(nodes, edges, inits, max_len=18)
tlc.cleanup(g)
rnd = random.Random(c.seed)
sampled = False
if c.quick:
    budget = 240
    cover.sort(key=lambda b: (-score(b), json.dumps([s['last'] for s in b[1:]], sort_keys=True)))
    ntop = min(len([b for b in cover if score(b) >= 4]), budget // 2)
    top, rest = cover[:ntop], cover[ntop:]
    rnd.shuffle(rest)
    sel = top + rest[: budget - len(top)]
    sampled = len(sel) < len(cover)
else:
    sel = cover
c.log('graph: %d states, %d edges -> %d behaviours (uncovered edges %d); replaying %d' % (len(nodes), len(edges), len(cover), unc, len(sel)))

# deep random behaviours: 3 traces, 2 concurrent merges, every merge kind, 4 time stamps
sc = dict(traces=('a', 'b', 'c'), parts=5, batch=2, times=(1, 2, 3, 4), merges=('m1', 'm2'), kinds=('hot', 'finalize', 'mem'), frontiers=(1, 3),
          inv=False, view=False)
s = tlc.run('TraceSampling.tla', 's.cfg', tag='c13s', files={'s.cfg': cfg(**sc)}, simulate={'num': 80 if c.quick else 1500}, depth=22, seed=c.seed, timeout=1200)
sb = tlc.sim_behaviours(s)
tlc.cleanup(s)
if not sb:
    c.inconclusive('no simulated behaviours: %s' % (s.error or s.output[-500:]))
# no sampler registered / native pipeline off: merges must be lossless
nc = dict(nos, traces=('a', 'b', 'c'), parts=4, inv=False, view=False)
s0 = tlc.run('TraceSampling.tla', 's0.cfg', tag='c13s0', files={'s0.cfg': cfg(**nc)}, simulate={'num': 30 if c.quick else 400}, depth=16, seed=c.seed, timeout=900)
sb0 = tlc.sim_behaviours(s0)
tlc.cleanup(s0)

groups = [('cover', sel, True), ('sim', sb, True), ('nosampler', sb0, False)]
total = dict(behaviours=0, steps=0, stats={})
allb = []
for name, behs, sampling in groups:
    if not behs:
        continue
    res = replay(behs, name, sampling=sampling)
    if res['inconclusive']:
        c.inconclusive('; '.join(res['inconclusive'][:3]))
    total['behaviours'] += res['behaviours']
    total['steps'] += res['steps']
    for k, v in res['stats'].items():
        total['stats'][k] = total['stats'].get(k, 0) + v
    allb += behs
    seen = set()
    for v in res['violations']:
        if v['signature'] in seen:
            continue
        seen.add(v['signature'])
        b = behs[v['behaviour']][: v['step'] + 1]
        again = replay([b], 'repro', sampling=sampling, procs=1)
        if again['inconclusive']:
            c.inconclusive('; '.join(again['inconclusive'][:3]))
        if not [x for x in again['violations'] if x['signature'] == v['signature']]:
            c.unreproduced('violation %s not reproduced on a second run' % v['signature'])
            continue
        c.report(v['signature'], v['detail'], {'behaviour': b, 'sampling': sampling, 'harness': 'c13'})
    c.log('replayed %s: %d behaviours, %d steps, %d violation(s)' % (name, res['behaviours'], res['steps'], len(res['violations'])))

# ---- 3. binding self-test: a corrupted expectation (one span removed from the spec state) must be rejected ----
probe = [b for b in sel if len(b) >= 4][:6]
st = replay(probe, 'selftest', mutate=2, procs=3)
selftest = len(probe) > 0 and len({v['behaviour'] for v in st['violations']}) == len(probe)
if not selftest:
    c.inconclusive('binding self-test failed: %d of %d corrupted replays were rejected' % (len({v['behaviour'] for v in st['violations']}), len(probe)))

# ---- 4. S15 probe (not part of the verdict): histories that break the documented gap assumption ----------------
s15 = dict(note='RespectGap=FALSE, guard rule as coded (time window); not part of the verdict')
probes = [('across-segments', (2, 4))] if c.quick else [('across-segments', (2, 4)), ('within-segment', (1, 2, 3))]
for pname, ptimes in probes:
    pc = dict(traces=('a', 'b'), parts=3, batch=1, times=ptimes, gap=False, coded=True, kinds=('hot',), frontiers=(3,),
              decisions=('Keep', 'Drop'), timeouts=(False,))
    p = tlc.run('TraceSampling.tla', 'p.cfg', tag='c13p', files={'p.cfg': cfg(**pc)}, timeout=1200, workers=W)
    one = dict(tlc_violated=p.violated)
    s15[pname] = one
    wit = counterexample(p.output) if p.violated else []
    if p.violated and len(wit) > 1:
        pr = replay([wit], 's15', procs=1)
        sigs = sorted({v['signature'] for v in pr['violations']})
        one.update(witness=[x['last'] for x in wit[1:]], real_code_signatures=sigs, inconclusive=pr['inconclusive'][:2],
                   detail=[v['detail'] for v in pr['violations']][:1])
        if 'partial-trace-after-merge' in sigs:
            print('NOTE property=C13 S15-candidate (%s; not part of the verdict): with fragments of one trace farther apart than merge_grace '
                  'the real merge drops part of a trace: %s' % (pname, one['detail'][0][:300]), flush=True)
        else:
            c.log('S15 probe %s: the TLC witness did not reproduce a partial drop on the real code: %s' % (pname, sigs))
    else:
        c.log('S15 probe %s: TLC found no violation without the gap assumption (violated=%s error=%s)' % (pname, p.violated, p.error))

nontriv = core.nontrivial_count(allb, lambda b: score(b) >= 2)
samples = []
for b in sorted(allb, key=lambda b: -score(b))[:3]:
    samples.append([x['last'] for x in b[1:]])
c.cov.update(states=states, transitions=transitions, traces_validated_against_impl=0,
             behaviours_replayed=total['behaviours'], steps_replayed=total['steps'], graph_states=len(nodes), graph_edges=len(edges),
             graph_edges_uncovered=unc, edge_cover_behaviours=len(cover), edge_cover_replayed=len(sel), simulated_behaviours=len(sb) + len(sb0),
             exhaustive=(unc == 0 and not sampled), evaluations=total['behaviours'], distinct_nontrivial=nontriv,
             rule='behaviours = edge cover of the TLC state graph of TraceSampling.tla (2 traces x 2 fragments, 3 parts, 1 hot merge with sampler '
                  'Keep/Drop/Error, writer and flusher interleaved at every merge step; quick tier: seeded sample of %d ordered by interest) + '
                  '-simulate (3 traces, 5 parts, 2 concurrent merges hot/finalize/mem, Keep/Drop/Error/Panic/time-out, depth 22) + -simulate without '
                  'sampler; replayed on real trace tsTables; per step: spans per trace id through the query path, index entries, parts, epoch compared '
                  'with the spec state; non-trivial = the merge really dropped a trace or an attempt was rejected and retried' % len(sel),
             harness_stats=total['stats'], tlc_runs=runs, action_coverage=r.coverage, binding_selftest_rejected=selftest, s15_probe=s15,
             samples=samples)
c.assumptions += [
    'RespectGap: all fragments of one trace lie within merge_grace (TracePipelineConfig.merge_grace, engine default 2h) of each other in data time; '
    'the guard declares this (TemporalSafety=MaxGapEnforced) and nothing enforces it - see s15_probe',
    'the trace-id bloom filter is exact for the ids used (a replay that hits a false positive is re-run with other ids; a false positive only keeps more)',
    'one sampler in the chain; its decision function is per trace id, failures are per Decide call (one batch per merge at these sizes)',
    'retention/TTL is not modelled (C07); table Y (the next segment) only receives writes',
    'merge selections: any non-empty set of file parts (lane worker), the finalize round\'s own selection, all mem parts (flusher pre-merge); '
    'concurrent merges select disjoint parts (inFlight)',
]
c.finish()
