#!/usr/bin/env python3
"""C12 - sort-key encodings preserve order; series identity is unambiguous.

spec/KeyCodec.tla (TLC, exhaustive at reduced width / alphabet: every state is one case) -> every enumerated
case is exported, embedded into the real 64-bit / real-byte domain by harness/pkg/c12 and executed on the real
pkg/convert, pkg/pb/v1 and pkg/index functions; the outcome must satisfy the relation the spec defines.  Plus
seeded random real-domain cases against the same relation (transcribed from the spec, evaluated in Go)."""
import json, os, sys, time
from concurrent.futures import ThreadPoolExecutor
sys.path.insert(0, '/verif/tools')
from vf import core, tlc

c = core.Check('C12', 'model_checking')
c.setup()
binp = c.gobuild('c12')

INVARIANTS = ['IntCodeIsSignFlip', 'OrderIso', 'RoundTrip', 'BufIsMarshal', 'RoundTripEntity', 'LeftInverse', 'Injective', 'SameEntitySameKey']


def cfg(kinds, widths='{3}', cwidths='{3}', E=3, M=2, asw='FALSE', maxlen=1, maxsubj=1, maxvals=1, zig='{0}'):
    return '''SPECIFICATION Spec
CONSTANTS
  Kinds = {%s}
  Widths = %s
  CompWidths = %s
  E = %d
  M = %d
  AsWritten = %s
  Alphabet = {0, 97, 124, 92}
  MaxLen = %d
  MaxSubj = %d
  MaxVals = %d
  ZigCodes = %s
INVARIANTS
%s
''' % (', '.join('"%s"' % k for k in kinds.split('+')), widths, cwidths, E, M, asw, maxlen, maxsubj, maxvals, zig, '\n'.join('  ' + i for i in INVARIANTS))


def write_cases(name, cases):
    d = os.path.join(core.BUILD, 'beh')
    os.makedirs(d, exist_ok=True)
    p = os.path.join(d, 'C12-%s-%d.ndjson' % (name, os.getpid()))
    with open(p, 'w') as f:
        for i, cs in enumerate(cases):
            f.write(json.dumps(cs, separators=(',', ':')) + '\n')
    return p


def reproduce_and_report(res, origin):
    """every distinct signature is re-executed once from scratch (fresh process, the concrete real-domain case
    only) before it is reported"""
    seen = set()
    for v in res['violations']:
        sig = v['signature']
        if sig in seen:
            continue
        seen.add(sig)
        raw = res['repro'][v['behaviour']]
        f2 = write_cases('repro', [raw])
        again = c.run_harness(binp, ['-mode', 'raw', '-in', f2])
        os.remove(f2)
        if sig not in [x['signature'] for x in again['violations']]:
            c.unreproduced('violation %s not reproduced on re-execution: %s' % (sig, v['detail']))
            continue
        c.report(sig, v['detail'], {'raw': raw, 'expect': sig, 'origin': origin, 'harness': 'c12'})


if c.replay:
    obj = json.load(open(c.replay))
    f = write_cases('replay', [obj['raw']])
    res = c.run_harness(binp, ['-mode', 'raw', '-in', f])
    os.remove(f)
    if res['inconclusive']:
        c.inconclusive('; '.join(res['inconclusive']))
    for v in res['violations']:
        c.report(v['signature'], v['detail'], {'raw': obj['raw'], 'expect': v['signature'], 'origin': 'replay', 'harness': 'c12'})
    c.cov.update(states=1, transitions=0, traces_validated_against_impl=0, evaluations=res['steps'], samples=[obj['raw']])
    c.finish()

# ---- 1. design: TLC exhaustive on KeyCodec.tla; every state is a case ----
ZIG5 = '{0, 1, 92, 124, 31836}'      # 0, -1, 46 (zig-zag byte '\'), 62 (zig-zag byte '|'), 15918 (bytes '|' '\')
ZIG3 = '{0, 92, 124}'
if c.quick:
    exported = [   # (name, cfg): dumped, every state replayed on the real code
        ('numbers', cfg('int+uint+comp+float', widths='{3, 4, 5, 6}', cwidths='{3}', E=3, M=2)),
        ('entity-len2-vals2', cfg('entity', maxlen=2, maxsubj=1, maxvals=2, zig=ZIG5)),
        ('entity-len1-vals3', cfg('entity', maxlen=1, maxsubj=1, maxvals=3, zig=ZIG3)),
    ]
    checked_only = []   # exhaustive invariant check at a larger bound, sampled (not enumerated) for replay
    sim = ('entity-len3-vals3', cfg('entity', maxlen=3, maxsubj=2, maxvals=3, zig=ZIG5), 400)
    nrandom = 200000
else:
    exported = [
        ('int', cfg('int', widths='{3, 4, 5, 6, 7, 8}')),
        ('uint+comp+float-1-3-2', cfg('uint+comp+float', widths='{3, 4, 5, 6}', cwidths='{3, 4}', E=3, M=2)),
        ('float-1-4-3', cfg('float', E=4, M=3)),
        ('entity-len2-vals2', cfg('entity', maxlen=2, maxsubj=1, maxvals=2, zig=ZIG5)),
        ('entity-len1-vals3', cfg('entity', maxlen=1, maxsubj=1, maxvals=3, zig=ZIG3)),
        ('entity-len3-vals2', cfg('entity', maxlen=3, maxsubj=0, maxvals=2, zig=ZIG5)),
    ]
    checked_only = [
        ('entity-len3-vals2-subj1', cfg('entity', maxlen=3, maxsubj=1, maxvals=2, zig=ZIG5)),
        ('entity-len2-vals3', cfg('entity', maxlen=2, maxsubj=1, maxvals=3, zig=ZIG3)),
    ]
    sim = ('entity-len3-vals3', cfg('entity', maxlen=3, maxsubj=2, maxvals=3, zig=ZIG5), 4000)
    nrandom = 2000000


def run_exported(item):
    name, text = item
    small = not name.startswith('entity')
    r = tlc.run('KeyCodec.tla', 'mc.cfg', tag='c12-' + name, files={'mc.cfg': text}, dump=True, coverage=not c.quick,
                workers=4 if small else 6, timeout=1500)
    cases = []
    if r.ok:
        nodes, edges, inits = tlc.graph(r)
        cases = sorted(nodes.values(), key=lambda st: json.dumps(st, sort_keys=True))   # node ids are run-dependent fingerprints
    tlc.cleanup(r)
    return name, r, cases


def run_checked(item):
    name, text = item
    return name, tlc.run('KeyCodec.tla', 'mc.cfg', tag='c12-' + name, files={'mc.cfg': text}, coverage=True, workers=6, timeout=1500), None


t0 = time.time()
with ThreadPoolExecutor(max_workers=4) as ex:
    futs = [ex.submit(run_checked, it) for it in checked_only] + [ex.submit(run_exported, it) for it in exported]   # the largest first
    # the float encoder exactly as written at the pinned commit must be rejected by TLC: the invariants discriminate
    neg = ex.submit(tlc.run, 'KeyCodec.tla', 'mc.cfg', tag='c12-aswritten', files={'mc.cfg': cfg('float', E=3, M=2, asw='TRUE')}, workers=2, timeout=600)
    results = [f.result() for f in futs]
    neg = neg.result()

states = transitions = 0
per_run = {}
coverage = {}
all_cases = []
for name, r, cases in results:
    if r.violated or r.error or r.timed_out or not r.ok:
        c.inconclusive('TLC on KeyCodec.tla (%s): violated=%s error=%s timeout=%s\n%s' % (name, r.violated, r.error, r.timed_out, r.output[-1500:]))
    states += r.distinct
    transitions += r.generated
    per_run[name] = dict(states=r.distinct, generated=r.generated, wall_s=round(r.wall, 1), exported=cases is not None)
    for k, v in (r.coverage or {}).items():
        coverage[name + ':' + k] = v
    if cases is not None:
        if len(cases) != r.distinct:
            c.inconclusive('state dump of %s has %d states, TLC reports %d' % (name, len(cases), r.distinct))
        all_cases += cases
spec_rejects_aswritten = bool(neg.violated) and not neg.error
if not spec_rejects_aswritten:
    c.inconclusive('KeyCodec.tla with AsWritten=TRUE was not rejected (violated=%s error=%s): the invariants do not discriminate' % (neg.violated, neg.error))
c.log('TLC runs: ' + ', '.join('%s %d states %.1fs' % (k, v['states'], v['wall_s']) for k, v in per_run.items()))
c.log('TLC KeyCodec: %d runs, %d distinct states, invariants hold; %d cases exported (%.1fs); AsWritten=TRUE rejected by %s'
      % (len(results), states, len(all_cases), time.time() - t0, neg.violated))

# vacuity: every family of cases is present, every entity bound produced appended values
kinds = {}
for cs in all_cases:
    kinds[cs['c']['k']] = kinds.get(cs['c']['k'], 0) + 1
for k in ('int', 'uint', 'comp', 'float', 'entity'):
    if not kinds.get(k):
        c.inconclusive('no %s cases were enumerated (vacuous run)' % k)
if coverage and not any(k.endswith(':AppendValue') and v > 0 for k, v in coverage.items()):
    c.inconclusive('AppendValue was never taken (vacuous run): %s' % coverage)

# deeper random series at a bound too large to enumerate (states of -simulate behaviours)
sname, scfg, snum = sim
sr = tlc.run('KeyCodec.tla', 'mc.cfg', tag='c12-sim', files={'mc.cfg': scfg.replace('  Injective\n', '')}, simulate={'num': snum}, depth=5, seed=c.seed, timeout=600)
sb = tlc.sim_behaviours(sr)
tlc.cleanup(sr)
if not sr.ok:
    c.inconclusive('TLC -simulate on KeyCodec.tla: violated=%s error=%s\n%s' % (sr.violated, sr.error, sr.output[-1500:]))
sim_cases, seen_sim = [], set()
for b in sb:
    for st in b:
        key = json.dumps(st, sort_keys=True)
        if key not in seen_sim:
            seen_sim.add(key)
            sim_cases.append(st)
c.log('-simulate %s: %d behaviours -> %d distinct series' % (sname, len(sb), len(sim_cases)))

# ---- 2. spec -> code: every case on the real functions ----
f = write_cases('cases', all_cases + sim_cases)
res = c.run_harness(binp, ['-mode', 'cases', '-in', f, '-random', str(nrandom)], timeout=1500)
c.log('replayed %d cases (%d evaluations on the real code, %d distinct series keys, %d random pairs): %d mismatches'
      % (res['behaviours'], res['steps'], res['stats'].get('distinct_series_keys', 0), nrandom, res['stats'].get('violations_total', 0)))
# violations of the property (round trip, injectivity, order) first: a key that deviates from the model's bytes is only a
# note about the model, what the deviation does to the property is decided on the real functions
reproduce_and_report(res, 'tlc-cases+random')
if res['inconclusive']:
    c.inconclusive('; '.join(res['inconclusive'][:5]))
if res['behaviours'] != len(all_cases) + len(sim_cases):
    c.inconclusive('harness executed %d of %d cases' % (res['behaviours'], len(all_cases) + len(sim_cases)))

# ---- 3. binding self-test: corrupt the real encoder's output inside the harness; it must be reported ----
# (a small slice of the cases is enough; results stay out of the verdict)
selftest = {}
for mut, kind, prefix in (('int-swap', 'int', 'int64-'), ('float-swap', 'float', 'float-'), ('entity-noescape', 'entity', 'entity-')):
    fs = write_cases('selftest', [cs for cs in all_cases if cs['c']['k'] == kind][:4000])
    st = c.run_harness(binp, ['-mode', 'cases', '-in', fs, '-mutate', mut], timeout=600)
    os.remove(fs)
    selftest[mut] = sorted(set(v['signature'] for v in st['violations'] if v['signature'].startswith(prefix)))
os.remove(f)
rejected = all(selftest.values()) and any(s.startswith('entity-injective') for s in selftest['entity-noescape'])
if not rejected:
    c.inconclusive('binding self-test failed: a corrupted encoder output was not reported: %s' % selftest)

c.cov.update(
    states=states, transitions=transitions, traces_validated_against_impl=0,
    cases_exported=len(all_cases), cases_simulated=len(sim_cases), cases_replayed=res['behaviours'],
    evaluations=res['steps'], distinct_nontrivial=res['stats'].get('distinct_nontrivial', 0),
    distinct_series_keys=res['stats'].get('distinct_series_keys', 0), random_number_pairs=nrandom,
    exhaustive=True,
    rule='cases = ALL states of the exported TLC runs (tlc_runs[*].exported) plus the distinct states of %d -simulate behaviours at the bound %s; '
         'each case is executed under every embedding (3 integer, 6 float, 1+8 byte relabellings); evaluations = executions of a real '
         'encode/compare/decode or marshal/unmarshal relation check; non-trivial = number pairs touching a corner class (zero, -0.0, '
         'subnormal, Inf, NaN, Min/Max, sign change) or series containing a delimiter, escape, NUL, empty, null or integer value; '
         'distinct by concrete real-domain input' % (len(sb), sname),
    tlc_runs=per_run, action_coverage=coverage, harness_stats=res['stats'],
    spec_rejects_pinned_float_encoder=spec_rejects_aswritten, binding_selftest_rejected=rejected, binding_selftest_signatures=selftest,
    samples=res['samples'][:8],
)
c.assumptions += [
    'small scope / width generic: the integer and float codecs are bit-position generic (sign flip, complement), so TLC covers ALL pairs at 3..8 bit integers and 1+3+2 / 1+4+3 bit floats and the real 64-bit code is exercised on strictly monotone, class-preserving embeddings of every such pair plus seeded random 64-bit pairs; it is not a proof over all 2^128 pairs',
    'series keys: all tuples within the stated bounds over the alphabet {a, |, \\, NUL} (a relabelled to 8 other ordinary bytes) and integers whose zig-zag bytes contain | and \\; longer values only by seeded random generation',
    'an empty string / byte value reading back as null is accepted (as the property states); -0.0 vs +0.0 may be ordered either way; NaN is only required to decode to a NaN',
    'the 64-bit series ID is the xxhash of the key: hash collisions between different keys are outside the property (key injectivity is what is checked)',
    'timestamp-typed entity values and array-typed tags (rejected by marshalTagValue) are not explored',
]
c.finish()
