#!/usr/bin/env python3
"""C06 - time segments partition the timeline; each point lives in exactly one."""
import sys
sys.path.insert(0, '/verif/tools'); sys.path.insert(0, '/verif/checks')
from vf import core
import segcommon as sc

c = core.Check('C06', 'model_checking')
c.setup()
binp = c.gobuild('stor')
if c.replay:
    sc.replay_one(c, binp)

OPS = ['create', 'reopen', 'interval', 'select']
NY, UTC = sc.NY, sc.UTC
fams = [
    dict(name='hour1-ny-spring', unit='HOUR', init=1, nums=[1, 2], ttl=1000, zone=NY, times=[24, 25, 26, 27, 28], clocks=[24],
         legacy=[[]], ranges=[(24, 28), (26, 26)], ops=OPS, maxops=5),
    dict(name='hour2-ny-autumn', unit='HOUR', init=2, nums=[2, 3], ttl=1000, zone=NY, times=[5734, 5735, 5736, 5737, 5738, 5739], clocks=[5734],
         legacy=[[]], ranges=[(5734, 5739), (5737, 5737)], ops=OPS, maxops=5),
    dict(name='hour1-ny-autumn', unit='HOUR', init=1, nums=[1, 2], ttl=1000, zone=NY, times=[5735, 5736, 5737, 5738], clocks=[5735],
         legacy=[[]], ranges=[(5735, 5738)], ops=OPS, maxops=5),
    dict(name='hour3-utc-legacy', unit='HOUR', init=3, nums=[3, 2], ttl=1000, zone=UTC, times=[30, 31, 32, 33, 35, 36], clocks=[30],
         legacy=[[], [(31, 32)], [(31, 32), (34, 35)]], ranges=[(30, 36), (33, 33)], ops=OPS, maxops=5),
    dict(name='day1-ny-spring', unit='DAY', init=1, nums=[1, 2, 3], ttl=100000, zone=NY, times=[0, 23, 24, 46, 47, 48, 71, 95], clocks=[0],
         legacy=[[]], ranges=[(0, 95), (47, 47)], ops=OPS, maxops=5),
    dict(name='day2-utc-legacy', unit='DAY', init=2, nums=[2, 3, 1], ttl=100000, zone=UTC, times=[0, 24, 47, 48, 72, 100, 130], clocks=[0],
         legacy=[[], [(24, 48)], [(24, 48), (96, 120)], [(72, 96)]], ranges=[(0, 130), (48, 48)], ops=OPS, maxops=5),
    dict(name='day3-ny-autumn', unit='DAY', init=3, nums=[3, 1], ttl=100000, zone=NY, times=[5700, 5711, 5712, 5735, 5736, 5737, 5760, 5761], clocks=[5700],
         legacy=[[]], ranges=[(5700, 5761)], ops=OPS, maxops=5),
]
for f in fams:
    if c.quick:
        f['graphops'] = 3
        f['sims'] = 120
    else:
        f['maxops'] = 6
        f['graphops'] = 4
tot, stats, samples, nontriv, cover = sc.run_families(c, fams, binp, {'create', 'reopen', 'interval'})
c.cov.update(states=tot['states'], transitions=tot['transitions'], traces_validated_against_impl=0,
             behaviours_replayed=tot['behaviours'], steps_replayed=tot['steps'], graph_edges=tot['edges'],
             graph_edges_uncovered=tot['uncovered'], simulated_behaviours=tot['sims'], exhaustive=(tot['uncovered'] == 0),
             evaluations=tot['behaviours'], distinct_nontrivial=nontriv,
             rule='per family (unit x multiple x zone x legacy layout): edge cover of the TLC state graph + -simulate behaviours, each replayed on a real storage.TSDB in that zone with the segment list, the seg-* directories and every returned segment compared after every step; non-trivial = contains at least two of {create, reopen, interval}; distinct by full state sequence',
             harness_stats=stats, families=[f['name'] for f in fams], action_coverage=cover, samples=samples[:4])
c.assumptions += ['time in whole hours relative to 2026-03-07 local midnight; sub-hour offsets are drawn by the replayer (seeded)',
                  'zones: UTC and America/New_York (both 2026 transitions); TZ is set per harness process',
                  'the HOUR grid is absolute hours since the local epoch, the DAY grid local midnights (see Segments.tla header)']
c.finish()
