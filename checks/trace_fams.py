"""Trace-engine families for the Engine.tla checks (C01, C03, C08, C09): imported by the check scripts.

Every function takes the core.Check (for the tier) and returns a list of family dicts in the format of
engcommon.run_families.  Trace instantiation of the spec (harness/pkg/eng/trace.go): Versioned = FALSE (every
acknowledged span is its own result row), a single version, TagsBySeries = FALSE (the queried tags belong to the span).
`index` = "<rules>/<traceOf>":
    rules    tree  idx-ts = [svc, ts], idx-a = [svc, a] (svc is the series of the secondary index)
             flat  idx-ts = [ts], idx-a = [a]           (svc is an ordinary tag inside the index elements)
             none  no index rule (only trace-id queries exist)
    traceOf  series | time | row: which rows form one trace (a series / a time slot / every span its own trace)
Exhaustive TLC constants stay tiny (MaxRows <= 2, MaxTotal <= 4); larger constants only through `sim=` (-simulate)."""
import sys
sys.path.insert(0, '/verif/checks')
from engcommon import leaf, crit, query

BASE = dict(engine='trace', versioned=False, versions=[1], graphops=0)
# the trace engine answers through its vectorized pipeline by default; the -rowpath families run the same behaviours
# on a server started with the pipeline switched off (streaming sidx query + block scan stage)
ROWPATH = ['--trace-vectorized-enabled=false']


def _fam(**kw):
    f = dict(BASE)
    f.update(kw)
    return f


S = [1, 2, 3]
T = [1, 2, 3]


def c01(c):
    """acknowledged spans are returned exactly as written (every tag, the span body, span id, trace id), nothing else:
    batches of 1..3 spans, several spans per trace spread over batches, maintenance in between"""
    fams = [
        _fam(name='trace-batches', series=[1, 2], times=[1, 2], maxrows=2, maxtotal=4, maxops=4 if c.quick else 6,
             sims=16 if c.quick else 160, simops=8, index='tree/series', sim=dict(series=[1, 2, 3], times=[1, 2, 3], maxrows=3, maxtotal=9)),
        _fam(name='trace-batches-flat-cross-service', series=[1, 2], times=[1, 2], maxrows=2, maxtotal=4, maxops=4,
             sims=8 if c.quick else 80, simops=9, index='flat/time', sim=dict(series=[1, 2, 3], times=[1, 2, 3], maxrows=3, maxtotal=8)),
        _fam(name='trace-batches-noindex', series=[1, 2], times=[1, 2], maxrows=2, maxtotal=4, maxops=4,
             sims=6 if c.quick else 60, simops=9, index='none/series', sim=dict(times=[1, 2, 3], maxrows=3, maxtotal=8)),
    ]
    if not c.quick:
        fams += [
            _fam(name='trace-batches-rowpath', series=[1, 2], times=[1, 2], maxrows=2, maxtotal=4, maxops=4,
                 sims=60, simops=9, index='tree/series', flags=ROWPATH, sim=dict(series=[1, 2, 3], times=[1, 2, 3], maxrows=3, maxtotal=8)),
            _fam(name='trace-batches-cross-service', series=[1, 2], times=[1, 2], maxrows=2, maxtotal=4, maxops=4,
                 sims=80, simops=9, index='tree/time', sim=dict(series=[1, 2, 3], times=[1, 2, 3], maxrows=3, maxtotal=8)),
            _fam(name='trace-batches-flat-single', series=[1, 2], times=[1, 2], maxrows=2, maxtotal=4, maxops=4,
                 sims=60, simops=9, index='flat/row', sim=dict(times=[1, 2, 3], maxrows=3, maxtotal=8)),
            _fam(name='trace-big-spans', series=[1, 2], times=[1, 2], maxrows=2, maxtotal=4, maxops=4,
                 sims=30, simops=10, big=True, index='tree/series', sim=dict(times=[1, 2, 3], maxrows=3, maxtotal=9)),
            _fam(name='trace-batches-2shards', series=[1, 2], times=[1, 2], maxrows=2, maxtotal=4, maxops=4,
                 sims=60, simops=9, index='tree/series', shards=2, sim=dict(series=[1, 2, 3], times=[1, 2, 3], maxrows=3, maxtotal=8)),
        ]
    return fams


def c03_queries():
    """a few criteria / ordered queries asked before and after every maintenance step (the trace-id filters, the block
    metadata and the secondary-index parts are rebuilt by flush and merge)"""
    qs = [query(1, 3, S, crit('one', leaf(op, 'a', (v,)))) for op, v in (('eq', 0), ('ne', 1), ('ge', 1), ('lt', 2))]
    qs += [query(1, 3, S, crit('one', leaf('eq', 'b', (0,)))), query(1, 3, S, crit('one', leaf('in', 'a', (0, 2)))),
           query(1, 3, S, crit('one', leaf('having', 'arr', (1,)))),
           query(1, 3, S, crit('and', leaf('ge', 'a', (1,)), leaf('ne', 'b', (2,)))), query(2, 3, [1, 2], crit('one', leaf('le', 'a', (1,)))),
           query(1, 3, S, crit('one', leaf()), 'time', True, 0, 0), query(1, 3, S, crit('one', leaf()), 'time', False, 1, 2)]
    return qs


def c03(c):
    """flush (one by one, or the flusher's merge of the memory parts) and merge (any subset of the file parts, fan-in
    2..4; core parts and the parts of both secondary indexes in one publication) never change what the covering
    queries return - nor, in the -queries families, what criteria and ordered queries return"""
    fams = [
        _fam(name='trace-merge-queries-tree', series=S, times=T, maxrows=1, maxtotal=3, maxops=3,
             sims=8 if c.quick else 80, simops=12, queries=c03_queries(), index='tree/series', sim=dict(maxrows=2, maxtotal=8)),
        _fam(name='trace-merge-subsets', series=[1, 2], times=[1, 2], maxrows=1, maxtotal=4, maxops=6 if c.quick else 9,
             sims=20 if c.quick else 200, simops=12, index='tree/series'),
        _fam(name='trace-merge-batches', series=[1, 2], times=[1, 2], maxrows=2, maxtotal=4, maxops=4 if c.quick else 7,
             sims=12 if c.quick else 120, simops=12, index='flat/time', sim=dict(times=[1, 2, 3], maxtotal=6)),
    ]
    if not c.quick:
        fams += [
            _fam(name='trace-merge-queries-rowpath', series=S, times=T, maxrows=1, maxtotal=3, maxops=3,
                 sims=50, simops=12, queries=c03_queries(), index='tree/series', flags=ROWPATH, sim=dict(maxrows=2, maxtotal=8)),
            _fam(name='trace-merge-queries-flat-time', series=S, times=T, maxrows=1, maxtotal=3, maxops=3,
                 sims=60, simops=12, queries=c03_queries(), index='flat/time', sim=dict(maxrows=2, maxtotal=8)),
        ]
    return fams


def c08_queries(exclude=()):
    """criteria queries over eq ne lt le gt ge (a, b), in notin (a, b), having nothaving (arr), AND / OR pairs and
    time / series restrictions; `exclude` is a set of (operator, tag) pairs the configuration does not accept"""
    def ok(op, tag):
        return (op, tag) not in exclude
    leaves = []
    for tag in ('a', 'b'):
        for v in (0, 1, 2):
            leaves += [leaf(op, tag, (v,)) for op in ('eq', 'ne', 'lt', 'le', 'gt', 'ge') if ok(op, tag)]
    for vs in ((0,), (0, 2), (1, 2), (0, 1, 2)):
        for op in ('in', 'notin'):
            leaves += [leaf(op, tag, vs) for tag in ('a', 'b') if ok(op, tag)]
    for vs in ((1,), (3,), (1, 2), (2, 3), (1, 2, 3)):
        leaves += [leaf(op, 'arr', vs) for op in ('having', 'nothaving') if ok(op, 'arr')]
    qs = [query(1, 3, S, crit('one', l)) for l in leaves]
    n = len(leaves)
    pairs = [(leaves[i % n], leaves[(i * 7 + 11) % n]) for i in range(0, n, max(1, n // 10))]
    for a, b in pairs:
        qs += [query(1, 3, S, crit('and', a, b)), query(1, 3, S, crit('or', a, b))]
    qs += [query(1, 1, S, crit('one', leaves[0])), query(2, 3, [1], crit('one', leaves[2 % n])), query(3, 3, [2], crit('one', leaf())),
           query(1, 2, [1, 3], crit('one', leaves[5 % n])), query(2, 2, [2, 3], crit('and', leaves[1 % n], leaves[-1]))]
    # conditions on tag a are conditions on the KEY of the index rule idx-a when the query is ordered by it: a range that
    # is empty, a point, an equality next to a range, and a range on each side of an OR
    qs += [query(1, 3, S, crit('and', leaf('gt', 'a', (1,)), leaf('lt', 'a', (1,)))), query(1, 3, S, crit('and', leaf('ge', 'a', (1,)), leaf('le', 'a', (1,)))),
           query(1, 3, S, crit('and', leaf('eq', 'a', (2,)), leaf('ge', 'a', (1,)))), query(1, 3, S, crit('or', leaf('lt', 'a', (1,)), leaf('gt', 'a', (1,)))),
           query(1, 3, S, crit('and', leaf('eq', 'a', (1,)), leaf('eq', 'b', (1,)))), query(1, 3, S, crit('or', leaf('ge', 'a', (2,)), leaf('eq', 'b', (0,))))]
    return qs


C08_EXCLUDE = {}


def c08(c):
    """every criteria query in the forms the engine offers (trace_id IN ..., ORDER BY idx-ts, ORDER BY idx-a) under each
    index configuration; the answers must be the spec's whatever the configuration, the path and the part layout"""
    def fam(idx, quick, thorough, **kw):
        name = 'trace-criteria-' + idx.replace('/', '-') + ''.join('-' + k for k in kw.pop('suffix', ()))
        return _fam(name=name, series=S, times=T, maxrows=1, maxtotal=3, maxops=3, sims=quick if c.quick else thorough, simops=11,
                    queries=c08_queries(C08_EXCLUDE.get(idx, ())), index=idx, sim=dict(maxrows=3, maxtotal=8), **kw)
    fams = [fam('tree/series', 6, 50), fam('flat/time', 4, 40), fam('none/series', 3, 30),
            fam('tree/series', 2, 20, flags=ROWPATH, suffix=('rowpath',))]
    if not c.quick:
        fams += [fam('flat/row', 0, 30), fam('flat/series', 0, 30), fam('tree/time', 0, 30), fam('tree/series', 0, 20, shards=2, suffix=('2shards',))]
    return fams


def c09_queries():
    qs = []
    for asc in (True, False):
        for off in (0, 1, 2, 4):
            for lim in (0, 1, 2, 3, 9):
                qs.append(query(1, 3, S, crit('one', leaf()), 'time', asc, off, lim))
        qs.append(query(2, 3, [1, 2], crit('one', leaf('ge', 'a', (1,))), 'time', asc, 1, 2))
        qs.append(query(1, 2, [2], crit('one', leaf()), 'time', asc, 0, 1))
        qs.append(query(1, 3, S, crit('one', leaf('ne', 'b', (1,))), 'time', asc, 0, 3))
        qs.append(query(1, 3, S, crit('one', leaf('having', 'arr', (1,))), 'time', asc, 0, 2))
        qs.append(query(1, 3, S, crit('and', leaf('nothaving', 'arr', (3,)), leaf('ge', 'a', (1,))), 'time', asc, 1, 2))
    return qs


def c09(c):
    """ordered by the index rule on the timestamp tag (the spec's time order) and by the rule on tag a, ASC / DESC x
    offset x limit; the window counts traces; traces sharing an order key may come in any order"""
    fams = [
        _fam(name='trace-order-window-single', series=S, times=T, maxrows=1, maxtotal=3, maxops=3,
             sims=6 if c.quick else 50, simops=12, queries=c09_queries(), index='tree/row', sim=dict(maxrows=3, maxtotal=9)),
        _fam(name='trace-order-window-series', series=S, times=T, maxrows=1, maxtotal=3, maxops=3,
             sims=6 if c.quick else 50, simops=12, queries=c09_queries(), index='tree/series', sim=dict(maxrows=3, maxtotal=9)),
        _fam(name='trace-order-window-flat-cross-service', series=S, times=T, maxrows=1, maxtotal=3, maxops=3,
             sims=5 if c.quick else 40, simops=12, queries=c09_queries(), index='flat/time', sim=dict(maxrows=3, maxtotal=9)),
        _fam(name='trace-order-window-rowpath', series=S, times=T, maxrows=1, maxtotal=3, maxops=3,
             sims=3 if c.quick else 25, simops=12, queries=c09_queries(), index='tree/series', flags=ROWPATH, sim=dict(maxrows=3, maxtotal=9)),
    ]
    if not c.quick:
        fams += [
            _fam(name='trace-order-window-flat-single', series=S, times=T, maxrows=1, maxtotal=3, maxops=3,
                 sims=30, simops=12, queries=c09_queries(), index='flat/row', sim=dict(maxrows=3, maxtotal=9)),
            # two shards: the ordered candidates of the secondary indexes of both tables are merged
            _fam(name='trace-order-window-2shards', series=S, times=T, maxrows=1, maxtotal=3, maxops=3,
                 sims=25, simops=12, queries=c09_queries(), index='tree/row', shards=2, sim=dict(maxrows=3, maxtotal=9)),
        ]
    return fams
