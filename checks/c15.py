#!/usr/bin/env python3
"""C15 - vectorized execution returns what row execution returns (measure and stream engines over gRPC, both flag settings)."""
import sys
sys.path.insert(0, '/verif/tools'); sys.path.insert(0, '/verif/checks')
from vf import core
import engcommon as ec
from engcommon import leaf, crit, query

c = core.Check('C15', 'translation_validation')
c.setup()
binp = c.gobuild('eng')
if c.replay:
    ec.replay_one(c, binp)

S = [1, 2]
qs = [query(1, 3, S, crit('one', leaf()))]
for l in (leaf('eq', 'a', (1,)), leaf('ne', 'b', (0,)), leaf('lt', 'a', (2,)), leaf('in', 'a', (0, 2)), leaf('notin', 'b', (1,)), leaf('ge', 'a', (2,)), leaf('in', 'b', (0, 2))):
    qs.append(query(1, 3, S, crit('one', l)))
qs += [query(1, 3, S, crit('and', leaf('ge', 'a', (1,)), leaf('ne', 'b', (1,)))), query(1, 3, S, crit('or', leaf('eq', 'b', (2,)), leaf('eq', 'a', (0,))))]
for asc in (True, False):
    for off, lim in ((0, 0), (0, 2), (1, 2), (3, 5), (7, 1)):
        qs.append(query(1, 3, S, crit('one', leaf()), 'time', asc, off, lim))
    qs.append(query(2, 3, [1], crit('one', leaf('le', 'a', (1,))), 'time', asc, 0, 3))
fams = []
for name, flags in (('row', ['--measure-vectorized-enabled=false']), ('vec', ['--measure-vectorized-enabled=true']),
                    ('vec-batch2', ['--measure-vectorized-enabled=true', '--measure-vectorized-batch-size=2'])):
    fams.append(dict(name='measure-' + name, series=S, times=[1, 2, 3], versions=[1, 2], versioned=True, maxrows=1, maxtotal=3,
                     maxops=3, graphops=0, sims=40 if c.quick else 400, simops=12, queries=qs, flags=flags, index='inverted', tags_by_series=True, sim=dict(maxrows=3, maxtotal=8)))
# stream engine: the row path is the documented roll-back rail (--stream-vectorized-enabled=false), the vectorized path
# the default; both must give the spec's answers for criteria (post-scan filter / inverted / skipping index), time order
# with windows over every shape of part time ranges, and order by index rule
import stream_fams
for name, flags in (('row', ['--stream-vectorized-enabled=false']), ('vec', ['--stream-vectorized-enabled=true']),
                    ('vec-batch2', ['--stream-vectorized-enabled=true', '--stream-vectorized-batch-size=2'])):
    for f in stream_fams.c15(c):
        if c.quick and name == 'vec-batch2' and not f['name'].startswith('stream-part-shapes'):
            continue        # quick tier: the small-batch pipeline runs the part-shape family only
        f = dict(f)
        f['name'] = f['name'] + '-' + name
        f['flags'] = flags
        fams.append(f)
def nontrivial(st):
    ops = [x['last'].get('op') for x in st[1:]]
    return 'queryall' in ops and ('flush' in ops or 'merge' in ops)
tot, stats, samples, nontriv, cover = ec.run_families(c, fams, binp, nontrivial)
c.cov.update(programs=stats.get('criteria_queries', 0), disagreements_checked=stats.get('criteria_queries', 0) + stats.get('cover_queries', 0),
             states=tot['states'], transitions=tot['transitions'], behaviours_replayed=tot['behaviours'], steps_replayed=tot['steps'],
             evaluations=tot['behaviours'], distinct_nontrivial=nontriv, queries_per_family=len(qs),
             rule='the SAME TLC behaviours (same seed: same datasets, part layouts, maintenance steps and %d queries: projections, criteria, AND/OR, order by time ASC/DESC with offset/limit) are executed against stand-alone servers started with --measure-vectorized-enabled / --stream-vectorized-enabled =false, =true and =true with batch size 2; every response must equal the spec answer, hence the pipelines agree with each other on everything the spec fixes (row set, values bit-exact, order, window); programs = queries executed' % len(qs),
             harness_stats=stats, action_coverage=cover,
             samples=[{'family': s['family'], 'ops': [o if o.get('op') != 'queryall' else {'op': 'queryall', 'n': len(o['res'])} for o in s['ops']]} for s in samples])
c.assumptions += ['single node; columnar frames between data node and coordinator are not exercised yet; aggregation/top-N equivalence is covered at plan level by C10',
                  'responses are compared through the spec oracle rather than byte-wise with each other (unordered queries have no defined order)']
c.finish()
