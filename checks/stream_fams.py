"""Stream-engine families for the Engine.tla checks (C01, C03, C08, C09): imported by the check scripts.

Every function takes the core.Check (for the tier) and returns a list of family dicts in the format of
engcommon.run_families.  Stream instantiation of the spec: Versioned = FALSE (every acknowledged element is its own
result row, nothing is deduplicated), a single version, TagsBySeries = FALSE (the queried tags belong to the element).
Exhaustive TLC constants stay tiny (MaxRows <= 2, MaxTotal <= 4); larger constants only through `sim=` (-simulate)."""
import sys
sys.path.insert(0, '/verif/checks')
from engcommon import leaf, crit, query

BASE = dict(engine='stream', versioned=False, versions=[1], graphops=0)


def _fam(**kw):
    f = dict(BASE)
    f.update(kw)
    return f


S = [1, 2, 3]
T = [1, 2, 3]


def c01(c):
    """acknowledged elements are returned exactly as written: batches of 1..3 elements, several series / timestamps
    (several elements may share series and timestamp: all of them must come back), maintenance in between"""
    fams = [
        _fam(name='stream-batches', series=[1, 2], times=[1, 2], maxrows=2, maxtotal=4, maxops=4 if c.quick else 6,
             sims=80 if c.quick else 1200, simops=8, sim=dict(series=[1, 2, 3], times=[1, 2, 3], maxrows=3, maxtotal=9)),
        _fam(name='stream-batches-inverted', series=[1, 2], times=[1, 2], maxrows=2, maxtotal=4, maxops=4,
             sims=50 if c.quick else 600, simops=9, index='inverted', sim=dict(times=[1, 2, 3], maxrows=3, maxtotal=8)),
        _fam(name='stream-batches-skipping', series=[1, 2], times=[1, 2], maxrows=2, maxtotal=4, maxops=4,
             sims=50 if c.quick else 600, simops=9, index='skipping', sim=dict(times=[1, 2, 3], maxrows=3, maxtotal=8)),
    ]
    if not c.quick:
        fams.append(_fam(name='stream-big-blocks', series=[1, 2], times=[1, 2], maxrows=2, maxtotal=4, maxops=4,
                         sims=60, simops=10, big=True, sim=dict(times=[1, 2, 3], maxrows=3, maxtotal=9)))
    return fams


def c03_queries():
    """a few criteria / ordered queries that are asked before and after every maintenance step (the part-level and
    block-level pruning structures - time span, bloom filter, min/max - are rebuilt by flush and merge)"""
    qs = [query(1, 3, S, crit('one', leaf(op, 'a', (v,)))) for op, v in (('eq', 0), ('ne', 1), ('ge', 1), ('le', 1), ('gt', 0), ('lt', 2))]
    qs += [query(1, 3, S, crit('one', leaf('eq', 'b', (0,)))), query(1, 3, S, crit('one', leaf('in', 'a', (0, 2)))),
           query(1, 3, S, crit('one', leaf('notin', 'b', (1, 2)))), query(1, 3, S, crit('one', leaf('having', 'arr', (1,)))),
           query(1, 3, S, crit('and', leaf('ge', 'a', (1,)), leaf('ne', 'b', (2,)))), query(2, 3, [1, 2], crit('one', leaf('le', 'a', (1,)))),
           query(1, 3, S, crit('one', leaf()), 'time', True, 0, 0), query(1, 3, S, crit('one', leaf()), 'time', False, 1, 3)]
    return qs


def c03(c):
    """flush and merge (any subset of the file parts, fan-in 2..4) never change what the covering query returns -
    nor, in the -queries families, what criteria and ordered queries return under each index configuration"""
    qfams = [_fam(name='stream-merge-queries-' + idx, series=S, times=T, maxrows=1, maxtotal=3, maxops=3,
                  sims=20 if c.quick else 300, simops=12, queries=c03_queries(), index=idx, sim=dict(maxrows=2, maxtotal=8))
             for idx in ('skipping', 'inverted')]
    return qfams + [
        _fam(name='stream-merge-subsets', series=[1, 2], times=[1, 2], maxrows=1, maxtotal=4, maxops=6 if c.quick else 9,
             sims=90 if c.quick else 1500, simops=12),
        _fam(name='stream-merge-batches', series=[1, 2], times=[1, 2], maxrows=2, maxtotal=4, maxops=4 if c.quick else 7,
             sims=60 if c.quick else 800, simops=12, index='inverted', sim=dict(times=[1, 2, 3], maxtotal=6)),
    ]


def c08_queries(exclude=()):
    """criteria queries over eq ne lt le gt ge (a, b), in notin (a, b), having nothaving (arr), AND / OR pairs and
    time / series restrictions; `exclude` is a set of (operator, tag) pairs the configuration does not accept"""
    def ok(op, tag):
        return (op, tag) not in exclude
    leaves = []
    for tag in ('a', 'b'):
        for v in (0, 1, 2):
            leaves += [leaf(op, tag, (v,)) for op in ('eq', 'ne', 'lt', 'le', 'gt', 'ge') if ok(op, tag)]
    for vs in ((0,), (0, 2), (1, 2), (0, 1, 2)):
        for op in ('in', 'notin'):
            leaves += [leaf(op, tag, vs) for tag in ('a', 'b') if ok(op, tag)]
    for vs in ((1,), (3,), (1, 2), (2, 3), (1, 2, 3)):
        leaves += [leaf(op, 'arr', vs) for op in ('having', 'nothaving') if ok(op, 'arr')]
    qs = [query(1, 3, S, crit('one', l)) for l in leaves]
    n = len(leaves)
    # AND / OR pairs spread deterministically over the leaf list (mixed tags, mixed indexed / unindexed operands)
    pairs = [(leaves[i % n], leaves[(i * 7 + 11) % n]) for i in range(0, n, max(1, n // 10))]
    for a, b in pairs:
        qs += [query(1, 3, S, crit('and', a, b)), query(1, 3, S, crit('or', a, b))]
    # time-range and series restrictions combined with a predicate (block / part / series pruning)
    qs += [query(1, 1, S, crit('one', leaves[0])), query(2, 3, [1], crit('one', leaves[2 % n])), query(3, 3, [2], crit('one', leaf())),
           query(1, 2, [1, 3], crit('one', leaves[5 % n])), query(2, 2, [2, 3], crit('and', leaves[1 % n], leaves[-1]))]
    return qs


# (operator, tag) pairs that the stream engine REJECTS with an error per index configuration of the tags a (int) and
# b (string) - arr is never indexed.  Rejected pairs are left out of that configuration's family (not a violation);
# every accepted operator must return exactly the spec's rows.  Found empirically over gRPC:
#   none      everything is accepted (criteria on unindexed tags are evaluated by the post-scan tag filter)
#   inverted  everything is accepted
#   skipping  everything is accepted once fixes/stream-merged-block-no-bounds.patch is applied.  WITHOUT that patch the
#             block-pruning helper treats every range bound as a number and lt/le/gt/ge on the string tag b fail with
#             STATUS_INTERNAL_ERROR "lower is not a float value" - on such a tree use
#             {(op, 'b') for op in ('lt', 'le', 'gt', 'ge')} here.
# (IN / NOT_IN on array tags are rejected by every configuration; the spec does not use them.)
C08_EXCLUDE = {
    'none': set(),
    'inverted': set(),
    'skipping': set(),
}


def c08(c):
    fams = []
    for idx in ('none', 'inverted', 'skipping'):
        fams.append(_fam(name='stream-criteria-' + idx, series=S, times=T, maxrows=1, maxtotal=3, maxops=3,
                         sims=40 if c.quick else 400, simops=11, queries=c08_queries(C08_EXCLUDE[idx]), index=idx,
                         sim=dict(maxrows=3, maxtotal=8)))
    # two shards: the series of one query live in different tables of one segment (per-shard index search, per-shard part
    # selection, one scanner over the parts of all shards)
    fams.append(_fam(name='stream-criteria-inverted-2shards', series=S, times=T, maxrows=1, maxtotal=3, maxops=3,
                     sims=25 if c.quick else 300, simops=11, queries=c08_queries(C08_EXCLUDE['inverted']), index='inverted', shards=2,
                     sim=dict(maxrows=3, maxtotal=8)))
    if not c.quick:
        fams.append(_fam(name='stream-criteria-skipping-2shards', series=S, times=T, maxrows=1, maxtotal=3, maxops=3,
                         sims=200, simops=11, queries=c08_queries(C08_EXCLUDE['skipping']), index='skipping', shards=2, sim=dict(maxrows=3, maxtotal=8)))
    return fams


def c09_queries():
    qs = []
    for asc in (True, False):
        for off in (0, 1, 2, 4):
            for lim in (0, 1, 2, 3, 9):
                qs.append(query(1, 3, S, crit('one', leaf()), 'time', asc, off, lim))
        qs.append(query(2, 3, [1, 2], crit('one', leaf('ge', 'a', (1,))), 'time', asc, 1, 2))
        qs.append(query(1, 2, [2], crit('one', leaf()), 'time', asc, 0, 1))
        qs.append(query(1, 3, S, crit('one', leaf('ne', 'b', (1,))), 'time', asc, 0, 3))
        # a condition on the array tag is never served by an index: it is evaluated after the scan, also when the result
        # is ordered by an index rule (the harness repeats every window ordered by the rules on a and b)
        qs.append(query(1, 3, S, crit('one', leaf('having', 'arr', (1,))), 'time', asc, 0, 2))
        qs.append(query(1, 3, S, crit('and', leaf('nothaving', 'arr', (3,)), leaf('ge', 'a', (1,))), 'time', asc, 1, 2))
    return qs


def part_shapes(b):
    """class of a behaviour = how the time ranges of its write batches (= parts, when every batch is flushed on its own)
    relate to each other: for every pair in (min, max) order D(isjoint) T(ouching) N(ested) O(verlapping).  The part
    scanners group, prune and merge parts by these ranges."""
    spans = []
    for st in b[1:]:
        op = st['last']
        if op.get('op') == 'write':
            ts = [r['t'] for r in op['rows']]
            spans.append((min(ts), max(ts)))
    if len(spans) < 2:
        return None
    spans.sort()
    rel = []
    for i in range(len(spans)):
        for j in range(i + 1, len(spans)):
            a, bb = spans[i], spans[j]
            rel.append('D' if a[1] < bb[0] else 'T' if a[1] == bb[0] and bb[1] > a[1] else 'N' if bb[1] <= a[1] else 'O')
    return ''.join(rel)


def c09(c):
    """ordered by time ASC/DESC x offset x limit (and, in the harness, the same windows ordered by the inverted index
    rules on a and b); elements sharing a timestamp / sort key may come in any order"""
    return [
        _fam(name='stream-order-window', series=S, times=T, maxrows=1, maxtotal=3, maxops=3,
             sims=30 if c.quick else 500, simops=12, queries=c09_queries(), index='inverted', sim=dict(maxrows=3, maxtotal=9)),
        _fam(name='stream-order-window-noindex', series=S, times=T, maxrows=1, maxtotal=3, maxops=3,
             sims=25 if c.quick else 300, simops=12, queries=c09_queries(), index='none', sim=dict(maxrows=3, maxtotal=9)),
        # two shards: ordered results are merged across the tables of the shards
        _fam(name='stream-order-window-2shards', series=S, times=T, maxrows=1, maxtotal=3, maxops=3,
             sims=15 if c.quick else 300, simops=12, queries=c09_queries(), index='inverted', shards=2, sim=dict(maxrows=3, maxtotal=9)),
        # index rule IDs are CRC-32 values of group and rule name, their bytes name the fields inside the inverted index:
        # groups whose rule ID begins with the byte '-' / '+' (one group in 128 has such a rule)
        _fam(name='stream-order-window-rule-id-sign', series=S, times=T, maxrows=1, maxtotal=3, maxops=3,
             sims=8 if c.quick else 60, simops=10, queries=c09_queries(), index='inverted', rule_id_sign='a', sim=dict(maxrows=3, maxtotal=9)),
        # one element per batch, every batch flushed on its own: file parts whose time ranges are pairwise disjoint or
        # identical (the scanner walks time-disjoint groups of parts one after the other); every path of the graph
        _fam(name='stream-order-disjoint-parts', series=[1, 2], times=T, maxrows=1, maxtotal=3, maxops=7, graphops=7,
             sims=0, simops=8, script=['write', 'flush', 'write', 'flush', 'write', 'flush', 'queryall'],
             queries=c09_queries4() if c.quick else c09_queries(), index='none'),
        # three file parts of up to two elements over four timestamps: all shapes of nested / overlapping / disjoint /
        # touching time ranges (chosen among many -simulate behaviours by part_shapes)
        _fam(name='stream-order-part-shapes', series=[1, 2], times=[1, 2], maxrows=1, maxtotal=3, maxops=7,
             sims=3000 if c.quick else 12000, simops=7, script=['write', 'flush', 'write', 'flush', 'write', 'flush', 'queryall'],
             queries=c09_queries4(), index='none', select=part_shapes, per_class=1 if c.quick else 8,
             sim=dict(times=[1, 2, 3, 4], maxrows=2, maxtotal=6)),
    ]


def c09_queries4():
    qs = []
    for asc in (True, False):
        for off, lim in ((0, 0), (0, 2), (1, 3), (3, 2)):
            qs.append(query(1, 4, S, crit('one', leaf()), 'time', asc, off, lim))
        qs.append(query(2, 4, [1, 2], crit('one', leaf('ge', 'a', (1,))), 'time', asc, 0, 3))
    return qs



def c15(c):
    """families run once per pipeline (row / vectorized / vectorized with batch size 2) by C15"""
    crit_q = c08_queries()
    crit_q = crit_q[::3]        # a third of the criteria queries per configuration (C08 runs all of them on the default pipeline)
    return [
        _fam(name='stream-part-shapes', series=[1, 2], times=[1, 2], maxrows=1, maxtotal=3, maxops=7,
             sims=2000 if c.quick else 8000, simops=7, script=['write', 'flush', 'write', 'flush', 'write', 'flush', 'queryall'],
             queries=c09_queries4(), index='none', select=part_shapes, per_class=1 if c.quick else 4,
             sim=dict(times=[1, 2, 3, 4], maxrows=2, maxtotal=6)),
        _fam(name='stream-order-inverted', series=S, times=T, maxrows=1, maxtotal=3, maxops=3,
             sims=15 if c.quick else 200, simops=12, queries=c09_queries(), index='inverted', sim=dict(maxrows=3, maxtotal=9)),
        _fam(name='stream-order-rule-id-sign', series=S, times=T, maxrows=1, maxtotal=3, maxops=3,
             sims=6 if c.quick else 60, simops=10, queries=c09_queries(), index='inverted', rule_id_sign='b', sim=dict(maxrows=3, maxtotal=9)),
        _fam(name='stream-criteria-none', series=S, times=T, maxrows=1, maxtotal=3, maxops=3,
             sims=12 if c.quick else 150, simops=11, queries=crit_q, index='none', sim=dict(maxrows=3, maxtotal=8)),
        _fam(name='stream-criteria-skipping', series=S, times=T, maxrows=1, maxtotal=3, maxops=3,
             sims=12 if c.quick else 150, simops=11, queries=crit_q, index='skipping', sim=dict(maxrows=3, maxtotal=8)),
    ]
