#!/usr/bin/env python3
"""C05 - queries see one consistent snapshot while maintenance runs (measure engine).

design: TSTable.tla (atomic-level reference counting, exhaustive) + Visibility.tla (what clients may observe);
binding: traces of REAL concurrent executions (gRPC writers and queries, real introducer/flusher/merger loops with a
40 ms flush timeout, file snapshots, table close) validated by TLC against TSTableTrace.tla and VisibilityTrace.tla."""
import json, os, random, sys
sys.path.insert(0, '/verif/tools')
from vf import core, tlc

c = core.Check('C05', 'model_checking')
c.setup()
binp = c.gobuild('eng')

LIFE_CFG = 'SPECIFICATION TraceSpec\nINVARIANTS\n  NoLiveSnapshotHoldsReleasedPart\n  CurrentIsLive\n  RemovedWereReleased\nPOSTCONDITION TraceAccepted\n'
VIS_CFG = 'SPECIFICATION TraceSpec\nCONSTANTS\n  Batches = {1}\n  MaxRows = 3\n  Queries = {1}\nINVARIANTS\n  AckedAreVisible\n  VisibleWereBegun\nPOSTCONDITION TraceAccepted\n'


def validate(module, cfg, lines, tag):
    r = tlc.run(module, 't.cfg', tag=tag, files={'t.cfg': cfg, 'trace.ndjson': '\n'.join(lines) + '\n'}, workers=1, timeout=1200)
    if r.ok:
        return True, None, r
    if r.timed_out or (r.error and 'TraceAccepted' not in r.output and not r.violated and 'Deadlock' not in (r.error or '')):
        c.inconclusive('trace validation did not run (%s): %s\n%s' % (module, r.error, r.output[-1500:]))
    k = max(r.depth - 1, 0)          # events consumed
    return False, k, r


def localise(lines, k):
    return {'accepted_prefix': k, 'rejected_event': lines[k] if k < len(lines) else None, 'context': lines[max(0, k - 12): k + 1]}


if c.replay:
    obj = json.load(open(c.replay))
    ok, k, r = validate(obj['module'], LIFE_CFG if obj['module'].startswith('TSTable') else VIS_CFG, obj['trace'], 'c05r')
    if not ok:
        c.report(obj['signature'], 'recorded trace rejected again at event %d' % (k + 1), {'module': obj['module'], 'trace': obj['trace']})
    c.cov.update(states=1, transitions=1, traces_validated_against_impl=1, samples=[obj['trace'][-1]])
    c.finish()

# ---- 1. design level ----
d = tlc.run('TSTable.tla', 'd.cfg', tag='c05d', timeout=1500, workers=12, files={'d.cfg': '''SPECIFICATION Spec
CONSTANTS
  MaxWrites = %d
  MaxMerges = 1
  MaxFlushes = %d
  Queries = {q1, q2}
INVARIANTS
  RefsNonNegative
  PinnedPartsExist
  ReadersSafe
  RemovedAtMostOnce
  RemovedOnlyWhenUnreferenced
  NotBothOutputAndInput
''' % ((2, 1) if c.quick else (3, 2))})
if not d.ok:
    c.inconclusive('TLC on TSTable.tla: violated=%s error=%s\n%s' % (d.violated, d.error, d.output[-1500:]))
v = tlc.run('Visibility.tla', 'v.cfg', tag='c05v', timeout=900, files={'v.cfg': 'SPECIFICATION VSpec\nCONSTANTS\n  Batches = {1, 2}\n  MaxRows = 2\n  Queries = {1, 2}\nINVARIANTS\n  AckedAreVisible\n  VisibleWereBegun\n'})
if not v.ok:
    c.inconclusive('TLC on Visibility.tla: %s %s' % (v.violated, v.error))
c.log('design: TSTable.tla %d states, Visibility.tla %d states' % (d.distinct, v.distinct))

# ---- 1b. trace engine: the publication fence of ordered (secondary-index driven) queries ----
# design: TracePublication.tla, every interleaving of one two-phase query with one publication that retires the part the
# index points at; spec self-test: with the fence released after the index selection TLC must find the torn view.
# binding: every behaviour of the state graph is classified by where the publication request falls relative to the
# query's steps and replayed on a REAL trace tsTable (real sidx, real introduceSync / commitSnapshotTransaction, real
# buildConsistentVectorizedScanBatch); the gate between the two phases is the table lock of a second, empty table.
TP = 'SPECIFICATION Spec\nCONSTANT FenceCoversPin = %s\nINVARIANTS\n  SelectedImpliesVisible\n  OnePublication\n  FenceExclusive\n  TornNeverObservable\nCHECK_DEADLOCK FALSE\n'
tp = tlc.run('TracePublication.tla', 'tp.cfg', tag='c05p', files={'tp.cfg': TP % 'TRUE'}, dump=True, timeout=600, workers=2)
if not tp.ok:
    c.inconclusive('TLC on TracePublication.tla: violated=%s error=%s\n%s' % (tp.violated, tp.error, tp.output[-1500:]))
tpn, tpe, tpi = tlc.graph(tp)
_succ = {}
for (_u, _v, _lab) in tpe:
    if _u != _v and _v not in _succ.setdefault(_u, []):
        _succ[_u].append(_v)
tpb = []                              # ALL maximal paths of the (acyclic, tiny) state graph


def _walk(path):
    nxt = _succ.get(path[-1], [])
    if not nxt:
        tpb.append([tpn[x] for x in path])
        return
    for y in nxt:
        _walk(path + [y])


for _i in tpi:
    _walk([_i])
tlc.cleanup(tp)
tpx = tlc.run('TracePublication.tla', 'tx.cfg', tag='c05x', files={'tx.cfg': TP % 'FALSE'}, timeout=600, workers=2)
if tpx.violated != 'SelectedImpliesVisible':
    c.inconclusive('spec self-test: TracePublication.tla with the fence released early did not violate SelectedImpliesVisible (%s %s)' % (tpx.violated, tpx.error))
fence_binp = c.gobuild('c05fence')
probes, shapes = [], {}
for b in tpb:
    fin = b[-1]
    if fin['qpc'] != 'done' or fin['pub'] != 'done':
        continue                      # replay only complete behaviours (prefixes are covered by them)
    ops = [st['last'] for st in b[1:]]
    req = [o for o in ops if o['op'] == 'PubRequest'][0]['at']
    lock = [o for o in ops if o['op'] == 'PubLock'][0]['at']
    unlock = [o for o in ops if o['op'] == 'PubUnlock'][0]['at']
    if req == 'start' and unlock == 'start':
        pos = 'before'
    elif req == 'selected':
        pos = 'mid'                   # requested between the phases; the fence makes it wait until QRelease
    elif req == 'done':
        pos = 'after'
    else:
        shapes['not_realisable:%s/%s/%s' % (req, lock, unlock)] = shapes.get('not_realisable:%s/%s/%s' % (req, lock, unlock), 0) + 1
        continue                      # request inside a phase / publication overlapping QAcquire: no gate in the code to place it
    shapes[pos] = shapes.get(pos, 0) + 1
    for ntr in ((1, 2) if c.quick else (1, 2, 5)):
        probes.append({'id': len(probes), 'pos': pos, 'selected': fin['qs'] == 0, 'visible': fin['qc'] == 0, 'traces': ntr,
                       'park': 150 if c.quick else 300})
if not {'before', 'mid', 'after'} <= set(shapes):
    c.inconclusive('TracePublication.tla behaviours do not cover the three realisable schedules: %s' % shapes)
fres = c.run_harness(fence_binp, ['-cfg', json.dumps(probes)], timeout=900)
if fres['inconclusive']:
    c.inconclusive('; '.join(fres['inconclusive'][:3]))
for vv in fres['violations']:
    one = [p for p in probes if p['id'] == vv['behaviour']]
    again = c.run_harness(fence_binp, ['-cfg', json.dumps(one)], timeout=300)
    if not [x for x in again['violations'] if x['signature'] == vv['signature']]:
        c.unreproduced('violation %s not reproduced on a second run' % vv['signature'])
        continue
    c.report(vv['signature'], vv['detail'], {'probe': one, 'harness': 'c05fence'})
    break
# binding self-test: a probe whose expectation is corrupted (spec view flipped) must be flagged by the harness
bad = [dict(p, id=0, selected=not p['selected'], visible=not p['visible']) for p in probes if p['pos'] == 'after'][:1]
fst = c.run_harness(fence_binp, ['-cfg', json.dumps(bad)], timeout=300)
fence_selftest = bool(fst['inconclusive']) and 'spec expects' in fst['inconclusive'][0]
if not fence_selftest:
    c.inconclusive('binding self-test failed: a corrupted expected view was accepted by c05fence')
c.log('trace publication fence: %d states, %d behaviours -> %d probes %s on the real trace table: %s' % (len(tpn), len(tpb), len(probes), shapes, fres['stats']))
fence_cov = dict(spec_states=len(tpn), behaviours=len(tpb), probes=len(probes), shapes=shapes, harness_stats=fres['stats'],
                 spec_selftest_early_release_violates=True, binding_selftest_rejected=fence_selftest, samples=fres['samples'][:2])

# ---- 2. real concurrent executions -> traces -> TLC ----
runs = 3 if c.quick else 12        # two thirds on the measure engine, one third on the stream engine (same structure, own hooks)
millis = 2500 if c.quick else 10000
rnd = random.Random(c.seed)
traces, events, stats_all, samples = 0, 0, {}, []
selftest = {}
for i in range(runs):
    life = os.path.join(core.BUILD, 'out', 'c05-life-%d-%d.ndjson' % (os.getpid(), i))
    vis = os.path.join(core.BUILD, 'out', 'c05-vis-%d-%d.ndjson' % (os.getpid(), i))
    cfg = dict(lifecycle=life, visibility=vis, millis=millis, writers=rnd.choice([1, 2, 3]), readers=rnd.choice([2, 3, 4]),
               batchRows=rnd.choice([1, 3]), snapshots=True, engine='stream' if i % 3 == 2 else 'measure', rowPath=((i // 3 + c.seed) % 2 == 1))
    res = c.run_harness(binp, ['-mode', 'stress', '-cfg', json.dumps(cfg)], timeout=600)
    if res['inconclusive']:
        c.inconclusive('; '.join(res['inconclusive'][:3]))
    for vv in res['violations']:
        c.report(vv['signature'], vv['detail'], {'cfg': cfg, 'harness': 'eng/stress'})
    cap = 4000 if c.quick else 15000   # a prefix of a trace is a trace: bound the validation time
    ll = open(life).read().splitlines()[:cap]
    vl = open(vis).read().splitlines()[:min(cap, 6000)]   # (validation of the visibility log grows faster than linearly)
    os.remove(life); os.remove(vis)
    for k2, v2 in res['stats'].items():
        stats_all[k2] = stats_all.get(k2, 0) + v2
    if len(ll) < 20 or len(vl) < 20:
        c.inconclusive('stress run %d produced too few events (%d lifecycle, %d visibility)' % (i, len(ll), len(vl)))
    for module, tcfg, lines, sig in (('TSTableTrace.tla', LIFE_CFG, ll, 'lifecycle-trace-rejected'), ('VisibilityTrace.tla', VIS_CFG, vl, 'visibility-trace-rejected')):
        ok, k, r = validate(module, tcfg, lines, 'c05t')
        events += len(lines)
        if ok:
            traces += 1
        else:
            loc = localise(lines, k)
            ev = json.loads(loc['rejected_event']) if loc['rejected_event'] else {}
            c.report('%s:%s' % (sig, ev.get('event', 'end')), 'the real execution is not a behaviour of %s: event %d of %d rejected: %s (violated=%s)' % (
                module, k + 1, len(lines), loc['rejected_event'], r.violated), {'module': module, 'trace': lines[: k + 1], 'harness': 'eng/stress'})
    if i == 0:
        samples = [json.loads(x) for x in ll[:3]] + [json.loads(x) for x in vl[:3]]
        # binding self-tests on the first run: corrupt one recorded field / drop one event -> must be rejected
        # the death of a snapshot that held a part which is released later in the trace (dropping the death of an empty
        # snapshot changes nothing the specification could object to)
        evs = [json.loads(x) for x in ll]
        held = {e['snap']: set(e['parts']) for e in evs if e.get('event') == 'Replace'}
        dead = []
        for j, e in enumerate(evs):
            if e.get('event') == 'SnapDec' and e.get('n') == 0 and held.get(e['snap']):
                if any(x.get('event') == 'PartZero' and x['part'] in held[e['snap']] for x in evs[j + 1:]):
                    dead.append(j)
                    break
        if dead:
            mut = ll[:dead[0]] + ll[dead[0] + 1:]
            selftest['lifecycle_drop_snapshot_death'] = not validate('TSTableTrace.tla', LIFE_CFG, mut, 'c05s')[0]
        qe = [j for j, x in enumerate(vl) if '"QueryEnd"' in x and '"seen":[[' in x]
        if qe:
            e = json.loads(vl[qe[-1]]); e['seen'][0][1] -= 1
            mut = vl[:qe[-1]] + [json.dumps(e)] + vl[qe[-1] + 1:]
            selftest['visibility_partial_batch'] = not validate('VisibilityTrace.tla', VIS_CFG, mut, 'c05s')[0]
        if not selftest or not all(selftest.values()):
            c.inconclusive('binding self-test failed: a corrupted trace was accepted (%s)' % selftest)
    c.log('run %d (%s%s): %d lifecycle + %d visibility events, %s' % (i, cfg['engine'], ' row path' if cfg['engine'] == 'stream' and cfg['rowPath'] else '', len(ll), len(vl), {k2: res['stats'][k2] for k2 in ('batches', 'file_snapshots') if k2 in res['stats']}))

c.cov.update(states=d.distinct + v.distinct, transitions=d.generated + v.generated, traces_validated_against_impl=traces, trace_events=events,
             evaluations=runs, distinct_nontrivial=traces, stress_stats=stats_all, binding_selftest_rejected=selftest,
             rule='each run = one real stand-alone server under concurrent gRPC writers/readers, real maintenance loops (40 ms flush timeout), file snapshots and table close; it yields a lifecycle trace (hooks at the snapshot/part reference-count linearization points) and a client-side visibility trace; a trace counts when TLC accepts all of its events with every invariant evaluated at every step; non-trivial = accepted trace with >= 20 events',
             samples=samples)
c.cov.update(trace_publication_fence=fence_cov)
c.assumptions += ['life-cycle/visibility traces: measure and stream engines (own hooks); the trace engine is covered for the publication fence of ordered queries only (TracePublication.tla, three realisable schedule positions: the gate between the two query phases is a table lock, positions inside a phase have no gate)',
                  'schedules are whatever the Go scheduler produces under load (seeded client mix), not enumerated; the design-level interleavings are exhaustive in TSTable.tla',
                  'events are ordered by a sequence number taken under one mutex at the linearization point; decrement events may be logged out of order, the logged counter value is authoritative']
c.finish()
