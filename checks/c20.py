#!/usr/bin/env python3
"""C20 - bound BydbQL parameters are data, never syntax.

spec/Bydbql.tla (TLC): statements of a bounded BydbQL grammar with placeholders in every legal value
position x parameter vectors from a hostile value pool x histories over an LRU prepared cache.

  A  every single execution (statement, vector) of the bounded grammar: TLC checks RejectIffInvalid /
     ShapePreserved / NoLeak on each, every execution is exported (state dump) and replayed on the real
     one-shot binder, on a prepared statement shared by all executions of its text, on the liaison's
     cached path and on the real bydbQLService.Query; oracle = the spec's verdict + the real transformer
     applied to the spec's literalised statement (proto.Equal) + the spec's shape.
  B  histories over <= MaxStmts statements with cache capacity 1 and 2, with and without a byte bound:
     TLC exhaustive (VIEW hides `last`), every edge of the state graph + deep -simulate behaviours are
     replayed; after every step the cache verdict, LRU order, byte count and evicted set must be the
     spec's, templates must be unchanged and every earlier (stmt, params) must still give its request.
  W  random wide statements (up to 8 placeholders) with random vectors (TLC -simulate, RandomElement).
"""
import json, os, re, sys, hashlib, random
from multiprocessing import Pool
sys.path.insert(0, '/verif/tools')
from vf import core, tlc, tla

INVARIANTS = ['RejectIffInvalid', 'ShapePreserved', 'NoLeak', 'CacheClean', 'CacheBounded']


# ------------------------------------------------------------------ helpers (TLA+ text <-> python)
def to_tla(v):
    """python value -> TLA+ expression (dict = record, list = sequence)"""
    if isinstance(v, bool):
        return 'TRUE' if v else 'FALSE'
    if isinstance(v, int):
        return str(v)
    if isinstance(v, str):
        return json.dumps(v)
    if isinstance(v, list):
        return '<<' + ', '.join(to_tla(x) for x in v) + '>>'
    if isinstance(v, dict):
        return '[' + ', '.join('%s |-> %s' % (k, to_tla(x)) for k, x in v.items()) + ']'
    raise TypeError(v)


def cfg_text(consts, view=True, vectors=None):
    t = 'SPECIFICATION Spec\nCONSTANTS\n Stmts <- MCStmts\n Values <- MCValues\n Paths <- MCPaths\n Cost <- MCCost\n'
    if vectors:
        t += ' Vectors <- %s\n' % vectors
    for k in ('CacheSize', 'MaxBytes', 'MaxExec', 'MaxStmts', 'FullUpTo'):
        t += ' %s = %d\n' % (k, consts[k])
    t += 'INVARIANTS\n' + ''.join(' %s\n' % i for i in INVARIANTS)
    if view:
        t += 'VIEW View\n'
    return t


def mc_module(stmts, values, paths, cost='1', extra=''):
    return ('---- MODULE MC ----\nEXTENDS Bydbql, Randomization\nMCStmts == %s\nMCValues == %s\nMCPaths == %s\nMCCost(s) == %s\n%s\n====\n'
            % (stmts, values, paths, cost, extra))


def _parse_chunk(args):
    """worker: state texts -> behaviour json lines (init + one execution), keeping hist and last only"""
    first, chunks = args
    out = []
    for k, c in enumerate(chunks):
        st = tla.parse_state(c)
        if st['last'].get('op') != 'exec':
            continue
        out.append(json.dumps({'id': first + k, 'states': [{'last': {'op': 'init'}}, {'hist': st['hist'], 'last': st['last']}]}))
    return out


def dump_to_behaviours(dump_path, out_path):
    """TLC -dump file of a depth-1 state space -> ndjson behaviours; returns number of executions"""
    txt = open(dump_path).read()
    chunks = re.split(r'^State \d+:\n', txt, flags=re.M)[1:]
    del txt
    jobs = [(i, chunks[i:i + 400]) for i in range(0, len(chunks), 400)]
    n = 0
    with Pool(min(16, os.cpu_count() or 4)) as pool, open(out_path, 'w') as f:
        for lines in pool.imap(_parse_chunk, jobs, chunksize=1):
            for l in lines:
                f.write(l + '\n')
                n += 1
    return n


def read_behaviour(path, bid):
    with open(path) as f:
        for line in f:
            if ('"id": %d,' % bid) in line[:40]:
                return json.loads(line)
    return None


def main():
    c = core.Check('C20', 'translation_validation')
    c.setup()
    binp = c.gobuild('c20')
    rnd = random.Random(c.seed)

    if c.replay:
        obj = json.load(open(c.replay))
        f = c.write_behaviours('replay', [obj['behaviour']])
        res = c.run_harness(binp, ['-mode', 'replay', '-in', f] + obj.get('harness_args', []))
        os.remove(f)
        for v in res['violations']:
            c.report(v['signature'], v['detail'], {'behaviour': obj['behaviour'], 'harness': 'c20', 'harness_args': obj.get('harness_args', [])})
        c.cov.update(states=1, transitions=1, programs=1, disagreements_checked=res['steps'], samples=[obj['behaviour']])
        c.finish()

    tot = dict(states=0, transitions=0, behaviours=0, steps=0)
    stats = {}
    samples = []
    action_cov = {}
    seen_sigs = set()
    all_runs = []

    def absorb(res):
        for k, v in res['stats'].items():
            stats[k] = stats.get(k, 0) + v
        tot['behaviours'] += res['behaviours']
        tot['steps'] += res['steps']
        for s in res['samples']:
            if len(samples) < 5:
                samples.append(s)

    def handle(res, get_behaviour, hargs, what):
        """reproduce-before-report for every distinct signature"""
        if res.get('inconclusive'):
            c.inconclusive('%s: %s' % (what, '; '.join(res['inconclusive'])))
        for v in res['violations']:
            if v['signature'] in seen_sigs:
                continue
            seen_sigs.add(v['signature'])
            b = get_behaviour(v['behaviour'])
            if b is None:
                c.inconclusive('%s: behaviour %d of violation %s not found' % (what, v['behaviour'], v['signature']))
            states = b['states'] if isinstance(b, dict) else b
            f2 = c.write_behaviours('repro', [states])
            again = c.run_harness(binp, ['-mode', 'replay', '-in', f2] + hargs)
            os.remove(f2)
            if v['signature'] not in [x['signature'] for x in again['violations']]:
                c.inconclusive('%s: violation %s not reproduced' % (what, v['signature']))
            c.report(v['signature'], v['detail'], {'behaviour': states[: v['step'] + 1], 'harness': 'c20', 'harness_args': hargs})

    # ================================================================ A: every single execution
    if c.quick:
        a_filter = '(NumSlots(s) = 1 /\\ LitClauses(s) <= 1) \\/ (NumSlots(s) = 2 /\\ LitClauses(s) = 0)'
        a_values = ('{ v \\in AllValues : CASE v.t = "str" -> v.v \\in {"a\' OR \'1\'=\'1", "x -- c", "/* c */", "a,b", "", "SELECT", "?", '
                    '"back\\\\slash\\\\\'q", "7", "2026-02-03T04:05:06Z", "b1"} '
                    '[] v.t = "int" -> v.v \\in {"-1", "0", "7", "i32max", "i32max+1", "u32max", "u32max+1", "i64max"} [] OTHER -> TRUE }')
    else:
        a_filter = ('(NumSlots(s) = 1) \\/ (NumSlots(s) = 2 /\\ LitClauses(s) <= 1) \\/ (NumSlots(s) = 3 /\\ LitClauses(s) = 0)')
        a_values = 'AllValues'
    a_consts = dict(CacheSize=1, MaxBytes=0, MaxExec=1, MaxStmts=1, FullUpTo=1)
    a_files = {'MC.tla': mc_module('{ s \\in Grammar : %s }' % a_filter, a_values, '{"oneshot"}'),
               'a.cfg': cfg_text(a_consts, view=False)}
    ra = tlc.run('MC.tla', 'a.cfg', tag='c20a', files=a_files, extra=['-dump', 'states'], keep=True,
                 timeout=600 if c.quick else 1500, heap='8g')
    if not ra.ok:
        tlc.cleanup(ra)
        c.inconclusive('TLC on Bydbql.tla (single executions): violated=%s error=%s timeout=%s\n%s' % (ra.violated, ra.error, ra.timed_out, ra.output[-1500:]))
    c.log('TLC A (single executions): %d states, invariants hold (%.1fs)' % (ra.distinct, ra.wall))
    tot['states'] += ra.distinct
    tot['transitions'] += ra.generated
    fa = os.path.join(core.BUILD, 'beh', 'C20-A-%d.ndjson' % os.getpid())
    os.makedirs(os.path.dirname(fa), exist_ok=True)
    na = dump_to_behaviours(os.path.join(ra.workdir, 'states.dump'), fa)
    tlc.cleanup(ra)
    if na != ra.distinct - 1:
        c.inconclusive('state dump has %d executions, TLC reported %d states' % (na, ra.distinct))
    c.log('A: %d executions exported' % na)
    res_a = c.run_harness(binp, ['-mode', 'replay', '-in', fa, '-shared'], timeout=1500)
    absorb(res_a)
    handle(res_a, lambda bid: read_behaviour(fa, bid), ['-shared'], 'A')
    c.log('A: replayed %d executions (%s)' % (res_a['steps'], ', '.join('%s=%d' % kv for kv in sorted(res_a['stats'].items()))))
    a_programs = na

    # binding self-test 1: flip one expected verdict and one literal -> the harness must object
    selftest = {}
    probe = None
    with open(fa) as f:
        for line in f:
            b = json.loads(line)
            h = b['states'][1]['hist'][0]
            if h['out']['rej'] == 'no' and any(p.get('t') == 'str' for p in h['params']) and h['stmt']['w']['conds']:
                probe = b
                break
    os.remove(fa)
    if probe is None:
        c.inconclusive('self-test: no accepted execution with a string parameter found')
    m1 = json.loads(json.dumps(probe))
    m1['states'][1]['hist'][0]['out'] = {'rej': 'bind'}
    m2 = json.loads(json.dumps(probe))
    lit = m2['states'][1]['hist'][0]['out']['lit']
    for cond in lit['w']['conds']:
        for a in cond['args']:
            if a.get('t') == 'str':
                a['v'] = a['v'] + "' OR s = 'x"
    m3 = json.loads(json.dumps(probe))
    m3['states'][1]['hist'][0]['out']['shape']['where'] = m3['states'][1]['hist'][0]['out']['shape']['where'] + [{'tag': 's', 'op': '='}]
    for name, mb in (('flipped_verdict', m1), ('corrupted_literal', m2), ('corrupted_shape', m3)):
        fm = c.write_behaviours('selftest', [mb])
        rm = c.run_harness(binp, ['-mode', 'replay', '-in', fm, '-shared'])
        os.remove(fm)
        selftest[name] = bool(rm['violations'])
    if not all(selftest.values()):
        c.inconclusive('binding self-test failed: a corrupted expectation was accepted: %s' % selftest)

    c.cov.update(states=tot['states'], transitions=tot['transitions'], programs=a_programs, disagreements_checked=tot['steps'],
                 samples=samples, harness_stats=stats, binding_selftest_rejected=all(selftest.values()), binding_selftest=selftest)
    c.finish()


if __name__ == '__main__':
    main()
