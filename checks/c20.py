#!/usr/bin/env python3
"""C20 - bound BydbQL parameters are data, never syntax.

spec/Bydbql.tla (TLC): statements of a bounded BydbQL grammar with placeholders in every legal value
position (also the `id` position of a PROPERTY select: `id = ?`, `id IN (?, ..)`, whose values become
QueryRequest.ids and must never be NULL) x parameter vectors from a hostile value pool x histories over an
LRU prepared cache.

  A  every single execution (statement, vector) of the bounded grammar: TLC checks RejectIffInvalid /
     ShapePreserved / NoLeak on each, every execution is exported (state dump) and replayed on the real
     one-shot binder, on a prepared statement shared by all executions of its text, on the liaison's
     cached path and on the real bydbQLService.Query; oracle = the spec's verdict + the real transformer
     applied to the spec's literalised statement (proto.Equal) + the spec's shape.
  B  histories over <= 3 statements with cache capacity 1 and 2 (and 0), with and without a byte bound:
     TLC exhaustive (VIEW hides `last`), every edge of the state graph + deep -simulate behaviours are
     replayed; after every step the cache verdict, LRU order, byte count and evicted set must be the
     spec's, templates must be unchanged and every earlier (stmt, params) must still give its request.
  W  random wide statements (up to 8 placeholders) with random vectors (TLC -simulate, RandomElement).
"""
import hashlib, json, os, re, sys, random
from multiprocessing import Pool
sys.path.insert(0, '/verif/tools')
from vf import core, tlc, tla

INVARIANTS = ['RejectIffInvalid', 'ShapePreserved', 'NoLeak', 'CacheClean', 'CacheBounded']

# ------------------------------------------------------------------ statements of the cache histories (B)
PH, NONE = {'t': 'ph'}, {'t': 'absent'}


def S(v):
    return {'t': 'str', 'v': v}


def I(v):
    return {'t': 'int', 'v': v}


def stmt(kind, top=NONE, time=('none', []), conds=(), join='AND', order='none', l=NONE, f=NONE):
    return {'kind': kind, 'top': top, 'time': {'op': time[0], 'args': list(time[1])},
            'w': {'conds': [{'tag': x[0], 'op': x[1], 'form': (x[3] if len(x) > 3 else 'many' if x[1] == 'IN' else 'one'), 'args': list(x[2])} for x in conds],
                  'join': join}, 'order': order, 'lo': {'l': l, 'f': f}}


TEMPLATES = [
    stmt('stream', conds=[('s', '=', [PH])], l=PH),
    stmt('measure', top=PH, time=('>', [PH]), conds=[('i', 'IN', [PH, I('3')])]),
    stmt('topn', top=PH, conds=[('s', '=', [PH])]),
    stmt('property', conds=[('s', 'IN', [PH])], l=I('7')),
    stmt('trace', time=('between', [PH, PH]), conds=[('s', '!=', [PH]), ('i', '>', [PH])], join='OR'),
    stmt('stream', conds=[('s', '=', [PH])]),                      # its text is a prefix of the first one
    stmt('measure', conds=[('s', 'IN', [PH, PH])], order='DESC', l=PH, f=PH),
    stmt('stream', time=('=', [PH]), conds=[('i', '=', [PH])], l=PH, f=I('3')),
    stmt('stream', conds=[('s', 'MATCH', [PH], 'one'), ('i', 'HAVING', [PH, I('3')], 'many')]),
    stmt('trace', conds=[('s', 'HAVING', [PH], 'one')], l=PH),
]
# statements with the property-ID position: every selection of part B holds one of them
ID_TEMPLATES = [
    stmt('property', conds=[('id', '=', [PH])]),
    stmt('property', conds=[('id', 'IN', [PH, PH]), ('s', '=', [PH])], l=PH),
    stmt('property', conds=[('i', '>', [PH]), ('id', 'IN', [S('lit'), PH, I('3')])], join='OR'),
]
LITERAL = stmt('stream', conds=[('s', '=', [S('lit')])])          # no placeholder: bypasses the cache


# ------------------------------------------------------------------ helpers (TLA+ text <-> python)
def to_tla(v):
    """python value -> TLA+ expression (dict = record, list = sequence)"""
    if isinstance(v, bool):
        return 'TRUE' if v else 'FALSE'
    if isinstance(v, int):
        return str(v)
    if isinstance(v, str):
        return json.dumps(v)
    if isinstance(v, list):
        return '<<' + ', '.join(to_tla(x) for x in v) + '>>'
    if isinstance(v, dict):
        return '[' + ', '.join('%s |-> %s' % (k, to_tla(x)) for k, x in v.items()) + ']'
    raise TypeError(v)


def cfg_text(consts, view=True, spec='Spec', overrides=(), invariants=True):
    t = 'SPECIFICATION %s\nCONSTANTS\n Stmts <- MCStmts\n Values <- MCValues\n Paths <- MCPaths\n Cost <- MCCost\n' % spec
    for a, b in overrides:
        t += ' %s <- %s\n' % (a, b)
    for k in ('CacheSize', 'MaxBytes', 'MaxExec', 'MaxStmts', 'FullUpTo'):
        t += ' %s = %d\n' % (k, consts[k])
    if invariants:
        t += 'INVARIANTS\n' + ''.join(' %s\n' % i for i in INVARIANTS)
    if view:
        t += 'VIEW View\n'
    return t


def mc_module(stmts, values, paths, cost='1', extra=''):
    return ('---- MODULE MC ----\nEXTENDS Bydbql, Randomization\nMCStmts == %s\nMCValues == %s\nMCPaths == %s\nMCCost(s) == %s\n%s\n====\n'
            % (stmts, values, paths, cost, extra))


# A: the enumeration of the grammar is split over many initial states (TLC expands one state per worker)
A_EXTRA = '''
InScope(s) == %(filter)s
MCParts == { [kind |-> k, order |-> o, join |-> j] : k \\in Kinds, o \\in {"none", "DESC"}, j \\in {"AND", "OR"} }
MCInitA == /\\ cache = <<>> /\\ evicted = <<>> /\\ hist = {} /\\ n = 0
           /\\ \\E pt \\in MCParts : last = [op |-> "init", part |-> pt]
MCNextA == /\\ n < MaxExec
           /\\ \\E s \\in RawGrammar :
                 /\\ s.kind = last.part.kind /\\ s.order = last.part.order /\\ s.w.join = last.part.join
                 /\\ WellFormed(s) /\\ InScope(s)
                 /\\ \\E path \\in Paths : \\E p \\in Vectors(s) : Execute(s, p, path)
MCSpecA == MCInitA /\\ [][MCNextA]_vars
'''

# B: few vectors per statement (valid baseline, one hostile value in each slot, no parameters)
B_EXTRA = '''
H == CHOOSE v \\in MCValues : TRUE
MCVectors(s) == LET b == BaseVector(s) IN
  {b} \\cup (IF Len(b) > 0 THEN {[b EXCEPT ![1] = H], [b EXCEPT ![Len(b)] = H]} ELSE {<<H>>})
ViewG == <<cache, evicted, n, last>>   \\* state graph for replay: the history set is not needed to choose the next step
ASSUME MCStmts \\subseteq Grammar
'''

# W: random statements of the whole grammar with random vectors (-simulate only)
W_EXTRA = '''
WAll == Wheres({"AND", "OR"})
RandStmt(x) == Norm([kind |-> RandomElement(Kinds), top |-> RandomElement(Tops), time |-> RandomElement(TimeForms),
                  w |-> RandomElement(WAll), order |-> RandomElement({"none", "DESC"}), lo |-> RandomElement(LimOffs)])
RandVector(s) == [i \\in 1..NumSlots(s) |-> IF RandomElement(1..4) = 1 THEN RandomElement(Values) ELSE Base(Slots(s)[i], i)]
MCNextW == /\\ n < MaxExec
           /\\ \\E s \\in {RandStmt(n)} \\cup (IF Used = {} THEN {} ELSE {RandomElement(Used)}) : \\E p \\in {RandVector(s)} : \\E path \\in Paths : Execute(s, p, path)
MCSpecW == Init /\\ [][MCNextW]_vars
'''


def _parse_range(args):
    """worker: the states of a depth-1 TLC state dump whose 'State n:' header starts in [start, end) -> behaviour json
    lines (init + one execution) appended to its own part file.  Only the `hist` conjunct is parsed: it has exactly one
    element, and `last` repeats its stmt and params (path oneshot)."""
    path, part, start, end, out_path = args
    n = 0
    with open(path, 'rb') as f, open(out_path, 'w') as out:
        if start > 0:
            f.seek(start - 1)
            f.readline()                      # the rest of the line that contains byte start-1 (it belongs to the previous range)
        cur, cur_in_range = [], False

        def flush():
            nonlocal n
            if not cur or not cur_in_range:
                return
            ch = b''.join(cur).decode()
            a = ch.find('/\\ hist = ')
            b = ch.find('\n/\\ ', a + 1)
            hist = tla.parse_value(ch[a + len('/\\ hist = '):b if b > 0 else len(ch)])
            if not hist:
                return                        # an initial state
            if len(hist) != 1 or '"oneshot"' not in ch:
                raise tla.ParseError('unexpected state in the depth-1 dump: %s' % ch[:200])
            h = hist[0]
            last = {'op': 'exec', 'stmt': h['stmt'], 'params': h['params'], 'path': 'oneshot', 'cres': '-', 'bytes': 0}
            out.write(json.dumps({'id': part * 10000000 + n, 'states': [{'last': {'op': 'init'}}, {'hist': hist, 'last': last}]}) + '\n')
            n += 1

        while True:
            pos = f.tell()
            line = f.readline()
            if not line:
                break
            if line.startswith(b'State ') and line.rstrip().endswith(b':'):
                flush()
                if pos >= end:
                    cur = []
                    break
                cur, cur_in_range = [], True
                continue
            if cur_in_range:
                cur.append(line)
        flush()
    return n


def dump_to_behaviours(dump_path, out_path):
    """TLC -dump file of a depth-1 state space -> ndjson behaviours (parsed in parallel by byte ranges); returns the
    number of executions"""
    size = os.path.getsize(dump_path)
    nparts = max(1, min(64, size // (4 << 20)))
    step = size // nparts + 1
    jobs = [(dump_path, i, i * step, min(size, (i + 1) * step), '%s.part%d' % (out_path, i)) for i in range(nparts)]
    with Pool(min(16, os.cpu_count() or 4)) as pool:
        counts = pool.map(_parse_range, jobs, chunksize=1)
    with open(out_path, 'wb') as out:
        for j in jobs:
            with open(j[4], 'rb') as f:
                __import__('shutil').copyfileobj(f, out, 16 << 20)
            os.remove(j[4])
    return sum(counts)


def read_behaviour(path, bid):
    with open(path) as f:
        for line in f:
            if line.startswith('{"id": %d,' % bid):
                return json.loads(line)
    return None


def nslots(s):
    leaves = [s['top']] + s['time']['args'] + [a for cd in s['w']['conds'] for a in cd['args']] + [s['lo']['l'], s['lo']['f']]
    return sum(1 for x in leaves if x.get('t') == 'ph')


def main():
    c = core.Check('C20', 'translation_validation')
    c.setup()
    binp = c.gobuild('c20')
    rnd = random.Random(c.seed)

    if c.replay:
        obj = json.load(open(c.replay))
        f = c.write_behaviours('replay', [obj['behaviour']])
        res = c.run_harness(binp, ['-mode', 'replay', '-in', f] + obj.get('harness_args', []))
        os.remove(f)
        for v in res['violations']:
            c.report(v['signature'], v['detail'], {'behaviour': obj['behaviour'], 'harness': 'c20', 'harness_args': obj.get('harness_args', [])})
        c.cov.update(states=1, transitions=1, programs=1, disagreements_checked=res['steps'], samples=[obj['behaviour']])
        c.finish()

    tot = dict(states=0, transitions=0, behaviours=0, steps=0)
    stats, samples, seen_sigs, runs = {}, [], set(), []
    id_samples = {}     # kind of parameter at the property-ID position -> first written-out execution

    def absorb(res):
        for k, v in res['stats'].items():
            stats[k] = stats.get(k, 0) + v
        tot['behaviours'] += res['behaviours']
        tot['steps'] += res['steps']
        for s in res['samples']:
            if isinstance(s, dict) and 'id_sample' in s:
                id_samples.setdefault(s['id_sample'], s)
            elif len(samples) < 5:
                samples.append(s)

    def handle(res, get_behaviour, hargs, what):
        """reproduce-before-report for every distinct signature"""
        if res.get('inconclusive'):
            c.inconclusive('%s: %s' % (what, '; '.join(res['inconclusive'])))
        for v in res['violations']:
            if v['signature'] in seen_sigs:
                continue
            seen_sigs.add(v['signature'])
            b = get_behaviour(v['behaviour'])
            if b is None:
                c.inconclusive('%s: behaviour %d of violation %s not found' % (what, v['behaviour'], v['signature']))
            states = b['states'] if isinstance(b, dict) else b
            f2 = c.write_behaviours('repro', [states])
            again = c.run_harness(binp, ['-mode', 'replay', '-in', f2] + hargs)
            os.remove(f2)
            if v['signature'] not in [x['signature'] for x in again['violations']]:
                c.inconclusive('%s: violation %s not reproduced' % (what, v['signature']))
            c.report(v['signature'], v['detail'], {'behaviour': states[: v['step'] + 1], 'harness': 'c20', 'harness_args': hargs})

    def need_ok(r, what):
        if not r.ok:
            tlc.cleanup(r)
            c.inconclusive('TLC on Bydbql.tla (%s): violated=%s error=%s timeout=%s\n%s' % (what, r.violated, r.error, r.timed_out, r.output[-2000:]))

    parts = os.environ.get('VERIF_C20_PARTS', 'ABW')   # development aid: a run that skips a part is never 'held'
    na = 0
    # ================================================================ A: every single execution
    if c.quick:
        a_filter = ('(NumSlots(s) = 1 /\\ LitClauses(s) = 0) \\/ (NumSlots(s) = 2 /\\ LitClauses(s) = 0 /\\ s.order = "none" /\\ (s.kind \\in {"stream", "measure", "topn"} \\/ HasId(s)))')
        a_values = ('{ v \\in AllValues : CASE v.t = "str" -> v.v \\in {"a\' OR \'1\'=\'1", "x -- c", "/* c */", "a,b", "", "SELECT", "?", '
                    '"back\\\\slash\\\\\'q", "7", "2026-02-03T04:05:06Z", "b1"} '
                    '[] v.t = "int" -> v.v \\in {"-1", "0", "7", "i32max", "i32max+1", "u32max", "u32max+1", "i64max"} [] OTHER -> TRUE }')
    else:
        a_filter = ('(NumSlots(s) = 1) \\/ (NumSlots(s) = 2 /\\ LitClauses(s) = 0 /\\ s.order = "none") \\/ '
                    '(NumSlots(s) = 3 /\\ LitClauses(s) = 0 /\\ s.order = "none" /\\ (s.kind = "stream" \\/ HasId(s)))')
        a_values = 'AllValues'
    selftest = {}
    if 'A' in parts:
        a_consts = dict(CacheSize=1, MaxBytes=0, MaxExec=1, MaxStmts=1, FullUpTo=1)
        a_files = {'MC.tla': mc_module('{}', a_values, '{"oneshot"}', extra=A_EXTRA % {'filter': a_filter}),
                   'a.cfg': cfg_text(a_consts, view=False, spec='MCSpecA')}
        ra = tlc.run('MC.tla', 'a.cfg', tag='c20a', files=a_files, extra=['-dump', 'states'], keep=True, workers=16,
                     timeout=600 if c.quick else 2400, heap='12g')
        need_ok(ra, 'A, single executions')
        c.log('TLC A (single executions): %d states, invariants hold (%.1fs)' % (ra.distinct, ra.wall))
        tot['states'] += ra.distinct
        tot['transitions'] += ra.generated
        fa = os.path.join(core.BUILD, 'beh', 'C20-A-%d.ndjson' % os.getpid())
        os.makedirs(os.path.dirname(fa), exist_ok=True)
        na = dump_to_behaviours(os.path.join(ra.workdir, 'states.dump'), fa)
        tlc.cleanup(ra)
        c.log('A: %d executions exported' % na)
        if na == 0 or na > ra.distinct:
            c.inconclusive('state dump has %d executions, TLC reported %d states' % (na, ra.distinct))
        res_a = c.run_harness(binp, ['-mode', 'replay', '-in', fa, '-shared', '-amplify'], timeout=2400)
        absorb(res_a)
        handle(res_a, lambda bid: read_behaviour(fa, bid), ['-shared', '-amplify'], 'A')
        c.log('A: replayed %d executions (%d of them with further hostile strings in place of the baseline string)' % (res_a['steps'], res_a['stats'].get('amplified_executions', 0)))
        runs.append(dict(part='A', filter=a_filter, states=ra.distinct, executions=na, tlc_s=round(ra.wall, 1)))

        # binding self-test: corrupt the expected verdict / one literal / the shape -> the harness must object
        probe = probe_id = None
        with open(fa) as f:
            for line in f:
                if '"rej": "no"' not in line or '"t": "str"' not in line:
                    continue
                b = json.loads(line)
                h = b['states'][1]['hist'][0]
                if h['out']['rej'] == 'no' and h['params'] and all(p.get('t') == 'str' for p in h['params']) and h['stmt']['w']['conds']:
                    cds = h['stmt']['w']['conds']
                    if probe is None and not any(cd['tag'] == 'id' for cd in cds):
                        probe = b
                    # `... WHERE id = ?` with one string parameter, accepted
                    if probe_id is None and len(cds) == 1 and cds[0]['tag'] == 'id' and cds[0]['op'] == '=' and len(h['params']) == 1 and h['params'][0]['v']:
                        probe_id = b
                    if probe is not None and probe_id is not None:
                        break
        if not os.environ.get('VERIF_C20_KEEP'):
            os.remove(fa)
        if probe is None:
            c.inconclusive('self-test: no accepted execution with a string parameter found')
        if probe_id is None:
            c.inconclusive('self-test: no accepted execution of `id = ?` with a string parameter found')
        m1 = json.loads(json.dumps(probe))
        m1['states'][1]['hist'][0]['out'] = {'rej': 'bind'}
        m2 = json.loads(json.dumps(probe))
        for cond in m2['states'][1]['hist'][0]['out']['lit']['w']['conds']:
            for a in cond['args']:
                if a.get('t') == 'str':
                    a['v'] = a['v'] + "' OR s = 'x"
        m3 = json.loads(json.dumps(probe))
        m3['states'][1]['hist'][0]['out']['shape']['where'] = m3['states'][1]['hist'][0]['out']['shape']['where'] + [{'tag': 's', 'op': '='}]
        # the same at the property-ID position: a wrong ID in the expected literal; the expectation a missing NULL guard
        # would satisfy (id = ? with NULL accepted as id = ''); one ID condition too many in the expected shape
        m4 = json.loads(json.dumps(probe_id))
        m4['states'][1]['hist'][0]['out']['lit']['w']['conds'][0]['args'][0]['v'] += 'x'
        m5 = json.loads(json.dumps(probe_id))
        for where in (m5['states'][1]['hist'][0], m5['states'][1]['last']):
            where['params'] = [{'t': 'null'}]
        m5['states'][1]['hist'][0]['out']['lit']['w']['conds'][0]['args'][0]['v'] = ''
        m6 = json.loads(json.dumps(probe_id))
        m6['states'][1]['hist'][0]['out']['shape']['ids'] = m6['states'][1]['hist'][0]['out']['shape']['ids'] + ['IN']
        want_sig = {'corrupted_id_literal': 'bound-differs-from-literal', 'null_id_expected_accepted': 'rejected-valid-params', 'corrupted_id_shape': 'literal-shape'}
        for name, mb in (('flipped_verdict', m1), ('corrupted_literal', m2), ('corrupted_shape', m3),
                         ('corrupted_id_literal', m4), ('null_id_expected_accepted', m5), ('corrupted_id_shape', m6)):
            fm = c.write_behaviours('selftest', [mb['states']])
            rm = c.run_harness(binp, ['-mode', 'replay', '-in', fm, '-shared'])
            os.remove(fm)
            selftest[name] = (any(v['signature'].startswith(want_sig[name]) for v in rm['violations']) if name in want_sig
                              else bool(rm['violations']))

    # ================================================================ B: histories over the prepared cache
    nsel = 1 if 'B' in parts else 0
    b_values = '{StrL("a\' OR \'1\'=\'1")}'
    nontriv = 0
    b_behaviours = 0
    action_cov = {}
    for sel in range(nsel):
        chosen = rnd.sample(TEMPLATES, 2) + [rnd.choice(ID_TEMPLATES)] + [LITERAL]
        fc = os.path.join(core.BUILD, 'beh', 'C20-cost-%d.json' % os.getpid())
        json.dump(chosen, open(fc, 'w'))
        rc = c.run_harness(binp, ['-mode', 'cost', '-in', fc])
        os.remove(fc)
        if rc.get('inconclusive') or len(rc['samples']) != len(chosen):
            c.inconclusive('cost probe failed: %s' % rc.get('inconclusive'))
        costs = [x['cost'] for x in rc['samples']]
        tc = sorted(costs[:3])
        # byte bounds: m1 lets the two cheapest templates share the cache but not the two dearest;
        # m2 makes the dearest template uncacheable
        m1b, m2b = tc[1] + tc[2] - 1, tc[2] - 1
        cost_fn = 'CASE ' + ' [] '.join('s = %s -> %d' % (to_tla(s), k) for s, k in zip(chosen, costs))
        stm = '{' + ', '.join(to_tla(s) for s in chosen) + '}'
        # (cache size, byte bound, full = also exhaustive-with-histories and -simulate)
        configs = ([(2, m1b, True), (1, 0, False)] if c.quick else
                   [(1, 0, True), (2, m1b, True), (2, 0, True), (2, m2b, True), (1, m2b, True), (0, 0, True)])
        if sel > 0:
            configs = configs[:3]
        for ci, (size, mb, full) in enumerate(configs):
            depth_e = 3 if (c.quick or ci >= 2 or sel > 0) else 4      # exhaustive with histories (hist in the state)
            depth_g = (4 if full else 3) if c.quick else (5 if ci < 2 else 4)   # state graph for replay (hist hidden)
            consts = dict(CacheSize=size, MaxBytes=mb, MaxExec=depth_g, MaxStmts=4, FullUpTo=0)
            files = {'MC.tla': mc_module(stm, b_values, '{"oneshot", "cached"}', cost=cost_fn, extra=B_EXTRA)}
            hargs = ['-cachesize', str(size), '-maxbytes', str(mb)]
            tag = 'B sel=%d size=%d maxbytes=%d' % (sel, size, mb)
            ov = [('Vectors', 'MCVectors')]
            # exhaustive with all invariants, `last` hidden, at most 3 statements per history; thorough tier also with action coverage
            e_states, e_wall = 0, 0.0
            if full:
                e_consts = dict(consts, MaxExec=depth_e, MaxStmts=3)
                re_ = tlc.run('MC.tla', 'e.cfg', tag='c20e', files=dict(files, **{'e.cfg': cfg_text(e_consts, view=True, overrides=ov)}),
                              coverage=not c.quick, workers=16, timeout=1200, heap='8g')
                need_ok(re_, tag + ' exhaustive')
                e_states, e_wall = re_.distinct, re_.wall
                tot['states'] += re_.distinct
                tot['transitions'] += re_.generated
                for k, v in (re_.coverage or {}).items():
                    action_cov[k] = action_cov.get(k, 0) + v
            # state graph with `last` visible and the history set hidden: every transition becomes an implementation step
            rg = tlc.run('MC.tla', 'g.cfg', tag='c20g', files=dict(files, **{'g.cfg': cfg_text(consts, view=False, overrides=ov, invariants=False) + 'VIEW ViewG\n'}),
                         dump=True, workers=16, timeout=1200, heap='8g')
            need_ok(rg, tag + ' graph')
            nodes, edges, inits = tlc.graph(rg)
            behs, uncovered = tlc.cover_edges(nodes, edges, inits, max_len=depth_g + 1)
            tlc.cleanup(rg)
            # deep random histories
            sb = []
            if full:
                s_consts = dict(consts, MaxExec=8, MaxStmts=3)
                rs = tlc.run('MC.tla', 's.cfg', tag='c20s', files=dict(files, **{'s.cfg': cfg_text(s_consts, view=False, overrides=ov, invariants=False)}),
                             simulate={'num': 30 if c.quick else 60}, depth=9, seed=c.seed + sel, timeout=900)
                if not rs.ok:
                    tlc.cleanup(rs)
                    c.inconclusive('TLC -simulate (%s) failed: %s\n%s' % (tag, rs.error or rs.violated, rs.output[-1500:]))
                sb = tlc.sim_behaviours(rs)
                tlc.cleanup(rs)
            allb = behs + sb
            fb = c.write_behaviours('B', allb)
            res_b = c.run_harness(binp, ['-mode', 'replay', '-in', fb] + hargs, timeout=1500)
            os.remove(fb)
            absorb(res_b)
            handle(res_b, lambda bid: allb[bid], hargs, tag)
            b_behaviours += len(allb)
            nontriv += core.nontrivial_count(allb, lambda st: any(x['last'].get('cres') in ('reparse',) for x in st[1:])
                                             or (any(x['last'].get('cres') == 'hit' for x in st[1:]) and len(st[-1]['evicted']) > 0))
            c.log('%s: costs=%s exhaustive %d states (%.1fs); graph %d states %d edges -> %d behaviours (uncovered %d) + %d simulated; replayed %d steps'
                  % (tag, costs, e_states, e_wall, len(nodes), len(edges), len(behs), uncovered, len(sb), res_b['steps']))
            runs.append(dict(part='B', selection=sel, cache_size=size, max_bytes=mb, costs=costs, exhaustive_states=e_states, exhaustive_depth=depth_e if full else 0, graph_depth=depth_g,
                             graph_states=len(nodes), graph_edges=len(edges), graph_edges_uncovered=uncovered, edge_cover_behaviours=len(behs),
                             simulated=len(sb), steps=res_b['steps']))
            # self-test 2 (once): a wrong cache verdict in the expectation must be noticed
            if 'corrupted_cache_verdict' not in selftest:
                mut = None
                for bb in allb:
                    st = bb['states'] if isinstance(bb, dict) else bb
                    if any(x['last'].get('cres') == 'hit' for x in st[1:]):
                        mut = json.loads(json.dumps(st))
                        for x in mut[1:]:
                            if x['last'].get('cres') == 'hit':
                                x['last']['cres'] = 'miss'
                                break
                        break
                if mut is not None:
                    fm = c.write_behaviours('selftest', [mut])
                    rm = c.run_harness(binp, ['-mode', 'replay', '-in', fm] + hargs)
                    os.remove(fm)
                    selftest['corrupted_cache_verdict'] = any(v['signature'].startswith('cache-verdict') for v in rm['violations'])

    # ================================================================ W: random wide statements and vectors
    wb = []
    if 'W' in parts:
        w_consts = dict(CacheSize=2, MaxBytes=0, MaxExec=6, MaxStmts=6, FullUpTo=0)
        files = {'MC.tla': mc_module('{}', a_values, '{"oneshot", "cached"}', extra=W_EXTRA),
                 'w.cfg': cfg_text(w_consts, view=False, spec='MCSpecW')}
        rw = tlc.run('MC.tla', 'w.cfg', tag='c20w', files=files, simulate={'num': 120 if c.quick else 800}, depth=7, seed=c.seed, timeout=1200)
        if not rw.ok:
            tlc.cleanup(rw)
            c.inconclusive('TLC -simulate (wide) failed: %s\n%s' % (rw.error or rw.violated, rw.output[-1500:]))
        wb = tlc.sim_behaviours(rw)
        c.log('TLC W (-simulate): %d behaviours (%.1fs)' % (len(wb), rw.wall))
        w_digest = hashlib.sha1(json.dumps(wb, sort_keys=True).encode()).hexdigest()[:12]
        tlc.cleanup(rw)
        fw = c.write_behaviours('W', wb)
        hargs = ['-cachesize', '2', '-maxbytes', '0', '-nobytes']   # the byte cost of random statements is not given to the spec
        res_w = c.run_harness(binp, ['-mode', 'replay', '-in', fw] + hargs, timeout=1500)
        os.remove(fw)
        absorb(res_w)
        handle(res_w, lambda bid: wb[bid], hargs, 'W')
        wide = [nslots(x['last']['stmt']) for b in wb for x in b[1:]]
        c.log('W: %d random histories, %d executions, placeholders per statement max %d mean %.1f'
              % (len(wb), res_w['steps'], max(wide or [0]), sum(wide) / max(1, len(wide))))
        runs.append(dict(part='W', histories=len(wb), executions=res_w['steps'], max_placeholders=max(wide or [0]), digest=w_digest))

    verdicts = {}
    for k, v in stats.items():
        if k.startswith('cres_'):
            verdicts[k[5:]] = v
    need = ['executions_oneshot', 'executions_prepared', 'executions_cached', 'executions_service', 'rejections_agreed', 'requests_equal_to_literal',
            'rejected_by_literal_rules', 'cache_states_compared', 'reexecutions', 'reexecutions_on_cached_template', 'amplified_executions',
            'cres_hit', 'cres_miss', 'cres_reparse', 'cres_bypass'] + ([] if c.quick else ['cres_off'])
    # the property-ID position: on every path, at `id = ?` and at an element of `id IN (..)`, a NULL and a missing value
    # were refused, plain / quoted / empty strings and integers went through; arrays expanded in the list and were
    # refused at the scalar position
    for path in ('oneshot', 'prepared', 'cached', 'service'):
        for slot in ('idscalar', 'idlist'):
            need += ['idpos_%s_%s_%s' % (path, slot, k) for k in
                     ('null_rejected', 'nil_rejected', 'none_rejected', 'bin_rejected', 'str_accepted', 'strq_accepted', 'strempty_accepted', 'int_accepted')]
        need += ['idpos_%s_idlist_%s' % (path, k) for k in ('strs_accepted', 'ints_accepted')]
        need += ['idpos_%s_idscalar_%s' % (path, k) for k in ('strs_rejected', 'ints_rejected')]
    if parts != 'ABW':
        c.inconclusive('partial run (VERIF_C20_PARTS=%s): %s' % (parts, json.dumps(runs)))
    vac = [k for k in need if not stats.get(k)]
    if vac:
        c.inconclusive('vacuous run: never exercised: %s' % vac)
    if not all(selftest.values()) or len(selftest) < 7:
        c.inconclusive('binding self-test failed: a corrupted expectation was accepted (or could not be built): %s' % selftest)

    c.cov.update(
        states=tot['states'], transitions=tot['transitions'],
        programs=na + b_behaviours + len(wb), disagreements_checked=tot['steps'],
        executions_per_path={k: v for k, v in stats.items() if k.startswith('executions_')},
        behaviours_replayed=tot['behaviours'], steps_replayed=tot['steps'], evaluations=tot['steps'], distinct_nontrivial=nontriv,
        rule='programs = single executions of part A (one per TLC state) + cache histories of part B (edge cover of the state graph and -simulate) + '
             'random wide histories of part W; disagreements_checked = executions compared with the spec and with the literalised statement on every '
             'code path; non-trivial = a cache history containing a re-parse, or a hit after an eviction; distinct by full state sequence',
        exhaustive=all(r.get('graph_edges_uncovered', 0) == 0 for r in runs),
        harness_stats=stats, cache_verdicts_seen=verdicts,
        id_position={k[6:]: v for k, v in sorted(stats.items()) if k.startswith('idpos_')},
        id_position_samples=[id_samples[k] for k in sorted(id_samples)], runs=runs, action_coverage=action_cov, binding_selftest_rejected=all(selftest.values()), binding_selftest=selftest,
        samples=samples,
    )
    c.assumptions += [
        'the text of a statement is produced by harness/pkg/c20 render() for both the parameterised and the literalised record (single definition); '
        'it is the trusted definition of a properly quoted literal: single quotes, backslash-escaped \\ and \'',
        'integers and timestamps are tokens in the spec and concretised by the harness (i32max = 2147483647, u32max = 4294967295, ...)',
        'relative times / now are excluded (absolute RFC3339 only); the wall-clock end of an open TIME > range is masked on both sides',
        'the accounted byte cost of a statement is read from the code (len(text) + EstimatedSize) and given to the spec as Cost; the evicted-hash set is modelled without collisions',
        'schema: tags s (string), i (int), field f; one group; property ID conditions: id = v and id IN (..) alone, before a condition on s or after a condition on i '
        '(AND / OR); id with any other operator (always refused) is outside the bounded grammar',
        'the ID conditions of a result are read from the grammar tree the transformer worked on (operators, textual order) and the number of IDs from the native request; '
        'the connective between an ID condition and a tag condition is not visible in the native request (the transformer drops it) and therefore not compared',
        'part A: statements with %s; full value pool in every slot of 1-placeholder statements, one slot varied against a valid distinct baseline otherwise, plus missing/surplus vectors' % a_filter,
    ]
    c.finish()


if __name__ == '__main__':
    main()
