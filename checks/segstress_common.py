"""Concurrent segment stress (harness stor -mode segstress) + validation of its trace by SegHoldTrace.tla: shared by C14
(held segments are neither closed nor deleted) and C19 (the closed path of a file snapshot copies an undisturbed
directory and never fails while housekeeping runs)."""
import json, os, sys
sys.path.insert(0, '/verif/tools')
from vf import core, tlc

HCFG = 'SPECIFICATION TraceSpec\nCONSTANTS\n  Clients = {"q"}\n  Segs = {"s"}\nINVARIANTS\n  HeldIsOpen\n  CopyUndisturbed\nPOSTCONDITION TraceAccepted\n'


def stress(c, binp, i, millis, tag):
    tp = os.path.join(core.BUILD, 'out', '%s-seg-%d-%d.ndjson' % (tag, os.getpid(), i))
    rr = c.run_harness(binp, ['-mode', 'segstress', '-cfg', json.dumps(dict(trace=tp, millis=millis, segs=6))], timeout=600, env={'VERIF_SEED': str(c.seed * 100 + i)})
    lines = open(tp).read().splitlines() if os.path.exists(tp) else []
    if os.path.exists(tp):
        os.remove(tp)
    return rr, lines


def rejected_at(c, lines, tag):
    """None if the trace is a behaviour of SegHold.tla, else the index of the rejected event"""
    t = tlc.run('SegHoldTrace.tla', 't.cfg', tag=tag, files={'t.cfg': HCFG, 'trace.ndjson': '\n'.join(lines) + '\n'}, workers=1, timeout=900)
    if t.ok:
        return None
    if t.timed_out or (t.error and 'TraceAccepted' not in t.output and not t.violated):
        c.inconclusive('trace validation did not run: %s\n%s' % (t.error, t.output[-1200:]))
    return max(t.depth - 1, 0)


def copying_at(lines, k):
    """segments inside SnapClosedBegin..SnapClosedEnd just before event k"""
    cp = set()
    for x in lines[:k]:
        ev = json.loads(x)
        if ev.get('event') == 'SnapClosedBegin':
            cp.add(ev['seg'])
        elif ev.get('event') == 'SnapClosedEnd':
            cp.discard(ev['seg'])
    return cp
