#!/usr/bin/env python3
"""Stand-alone runner for the stream families of stream_fams.py:

    python3 checks/stream_try.py c08 --tier quick [--fam substring] [--sims N] [--procs N]

Builds the eng harness and runs the stream families of one property through engcommon.run_families with a
core.Check carrying that property id.  Evidence and replay files go to /verif/.build/stream_try (the registered
checks own /verif/evidence)."""
import os, sys, time
sys.path.insert(0, '/verif/tools'); sys.path.insert(0, '/verif/checks')
from vf import core

prop = sys.argv[1].lower() if len(sys.argv) > 1 else ''
argv = sys.argv[2:]


def take(flag, default=None):
    if flag in argv:
        i = argv.index(flag)
        v = argv[i + 1]
        del argv[i:i + 2]
        return v
    return default


only = take('--fam')
sims = take('--sims')
procs = int(take('--procs', '4'))
if prop not in ('c01', 'c03', 'c08', 'c09'):
    print('usage: stream_try.py c01|c03|c08|c09 [--tier quick|thorough] [--fam substring] [--sims N] [--procs N] [--replay file]')
    sys.exit(2)

core.EVID = os.path.join(core.BUILD, 'stream_try', 'evidence')
core.REPLAYS = os.path.join(core.EVID, 'replays')
import engcommon as ec
import stream_fams

c = core.Check(prop.upper(), 'model_checking', argv=argv)
c.setup()
binp = c.gobuild('eng')
if c.replay:
    ec.replay_one(c, binp)
fams = getattr(stream_fams, prop)(c)
if only:
    fams = [f for f in fams if only in f['name']]
if sims:
    for f in fams:
        f['sims'] = int(sims)


def ops(st):
    return [x['last'].get('op') for x in st[1:]]


NONTRIVIAL = {
    'c01': lambda st: sum(1 for o in ops(st) if o == 'write') >= 2,
    'c03': lambda st: 'merge' in ops(st),
    'c08': lambda st: 'queryall' in ops(st) and ('flush' in ops(st) or 'merge' in ops(st)),
    'c09': lambda st: 'queryall' in ops(st) and sum(1 for o in ops(st) if o == 'write') >= 2,
}
t0 = time.time()
tot, stats, samples, nontriv, cover = ec.run_families(c, fams, binp, NONTRIVIAL[prop], procs=procs)
c.log('stream families of %s: %d behaviours, %d steps, %d simulated, %d non-trivial in %.0fs' % (
    prop.upper(), tot['behaviours'], tot['steps'], tot['sims'], nontriv, time.time() - t0))
c.log('harness stats: ' + ', '.join('%s=%d' % kv for kv in sorted(stats.items())))
c.cov.update(states=tot['states'], transitions=tot['transitions'], traces_validated_against_impl=0,
             behaviours_replayed=tot['behaviours'], steps_replayed=tot['steps'], simulated_behaviours=tot['sims'],
             evaluations=tot['behaviours'], distinct_nontrivial=nontriv, harness_stats=stats,
             families=[f['name'] for f in fams],
             rule='stream families of %s (stream_fams.py) replayed over gRPC against an in-process stand-alone server' % prop.upper())
c.finish()
