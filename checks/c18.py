#!/usr/bin/env python3
"""C18 - properties are last-writer-wins and replicas converge.

spec/PropertyStore.tla (TLC: exhaustive within bounds, invariants + step properties + liveness) ->
every transition of the state graph (quotient by the history variable) and deep -simulate behaviours
are replayed on the real liaison propertyServer (Apply / Delete / Query / dedup / read repair) wired
to N real banyand/property/db databases (Update / Delete / Query / shard.repair / gossip offer);
replica contents, Query answers and the dedup functions are compared with the spec after EVERY step."""
import atexit, json, os, shutil, sys, time
from collections import deque
from concurrent.futures import ThreadPoolExecutor
sys.path.insert(0, '/verif/tools')
from vf import core, tlc

c = core.Check('C18', 'model_checking')
c.setup()
binp = c.gobuild('c18')

# harness scratch (os.MkdirTemp honours TMPDIR): a RAM disk when there is one - every step of every
# behaviour builds index segments in N databases
henv = {}
shm = '/dev/shm'
scratch = None
if os.path.isdir(shm) and os.access(shm, os.W_OK):
    scratch = os.path.join(shm, 'verif-c18-%d' % os.getpid())
    os.makedirs(scratch, exist_ok=True)
    henv['TMPDIR'] = scratch


def done():
    if scratch:
        shutil.rmtree(scratch, ignore_errors=True)


atexit.register(done)


def sset(xs):
    return '{' + ', '.join('"%s"' % x for x in xs) + '}'


def consts(reps, keys, tags, ops, rr=True, coded=False):
    return dict(reps=list('abc'[:reps]), keys=['k%d' % (i + 1) for i in range(keys)], tags=['t%d' % (i + 1) for i in range(tags)],
                ops=ops, rr=rr, coded=coded)


INVARIANTS = ['WellFormed', 'MapEquivalence', 'Converged']
PROPERTIES = ['MergeKeepsUnwrittenTags', 'ReplaceDiscards', 'CreateRevStable', 'ModRevStrictlyIncreasing', 'ReplicaMonotone', 'RepairMonotone']


def cfg(k, view=True, props=True, live=False):
    s = 'SPECIFICATION %s\nCONSTANTS\n' % ('LiveSpec' if live else 'Spec')
    s += '  Replicas = %s\n  Keys = %s\n  Tags = %s\n  MaxOps = %d\n' % (sset(k['reps']), sset(k['keys']), sset(k['tags']), k['ops'])
    s += '  ReadRepairOn = %s\n  CodedTies = %s\n  None = None\n' % ('TRUE' if k['rr'] else 'FALSE', 'TRUE' if k['coded'] else 'FALSE')
    s += 'INVARIANTS\n' + ''.join('  %s\n' % i for i in INVARIANTS)
    if props:
        s += 'PROPERTIES\n' + ''.join('  %s\n' % p for p in PROPERTIES)
        if live:
            s += '  Converges\n'
    if view:
        s += 'VIEW View\n'
    return s


def name(k):
    return '%dr-%dk-%dt-%dops' % (len(k['reps']), len(k['keys']), len(k['tags']), k['ops'])


# ---- behaviours from the state graph: edge cover of the quotient by the history variable ----
def view_key(st):
    return json.dumps({k: v for k, v in st.items() if k != 'last'}, sort_keys=True)


def quotient_cover(nodes, edges, inits, max_len=40):
    """The successors of a state do not depend on `last`, so the graph TLC dumps (states = view x last)
    is covered by covering every (view, action, view') once: a path in the quotient is a behaviour.
    Refused repairs are self loops of the quotient and are covered as well (they must be executed:
    the real code has to refuse them).  Returns (behaviours, number of quotient edges, uncovered)."""
    vid, views = {}, []
    nv = {}
    for n, st in nodes.items():
        k = view_key(st)
        if k not in vid:
            vid[k] = len(views)
            views.append({x: y for x, y in st.items() if x != 'last'})
        nv[n] = vid[k]
    out = {}     # view -> {label_json: (target view, last)}
    for (u, v, _lab) in edges:
        if v not in nodes or u not in nodes:
            continue
        last = nodes[v]['last']
        lk = json.dumps(last, sort_keys=True)
        out.setdefault(nv[u], {}).setdefault(lk, (nv[v], last))
    init = nv[inits[0]]
    # BFS tree from the initial view (over non-loop edges)
    parent = {init: None}
    order = [init]
    dq = deque([init])
    while dq:
        u = dq.popleft()
        for lk, (v, last) in sorted(out.get(u, {}).items()):
            if v not in parent:
                parent[v] = (u, lk)
                order.append(v)
                dq.append(v)
    uncovered = {(u, lk) for u in out for lk in out[u]}
    total = len(uncovered)

    def state(view, last):
        st = dict(views[view])
        st['last'] = last
        return st

    behaviours = []
    for u in order:
        while any((u, lk) in uncovered for lk in out.get(u, {})):
            # prefix: tree path to u
            path = []
            x = u
            while parent[x] is not None:
                pu, lk = parent[x]
                path.append((pu, lk))
                x = pu
            path.reverse()
            b = [state(init, {'op': 'init'})]
            for (pu, lk) in path:
                v, last = out[pu][lk]
                uncovered.discard((pu, lk))
                b.append(state(v, last))
            cur = u
            # extend greedily along uncovered edges (self loops first: they do not move)
            while len(b) < max_len:
                cand = [lk for lk in sorted(out.get(cur, {})) if (cur, lk) in uncovered]
                if not cand:
                    break
                loops = [lk for lk in cand if out[cur][lk][0] == cur]
                lk = loops[0] if loops else cand[0]
                v, last = out[cur][lk]
                uncovered.discard((cur, lk))
                b.append(state(v, last))
                cur = v
            behaviours.append(b)
    return behaviours, total, len(uncovered)


def run_replay(tag, behs, reps_names, timeout=3000):
    f = c.write_behaviours(tag, behs)
    res = c.run_harness(binp, ['-in', f, '-replicas', ','.join(reps_names), '-reps', '200', '-workers', '6'], timeout=timeout, env=henv)
    os.remove(f)
    return res


if c.replay:
    obj = json.load(open(c.replay))
    res = run_replay('replay', [obj['behaviour']], obj['replicas'])
    for v in res['violations']:
        c.report(v['signature'], v['detail'], {'behaviour': obj['behaviour'], 'replicas': obj['replicas'], 'harness': 'c18'})
    if res['inconclusive']:
        done()
        c.inconclusive('; '.join(res['inconclusive'][:3]))
    c.cov.update(states=1, transitions=len(obj['behaviour']) - 1, traces_validated_against_impl=0, samples=[[s['last'] for s in obj['behaviour'][1:]]])
    done()
    c.finish()

# ---- 1. design: TLC exhaustive (VIEW hides the history variable) ----
if c.quick:
    mc = [consts(2, 2, 2, 3), consts(1, 1, 3, 4)]
    live = consts(2, 1, 1, 2)
    # 2r-1k-1t-3ops (425 states, 200 behaviours): the shortest histories with write ; delete ; re-create seen by different replicas
    graphs = [consts(2, 1, 2, 2), consts(2, 2, 1, 2), consts(3, 1, 1, 2), consts(2, 1, 1, 3)]
    simk, simn, simd = consts(3, 2, 3, 5), 100, 10
else:
    # measured (16 cores, idle): 3r-1k-3t-3ops 347k states / 2.7M transitions is the big one (~3 min), the others < 1 min each
    mc = [consts(3, 1, 3, 3), consts(3, 1, 2, 3), consts(2, 2, 2, 3), consts(2, 1, 2, 4), consts(1, 2, 3, 4)]
    live = consts(3, 1, 1, 2)
    graphs = [consts(3, 1, 2, 2), consts(2, 1, 2, 3), consts(2, 2, 2, 2)]
    simk, simn, simd = consts(3, 2, 3, 6), 500, 14


def tlc_mc(k):
    return k, tlc.run('PropertyStore.tla', 'mc.cfg', tag='c18mc' + name(k), files={'mc.cfg': cfg(k)}, coverage=False, workers=6 if k is mc[0] else 3, timeout=3000, java_opts=['-XX:ParallelGCThreads=4'])


states = transitions = 0
mc_runs = []
with ThreadPoolExecutor(max_workers=3) as ex:
    for k, r in ex.map(tlc_mc, mc):
        if r.violated or r.error or r.timed_out or not r.ok:
            done()
            c.inconclusive('TLC on PropertyStore.tla (%s): violated=%s error=%s timeout=%s\n%s' % (name(k), r.violated, r.error, r.timed_out, r.output[-1500:]))
        states += r.distinct
        transitions += r.generated
        mc_runs.append(dict(config=name(k), distinct=r.distinct, generated=r.generated, depth=r.depth, wall_s=round(r.wall, 1)))
        c.log('TLC PropertyStore %s: %d distinct states, %d transitions, %d invariants + %d step properties hold (%.1fs)' % (
            name(k), r.distinct, r.generated, len(INVARIANTS), len(PROPERTIES), r.wall))

# per-action coverage (thorough): an action that never fires makes the run vacuous
cover = {}
if not c.quick:
    k = consts(2, 1, 2, 3)
    r = tlc.run('PropertyStore.tla', 'cov.cfg', tag='c18cov', files={'cov.cfg': cfg(k)}, coverage=True, workers=4, timeout=1200)
    cover = r.coverage
    for a in ('Apply', 'Delete', 'Repair', 'ReadRepair'):
        if not cover.get(a):
            done()
            c.inconclusive('vacuous: action %s never fired in the coverage run (%s)' % (a, cover))

# liveness: weak fairness of effective repairs => []<>Agreed (no VIEW: temporal checking wants the real graph)
lr = tlc.run('PropertyStore.tla', 'live.cfg', tag='c18live', files={'live.cfg': cfg(live, view=False, live=True)}, workers=4, timeout=1500)
if not lr.ok:
    done()
    c.inconclusive('TLC liveness run on PropertyStore.tla failed: violated=%s error=%s timeout=%s\n%s' % (lr.violated, lr.error, lr.timed_out, lr.output[-1500:]))
c.log('TLC liveness (%s, WF(EffectiveRepair) => []<>Agreed): holds, %d distinct states (%.1fs)' % (name(live), lr.distinct, lr.wall))

# the spec must reject the tie rule of the pinned tree (shows the invariants are not vacuous about ties)
mk = consts(2, 1, 1, 2, coded=True)
mr = tlc.run('PropertyStore.tla', 'coded.cfg', tag='c18coded', files={'coded.cfg': cfg(mk)}, workers=2, timeout=600)
spec_rejects_coded = bool(mr.violated)
if not spec_rejects_coded:
    done()
    c.inconclusive('spec self-test failed: CodedTies=TRUE (repair proceeds on a revision tie in both directions) is not rejected by the invariants')
c.log('spec self-test: with the coded repair tie rule TLC reports %s violated (as it must)' % mr.violated)

# ---- 2. behaviours ----
groups = []     # (replica names, behaviours, description)
gstats = []
for k in graphs:
    g = tlc.run('PropertyStore.tla', 'g.cfg', tag='c18g' + name(k), files={'g.cfg': cfg(k, view=False, props=False)}, dump=True, workers=4, timeout=1500)
    if not g.ok:
        tlc.cleanup(g)
        done()
        c.inconclusive('TLC graph dump failed (%s): %s' % (name(k), g.error or g.violated))
    nodes, edges, inits = tlc.graph(g)
    tlc.cleanup(g)
    behs, total, unc = quotient_cover(nodes, edges, inits)
    gstats.append(dict(config=name(k), graph_states=len(nodes), graph_edges=len(edges), quotient_edges=total, uncovered=unc, behaviours=len(behs)))
    c.log('state graph %s: %d states, %d edges -> %d distinct (state, action) pairs -> %d behaviours (uncovered: %d)' % (name(k), len(nodes), len(edges), total, len(behs), unc))
    groups.append((k['reps'], behs, 'graph ' + name(k)))

sim = tlc.run('PropertyStore.tla', 's.cfg', tag='c18s', files={'s.cfg': cfg(simk, view=False, props=False)},
              simulate={'num': simn}, depth=simd, seed=c.seed, timeout=900)
sb = tlc.sim_behaviours(sim)
tlc.cleanup(sim)
if not sb:
    done()
    c.inconclusive('TLC -simulate produced no behaviours: %s' % (sim.error or sim.output[-500:]))
c.log('-simulate %s: %d behaviours of depth <= %d (seed %d)' % (name(simk), len(sb), simd, c.seed))
groups.append((simk['reps'], sb, 'simulate ' + name(simk)))

# ---- 3. replay on the real code ----
tot = dict(behaviours=0, steps=0)
hstats = {}
allb = []
samples = []
unreproduced = []
for gi, (reps, behs, what) in enumerate(groups):
    t0 = time.time()
    res = run_replay('g%d' % gi, behs, reps)
    if res.get('inconclusive'):
        done()
        c.inconclusive('%s: %s' % (what, '; '.join(res['inconclusive'][:3])))
    c.log('replayed %s: %d behaviours, %d steps, %d mismatches (%.1fs)' % (what, res['behaviours'], res['steps'], res['stats'].get('violations_total', 0), time.time() - t0))
    tot['behaviours'] += res['behaviours']
    tot['steps'] += res['steps']
    for k2, v2 in res['stats'].items():
        hstats[k2] = hstats.get(k2, 0) + v2
    allb += behs
    # Per signature: re-execute an instance once more from scratch and report it if it shows again.  An instance
    # that does not show again is not reported (on a tree with order-dependent dedup a few instances only
    # appear with a small probability); if NO instance of a signature reproduces the run is inconclusive.
    by_sig = {}
    for v in res['violations']:
        by_sig.setdefault(v['signature'], []).append(v)
    for sig, vs in by_sig.items():
        reported = False
        for v in vs:
            b = behs[v['behaviour']]
            again = run_replay('repro', [b[: v['step'] + 1]], reps)
            if sig in [x['signature'] for x in again['violations']]:
                c.report(sig, v['detail'], {'behaviour': b[: v['step'] + 1], 'replicas': reps, 'harness': 'c18'})
                reported = True
                break
            unreproduced.append('%s (%s, behaviour %d step %d)' % (sig, what, v['behaviour'], v['step']))
        if not reported:
            done()
            c.unreproduced('violation %s (%s) not reproduced in %d attempts on different instances' % (sig, what, len(vs)))
    samples += res.get('samples', [])[:1]

# ---- 4. binding self-test: corrupt one replay expectation, the harness must reject it ----
def newest_deleted(st):
    """documents tombstoned by the delete step that produced st which are the newest of their replica"""
    k = st['last']['k']
    return [d for d in st['docs'] if d['k'] == k and d['del'] and d['r'] in st['last']['reach'] and
            not any(e is not d and e['r'] == d['r'] and e['k'] == k and e['rev'] >= d['rev'] for e in st['docs'])]


selftest = False
probe = None
for reps, behs, what in groups:
    for b in behs:
        for i, st in enumerate(b):
            if i > 0 and st['last'].get('op') == 'delete' and newest_deleted(st):
                probe = (reps, b, i)
                break
        if probe:
            break
    if probe:
        break
if probe:
    reps, b, i = probe
    mut = json.loads(json.dumps(b[: i + 1]))
    # claim that a document the delete step tombstoned is still alive
    newest_deleted(mut[i])[0]['del'] = False
    st = run_replay('selftest', [mut], reps)
    selftest = any(v['signature'] == 'delete-replica-contents' and v['step'] == i for v in st['violations'])
if not selftest:
    done()
    c.inconclusive('binding self-test failed: a corrupted expectation (tombstone flag of one replica document) was accepted')

nontriv = 0
for reps, behs, what in groups:
    nontriv += core.nontrivial_count(behs, lambda st: any(s['last'].get('op') in ('apply', 'delete') and len(s['last']['reach']) < len(reps) for s in st[1:]) and
                                     any(s['last'].get('op') == 'readrepair' or (s['last'].get('op') == 'repair' and s['last']['took']) for s in st[1:]))
c.cov.update(
    states=states, transitions=transitions, traces_validated_against_impl=0,
    behaviours_replayed=tot['behaviours'], steps_replayed=tot['steps'], tlc_runs=mc_runs, graphs=gstats,
    graph_edges=sum(g['quotient_edges'] for g in gstats), graph_edges_uncovered=sum(g['uncovered'] for g in gstats),
    exhaustive=all(g['uncovered'] == 0 for g in gstats), evaluations=tot['behaviours'], distinct_nontrivial=nontriv,
    rule='behaviours = for each graph config an edge cover of the TLC state graph modulo the history variable (every (state, action) pair, refused repairs included) plus %d -simulate behaviours of depth <= %d; non-trivial = some write missed a replica AND a repair/read-repair step follows; distinct by full state sequence' % (len(sb), simd),
    harness_stats=hstats, liveness=dict(config=name(live), distinct=lr.distinct, holds=True), spec_rejects_coded_tie_rule=spec_rejects_coded,
    binding_selftest_rejected=selftest, action_coverage=cover, unreproduced_instances=unreproduced,
    samples=[[s['last'] for s in allb[len(allb) // 3][1:]], [s['last'] for s in allb[-1][1:]]] + samples[:2],
)
c.assumptions += [
    'the data node side of the pipeline is banyand/property/listener.go transcribed (update/delete/query/repair handlers: argument checks + one Database call each); the gRPC transport, node discovery and the gossip scheduler/Merkle tree are not in the loop: Repair(a->b) = repairGossipBase.queryProperty on a + shard.repair on b, which is what a gossip round executes per differing entity',
    'reads (queryProperties) reach every replica; the update/delete messages of one client operation reach a non-empty subset; a Delete is claimed only if it reaches a holder of the current value',
    'deleteTime is abstracted to deleted-or-not; revisions are wall-clock nanoseconds mapped to model revisions in order of creation',
    'ordered queries that push the sort tag down to the replicas (index-side filtering before dedup) are out of scope: sortedQueryWithDedup is exercised as a dedup function on the per-replica result sets of a by-id query',
    'TLC bounds: exhaustive %s; graphs %s; simulate %s' % ([name(k) for k in mc], [name(k) for k in graphs], name(simk)),
]
done()
c.finish()
