#!/usr/bin/env python3
"""C17 part (b) - a cluster (liaison + data nodes) answers every query exactly as a stand-alone server fed the same writes.

spec/Engine.tla behaviours (TLC -simulate; the small constants are checked exhaustively first) are replayed by harness
`eng`, engine `measure-cluster[-<N>n<S>s<R>r]` (harness/pkg/eng/cluster.go), SIMULTANEOUSLY on an in-process stand-alone
server and on an in-process cluster (N data nodes + 1 liaison, property schema registry, file discovery).  Every batch is
one write stream per system; after it the harness waits for the liaison's write queue to be delivered (covering answer
equals the spec's content and GroupRegistryService.Inspect reports no pending write / pending sync part), then the
covering query of both systems is compared with the spec state; QueryAll steps run range / entity / criteria / ordered
(offset, limit) queries on both systems, each compared with the spec's answer.  Time slots 1..2 lie on the previous day,
3..4 on the base day: one batch puts rows into two day segments (and, by series, into different shards) within one
liaison flush window.

Use:  run(c) from checks/c17.py, or  python3 checks/c17b.py --tier quick|thorough [--replay file]
(a stand-alone run keeps its evidence / replay files under .build/c17b/ and leaves evidence/C17.json alone).
Development overrides: VERIF_C17B_BIN = harness binary to use instead of building `eng` (e.g. one built with a candidate
repair mapped in through a private overlay), VERIF_C17B_SIMS = number of simulated behaviours per family.
"""
import json, os, shutil, sys, tempfile
sys.path.insert(0, '/verif/tools'); sys.path.insert(0, '/verif/checks')
from vf import core
import engcommon as ec
from engcommon import leaf, crit, query

S = [1, 2, 3]
T = [1, 2, 3, 4]          # 1,2 -> previous day; 3,4 -> base day (clusterSplitSlot in cluster.go)


def queries(indexed):
    """indexed: criteria on the tags a / b are only accepted by the measure engine when an index rule covers them (and
    indexed tags are series-level attributes by contract), so they are used in the indexed family only"""
    true = crit('one', leaf())
    qs = [
        query(1, 4, S, true),                      # everything, both segments
        query(1, 2, S, true),                      # first segment only
        query(3, 4, S, true),                      # second segment only: a row filed under the first one is missed
        query(2, 3, S, true),                      # straddles the segment boundary
        query(1, 4, [1], true),                    # one entity = one shard
        query(1, 4, [2, 3], true),
        query(3, 4, [2], true),
        query(2, 2, [1, 3], true),
    ]
    sel = true
    if indexed:
        sel = crit('one', leaf('ge', 'a', (1,)))
        qs += [query(1, 4, S, sel),
               query(1, 3, [1, 2], crit('one', leaf('eq', 'b', (1,)))),
               query(3, 4, S, crit('one', leaf('ne', 'b', (0,)))),
               query(2, 4, S, crit('and', leaf('le', 'a', (1,)), leaf('in', 'b', (0, 1)))),
               query(2, 4, S, crit('or', leaf('eq', 'a', (0,)), leaf('ne', 'b', (0,))))]
    for asc in (True, False):
        for off, lim in ((0, 0), (1, 2), (0, 3), (2, 0), (5, 2)):
            qs.append(query(1, 4, S, true, 'time', asc, off, lim))
        qs.append(query(2, 3, S, true, 'time', asc, 0, 2))            # window across the segment boundary
        qs.append(query(1, 4, [1, 3], sel, 'time', asc, 1, 2))
    return qs


LIFE_PREFIX = os.path.join(core.BUILD, 'out', 'c17b-life-%d' % os.getpid())
LIFE_CFG = 'SPECIFICATION TraceSpec\nINVARIANTS\n  NoLiveSnapshotHoldsReleasedPart\n  CurrentIsLive\n  RemovedWereReleased\nPOSTCONDITION TraceAccepted\n'


def validate_lifecycle(c, cap=0):
    """the life-cycle traces of every measure tsTable of the cluster processes (liaison write queue, data nodes) and of the
    stand-alone server must be behaviours of TSTableTrace.tla - in particular every publication is one of Introduce / Flush /
    Merge (inputs leave when the output enters) / Sync"""
    import glob
    from vf import tlc
    n = ev = 0
    for f in sorted(glob.glob(LIFE_PREFIX + '.*')):
        lines = open(f).read().splitlines()
        os.remove(f)
        lines = lines[: (cap or (12000 if c.quick else 40000))]
        if len(lines) < 10:
            continue
        r = tlc.run('TSTableTrace.tla', 't.cfg', tag='c17bt', files={'t.cfg': LIFE_CFG, 'trace.ndjson': '\n'.join(lines) + '\n'}, workers=1, timeout=1500)
        if r.ok:
            n += 1
            ev += len(lines)
            continue
        if r.timed_out or (r.error and 'TraceAccepted' not in r.output and not r.violated):
            c.inconclusive('life-cycle trace validation did not run: %s\n%s' % (r.error, r.output[-1500:]))
        k = max(r.depth - 1, 0)
        bad = lines[k] if k < len(lines) else 'end'
        e = json.loads(bad) if bad != 'end' else {}
        sig = 'cluster-lifecycle-trace-rejected:%s' % e.get('event', 'end')
        if e.get('event') == 'Replace':
            sig += ':creator-%s' % e.get('creator')
        # a schedule-dependent finding: it must show up again when the family is replayed once more
        c.cluster_life_rejections = getattr(c, 'cluster_life_rejections', []) + [(sig, 'event %d of %d rejected by TSTableTrace.tla: %s; previous publication events of the table: %s' % (
            k + 1, len(lines), bad[:400], [x[:200] for x in lines[:k] if '"Replace"' in x and '"tbl":%s,' % e.get('tbl') in x][-3:]), lines[max(0, k - 80): k + 1])]
    return n, ev


def piled_days(b):
    import re
    pat = ''
    for st in b[1:]:
        if st['last'].get('op') == 'write':
            days = {r['t'] <= 2 for r in st['last']['rows']}
            pat += 'A' if days == {True} else 'B' if days == {False} else 'X'
    return pat if re.search(r'A+B{2,}|B+A{2,}', pat) else None


def families(c):
    n = int(os.environ.get('VERIF_C17B_SIMS', 0))
    base = dict(series=S, times=T, versions=[1, 2], versioned=True, maxrows=1, maxtotal=3, maxops=3, graphops=0, simops=10,
                sim=dict(maxrows=3, maxtotal=8))
    plain = dict(base, queries=queries(False), index='none', tags_by_series=False)
    # indexed tags travel to the data nodes as series-index documents, on a path of their own
    indexed = dict(base, queries=queries(True), index='inverted', tags_by_series=True)
    fams = [dict(plain, name='cluster-2n2s0r-two-days', engine='measure-cluster', sims=n or (25 if c.quick else 250)),
            dict(indexed, name='cluster-2n2s0r-two-days-indexed', engine='measure-cluster', sims=n or (15 if c.quick else 150))]
    # runs of single-segment batches that reach the liaison back to back: its flusher then finds several memory parts of
    # one time segment next to those of another one in ONE round (merged segment by segment before they are shipped);
    # the day patterns (A = previous day, B = base day) with a repeated day after a change are picked among many
    # -simulate behaviours
    fams.append(dict(plain, name='cluster-2n2s0r-piled-segments', engine='measure-cluster', maxrows=1, maxtotal=3, maxops=3,
                     sims=n or (600 if c.quick else 3000), simops=6, script=['write', 'write', 'write', 'write', 'write', 'queryall'],
                     queries=queries(False)[:6], select=piled_days, per_class=1 if c.quick else 4, sim=dict(maxrows=1, maxtotal=5),
                     lifecycle=LIFE_PREFIX, procs=1, env={'VERIF_CLUSTER_FLUSH': '250ms'}))
    if not c.quick:
        # other node / shard / replica counts (one cluster per harness process)
        fams.append(dict(plain, name='cluster-3n4s1r-two-days', engine='measure-cluster-3n4s1r', sims=n or 120))
        fams.append(dict(indexed, name='cluster-3n4s1r-two-days-indexed', engine='measure-cluster-3n4s1r', sims=n or 60))
        fams.append(dict(plain, name='cluster-1n1s0r-two-days', engine='measure-cluster-1n1s0r', sims=n or 60))
        fams.append(dict(plain, name='cluster-3n2s0r-two-days', engine='measure-cluster-3n2s0r', sims=n or 60))
    return fams


def nontrivial(st):
    ops = [x['last'].get('op') for x in st[1:]]
    two_days = any(x['last'].get('op') == 'write' and len({r['t'] <= 2 for r in x['last']['rows']}) == 2 for x in st[1:])
    return 'queryall' in ops and sum(1 for o in ops if o == 'write') >= 2 and two_days


def selftest(c, binp, fam):
    """binding self-test: one hand-written Engine.tla behaviour (one batch, two keys, one per day segment) is replayed while the
    harness damages what the CLUSTER receives (VERIF_C17B_SELFTEST); the cluster leg must report exactly that."""
    r1 = dict(id=1, s=1, t=1, v=1, batch=1)
    r2 = dict(id=2, s=2, t=3, v=1, batch=1)
    init = dict(acked=[], view=[], parts=[], nextId=1, nextPart=1, nbatch=0, ops=0, last=dict(op='init'))
    st1 = dict(acked=[r1, r2], view=[[r1], [r2]], parts=[dict(pid=1, mem=True, rows=[1, 2])], nextId=3, nextPart=2, nbatch=1, ops=1,
               last=dict(op='write', rows=[r1, r2], part=1))
    _, _, tags = ec.mc_files(fam)
    hcfg = dict(rowTags={str(k): v for k, v in tags.items()}, index=fam['index'], engine=fam['engine'], versioned=True, flags=[], big=False,
                tagsBySeries=bool(fam.get('tags_by_series')), negZero=False)
    out = {}
    for mode, want in (('drop', 'cluster-missing-row-after-write'), ('wrongday', 'cluster-timestamp-never-written-after-write'))[:1 if c.quick else 2]:
        res = c.run_harness_parallel(binp, ['-cfg', json.dumps(hcfg)], [[init, st1]], name='c17b-selftest', procs=1, timeout=600,
                                     env={'VERIF_C17B_SELFTEST': mode})
        sigs = [v['signature'] for v in res['violations']]
        out[mode] = sigs == [want]
        if not out[mode]:
            c.inconclusive('binding self-test %s: expected exactly [%s], got %s %s' % (mode, want, sigs, res['inconclusive'][:2]))
    c.log('binding self-test: damaged cluster input rejected (%s)' % ', '.join(out))
    return out


def remove_scratch():
    """the cluster's data directories (vf-c17b-<pid>-*): the harness leaves through os.Exit and cannot remove its own"""
    tmp = tempfile.gettempdir()
    for d in os.listdir(tmp):
        if d.startswith('vf-c17b-'):
            pid = d.split('-')[2]
            if pid.isdigit() and not os.path.exists('/proc/' + pid):
                shutil.rmtree(os.path.join(tmp, d), ignore_errors=True)


def run(c, binp=None):
    binp = binp or c.gobuild('eng')
    fams = families(c)
    try:
        return _run(c, binp, fams)
    finally:
        remove_scratch()


def _run(c, binp, fams):
    rejected = selftest(c, binp, fams[0])
    tot, stats, samples, nontriv, cover = ec.run_families(c, fams, binp, nontrivial, procs=2)
    ltraces, levents = validate_lifecycle(c)
    first = list(getattr(c, 'cluster_life_rejections', []))
    if first:
        # replay the traced family once more: a rejection that shows up again is reported
        # (what the liaison's flusher finds in one round depends on timing: up to 4 further replays, whole traces)
        c.cluster_life_rejections = []
        piled = [f for f in fams if f.get('lifecycle')]
        for attempt in range(4):
            ec.run_families(c, piled, binp, nontrivial, procs=1)
            validate_lifecycle(c, cap=60000)
            if {s for s, _, _ in c.cluster_life_rejections} & {s for s, _, _ in first}:
                break
        again = {s for s, _, _ in c.cluster_life_rejections}
        for sig, detail, ctx in first:
            if sig in again:
                c.report(sig, detail, {'trace_tail': ctx, 'harness': 'eng/cluster+lifecycle'})
            else:
                c.unreproduced('%s seen once but not when the family was replayed again: %s' % (sig, detail[:300]))
    c.log('cluster life-cycle: %d trace(s), %d events accepted by TSTableTrace.tla (liaison write queue, data nodes, stand-alone tables)' % (ltraces, levents))
    waits = max(1, stats.get('delivery_waits', 0))
    return dict(
        states=tot['states'], transitions=tot['transitions'], traces_validated_against_impl=0,
        behaviours_replayed=tot['behaviours'], steps_replayed=tot['steps'], simulated_behaviours=tot['sims'],
        evaluations=tot['behaviours'], distinct_nontrivial=nontriv, queries_per_family=[len(f['queries']) for f in fams], topologies=[f['engine'] for f in fams],
        cluster_timing=dict(cluster_starts=stats.get('cluster_starts', 0),
                            mean_cluster_start_ms=stats.get('cluster_start_ms', 0) // max(1, stats.get('cluster_starts', 0)),
                            mean_behaviour_ms=stats.get('behaviour_ms', 0) // max(1, tot['behaviours']),
                            mean_delivery_wait_ms=stats.get('delivery_wait_ms', 0) // waits),
        rule='Engine.tla (TLC exhaustive on 1-row batches, -simulate on batches of 1..3 rows over 3 series x 4 time slots x 2 versions, up to 8 rows) '
             'replayed simultaneously on an in-process stand-alone server and an in-process cluster (liaison + data nodes; write queue flush 50 ms, '
             'part sync 100 ms): one write stream per batch and system; after every step the covering query of both systems must equal the spec\'s '
             'logical content (every tag / field bit-identical, no row missing, duplicated or unexpected) once the liaison reports its queue delivered; '
             'QueryAll steps send %s queries (time ranges inside / across the two day segments, entity selections = shards, criteria on indexed tags in the indexed family, ordered by time '
             'ASC/DESC with offset/limit) to both systems and compare each answer with the spec\'s; a differing cluster answer is re-queried for 10 s '
             'before it counts; non-trivial = a QueryAll after at least two batches one of which spans both day segments' % '/'.join(str(len(f['queries'])) for f in fams[:2]),
        harness_stats=stats, action_coverage=cover, binding_selftest_rejected=rejected,
        samples=[{'family': s['family'], 'ops': [o if o.get('op') != 'queryall' else {'op': 'queryall', 'n': len(o['res'])} for o in s['ops']]} for s in samples])


ASSUMPTIONS = [
    'cluster == stand-alone is judged through the spec: both systems are compared with Engine.tla\'s answer for the same behaviour (ties between equal versions admit any tied row on either system)',
    '"delivered" = covering answer equals the spec\'s content and the liaison\'s Inspect counters (pending write data, pending sync parts) are zero; a memory part of the queue that is not yet flushed is not counted by those counters, hence the answer condition',
    'maintenance (flush / merge) runs on its own timers on both systems in this leg; placement of maintenance steps is C02/C03\'s subject',
    'measure engine only; node failures, re-balancing and handoff are not exercised (part transfer faults are part (a))',
]

if __name__ == '__main__':
    # a part-(b)-only run must not replace the evidence / replay files of the registered C17 check (checks/c17.py)
    core.EVID = os.path.join(core.BUILD, 'c17b', 'evidence')
    core.REPLAYS = os.path.join(core.EVID, 'replays')
    c = core.Check('C17', 'model_checking')
    c.setup()
    devbin = os.environ.get('VERIF_C17B_BIN')
    if c.replay:
        ec.replay_one(c, devbin or c.gobuild('eng'))
    r = run(c, devbin)
    c.cov.update(**r)
    c.assumptions += ASSUMPTIONS
    c.finish()
