#!/usr/bin/env python3
"""sidx component of C09 and C03: the ordered secondary index banyand/internal/sidx.

spec/Sidx.tla (TLC, exhaustive within bounds: QueryIsSortedAndExact, RunsPreserved, StreamingEqualsSync,
FlushInvisible, MergeInvisible, MergeDropsExactly, QueriesUnchangedByMaintenance, MergedEqualsUnion, ...)
-> every transition of the (VIEW-quotient) state graph plus deep -simulate behaviours replayed on a real sidx
instance through its exported interface (harness/pkg/sidx); after every step the real parts are projected on
the spec state and a matrix of queries is run through StreamingQuery AND QuerySync and compared with the
result the specification defines.

    run(c)      whole pipeline; returns measured numbers; calls c.report() for reproduced violations
    replay(c,o) re-runs one evidence/replays/*.json case

Stand-alone (for the builder of this component): python3 checks/sidx.py --tier quick|thorough [--replay f]"""
import copy
import json
import os
import shutil
import sys
import tempfile
from concurrent.futures import ThreadPoolExecutor

sys.path.insert(0, '/verif/tools')
from vf import core, tlc  # noqa: E402

INVARIANTS = ['TypeOK', 'EntriesInOnePart', 'TokensUnique', 'MemPartsNonEmpty']
QUERY_INV = ['QueryIsSortedAndExact', 'RunsPreserved', 'StreamingEqualsSync']
PROPS = ['FlushInvisible', 'MergeInvisible', 'MergeDropsExactly', 'QueriesUnchangedByMaintenance', 'MergedEqualsUnion',
         'WriteOnlyAdds', 'QueryReadsOnly']


def cfg(keys, writes, batch, parts=4, drop=True, menu=False, inv=True, view=True, combined=False, sizes='{0, 1, 2}', scan=False, bounded=True):
    s = 'SPECIFICATION Spec\nCONSTANTS\n'
    s += '  Keys = {%s}\n  Series = {1, 2}\n' % ', '.join(str(i) for i in range(1, keys + 1))
    s += '  MaxWrites = %d\n  MaxBatch = %d\n  MaxParts = %d\n' % (writes, batch, parts)
    s += '  AllowDrop = %s\n  BatchSizes = %s\n  FullMenu = %s\n' % ('TRUE' if drop else 'FALSE', sizes, 'TRUE' if menu else 'FALSE')
    s += '  BlockCap = 2\n  ScanBatch = 2\n  Bounded = %s\n' % ('TRUE' if bounded else 'FALSE')
    if inv and not bounded:       # the scan without bounds: only the scan invariant (expected to fail)
        s += 'INVARIANTS\n  ScanEmitsInOrder\n'
    elif inv:
        s += 'INVARIANTS\n' + ''.join('  %s\n' % i for i in INVARIANTS + (['QueryDesign'] if combined else QUERY_INV) + (['ScanEmitsInOrder'] if scan else []))
        s += 'PROPERTIES\n' + ''.join('  %s\n' % i for i in PROPS)
    if view:
        s += 'VIEW View\n'
    return s


# ---------------------------------------------------------------------------------------------------------
# `last` is a function of (state, next state) in Sidx.tla (Write/Flush/Merge change `parts` in distinguishable
# ways).  The replay graph is dumped under VIEW (history variable hidden), so a node's printed `last` is the one
# of whichever transition TLC found first: recompute it for the transition actually taken.
def _pmap(st):
    return {p['id']: p for p in st['parts']}


def relabel(states):
    out = [dict(states[0], last={'op': 'init'})]
    for prev, cur in zip(states, states[1:]):
        a, b = _pmap(prev), _pmap(cur)
        gone = sorted(set(a) - set(b))
        new = sorted(set(b) - set(a))
        if not gone and len(new) == 1 and b[new[0]]['kind'] == 'mem':
            ents = sorted(b[new[0]]['ents'], key=lambda e: e['t'])
            last = {'op': 'write', 'id': new[0], 'ents': ents}
        elif not gone and not new:
            ids = sorted(i for i in a if a[i]['kind'] != b[i]['kind'])
            if not ids:
                raise ValueError('stuttering step in a behaviour')
            last = {'op': 'flush', 'ids': ids}
        elif len(new) == 1 and len(gone) >= 2:
            before = set(e['t'] for i in gone for e in a[i]['ents'])
            after = set(e['t'] for e in b[new[0]]['ents'])
            last = {'op': 'merge', 'ids': gone, 'newid': new[0], 'drop': sorted(before - after)}
        else:
            raise ValueError('unrecognised transition %r -> %r' % (prev['parts'], cur['parts']))
        out.append(dict(cur, last=last))
    return out


def trace_states(out):
    """states of a TLC counterexample (tlc.parse_trace cannot read action headers that contain '>>')"""
    import re
    from vf import tla
    sts = []
    for m in re.finditer(r'^State \d+: <.*\n((?:.+\n)+)', out, flags=re.M):
        try:
            sts.append(tla.parse_state(m.group(1)))
        except tla.ParseError:
            return []
    return sts


def with_variant(states, v):
    return [dict(states[0], _variant=v)] + list(states[1:])


def mark_full(behs):
    """the first occurrence of every distinct spec state (over all behaviours) gets the whole query matrix"""
    seen = set()
    out = []
    for b in behs:
        nb = []
        for s in b:
            key = json.dumps(s['parts'], sort_keys=True)
            if key not in seen and s['parts']:
                seen.add(key)
                s = dict(s, _full=True)
            nb.append(s)
        out.append(nb)
    return out, len(seen)


def ops_of(states):
    return [s['last'] for s in states[1:]]


def nontrivial(states):
    """a maintenance step on data with a duplicate sort key or spread over >= 2 parts, observed afterwards"""
    ops = [s['last'].get('op') for s in states[1:]]
    if 'flush' not in ops and 'merge' not in ops:
        return False
    for s in states[1:]:
        if len(s['parts']) >= 2:
            return True
        keys = [e['k'] for p in s['parts'] for e in p['ents']]
        if len(keys) != len(set(keys)):
            return True
    return False


def _cpu():
    t = os.times()
    return t.user + t.system + t.children_user + t.children_system


# the index sizes its worker pools by GOMAXPROCS: a few threads per harness process keep the multi-worker paths
# (parallel block loading) in play without oversubscribing the machine with 12+ processes
HENV = {'GOMAXPROCS': '3'}


def _harness(c, binp, behs, name, hcfg, procs=12, timeout=1500):
    hc = dict(hcfg)
    hc.setdefault('seed', c.seed)
    return c.run_harness_parallel(binp, ['-cfg', json.dumps(hc)], behs, name=name, procs=procs, timeout=timeout, env=HENV)


THOROUGH_MC = [(dict(keys=3, writes=2, batch=2, drop=True, combined=True, scan=True), 4),
               (dict(keys=2, writes=3, batch=2, drop=False, combined=True), 4),
               (dict(keys=3, writes=3, batch=1, drop=True, combined=False), 3),
               (dict(keys=3, writes=2, batch=3, drop=False, combined=True), 3),
               (dict(keys=2, writes=4, batch=1, drop=False, combined=True), 2)]


def replay(c, obj, binp=None):
    binp = binp or c.gobuild('sidx')
    HENV.pop('TMPDIR', None)
    hc = dict(obj.get('harness_cfg', {}))
    hc['seed'] = obj.get('seed', c.seed)
    res = c.run_harness_parallel(binp, ['-cfg', json.dumps(hc)], [obj['behaviour']], name='replay', procs=1, env=HENV)
    for v in res['violations']:
        c.report(v['signature'], v['detail'], {'behaviour': obj['behaviour'], 'harness': 'sidx', 'harness_cfg': hc})
    return res


def run(c, binp=None):
    """the whole pipeline; the index directories of the harness live on tmpfs when there is one (fsync-heavy)"""
    binp = binp or c.gobuild('sidx')
    shm = '/dev/shm' if os.path.isdir('/dev/shm') and os.access('/dev/shm', os.W_OK) else None
    root = tempfile.mkdtemp(prefix='verif-sidx-', dir=shm)
    HENV['TMPDIR'] = root
    try:
        return _run(c, binp)
    finally:
        shutil.rmtree(root, ignore_errors=True)


def _run(c, binp):
    quick = c.quick
    cpu0 = _cpu()
    phases = {}

    def phase(name):
        nonlocal cpu0
        now = _cpu()
        phases[name] = round(now - cpu0, 1)
        cpu0 = now

    # ---- 1. TLC: exhaustive design check, replay graphs and random deep behaviours, all concurrently ------
    # exhaustive: (keys, writes, entries per write, drop-merges, query invariants evaluated together), TLC workers
    if quick:
        mcs = [(dict(keys=3, writes=2, batch=2, drop=True, combined=True, scan=True), 6),
               (dict(keys=2, writes=3, batch=1, drop=True, combined=True), 3)]
        gcs = [(dict(keys=2, writes=2, batch=2), 2)]
        nsim, simjobs = 150, 3
    else:
        mcs = THOROUGH_MC
        gcs = [(dict(keys=3, writes=2, batch=2), 2), (dict(keys=2, writes=3, batch=1), 2)]
        nsim, simjobs = 800, 4
    skeys = 4

    def job(j):
        kind, k, wk = j
        n = jobs.index(j)       # distinct scratch directories
        if kind == 'mc':
            return tlc.run('Sidx.tla', 'mc.cfg', tag='sidx-mc%d' % n, files={'mc.cfg': cfg(**k)}, coverage=(not quick and k is mcs[0][0]),
                           timeout=1200 if quick else 3600, workers=wk)
        if kind == 'cex':      # the scan WITHOUT bounds between scan batches: TLC must find an out-of-order answer
            return tlc.run('Sidx.tla', 'x.cfg', tag='sidx-x%d' % n, files={'x.cfg': cfg(bounded=False, **k)}, timeout=600, workers=wk)
        if kind == 'graph':
            return tlc.run('Sidx.tla', 'g.cfg', tag='sidx-g%d' % n, files={'g.cfg': cfg(inv=False, **k)}, dump=True, timeout=900, workers=wk)
        return tlc.run('Sidx.tla', 's.cfg', tag='sidx-s%d' % n, files={'s.cfg': cfg(skeys, 6, 3, parts=4, menu=True, inv=False, view=False, sizes='{0, 1, 2, 3}')},
                       simulate={'num': nsim // simjobs}, depth=24, seed=c.seed * 100 + k, timeout=900)
    jobs = [('mc', k, wk) for k, wk in mcs] + [('graph', k, wk) for k, wk in gcs] + [('sim', i, 1) for i in range(simjobs)]
    jobs.append(('cex', dict(keys=3, writes=2, batch=2, drop=False), 2))
    with ThreadPoolExecutor(max_workers=len(jobs)) as ex:
        results = list(ex.map(job, jobs))
    phase('tlc_cpu_s')
    states = transitions = 0
    tlc_runs = []
    coverage = {}
    graph_behs, graph_edges, uncovered, gkeys, sim_behs, cex = [], 0, 0, [], [], None
    for (kind, k, wk), r in zip(jobs, results):
        if kind == 'mc':
            if r.violated or r.error or r.timed_out:
                c.inconclusive('TLC on Sidx.tla %s: violated=%s error=%s timeout=%s\n%s' % (k, r.violated, r.error, r.timed_out, r.output[-1500:]))
            states += r.distinct
            transitions += r.generated
            tlc_runs.append(dict(k, distinct=r.distinct, transitions=r.generated, depth=r.depth, wall_s=round(r.wall, 1)))
            coverage.update(r.coverage or {})
            c.log('TLC Sidx %s: %d distinct states, %d transitions, all invariants and action properties hold (%.1fs)' % (
                json.dumps(k), r.distinct, r.generated, r.wall))
        elif kind == 'cex':
            # vacuity guard for ScanEmitsInOrder, and a schedule worth executing on the real code
            if r.violated != 'ScanEmitsInOrder':
                c.inconclusive('Sidx.tla with Bounded=FALSE: TLC found no out-of-order answer (violated=%s error=%s): the scan model is vacuous\n%s' % (
                    r.violated, r.error, r.output[-800:]))
            cex = trace_states(r.output)
            if len(cex) < 2:
                c.inconclusive('cannot read the TLC counterexample of the unbounded scan')
            cex = relabel(cex)
            c.log('TLC, scan without bounds between scan batches (Bounded=FALSE): ScanEmitsInOrder violated after %s; replayed on the real code below' % json.dumps(ops_of(cex)))
        elif kind == 'graph':
            if not r.ok:
                c.inconclusive('graph dump failed (%s): %s' % (k, r.error or r.violated))
            nodes, edges, inits = tlc.graph(r)
            tlc.cleanup(r)
            behs, unc = tlc.cover_edges(nodes, edges, inits, max_len=16)
            real_edges = len(set((u, v) for u, v, _ in edges if u != v))
            graph_edges += real_edges
            uncovered += unc
            c.log('replay graph %s: %d states, %d transitions -> %d behaviours (uncovered: %d)' % (json.dumps(k), len(nodes), real_edges, len(behs), unc))
            for b in behs:
                graph_behs.append(relabel(b))
                gkeys.append(k['keys'])
        else:
            if not r.ok:
                c.inconclusive('TLC -simulate failed: %s\n%s' % (r.error, r.output[-1000:]))
            sim_behs += [b for b in tlc.sim_behaviours(r) if len(b) > 1]
            tlc.cleanup(r)
    c.log('%d simulated behaviours (<=6 writes x <=3 entries, keys 1..4, <=4 parts, Query steps with TLC-computed answers), %d steps' % (
        len(sim_behs), sum(len(b) - 1 for b in sim_behs)))

    phase('graph_cover_cpu_s')
    # one harness run per key-domain size (the concretisation needs it)
    groups = {}
    allb = []
    graph_behs, distinct_states = mark_full(graph_behs)
    for b, k in zip(graph_behs, gkeys):
        groups.setdefault((k, 'marked'), []).append(len(allb))
        allb.append(with_variant(b, len(allb)))
    for b in sim_behs:
        groups.setdefault((skeys, 'full'), []).append(len(allb))
        allb.append(with_variant(b, len(allb)))
    groups.setdefault((3, 'full'), []).append(len(allb))        # the spec-level counterexample of the unbounded scan
    allb.append(with_variant(cex, len(allb)))

    violations, stats, total_b, total_s, incon, hcfg_of = [], {}, 0, 0, [], {}

    def fold(res, idx, hc):
        nonlocal total_b, total_s
        for v in res['violations']:
            v = dict(v, behaviour=idx[v['behaviour']])
            hcfg_of[(v['behaviour'], v['signature'])] = hc
            violations.append(v)
        incon.extend(res['inconclusive'])
        total_b += res['behaviours']
        total_s += res['steps']
        for a, n in res['stats'].items():
            stats[a] = stats.get(a, 0) + n

    for (k, matrix), idx in sorted(groups.items()):
        hc = {'keys': k, 'matrix': matrix}
        fold(_harness(c, binp, [allb[i] for i in idx], 'k%d' % k, hc), idx, hc)
    c.log('replayed %d behaviours / %d steps, %d queries through both entry points' % (total_b, total_s, stats.get('queries', 0)))
    for op in ('write', 'flush', 'merge', 'query'):
        if not stats.get('op_' + op):
            c.inconclusive('vacuous run: no %s step was replayed' % op)
    if not any(s['last'].get('op') == 'merge' and s['last'].get('drop') for b in allb for s in b[1:]):
        c.inconclusive('vacuous run: no merge with a rejecting keep predicate was replayed')

    phase('replay_cpu_s')
    # ---- 3. thorough: the same behaviours with entry counts that cross the block limits ------------------
    fat_n = 0
    if not quick:
        # 8192 entries per block / 2 MiB per block: ~4100 copies make two equal-series entries of one part overflow a block
        picks = [i for i in range(len(allb)) if nontrivial(allb[i])]
        step = max(1, len(picks) // 60)
        fat = picks[::step][:60]
        by_k = {}
        for i in fat:
            k = gkeys[i] if i < len(gkeys) else skeys
            by_k.setdefault(k, []).append(i)
        for k, idx in sorted(by_k.items()):
            for mult, share in ((4100, 2), (1500, 1)):
                sub = idx[share - 1::2]
                if not sub:
                    continue
                hc = {'keys': k, 'matrix': 'last', 'fat': mult}
                fold(_harness(c, binp, [allb[i] for i in sub], 'fat%d-%d' % (k, mult), hc, procs=14, timeout=2400), sub, hc)
                fat_n += len(sub)
        c.log('block-limit tier: %d behaviours replayed with 1500..4600 real entries per spec entry' % fat_n)

    phase('block_limit_replay_cpu_s')
    c.log('cpu seconds per phase: %s' % json.dumps(phases))
    if incon:
        c.inconclusive('; '.join(incon[:3]))

    # ---- 4. verdicts: reproduce once from scratch ------------------------------------------------------
    seen = set()
    for v in sorted(violations, key=lambda v: (v['step'], v['behaviour'])):
        if v['signature'] in seen:
            continue
        seen.add(v['signature'])
        hc = dict(hcfg_of[(v['behaviour'], v['signature'])], seed=c.seed)
        b = allb[v['behaviour']][: v['step'] + 1]
        again = c.run_harness_parallel(binp, ['-cfg', json.dumps(hc)], [b], name='repro', procs=1, env=HENV)
        if not [x for x in again['violations'] if x['signature'] == v['signature']]:
            c.unreproduced('violation %s not reproduced on a second run: %s' % (v['signature'], v['detail'][:500]))
            continue
        c.report(v['signature'], v['detail'], {'behaviour': b, 'harness': 'sidx', 'harness_cfg': hc, 'ops': ops_of(b), 'reported_as': v['signature']})

    # ---- 5. binding self-test: a corrupted expectation must be rejected --------------------------------------
    selftest = None
    cand = [i for i in range(len(graph_behs)) if allb[i][-1]['last']['op'] == 'merge' and any(p['ents'] for p in allb[i][-1]['parts'])]
    if cand:
        i = cand[len(cand) // 2]
        mut = copy.deepcopy(allb[i])
        for p in mut[-1]['parts']:
            if p['id'] == mut[-1]['last']['newid'] and p['ents']:
                p['ents'] = p['ents'][1:]          # the spec state "forgets" one entry of the merged part
        hc = {'keys': gkeys[i], 'matrix': 'marked', 'seed': c.seed}
        st = c.run_harness_parallel(binp, ['-cfg', json.dumps(hc)], [mut], name='selftest', procs=1, env=HENV)
        selftest = any(v['signature'] in ('sidx-merged-part-differs-from-union', 'sidx-merge-changed-contents') for v in st['violations'])
    qs = [b for b in allb[len(graph_behs):] if any(s['last'].get('op') == 'query' and s['last'].get('expect') for s in b[1:])]
    selftest_q = None
    if qs:
        mut = copy.deepcopy(qs[len(qs) // 2])
        for s in mut[1:]:
            if s['last'].get('op') == 'query' and s['last'].get('expect'):
                s['last']['keys'] = s['last']['keys'][1:]
                s['last']['expect'] = s['last']['expect'][1:]
                break
        hc = {'keys': skeys, 'matrix': 'full', 'seed': c.seed}
        st = c.run_harness_parallel(binp, ['-cfg', json.dumps(hc)], [mut], name='selftest', procs=1, env=HENV)
        selftest_q = any(v['signature'] == 'sidx-query-differs-from-spec-result' for v in st['violations'])
    if selftest is False or selftest_q is False or (selftest is None and selftest_q is None):
        if not violations:   # with real violations around, the mutated runs may stop early for other reasons
            c.inconclusive('binding self-test failed: a corrupted expectation was accepted (state=%s, query=%s)' % (selftest, selftest_q))

    nontriv = core.nontrivial_count(allb, nontrivial)
    mid = allb[len(graph_behs) // 2] if graph_behs else []
    samples = [ops_of(mid)]
    if sim_behs:
        samples.append(ops_of(allb[-1])[:12])
    return dict(
        states=states, transitions=transitions, behaviours=total_b, steps=total_s, graph_edges=graph_edges, uncovered=uncovered,
        simulated=len(sim_behs), fat_behaviours=fat_n, samples=samples, nontrivial=nontriv, harness_stats=stats,
        queries=stats.get('queries', 0), spec_queries=stats.get('spec_queries', 0),
        selftest_rejected=bool(selftest or selftest_q) and selftest is not False and selftest_q is not False,
        tlc_runs=tlc_runs, action_coverage=coverage, cpu_seconds=phases, spec_counterexample_unbounded_scan=ops_of(cex), violations=len(violations),
        rule='behaviours = an edge cover of the TLC state graphs of Sidx.tla under VIEW (%s) + %d -simulate behaviours (keys 1..4, <=6 writes x <=3 '
             'entries, <=4 parts, depth 24); after every step the parts (ids, mem/file, entries) are compared and queries run through '
             'StreamingQuery and QuerySync; non-trivial = contains a flush or merge and a state with >=2 parts or a duplicate sort key; '
             'distinct by full state sequence and concretisation variant' % (json.dumps([k for k, _ in gcs]), len(sim_behs)),
        assumptions=['payloads are unique per written entry (the index de-duplicates equal payloads by design)',
                     'the API rejects empty payloads: the shortest payload is one byte',
                     'QuerySync with MaxBatchSize>0 is an ordered top-N by design (processSyncLoop budget): required to be a sorted prefix holding at least MaxBatchSize entries; with MaxBatchSize=0 and through StreamingQuery every matching entry is required',
                     'ties between equal keys are accepted in any order',
                     'single goroutine, no background loops: concurrency of maintenance with queries is TSTable.tla/C05'])


if __name__ == '__main__':
    # builder's stand-alone entry: SIDX_PID = evidence/replay id, SIDX_BIN = a prebuilt harness binary (e.g. one
    # built from a patched copy of the repository)
    c = core.Check(os.environ.get('SIDX_PID', 'C09'), 'model_checking')
    c.setup()
    prebuilt = os.environ.get('SIDX_BIN')
    if c.replay:
        obj = json.load(open(c.replay))
        replay(c, obj, prebuilt)
        c.cov.update(states=1, transitions=1, traces_validated_against_impl=0, samples=[obj.get('ops', [])])
        c.finish()
    r = run(c, prebuilt)
    c.cov.update(states=r['states'], transitions=r['transitions'], traces_validated_against_impl=0, behaviours_replayed=r['behaviours'],
                 steps_replayed=r['steps'], graph_edges=r['graph_edges'], graph_edges_uncovered=r['uncovered'], exhaustive=(r['uncovered'] == 0),
                 evaluations=r['behaviours'], distinct_nontrivial=r['nontrivial'], rule=r['rule'], harness_stats=r['harness_stats'],
                 binding_selftest_rejected=r['selftest_rejected'], samples=r['samples'], tlc_runs=r['tlc_runs'], action_coverage=r['action_coverage'],
                 simulated_behaviours=r['simulated'], block_limit_behaviours=r['fat_behaviours'])
    c.assumptions += r['assumptions']
    c.finish()
