"""Shared by C01, C02, C03, C08 (and later C09/C15): spec/Engine.tla -> TLC -> behaviours -> replay through the public
gRPC API of an in-process stand-alone server (harness eng) with manual maintenance."""
import json, os, sys
sys.path.insert(0, '/verif/tools')
from vf import core, tlc

INVARIANTS = ['NoPhantom', 'Complete', 'LayoutAgrees', 'AllKept', 'ViewIsResolve', 'PartsDisjointIds']
PROPS = ['MaintenanceInvisible']


def row_tags(n):
    """deterministic tag table: id -> (a in 0..2, b in 0..2, arr subset of {1,2,3})"""
    arrs = [[], [1], [1, 2], [2, 3], [1, 2, 3], [3]]
    return {i: dict(a=(i * 2 + 1) % 3, b=(i // 2) % 3, arr=arrs[(i * 5 + 2) % len(arrs)]) for i in range(1, n + 1)}


def tla_set(xs):
    return '{' + ', '.join(str(x) for x in xs) + '}'


def leaf(op='true', tag='a', v=(0,)):
    return '[op |-> "%s", tag |-> "%s", v |-> %s]' % (op, tag, tla_set(v))


def crit(conn, c1, c2=None):
    return '[conn |-> "%s", c1 |-> %s, c2 |-> %s]' % (conn, c1, c2 or leaf())


def query(lo, hi, series, c, order='none', asc=True, offset=0, limit=0):
    return '[lo |-> %d, hi |-> %d, series |-> %s, crit |-> %s, order |-> "%s", asc |-> %s, offset |-> %d, limit |-> %d]' % (
        lo, hi, tla_set(series), c, order, 'TRUE' if asc else 'FALSE', offset, limit)


def mc_files(fam):
    tags = row_tags(max(fam['maxtotal'], max(fam['series'])))
    rt = '[i \\in 1..%d |-> CASE ' % max(fam['maxtotal'], max(fam['series'])) + ' [] '.join(
        'i = %d -> [a |-> %d, b |-> %d, arr |-> %s]' % (i, t['a'], t['b'], tla_set(t['arr'])) for i, t in tags.items()) + ']'
    qs = '{' + ',\n  '.join(fam.get('queries', [])) + '}'
    script = '<<' + ', '.join('"%s"' % k for k in fam.get('script', [])) + '>>'
    mc = '---- MODULE MCEng ----\nEXTENDS Engine\nMCRowTags == %s\nMCQueries == %s\nMCScript == %s\n====\n' % (rt, qs, script)
    cfg = ('SPECIFICATION Spec\nCONSTANTS\n  Series = %s\n  Times = %s\n  Versions = %s\n  Versioned = %s\n  MaxRows = %d\n  MaxTotal = %d\n'
           '  MaxOps = %%d\n  RowTags <- MCRowTags\n  Queries <- MCQueries\n  TagsBySeries = %s\n  Script <- MCScript\n') % (
        tla_set(fam['series']), tla_set(fam['times']), tla_set(fam['versions']), 'TRUE' if fam['versioned'] else 'FALSE', fam['maxrows'], fam['maxtotal'], 'TRUE' if fam.get('tags_by_series') else 'FALSE')
    cfg += 'INVARIANTS\n' + ''.join('  %s\n' % i for i in INVARIANTS) + 'PROPERTIES\n' + ''.join('  %s\n' % p for p in PROPS)
    return mc, cfg, tags


def run_families(c, families, binp, nontrivial, procs=4):
    tot = dict(states=0, transitions=0, behaviours=0, steps=0, edges=0, uncovered=0, sims=0)
    samples, stats, nontriv, cover = [], {}, 0, {}
    for fam in families:
        mc, cfg, tags = mc_files(fam)
        depth = fam['maxops']
        r = tlc.run('MCEng.tla', 'mc.cfg', tag='eng', files={'MCEng.tla': mc, 'mc.cfg': cfg % depth + 'VIEW View\n'}, coverage=not c.quick,
                    timeout=2400, workers=12)
        if r.violated or r.error or r.timed_out:
            c.inconclusive('TLC on Engine.tla family %s: violated=%s error=%s timeout=%s\n%s' % (fam['name'], r.violated, r.error, r.timed_out, r.output[-2000:]))
        tot['states'] += r.distinct
        tot['transitions'] += r.generated
        for k, v in r.coverage.items():
            cover[k] = cover.get(k, 0) + v
        behs, edges, unc = [], [], 0
        if fam.get('graphops'):
            g = tlc.run('MCEng.tla', 'g.cfg', tag='engg', files={'MCEng.tla': mc, 'g.cfg': cfg % fam['graphops']}, dump=True, timeout=2400, workers=12)
            if not g.ok:
                c.inconclusive('graph dump failed for %s: %s' % (fam['name'], g.error or g.violated))
            nodes, edges, inits = tlc.graph(g)
            behs, unc = tlc.cover_edges(nodes, edges, inits, max_len=fam['graphops'] + 1)
            tlc.cleanup(g)
        if fam.get('sim'):
            sfam = dict(fam); sfam.update(fam['sim'])
            mc, cfg, tags = mc_files(sfam)
        s = tlc.run('MCEng.tla', 's.cfg', tag='engs', files={'MCEng.tla': mc, 's.cfg': cfg % fam.get('simops', depth + 4)},
                    simulate={'num': fam.get('sims', 100)}, depth=fam.get('simops', depth + 4) + 1, seed=c.seed, timeout=900)
        sb = tlc.sim_behaviours(s)
        tlc.cleanup(s)
        nclasses = 0
        if fam.get('select'):
            # feature-guided choice among many cheap -simulate behaviours: at most per_class behaviours of every class
            # the family's select() function distinguishes (None = not interesting)
            classes = {}
            for b in sb:
                k = fam['select'](b)
                if k is not None and len(classes.setdefault(k, [])) < fam.get('per_class', 2):
                    classes[k].append(b)
            sb = [b for k in sorted(classes) for b in classes[k]]
            nclasses = len(classes)
            c.log('family %-26s %d classes of behaviours selected by %s' % (fam['name'], nclasses, fam['select'].__name__))
            tot['classes'] = tot.get('classes', 0) + nclasses
        allb = behs + sb
        tot['edges'] += len(edges)
        tot['uncovered'] += unc
        tot['sims'] += len(sb)
        c.log('family %-26s TLC %7d states; graph %6d edges -> %5d behaviours (+%d simulated)' % (fam['name'], r.distinct, len(edges), len(behs), len(sb)))
        hcfg = dict(rowTags={str(k): v for k, v in tags.items()}, index=fam.get('index', 'none'), engine=fam.get('engine', 'measure'),
                    versioned=fam['versioned'], flags=fam.get('flags', []), big=fam.get('big', False),
                    tagsBySeries=bool(fam.get('tags_by_series')), negZero=bool(fam.get('negzero')),
                    ballast=fam.get('ballast', 0), ballastMode=fam.get('ballast_mode', 'deep'), lifecycle=fam.get('lifecycle', ''), shards=fam.get('shards', 1), ruleIdSign=fam.get('rule_id_sign', ''))
        res = c.run_harness_parallel(binp, ['-cfg', json.dumps(hcfg)], allb, name='eng-' + fam['name'], procs=fam.get('procs', procs), timeout=2400, max_per_proc=120, env=fam.get('env'))
        if res['inconclusive']:
            c.inconclusive('; '.join(res['inconclusive'][:3]))
        seen = set()
        for v in res['violations']:
            if v['signature'] in seen:
                continue
            seen.add(v['signature'])
            b = allb[v['behaviour']][: v['step'] + 1]
            again = c.run_harness_parallel(binp, ['-cfg', json.dumps(hcfg)], [b], name='repro', procs=1, timeout=600)
            if not [x for x in again['violations'] if x['signature'] == v['signature']]:
                c.unreproduced('violation %s (family %s) not reproduced on a second run: %s' % (v['signature'], fam['name'], v['detail'][:300]))
                # kept for the analysis of schedule- or state-dependent findings (never a verdict)
                ud = os.path.join(core.BUILD, 'unreproduced')
                os.makedirs(ud, exist_ok=True)
                json.dump({'behaviour': b, 'harness': 'eng', 'cfg': hcfg, 'family': fam['name'], 'signature': v['signature'], 'detail': v['detail'], 'index_in_run': v['behaviour']},
                          open(os.path.join(ud, '%s-%s-%d.json' % (c.pid, fam['name'], v['behaviour'])), 'w'))
                continue
            c.report(v['signature'], v['detail'], {'behaviour': b, 'harness': 'eng', 'cfg': hcfg, 'family': fam['name']})
        tot['behaviours'] += res['behaviours']
        tot['steps'] += res['steps']
        for k, v in res['stats'].items():
            stats[k] = stats.get(k, 0) + v
        nontriv += core.nontrivial_count(allb, nontrivial)
        if allb:
            samples.append({'family': fam['name'], 'ops': [x['last'] for x in allb[len(allb) // 2][1:]]})
    return tot, stats, samples, nontriv, cover


def replay_one(c, binp):
    obj = json.load(open(c.replay))
    res = c.run_harness_parallel(binp, ['-cfg', json.dumps(obj['cfg'])], [obj['behaviour']], name='replay', procs=1, timeout=600)
    for v in res['violations']:
        c.report(v['signature'], v['detail'], {'behaviour': obj['behaviour'], 'harness': 'eng', 'cfg': obj['cfg']})
    c.cov.update(states=1, transitions=1, traces_validated_against_impl=0, samples=[obj['behaviour'][-1]['last']])
    c.finish()
