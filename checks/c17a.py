#!/usr/bin/env python3
"""C17 (a) - part transfer is exact.

spec/ChunkedSync.tla (sender = pub/chunked_sync.go + the caller's rule of measure/syncer.go, faulty channel per
direction, receiver = sub/chunked_sync.go in sequential and reordering mode, handler = install only at FinishSync)
is checked exhaustively by TLC; every transition of its state graph (= every single fault at every position, for
every layout / chunk size / receiver mode of the bound) is then replayed on the real code:

  A  real pub client  <- in-memory faulty SyncPart stream (no network) ->  real sub server
  B  real sub server alone against every request sequence over the alphabet (requests recorded from the real sender)
  handler "fake"    = recording ChunkedSyncHandler, arbitrary file layouts
  handler "measure" = the real measure receive callback on a real TSDB directory, real measure parts and the real
                      sender-side syncer code (layout = the byte layout of those parts, measured at run time)

`run(c)` performs the whole pipeline and returns the measured numbers; checks/c17.py imports it.
`python3 checks/c17a.py --tier quick` runs it stand-alone (evidence id C17)."""
import json, math, os, sys
sys.path.insert(0, '/verif/tools')
from vf import core, tlc

INV = ['InstalledEqualsSent', 'NeverInstallCorruptOrPartial', 'FailedTransferLeavesReceiverUnchanged',
       'SenderKeepsPartUntilSuccess', 'AtMostOnceInstall', 'SuccessImpliesInstalled', 'CompleteMeansInstalled']
FAULTS = ['corrupt', 'drop', 'dup', 'duplate', 'truncate', 'restart', 'respdrop']


def tla_seq(x):
    if isinstance(x, (list, tuple)):
        return '<<' + ', '.join(tla_seq(y) for y in x) + '>>'
    return str(x)


def mc_module(layouts):
    return '---- MODULE ChunkedSyncMC ----\nEXTENDS ChunkedSync\nMCLayouts == {%s}\n====\n' % ', '.join(tla_seq(l) for l in layouts)


def cfg_text(leg, view=True, msgs=None):
    return '''SPECIFICATION Spec
CONSTANTS
  Layouts <- MCLayouts
  ChunkSizes = {%s}
  Modes = {%s}
  MaxChunks = %d
  MaxGap = %d
  MaxBuf = %d
  MaxRetries = 3
  Config = "%s"
  FaultKinds = {%s}
  MaxFaults = %d
  MaxAttempts = 2
  MaxMsgs = %d
%sINVARIANTS
%s''' % (', '.join(str(x) for x in leg['chunk_sizes']), ', '.join('"%s"' % m for m in leg['modes']), leg['max_chunks'],
         leg['maxgap'], leg['maxbuf'], leg['config'], ', '.join('"%s"' % f for f in FAULTS), 1 if leg['config'] == 'A' else 0,
         msgs if msgs is not None else leg.get('max_msgs', 0), 'VIEW View\n' if view else '', ''.join('  %s\n' % i for i in INV))


def harness_args(leg):
    return ['-mode', 'replay', '-config', leg['config'], '-handler', leg['handler'], '-unit', str(leg.get('unit', 1)),
            '-maxgap', str(leg['maxgap']), '-maxbuf', str(leg['maxbuf'])]


def chunk_sizes_for(layout, max_chunks):
    """chunk sizes that cut a real byte layout into 2..max_chunks chunks: even cuts, and one cut on a file boundary"""
    total = sum(sum(p) for p in layout)
    out = set()
    for n in range(2, max_chunks + 1):
        out.add(int(math.ceil(total / n)))
    first = layout[0]
    acc = 0
    for s in first[:-1]:
        acc += s
        if math.ceil(total / acc) <= max_chunks:
            out.add(acc)       # a chunk boundary that coincides with a file boundary
    if len(layout) > 1:
        p1 = sum(layout[0])
        if math.ceil(total / p1) <= max_chunks:
            out.add(p1)        # ... and with a part boundary
    return sorted(out)


def is_fault_or_anomaly(st):
    """non-trivial = a fault step (A), or a request that is not the next one of the honest sequence (B)"""
    nxt = 0
    n = st[0]['cfg']['n']
    for s in st[1:]:
        l = s['last']
        if l.get('op') == 'fault':
            return True
        if l.get('op') == 'msg':
            m = l['m']
            if m['t'] == 'chunk' and m['ok'] and m['idx'] == nxt and m['meta'] == (nxt == 0):
                nxt += 1
            elif m['t'] == 'completion' and nxt == n:
                nxt = n + 1
            else:
                return True
    return False


def fault_positions(behs):
    seen = set()
    for b in behs:
        c = b[0]['cfg']
        for s in b[1:]:
            l = s['last']
            if l.get('op') == 'fault':
                seen.add((json.dumps(c['L']), c['C'], c['mode'], l['kind'], l.get('pos'), l.get('bad'), l.get('after'), l.get('st')))
    return len(seen)


def replay(c, binp, obj):
    leg = obj['leg']
    res = c.run_harness_parallel(binp, harness_args(leg), [obj['behaviour']], name='replay', procs=1)
    return res


def run(c):
    binp = c.gobuild('c17a')
    quick = c.quick

    # the byte layout of real measure parts (the real sender's createPartFileReaders)
    lay = c.run_harness(binp, ['-mode', 'layout', '-parts', '2'])
    if lay['inconclusive'] or not lay['samples']:
        c.inconclusive('cannot build real measure parts: %s' % lay['inconclusive'])
    real = lay['samples'][0]['layout']
    names = lay['samples'][0]['names']
    c.log('real measure parts on the wire: %s' % ', '.join('%d files / %d bytes' % (len(p), sum(p)) for p in real))

    small = [[[3]], [[2, 1]], [[1], [2]], [[2], [1, 1]]]
    large = [[[4]], [[3, 1]], [[1, 2, 1]], [[1], [3]], [[2], [1, 1]], [[2, 1], [1]]]
    if quick:
        legs = [
            dict(name='A-fake', config='A', handler='fake', layouts=small, chunk_sizes=[1, 2, 3], modes=['seq', 'reorder'],
                 max_chunks=3, maxgap=2, maxbuf=1, unit=1),
            dict(name='B-fake', config='B', handler='fake', layouts=small, chunk_sizes=[1, 2, 3], modes=['seq', 'reorder'],
                 max_chunks=3, maxgap=1, maxbuf=1, max_msgs=4, sim_msgs=9, sim=400, unit=1),
            dict(name='A-measure', config='A', handler='measure', layouts=[real[:1]], chunk_sizes=chunk_sizes_for(real[:1], 3),
                 modes=['seq', 'reorder'], max_chunks=3, maxgap=2, maxbuf=1),
            dict(name='B-measure', config='B', handler='measure', layouts=[real[:1]], chunk_sizes=chunk_sizes_for(real[:1], 3)[:1],
                 modes=['reorder'], max_chunks=3, maxgap=1, maxbuf=1, max_msgs=4),
        ]
    else:
        legs = [
            dict(name='A-fake', config='A', handler='fake', layouts=large, chunk_sizes=[1, 2, 3], modes=['seq', 'reorder'],
                 max_chunks=4, maxgap=2, maxbuf=1, unit=997),
            dict(name='B-fake', config='B', handler='fake', layouts=small, chunk_sizes=[1, 2, 3], modes=['seq', 'reorder'],
                 max_chunks=3, maxgap=1, maxbuf=1, max_msgs=5, sim_msgs=10, sim=4000, unit=1,
                 big=dict(layouts=large, max_chunks=4, maxgap=2, max_msgs=6)),
            dict(name='B-fake-4', config='B', handler='fake', layouts=[[[1, 2, 1]], [[1], [3]], [[2, 1], [1]]], chunk_sizes=[1, 2, 3], modes=['seq', 'reorder'],
                 max_chunks=4, maxgap=2, maxbuf=1, max_msgs=4, unit=64),
            dict(name='A-measure', config='A', handler='measure', layouts=[real[:1], real],
                 chunk_sizes=sorted(set(chunk_sizes_for(real[:1], 3) + chunk_sizes_for(real, 3))),
                 modes=['seq', 'reorder'], max_chunks=3, maxgap=2, maxbuf=1),
            dict(name='B-measure', config='B', handler='measure', layouts=[real[:1]], chunk_sizes=chunk_sizes_for(real[:1], 3)[:3],
                 modes=['seq', 'reorder'], max_chunks=3, maxgap=1, maxbuf=1, max_msgs=4),
        ]

    tot = dict(states=0, transitions=0, behaviours=0, steps=0, edges=0, uncovered=0, sim=0)
    stats, cover, legsum, samples = {}, {}, {}, []
    allb_for_nontrivial = []
    hits = []           # (leg, behaviour, violation)
    fault_pos = 0
    # phase 1: TLC, all legs concurrently.  One run per leg checks the invariants on, and dumps, the full state graph
    # (states distinguished by the history variable `last`); the thorough tier adds an exhaustive run under VIEW
    # (history hidden) at a larger bound with -coverage.
    from concurrent.futures import ThreadPoolExecutor

    def model(leg):
        mc = mc_module(leg['layouts'])
        out = {}
        out['g'] = tlc.run('ChunkedSyncMC.tla', 'g.cfg', tag='c17a-g-' + leg['name'], files={'ChunkedSyncMC.tla': mc, 'g.cfg': cfg_text(leg, view=False)},
                           dump=True, timeout=1200, workers=4, coverage=not quick)
        if leg.get('sim'):
            out['s'] = tlc.run('ChunkedSyncMC.tla', 's.cfg', tag='c17a-s-' + leg['name'],
                               files={'ChunkedSyncMC.tla': mc, 's.cfg': cfg_text(leg, view=False, msgs=leg['sim_msgs'])},
                               simulate={'num': leg['sim']}, depth=leg['sim_msgs'] + 2, seed=c.seed, timeout=600)
        if leg.get('big'):
            bl = dict(leg); bl.update(leg['big'])
            out['x'] = tlc.run('ChunkedSyncMC.tla', 'x.cfg', tag='c17a-x-' + leg['name'],
                               files={'ChunkedSyncMC.tla': mc_module(bl['layouts']), 'x.cfg': cfg_text(bl, view=True)}, timeout=1500, workers=4, coverage=True)
        return out
    with ThreadPoolExecutor(max_workers=len(legs)) as ex:
        models = list(ex.map(model, legs))

    for leg, mo in zip(legs, models):
        g = r = mo['g']
        if not g.ok:
            c.inconclusive('TLC on ChunkedSync.tla (%s): violated=%s error=%s timeout=%s\n%s' % (leg['name'], g.violated, g.error, g.timed_out, g.output[-2500:]))
        nodes, edges, inits = tlc.graph(g)
        behs, unc = tlc.cover_edges(nodes, edges, inits, max_len=60)
        tlc.cleanup(g)
        sb = []
        if 's' in mo:
            s = mo['s']
            if s.violated or s.error or s.timed_out:
                c.inconclusive('TLC -simulate on ChunkedSync.tla (%s): %s %s' % (leg['name'], s.violated, s.error))
            sb = tlc.sim_behaviours(s)
            tlc.cleanup(s)
        if 'x' in mo:
            x = mo['x']
            if not x.ok:
                c.inconclusive('TLC (larger bound, VIEW) on ChunkedSync.tla (%s): violated=%s error=%s timeout=%s\n%s' % (leg['name'], x.violated, x.error, x.timed_out, x.output[-2500:]))
            tot['big_states'] = tot.get('big_states', 0) + x.distinct
            tot['big_transitions'] = tot.get('big_transitions', 0) + x.generated
            for k, v in (x.coverage or {}).items():
                cover[k] = cover.get(k, 0) + v
            c.log('%s: larger bound under VIEW: %d distinct states / %d transitions, invariants hold (%.1fs)' % (leg['name'], x.distinct, x.generated, x.wall))
        allb = behs + sb
        c.log('%s: TLC %d distinct states / %d transitions, invariants hold (%.1fs); graph %d states, %d edges -> %d behaviours (+%d simulated)'
              % (leg['name'], r.distinct, r.generated, r.wall, len(nodes), len(edges), len(behs), len(sb)))
        leg['_behs'], leg['_r'], leg['_edges'], leg['_unc'], leg['_sim'] = allb, r, len(edges), unc, len(sb)

    # phase 2: replay on the real code, all legs concurrently
    def rep(leg):
        return c.run_harness_parallel(binp, harness_args(leg), leg['_behs'], name='c17a-' + leg['name'], procs=6, timeout=1500)
    with ThreadPoolExecutor(max_workers=len(legs)) as ex:
        results = list(ex.map(rep, legs))
    for leg, res in zip(legs, results):
        allb, r = leg['_behs'], leg['_r']
        if res['inconclusive']:
            c.inconclusive('%s: %s' % (leg['name'], '; '.join(res['inconclusive'][:3])))
        if res['behaviours'] != len(allb):
            c.inconclusive('%s: %d of %d behaviours replayed' % (leg['name'], res['behaviours'], len(allb)))
        for v in res['violations']:
            hits.append((leg, allb[v['behaviour']], v))
        tot['states'] += r.distinct; tot['transitions'] += r.generated; tot['behaviours'] += res['behaviours']
        tot['steps'] += res['steps']; tot['edges'] += leg['_edges']; tot['uncovered'] += leg['_unc']; tot['sim'] += leg['_sim']
        for k, v in res['stats'].items():
            if not k.startswith('sig '):
                stats[k] = stats.get(k, 0) + v
        for k, v in (r.coverage or {}).items():
            cover[k] = cover.get(k, 0) + v
        fault_pos += fault_positions(allb)
        legsum[leg['name']] = dict(states=r.distinct, transitions=r.generated, tlc_s=round(r.wall, 1), graph_edges=leg['_edges'], behaviours=len(allb),
                                   steps=res['steps'], violating_behaviours=res['stats'].get('violating_behaviours', 0),
                                   constants={k: leg[k] for k in ('layouts', 'chunk_sizes', 'modes', 'max_chunks', 'maxgap', 'maxbuf', 'max_msgs') if k in leg})
        samples += res['samples'][:1]
        allb_for_nontrivial += allb
        c.log('%s: %d behaviours / %d steps replayed, %d violating' % (leg['name'], res['behaviours'], res['steps'], res['stats'].get('violating_behaviours', 0)))

    # vacuity: every action of the spec must have been exercised (thorough tier runs with -coverage)
    if cover:
        dead = [a for a in ('SStart', 'RDeliver', 'SDeliver', 'Timeout', 'FCorrupt', 'FDrop', 'FDup', 'FDupLate', 'FTruncate', 'FRestart', 'FRespDrop', 'BStep')
                if cover.get(a, 0) == 0]
        if dead:
            c.inconclusive('vacuous: actions never taken: %s' % dead)

    # reproduce-before-report: each distinct signature is executed once more from scratch
    seen = set()
    for leg, b, v in hits:
        if v['signature'] in seen:
            continue
        seen.add(v['signature'])
        cut = b[: v['step'] + 1]
        obj = {'behaviour': cut, 'leg': {k: leg[k] for k in leg if not k.startswith('_')}, 'harness': 'c17a'}
        again = replay(c, binp, obj)
        if not [x for x in again['violations'] if x['signature'] == v['signature']]:
            c.unreproduced('violation %s (%s) not reproduced on a second run: %s' % (v['signature'], leg['name'], [x['signature'] for x in again['violations']]))
            continue
        c.report(v['signature'], '[%s] %s' % (leg['name'], v['detail']), obj)
    if hits:
        c.log('%d violating behaviours, %d distinct signatures (each re-executed before it was reported): %s' % (stats.get('violating_behaviours', 0), len(seen), sorted(seen)))

    # binding self-test: a corrupted expectation (the spec's last install removed) must be rejected by the replayer
    leg = legs[0]
    withinst = [b for b in leg['_behs'] if b[-1]['installs']][:24]
    st = c.run_harness_parallel(binp, harness_args(leg) + ['-mutate', 'installs'], withinst, name='selftest', procs=4)
    rejected = st['stats'].get('violating_behaviours', 0)
    selftest = len(withinst) > 0 and rejected == len(withinst)
    if not selftest:
        c.inconclusive('binding self-test failed: %d mutated expectations, %d rejected' % (len(withinst), rejected))
    sess = stats.get('session_observations', 0)
    if sess:
        st2 = c.run_harness_parallel(binp, harness_args(leg) + ['-mutate', 'exp'], withinst[:8], name='selftest2', procs=4)
        if st2['stats'].get('violating_behaviours', 0) == 0:
            c.inconclusive('binding self-test failed: a shifted expectedIndex was accepted')

    nontriv = core.nontrivial_count(allb_for_nontrivial, is_fault_or_anomaly)
    out = dict(states=tot['states'], transitions=tot['transitions'], traces_validated_against_impl=0,
               behaviours_replayed=tot['behaviours'], steps_replayed=tot['steps'], graph_edges=tot['edges'], graph_edges_uncovered=tot['uncovered'],
               simulated_behaviours=tot['sim'], exhaustive=(tot['uncovered'] == 0), evaluations=tot['behaviours'], distinct_nontrivial=nontriv,
               fault_positions_covered=fault_pos, session_state_observed=bool(sess),
               rule='fault schedules = an edge cover of the TLC state graph of ChunkedSync.tla per leg (config A: every single fault {bit flip, cut, drop, '
                    'duplicate, late duplicate, early stream end, receiver restart, lost response} at every message position, then one retry; config B: every '
                    'receiver state x every request of the alphabet {chunk i good/flipped/cut, chunk 0 with metadata, completion, end-of-stream}) plus -simulate '
                    'sequences for B; each replayed on the real pub client / sub server with the abstract state (installed parts and bytes, open part, '
                    'session indexes, in-flight messages, responses, sender result and kept parts) compared after every step, then driven to quiescence '
                    'and judged on the real end state; non-trivial = contains a fault step or a request that is not the next honest one',
               harness_stats=stats, legs=legsum, action_coverage=cover, binding_selftest_rejected=selftest,
               real_part_layout=dict(sizes=real, names=names), samples=samples[:4])
    c.assumptions += [
        'faults damage chunk data only (what the CRC32 covers); a flipped index / part id / size field is not modelled (gRPC framing, TLS)',
        'a lost message shows to the stop-and-wait sender as its context deadline; the receiver restart is a graceful one (stream context cancelled, TSDB re-opened from disk); kill -9 crash images are C04',
        'at-least-once: a transfer whose outcome the sender did not learn (lost completion response) is repeated and a complete, identical part may be installed once per receiver session; the spec allows that and nothing else',
        'buffer time-out (chunkBufferTimeout) is not exercised (set to 1h); version negotiation always compatible',
        'measure handler legs use the real measure callback and syncer code; stream/trace twins are not driven',
        'session state (expectedIndex, buffered chunks, open part) is compared only when fixes/hook-c17-sub-session.patch is applied to /repo; otherwise the responses carry it',
    ]
    return out


if __name__ == '__main__':
    c = core.Check('C17', 'fault_enumeration')
    c.setup()
    if c.replay:
        obj = json.load(open(c.replay))
        binp = c.gobuild('c17a')
        res = replay(c, binp, obj)
        for v in res['violations']:
            c.report(v['signature'], v['detail'], {k: obj[k] for k in ('behaviour', 'leg', 'harness')})
        c.cov.update(states=1, transitions=1, traces_validated_against_impl=0, evaluations=1, samples=[v['detail'] for v in res['violations']][:1])
        c.finish()
    r = run(c)
    c.cov.update(**r)
    c.finish()
