#!/usr/bin/env python3
"""C04 - a crash at any point recovers to a consistent durable prefix.

spec/CrashFS.tla (volatile vs durable POSIX-like file system, kill -9 and power-loss crash models) +
spec/TSTableCrash.tla (flush / merge / manifest publication / gc of one measure tsTable as coded, one action per
file-system operation, and the initTSTable/loadSnapshot recovery rules):
 1. design: TLC exhaustive over <=3 batches, <=1 merge, every crash point, both crash models - the invariants
    must hold for the intended protocol; the protocol AS PINNED is checked too and its counterexamples are
    HYPOTHESES (never verdicts);
 2. code -> spec: the syscall log of the real flush / merge / publication (pkg/fs tracer) is validated against
    spec/TSTableCrashTrace.tla, which also emits the oracle (acked prefix, durably covered batches, un-synced
    effects, dirty inodes) for every crash point; the harness' own bookkeeping must agree with it;
 3. fault enumeration on the real code: for EVERY index of the syscall log the kill -9 image, the in-flight
    variants and the power-loss images are materialised, the real initTSTable runs on each and all rows are
    read back; verdicts come only from here (each reproduced a second time from scratch)."""
import json, os, re, sys
from concurrent.futures import ThreadPoolExecutor
sys.path.insert(0, '/verif/tools')
from vf import core, tlc

c = core.Check('C04', 'fault_enumeration')
c.setup()
binp = c.gobuild('c04')

ALLFIX = '{"clean-root-tmp", "syncdir-before-metadata"}'
INVS = ['OpensWithoutError', 'RecoveredIsPrefix', 'DurablePrefixKept', 'NoTornFileServed', 'NoDanglingManifestEntryServed',
        'LeftoversCleaned', 'PendBounded']
PROPS = ['ManifestAfterParts', 'OldManifestDeletedAfterNewDurable', 'PartDeletedAfterSuccessorDurable']


def mc_cfg(batches=3, merges=1, files=('a',), tt=False, overlap=False, models=('kill9', 'powerloss'), fixes=ALLFIX,
           invs=INVS, props=PROPS, spec='Spec', post=None, maxpend=6, required=None):
    fs_ = '{%s}' % ', '.join('"%s"' % f for f in files)
    rq = fs_ if required is None else '{%s}' % ', '.join('"%s"' % f for f in required)
    s = 'SPECIFICATION %s\nCONSTANTS\n  DataFiles = %s\n  Required = %s\n  MaxBatches = %d\n  MaxMerges = %d\n' % (spec, fs_, rq, batches, merges)
    s += '  HasTT = %s\n  Overlap = %s\n  CrashModels = {%s}\n  MaxPend = %d\n  Fixes = %s\n' % (
        'TRUE' if tt else 'FALSE', 'TRUE' if overlap else 'FALSE', ', '.join('"%s"' % m for m in models), maxpend, fixes)
    if spec == 'Spec':
        s += 'VIEW View\n'
    if invs:
        s += 'INVARIANTS\n' + ''.join('  %s\n' % i for i in invs)
    if props:
        s += 'PROPERTIES\n' + ''.join('  %s\n' % p for p in props)
    if post:
        s += 'POSTCONDITION %s\n' % post
    return s


SHAPES = {'tagged': dict(series=2, rows=2, salt=c.seed, tagged=True), 'untagged': dict(series=2, rows=2, salt=c.seed, tagged=False)}


def harness(job, trace=True, timeout=1500):
    """job = dict(hist, shape, [only_k, only_variant, only_detail], max_subset)"""
    base = os.path.join(core.BUILD, 'out', 'c04-%d-%d' % (os.getpid(), job.get('id', 0)))
    cfg = dict(hist=job['hist'], shape=job['shape'], only_k=job.get('only_k', -1), only_variant=job.get('only_variant', ''),
               only_detail=job.get('only_detail', ''), max_subset=job.get('max_subset', 4), id=job.get('id', 0))
    args = ['-cfg', json.dumps(cfg)]
    if trace:
        args += ['-trace', base + '.trace', '-expect', base + '.expect']
    res = c.run_harness(binp, args, timeout=timeout)
    if trace:
        for k in ('trace', 'expect'):
            p = base + '.' + k
            res[k] = open(p).read() if os.path.exists(p) else ''
            if os.path.exists(p):
                os.remove(p)
    return res


VARIANT = {}


def validate(tag, trace_text, tagged, first_try_both=True):
    """TLC trace validation of one recorded run; returns (TLCResult, oracle lines)."""
    evs = [json.loads(l) for l in trace_text.splitlines() if l.strip()]
    files = sorted({e['nm']['f'] for e in evs if e['ev'] == 'sys' and e['nm']['k'] == 'data'})
    # which variant of the write protocol does the tree implement: as pinned, or with the part directory fsync'ed once more
    # before metadata.json is written?  (guess from the log; if the guess is rejected the other variant is tried)
    sysv = [e for e in evs if e['ev'] == 'sys']
    guess = any(b['op'] == 'create' and b['nm']['k'] == 'meta' and a['op'] == 'syncdir' and a['nm']['k'] == 'dir' and z['op'] != 'rename'
                for z, a, b in zip(sysv, sysv[1:], sysv[2:]))
    r = None
    for synced_first in (guess, not guess):
        if r is not None:
            tlc.cleanup(r)
        cfg = mc_cfg(batches=50, merges=50, files=files or ['meta.bin'], required=['meta.bin', 'primary.bin', 'timestamps.bin', 'fv.bin'],
                     tt=tagged, overlap=False, models=(), fixes='{"syncdir-before-metadata"}' if synced_first else '{}', invs=[], props=PROPS,
                     spec='TraceSpec', post='TraceAccepted', maxpend=64)
        r = tlc.run('TSTableCrashTrace.tla', 'tr.cfg', tag=tag + ('s' if synced_first else 'p'), files={'tr.cfg': cfg, 'trace.ndjson': trace_text},
                    workers=1, timeout=1200, keep=True)
        if r.ok:
            VARIANT['part directory fsynced before metadata.json' if synced_first else 'as pinned'] = VARIANT.get(
                'part directory fsynced before metadata.json' if synced_first else 'as pinned', 0) + 1
            break
        if not first_try_both:
            break
    oracle = []
    p = os.path.join(r.workdir, 'oracle.ndjson') if r.workdir else None
    if p and os.path.exists(p):
        oracle = [json.loads(l) for l in open(p).read().splitlines() if l.strip()]
    tlc.cleanup(r)
    return r, oracle, len(evs)


def canon(x):
    return json.dumps(x, sort_keys=True)


def same_oracle(oracle, expect_text):
    exp = [json.loads(l) for l in expect_text.splitlines() if l.strip()]
    if len(exp) != len(oracle):
        return 'oracle has %d entries, the harness recorded %d' % (len(oracle), len(exp))
    for i, (a, b) in enumerate(zip(oracle, exp)):
        for k in ('seq', 'acked', 'cover', 'pend', 'dirty'):
            x, y = a[k], b[k]
            if k in ('cover', 'dirty'):
                x, y = sorted(map(canon, x)), sorted(map(canon, y))
            if canon(x) != canon(y):
                return 'event %d (seq %s): %s differs: spec %s / harness %s' % (i, a['seq'], k, canon(a[k])[:300], canon(b[k])[:300])
    return None


def replay_obj(v, job):
    d = json.loads(v['detail'])
    return {'harness': 'c04', 'hist': job['hist'], 'shape': job['shape'], 'only_k': d['crash_index'], 'only_variant': d['image'],
            'only_detail': d['image_detail'], 'max_subset': job.get('max_subset', 4), 'crash_class': d['crash_class']}


if c.replay:
    obj = json.load(open(c.replay))
    res = harness(dict(hist=obj['hist'], shape=obj['shape'], only_k=obj['only_k'], only_variant=obj['only_variant'],
                       only_detail=obj['only_detail'], max_subset=obj.get('max_subset', 4)), trace=False)
    if res['inconclusive']:
        c.inconclusive('; '.join(res['inconclusive'][:3]))
    for v in res['violations']:
        c.report(v['signature'], v['detail'], {k: obj[k] for k in obj if k not in ('property', 'signature', 'detail', 'seed')})
    c.cov.update(states=0, transitions=0, traces_validated_against_impl=0, evaluations=res['stats'].get('images_recovered', 0),
                 distinct_nontrivial=res['stats'].get('nontrivial_images', 0), rule='replay of one crash image', samples=[obj.get('crash_class')])
    c.finish()

# ---------------- 1. design: TLC exhaustive ----------------
if c.quick:
    designs = [('d1', dict(batches=3, merges=1, files=('a',), tt=False, overlap=False), 4),
               ('d2', dict(batches=2, merges=1, files=('a',), tt=True, overlap=True, invs=[i for i in INVS if i != 'PendBounded']), 2)]
else:
    designs = [('d1', dict(batches=3, merges=1, files=('a', 'b'), tt=False, overlap=False), 5),
               ('d2', dict(batches=3, merges=1, files=('a',), tt=True, overlap=True, invs=[i for i in INVS if i != 'PendBounded']), 5)]
# the protocol as pinned (no repair): counterexamples are hypotheses for step 3, not verdicts
hyps = [('h-leftover', dict(batches=2, merges=0, files=('a',), tt=False, models=('kill9',), fixes='{}', invs=['LeftoversCleaned'], props=[]), 1),
        ('h-panic', dict(batches=2, merges=0, files=('a',), tt=False, models=('powerloss',), fixes='{"clean-root-tmp"}', invs=['OpensWithoutError'], props=[]), 1),
        ('h-panic-tt', dict(batches=2, merges=0, files=('a',), tt=True, models=('powerloss',), fixes='{"clean-root-tmp"}', invs=['OpensWithoutError'], props=[]), 1)]


def coverage_of(out):
    """per-action distinct-state counts from `-coverage` (TLC prints sub-actions of Next with their location only)"""
    spec_lines = open('/verif/spec/TSTableCrash.tla').read().split('\n')
    names = ['Write', 'StartFlush', 'StartMerge', 'SysStep', 'PwStep', 'Handoff', 'RmStep', 'Crash']
    cov = {}
    for m in re.finditer(r'^<(\w+) line \d+, col \d+ to line \d+, col \d+ of module TSTableCrash(?: \((\d+) \d+ \d+ \d+\))?>: (\d+):(\d+)', out, flags=re.M):
        name = m.group(1)
        if name == 'Next' and m.group(2):
            line = spec_lines[int(m.group(2)) - 1]
            name = next((n for n in names if n + '(' in line or line.strip().endswith(n)), 'Next')
        cov[name] = cov.get(name, 0) + int(m.group(3))
    return cov


def run_tlc(item):
    tag, kw, workers = item
    return tag, kw, tlc.run('TSTableCrash.tla', 'mc.cfg', tag='c04' + tag, files={'mc.cfg': mc_cfg(**kw)}, workers=workers,
                            coverage=(not c.quick and tag.startswith('d')), timeout=3000)


with ThreadPoolExecutor(max_workers=5) as ex:
    tl = list(ex.map(run_tlc, designs + hyps))
states = transitions = 0
design_runs = {}
action_cov = {}
hypotheses = {}
for tag, kw, r in tl:
    if tag.startswith('d'):
        if r.violated or r.error or r.timed_out:
            c.inconclusive('TLC on TSTableCrash.tla (%s, intended protocol): violated=%s error=%s timeout=%s\n%s' % (
                tag, r.violated, r.error, r.timed_out, r.output[-2500:]))
        states += r.distinct
        transitions += r.generated
        design_runs[tag] = dict(constants={k: (list(v) if isinstance(v, tuple) else v) for k, v in kw.items()}, distinct=r.distinct,
                                generated=r.generated, depth=r.depth, wall_s=round(r.wall, 1))
        for a, n in coverage_of(r.output).items():
            action_cov[a] = action_cov.get(a, 0) + n
        c.log('TLC %s %s: %d distinct states, %d transitions, depth %d, all invariants and action properties hold (%.0fs)' % (
            tag, json.dumps(kw), r.distinct, r.generated, r.depth, r.wall))
    else:
        if r.error or r.timed_out:
            c.inconclusive('TLC on TSTableCrash.tla (%s, protocol as pinned): error=%s timeout=%s\n%s' % (tag, r.error, r.timed_out, r.output[-1500:]))
        steps = [s.get('last', {}) for s in r.trace] if r.violated else []
        hypotheses[tag] = dict(invariant=kw['invs'][0], violated_by_pinned_protocol=bool(r.violated), counterexample_len=len(r.trace),
                               crash=(steps[-1] if steps else None), before_crash=(steps[-2] if len(steps) > 1 else None))
        c.log('TLC %s (protocol as pinned, %s): %s' % (tag, kw['invs'][0], 'counterexample of %d steps -> hypothesis' % len(r.trace) if r.violated else 'holds'))
if not c.quick and action_cov:
    need = ['Write', 'StartFlush', 'StartMerge', 'SysStep', 'PwStep', 'Handoff', 'RmStep', 'Crash']
    missing = [a for a in need if not action_cov.get(a)]
    if missing:
        c.inconclusive('vacuous model: actions never taken: %s' % missing)

# ---------------- 2+3. real code: record, enumerate every crash point ----------------
if c.quick:
    # 'Fww' / 'Fwwwwwww' / 'Mww': two / seven batches acknowledged while the flush / merge writes its files - the manifest it publishes names
    # parts that exist only in memory, the next round flushes all of them
    hists = [['W', 'W', 'F', 'W', 'M', 'F'], ['W', 'Fw', 'F', 'Mw', 'F'], ['W', 'Fwwwwwww', 'F']]
    subset = 4
else:
    hists = [['W', 'W', 'F', 'W', 'M', 'F'], ['W', 'Fw', 'F', 'Mw', 'F'], ['W', 'F', 'W', 'F', 'M', 'W', 'F'], ['W', 'W', 'W', 'F', 'M', 'W', 'Fw', 'M', 'F'],
             ['W', 'Fw', 'Fw', 'F', 'M', 'W', 'W', 'F', 'Mw', 'F', 'M'], ['W', 'Fww', 'F'], ['W', 'Fw', 'F', 'Mww', 'F', 'M']]
    subset = 6
# one seeded variation of the data shape
import random
rnd = random.Random(c.seed)
SHAPES['tagged'].update(series=rnd.randint(1, 3), rows=rnd.randint(1, 4))
SHAPES['untagged'].update(series=rnd.randint(1, 3), rows=rnd.randint(1, 4))
jobs = []
for h in hists:
    for sn in ('tagged', 'untagged'):
        jobs.append(dict(id=len(jobs), hist=h, shape=SHAPES[sn], max_subset=subset, shape_name=sn))
# the stream engine carries its own copy of the protocol (tstable.go / flusher.go / gc.go / merger.go): the same
# histories on a bare stream tsTable (harness/export/banyand/stream/zz_verif_export_crash.go)
for h in (hists[:2] if c.quick else hists[:4]):
    jobs.append(dict(id=len(jobs), hist=h, shape=dict(SHAPES['tagged'], engine='stream'), max_subset=subset, shape_name='stream'))
with ThreadPoolExecutor(max_workers=4) as ex:
    results = list(ex.map(harness, jobs))
stats = {}
for r in results:
    if r['inconclusive']:
        c.inconclusive('harness: ' + '; '.join(r['inconclusive'][:3]))
    if not r['stats'].get('syscalls'):
        c.inconclusive('the pkg/fs trace points are not in the tree (fixes/hook-fs.patch not applied): no file-system operation was logged')
    for k, v in r['stats'].items():
        if k in ('max_pending_effects', 'crash_classes', 'image_variants'):
            stats[k] = max(stats.get(k, 0), v)
        else:
            stats[k] = stats.get(k, 0) + v
if not stats.get('syscalls'):
    c.inconclusive('the pkg/fs trace points are not in the tree (fixes/hook-fs.patch not applied): no file-system operation was logged')
c.log('real code: %d histories x shapes, %d syscalls = %d crash points, %d images built, %d distinct images recovered with the real initTSTable' % (
    len(jobs), stats.get('syscalls', 0), stats.get('crash_points', 0), stats.get('images_built', 0), stats.get('images_recovered', 0)))

# code -> spec: every recorded syscall log must be a behaviour of the protocol spec; the oracle must equal the harness' bookkeeping
def val(i):
    return validate('c04t%d' % i, results[i]['trace'], jobs[i]['shape']['tagged'])
# (TSTableCrashTrace.tla follows the measure engine's file order inside a part directory - tag.type is written at another
#  point by the stream engine -, so the stream histories are decided by the fault enumeration only, not trace-validated)
njobs_all = len(jobs)
stream_jobs = [j for j in jobs if j['shape'].get('engine') == 'stream']
jobs = [j for j in jobs if j['shape'].get('engine') != 'stream']
with ThreadPoolExecutor(max_workers=4) as ex:
    vals = list(ex.map(val, range(len(jobs))))
traces_ok = 0
trace_events = 0
for i, (tv, oracle, nev) in enumerate(vals):
    if not tv.ok:
        if tv.timed_out or (tv.error and 'TraceAccepted' not in tv.output and not tv.violated and 'Deadlock' not in tv.output):
            c.inconclusive('trace validation failed to run: %s\n%s' % (tv.error, tv.output[-2000:]))
        evs = results[i]['trace'].splitlines()
        k = max(tv.depth - 1, 0)
        bad = evs[k] if k < len(evs) else ''
        prev = evs[max(0, k - 3):k]
        ev = json.loads(bad) if bad else {}
        sig = 'protocol-trace-rejected:%s:%s-%s' % (tv.violated or 'no-such-step', ev.get('op', '?'), (ev.get('nm') or {}).get('k', '?'))
        # a rejected trace is evidence about the code only if the same history is rejected again (the order in which the
        # code issues its operations may legitimately depend on nothing but the history: up to 5 further runs)
        seen_again = False
        for attempt in range(5):
            again = harness(jobs[i])
            tv2, _, _ = validate('c04tr%d' % i, again['trace'], jobs[i]['shape']['tagged'])
            if not tv2.ok and not tv2.timed_out:
                seen_again = True
                break
        if not seen_again:
            c.unreproduced('trace rejection not reproduced in 5 further runs (%s)' % sig)
            continue
        c.report(sig, 'the syscall log of the real flush/merge/publication is not a behaviour of TSTableCrash.tla: rejected at event %d %s (violated=%s); previous events: %s' % (
            k + 1, bad[:300], tv.violated, prev), {'harness': 'c04-trace', 'hist': jobs[i]['hist'], 'shape': jobs[i]['shape'], 'event': k + 1})
        continue
    diff = same_oracle(oracle, results[i]['expect'])
    if diff:
        c.inconclusive('the oracle emitted by TSTableCrashTrace.tla and the harness bookkeeping disagree (history %s, %s): %s' % (jobs[i]['hist'], jobs[i]['shape_name'], diff))
    traces_ok += 1
    trace_events += nev
    states += tv.distinct
    transitions += tv.generated
c.log('trace validation: %d/%d syscall traces (%d events) accepted by TSTableCrashTrace.tla; oracle == harness bookkeeping at every event' % (traces_ok, len(jobs), trace_events))

# binding self-test: a recorded trace with one fsync dropped / a rename moved before its fsync must be rejected
def mutate(text, how):
    evs = [json.loads(l) for l in text.splitlines()]
    if how == 'drop-data-fsync':
        idx = [i for i, e in enumerate(evs) if e['op'] == 'fsync' and e['nm']['k'] == 'data']
        del evs[idx[len(idx) // 2]]
    elif how == 'drop-manifest-fsync':
        idx = [i for i, e in enumerate(evs) if e['op'] == 'fsync' and e['nm']['k'] == 'snp']
        del evs[idx[-1]]
    elif how == 'rename-before-fsync':
        idx = [i for i, e in enumerate(evs) if e['op'] == 'fsync' and e['nm']['k'] == 'meta']
        i = idx[0]
        j = next(k for k in range(i + 1, len(evs)) if evs[k]['op'] == 'rename')
        evs[i], evs[j] = evs[j], evs[i]
    elif how == 'manifest-before-part':
        # the manifest tmp is created before the last part's metadata.json directory fsync
        i = next(k for k, e in enumerate(evs) if e['op'] == 'create' and e['nm']['k'] == 'snp')
        e = evs.pop(i)
        evs.insert(i - 1, e)
    return '\n'.join(json.dumps(e) for e in evs) + '\n'
muts = ['drop-data-fsync'] if c.quick else ['drop-data-fsync', 'drop-manifest-fsync', 'rename-before-fsync', 'manifest-before-part']
selftest = {}
if traces_ok:
    src = next(i for i, (tv, _, _) in enumerate(vals) if tv.ok)
    def st(m):
        r, _, _ = validate('c04m' + m[:6], mutate(results[src]['trace'], m), jobs[src]['shape']['tagged'])
        return m, r
    with ThreadPoolExecutor(max_workers=4) as ex:
        for m, r in ex.map(st, muts):
            selftest[m] = (not r.ok) and not r.timed_out
    if not all(selftest.values()):
        c.inconclusive('binding self-test failed: a corrupted syscall trace was accepted: %s' % selftest)
    c.log('binding self-test: corrupted traces rejected: %s' % selftest)

# verdicts: every violation is re-executed from scratch (same history, only that crash point and image) before it is reported
seen = {}
for i, r in enumerate(results):
    for v in r['violations']:
        seen.setdefault(v['signature'], (v, (jobs + stream_jobs)[i]))
reproduced = 0
for sig, (v, job) in sorted(seen.items()):
    ro = replay_obj(v, job)
    # re-executed from scratch (fresh table, same history, only this crash point / image): what the code does between two
    # crash points may depend on more than the history (e.g. an iteration order), so up to 6 attempts
    hit = False
    for attempt in range(6):
        again = harness(dict(hist=ro['hist'], shape=ro['shape'], only_k=ro['only_k'], only_variant=ro['only_variant'], only_detail=ro['only_detail'],
                             max_subset=ro['max_subset'], id=900 + attempt), trace=False)
        if [x for x in again['violations'] if x['signature'] == sig]:
            hit = True
            break
    if not hit:
        c.unreproduced('violation %s not reproduced in 6 further runs' % sig)
        continue
    reproduced += 1
    c.report(sig, v['detail'], ro)
for tag, h in hypotheses.items():
    h['reproduced_on_real_code'] = any((tag == 'h-leftover' and s.startswith('leftover-tmp')) or (tag == 'h-panic' and s.startswith('recovery-panics')) for s in seen)

samples = []
for r in results:
    samples += r['samples'][:1]
samples = samples[:4] + [results[0]['trace'].splitlines()[2:5]]
c.cov.update(
    states=states, transitions=transitions, traces_validated_against_impl=traces_ok, trace_events=trace_events,
    evaluations=stats.get('images_recovered', 0), distinct_nontrivial=stats.get('nontrivial_images', 0),
    rule='one evaluation = one DISTINCT crash image (by content hash, per history) materialised in a fresh directory, recovered by the real initTSTable and read back '
         'through the engine block readers; images are built at EVERY index of the syscall log of each history (kill -9 image; half-done write; part-way RemoveAll; '
         'power loss: all un-synced effects lost / all kept with un-synced data lost or torn / each single effect lost / each single effect kept / every subset when '
         '<= %d effects are pending); non-trivial = un-synced effects were pending at the crash point or the image is not the plain kill -9 one' % subset,
    histories=[j['hist'] for j in jobs[::2]], stream_engine_histories=[j['hist'] for j in stream_jobs], shapes=SHAPES, harness_stats=stats, design_runs=design_runs, action_coverage=action_cov,
    hypotheses_from_pinned_protocol=hypotheses, violations_reproduced=reproduced, binding_selftest_rejected=all(selftest.values()) if selftest else False,
    binding_selftests=selftest, exhaustive=True, write_protocol_variant_observed=VARIANT, observations={'stale_older_manifest_kept_after_recovery': stats.get('observation_stale_manifest_kept', 0)},
    samples=samples)
c.assumptions += [
    'file-system model (spec/CrashFS.tla): rename atomic; a dirent change (create, rename, unlink, mkdir, RemoveAll) is durable only after fsync of its directory and '
    'until then may or may not survive a power loss INDEPENDENTLY of the other pending changes (POSIX; stricter than ext4/xfs, whose journals keep the order inside one '
    'directory - every violation records possible_with_ordered_dirents); file data durable only after fsync(file), otherwise lost (truncated to the synced length) or '
    'torn (half of the un-synced bytes); fsync(file) does not persist the dirent; RemoveAll is not atomic',
    'kill -9 model: every completed operation survives; the operation in progress may be half done (write) or part-way (RemoveAll)',
    'a batch is acknowledged when mustAddDataPoints returns (mem part introduced); measure has no WAL, so the admissible recovered prefix is [batches covered by the last '
    'durably published manifest, acknowledged batches]; a single crash per run (no crash during recovery); bare tsTable with the real introducer loop, flush and merge '
    'stepped by the harness (Fw/Mw: a batch written while part files are being written); segment-level files and the bluge index directory are out of scope',
    'stale but readable older manifests left after recovery are counted as an observation, not as a violation (the property lists tmp files, orphan part directories and '
    'unreadable manifests)',
    'TLC bounds: %s' % json.dumps({k: v['constants'] for k, v in design_runs.items()}),
]
c.finish()
