"""Shared by C06 and C07: spec/Segments.tla families -> TLC exhaustive -> edge-cover + simulate behaviours ->
replay on the real storage.TSDB (harness stor -mode segments) in the family's time zone."""
import json, os, sys
sys.path.insert(0, '/verif/tools')
from vf import core, tlc

ORIGIN = '2026-03-07'          # hour 0 = local midnight of this date (standard time in both zones used)
ORIGIN_DAY = 20519             # days since 1970-01-01
NY = dict(tz='America/New_York', dstStart=26, dstEnd=5737)   # 2026-03-08 02:00 EST, 2026-11-01 02:00 EDT
UTC = dict(tz='UTC', dstStart=1, dstEnd=0)

INVARIANTS = ['NoOverlap', 'WellFormed', 'CreatedContainsTs', 'FiledInExactlyOne', 'InsideBucket', 'StartsOnGrid',
              'NeverDeleteYoung', 'TickNeverDeletesYoung', 'ForcedAtMostOldestNotLast', 'ExpiredInvisible', 'PartiallyExpiredVisible']
PROPS = ['BoundariesStable', 'OnlyGrows', 'RetentionOnlyRemovesExpired']


def tset(xs):
    return '{' + ', '.join(str(x) for x in sorted(xs)) + '}'


def family_files(fam):
    legacy = '{' + ', '.join('{' + ', '.join('[s |-> %d, e |-> %d]' % (a, b) for a, b in ls) + '}' for ls in fam['legacy']) + '}'
    ranges = '{' + ', '.join('<<%d, %d>>' % (a, b) for a, b in fam['ranges']) + '}'
    mc = '---- MODULE MCSeg ----\nEXTENDS Segments\nMCLegacy == %s\nMCRanges == %s\n====\n' % (legacy, ranges)
    z = fam['zone']
    cfg = 'SPECIFICATION Spec\nCONSTANTS\n  Unit = "%s"\n  Nums = %s\n  InitNum = %d\n  TTL = %d\n  DstStart = %d\n  DstEnd = %d\n' % (
        fam['unit'], tset(fam['nums']), fam['init'], fam['ttl'], z['dstStart'], z['dstEnd'])
    cfg += '  OriginDay = %d\n  Times = %s\n  Clocks = %s\n  Legacy <- MCLegacy\n  Ranges <- MCRanges\n  Ops = {%s}\n  MaxOps = %%d\n' % (
        ORIGIN_DAY, tset(fam['times']), tset(fam['clocks']), ', '.join('"%s"' % o for o in fam['ops']))
    cfg += 'INVARIANTS\n' + ''.join('  %s\n' % i for i in INVARIANTS) + 'PROPERTIES\n' + ''.join('  %s\n' % p for p in PROPS)
    return mc, cfg


def run_families(c, families, binp, nontrivial_ops):
    tot = dict(states=0, transitions=0, behaviours=0, steps=0, edges=0, uncovered=0, sims=0)
    samples, stats, allb_count, nontriv = [], {}, 0, 0
    cover = {}
    for fam in families:
        mc, cfg = family_files(fam)
        depth = fam['maxops']
        # 1. design: exhaustive, history variable hidden
        r = tlc.run('MCSeg.tla', 'mc.cfg', tag='seg', files={'MCSeg.tla': mc, 'mc.cfg': cfg % depth + 'VIEW View\n'}, coverage=not c.quick, timeout=1500)
        if r.violated or r.error or r.timed_out:
            c.inconclusive('TLC on Segments.tla family %s: violated=%s error=%s timeout=%s\n%s' % (fam['name'], r.violated, r.error, r.timed_out, r.output[-1500:]))
        tot['states'] += r.distinct
        tot['transitions'] += r.generated
        for k, v in r.coverage.items():
            cover[k] = cover.get(k, 0) + v
        # 2. behaviours: edge cover of the labelled graph at a smaller depth + deeper random ones
        gd = fam.get('graphops', depth - 1)
        g = tlc.run('MCSeg.tla', 'g.cfg', tag='segg', files={'MCSeg.tla': mc, 'g.cfg': cfg % gd}, dump=True, timeout=1500)
        if not g.ok:
            c.inconclusive('graph dump failed for %s: %s' % (fam['name'], g.error or g.violated))
        nodes, edges, inits = tlc.graph(g)
        behs, unc = tlc.cover_edges(nodes, edges, inits, max_len=gd + 1)
        tlc.cleanup(g)
        s = tlc.run('MCSeg.tla', 's.cfg', tag='segs', files={'MCSeg.tla': mc, 's.cfg': cfg % (depth + 6)},
                    simulate={'num': fam.get('sims', 150) * (1 if c.quick else 8)}, depth=depth + 7, seed=c.seed, timeout=600)
        sb = tlc.sim_behaviours(s)
        tlc.cleanup(s)
        allb = behs + sb
        tot['edges'] += len(edges)
        tot['uncovered'] += unc
        tot['sims'] += len(sb)
        c.log('family %-28s TLC %6d states; graph %5d edges -> %5d behaviours (+%d simulated)' % (fam['name'], r.distinct, len(edges), len(behs), len(sb)))
        # 3. replay in the family's zone
        z = fam['zone']
        hcfg = dict(unit=fam['unit'], initNum=fam['init'], ttl=fam['ttl'], dstStart=z['dstStart'], dstEnd=z['dstEnd'], origin=ORIGIN)
        res = c.run_harness_parallel(binp, ['-mode', 'segments', '-cfg', json.dumps(hcfg)], allb, name='seg-' + fam['name'], procs=12, env={'TZ': z['tz']}, timeout=1500)
        if res['inconclusive']:
            c.inconclusive('; '.join(res['inconclusive'][:3]))
        seen = set()
        for v in res['violations']:
            if v['signature'] in seen:
                continue
            seen.add(v['signature'])
            b = allb[v['behaviour']][: v['step'] + 1]
            f2 = c.write_behaviours('repro', [b])
            again = c.run_harness(binp, ['-mode', 'segments', '-in', f2, '-cfg', json.dumps(hcfg)], env={'TZ': z['tz']})
            os.remove(f2)
            if not [x for x in again['violations'] if x['signature'] == v['signature']]:
                c.unreproduced('violation %s (family %s) not reproduced on a second run' % (v['signature'], fam['name']))
                continue
            c.report(v['signature'] + ':' + z['tz'], v['detail'],
                     {'behaviour': b, 'harness': 'stor/segments', 'cfg': hcfg, 'tz': z['tz'], 'family': fam['name']})
        tot['behaviours'] += res['behaviours']
        tot['steps'] += res['steps']
        for k, v in res['stats'].items():
            stats[k] = stats.get(k, 0) + v
        nontriv += core.nontrivial_count(allb, lambda st: len({x['last'].get('op') for x in st[1:]} & nontrivial_ops) >= 2)
        if allb:
            samples.append({'family': fam['name'], 'ops': [x['last'] for x in allb[len(allb) // 2][1:]]})
    return tot, stats, samples, nontriv, cover


def replay_one(c, binp):
    obj = json.load(open(c.replay))
    f = c.write_behaviours('replay', [obj['behaviour']])
    res = c.run_harness(binp, ['-mode', 'segments', '-in', f, '-cfg', json.dumps(obj['cfg'])], env={'TZ': obj['tz']})
    os.remove(f)
    for v in res['violations']:
        c.report(v['signature'] + ':' + obj['tz'], v['detail'], {'behaviour': obj['behaviour'], 'harness': 'stor/segments', 'cfg': obj['cfg'], 'tz': obj['tz']})
    c.cov.update(states=1, transitions=1, traces_validated_against_impl=0, samples=[obj['behaviour'][-1]])
    c.finish()
