#!/usr/bin/env python3
"""C03 - flush and merge never change what queries return (measure and stream engines)."""
import sys
sys.path.insert(0, '/verif/tools'); sys.path.insert(0, '/verif/checks')
from vf import core
import engcommon as ec

c = core.Check('C03', 'model_checking')
c.setup()
binp = c.gobuild('eng')
if c.replay:
    ec.replay_one(c, binp)

fams = [
    # every subset of file parts merged, fan-in 2..4, queries before/after each maintenance step
    dict(name='measure-merge-subsets', series=[1, 2], times=[1, 2], versions=[1, 2], versioned=True, maxrows=1, maxtotal=4,
         maxops=6 if c.quick else 9, graphops=0, sims=220 if c.quick else 2000, simops=12),
    dict(name='measure-merge-batches', series=[1, 2], times=[1, 2], versions=[1, 2], versioned=True, maxrows=2, maxtotal=4,
         maxops=4 if c.quick else 7, graphops=0, sims=60 if c.quick else 1000, simops=12, sim=dict(times=[1, 2, 3], maxtotal=6)),
]
# ---- big blocks and big parts ("ballast", see harness/pkg/eng/main.go): the abstract rows of Engine.tla stay few, every
# write batch additionally carries (deep) 300 rows of ONE series with a high-cardinality string tag - blocks of hundreds of
# rows, columns that leave the dictionary encoding, fan-in 2 and 3 for one series - or (wide) one row in each of 3000 extra
# series - parts with thousands of blocks and several primary index blocks.  Ballast is verified by every covering query.
from engcommon import leaf, crit, query
def fan_in(b):
    for st in b[1:]:
        if st['last'].get('op') == 'merge':
            return 'fan-in-%d' % len(st['last']['inputs'])
    return None
WQ = [query(lo, hi, [1, 2, 3], crit('one', leaf())) for lo, hi in ((1, 1), (3, 3), (1, 3), (2, 2), (1, 2), (2, 3))]
W3 = ['write', 'flush', 'write', 'flush', 'write', 'flush', 'merge']
W2 = ['write', 'flush', 'write', 'flush', 'merge', 'queryall']
nb = 1 if c.quick else 4
fams += [
    dict(name='measure-merge-deep-blocks', series=[1, 2], times=[1, 2, 3], versions=[1], versioned=True, maxrows=1, maxtotal=3, maxops=7, graphops=0,
         sims=200, simops=7, script=W3, ballast=300, ballast_mode='deep', select=fan_in, per_class=6 * nb, procs=1),
    dict(name='measure-merge-wide-parts', series=[1, 2, 3], times=[1, 2, 3], versions=[1], versioned=True, maxrows=1, maxtotal=2, maxops=6, graphops=0,
         sims=8 * nb, simops=6, script=W2, queries=WQ, ballast=3000, ballast_mode='wide', sim=dict(maxrows=2, maxtotal=4), procs=2),
]
def nontrivial(st):
    ops = [x['last'].get('op') for x in st[1:]]
    return 'merge' in ops
import stream_fams
fams += stream_fams.c03(c)
import trace_fams
fams += trace_fams.c03(c)
fams += [
    stream_fams._fam(name='stream-merge-deep-blocks', series=[1, 2], times=[1, 2, 3], maxrows=1, maxtotal=3, maxops=7, sims=200, simops=7,
                     script=W3, ballast=300, ballast_mode='deep', select=fan_in, per_class=8 * nb, procs=1),
    stream_fams._fam(name='stream-merge-wide-parts', series=[1, 2, 3], times=[1, 2, 3], maxrows=1, maxtotal=2, maxops=6, sims=6 * nb, simops=6,
                     script=W2, queries=WQ, ballast=3000, ballast_mode='wide', sim=dict(maxrows=2, maxtotal=4), procs=2),
]
tot, stats, samples, nontriv, cover = ec.run_families(c, fams, binp, nontrivial)
c.cov.update(states=tot['states'], transitions=tot['transitions'], traces_validated_against_impl=0,
             behaviours_replayed=tot['behaviours'], steps_replayed=tot['steps'], simulated_behaviours=tot['sims'],
             evaluations=tot['behaviours'], distinct_nontrivial=nontriv,
             rule='-simulate behaviours of Engine.tla with write/flush/merge(any subset of file parts) steps; the flush and the merge of the TLC-chosen parts are executed by the real flusher/merger code inside a running stand-alone server and after EVERY step the covering query result (and the part layout: ids, mem/file, row counts) must equal the spec; non-trivial = contains a merge',
             harness_stats=stats, action_coverage=cover, samples=samples)
c.assumptions += ['measure and stream engines over gRPC; the ordered secondary index is covered by the sidx component of C09', 'one shard, one segment', 'big blocks / parts through ballast rows (300 per series, 3000 series per batch), not through the spec rows']
c.finish()
