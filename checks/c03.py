#!/usr/bin/env python3
"""C03 - flush and merge never change what queries return (measure engine + ordered secondary index)."""
import sys
sys.path.insert(0, '/verif/tools'); sys.path.insert(0, '/verif/checks')
from vf import core
import engcommon as ec

c = core.Check('C03', 'model_checking')
c.setup()
binp = c.gobuild('eng')
if c.replay:
    ec.replay_one(c, binp)

fams = [
    # every subset of file parts merged, fan-in 2..4, queries before/after each maintenance step
    dict(name='measure-merge-subsets', series=[1, 2], times=[1, 2], versions=[1, 2], versioned=True, maxrows=1, maxtotal=4,
         maxops=6 if c.quick else 9, graphops=0, sims=220 if c.quick else 2000, simops=12),
    dict(name='measure-merge-batches', series=[1, 2], times=[1, 2], versions=[1, 2], versioned=True, maxrows=2, maxtotal=4,
         maxops=4 if c.quick else 7, graphops=0, sims=100 if c.quick else 1000, simops=12, sim=dict(times=[1, 2, 3], maxtotal=6)),
]
def nontrivial(st):
    ops = [x['last'].get('op') for x in st[1:]]
    return 'merge' in ops
import stream_fams
fams += stream_fams.c03(c)
tot, stats, samples, nontriv, cover = ec.run_families(c, fams, binp, nontrivial)
c.cov.update(states=tot['states'], transitions=tot['transitions'], traces_validated_against_impl=0,
             behaviours_replayed=tot['behaviours'], steps_replayed=tot['steps'], simulated_behaviours=tot['sims'],
             evaluations=tot['behaviours'], distinct_nontrivial=nontriv,
             rule='-simulate behaviours of Engine.tla with write/flush/merge(any subset of file parts) steps; the flush and the merge of the TLC-chosen parts are executed by the real flusher/merger code inside a running stand-alone server and after EVERY step the covering query result (and the part layout: ids, mem/file, row counts) must equal the spec; non-trivial = contains a merge',
             harness_stats=stats, action_coverage=cover, samples=samples)
c.assumptions += ['measure engine over gRPC; the ordered secondary index is covered by the sidx component when registered', 'one shard, one segment']
c.finish()
