#!/usr/bin/env python3
"""C16 - shard and node placement is deterministic and replica-disjoint.

spec/Placement.tla (TLC, exhaustive within bounds) -> every transition of the state graph replayed on the
real roundRobinSelector behind the real clusterNodeService; spec/Routing.tla <- Route traces recorded from
two separate coordinator processes (trace validation)."""
import json, os, sys
sys.path.insert(0, '/verif/tools')
from vf import core, tlc

c = core.Check('C16', 'model_checking')
c.setup()
binp = c.gobuild('c16')

if c.replay:
    obj = json.load(open(c.replay))
    f = c.write_behaviours('replay', [obj['behaviour']])
    res = c.run_harness(binp, ['-mode', 'replay', '-in', f])
    for v in res['violations']:
        c.report(v['signature'], v['detail'], {'behaviour': obj['behaviour'], 'harness': 'c16'})
    c.cov.update(states=1, transitions=1, traces_validated_against_impl=0, samples=[obj['behaviour']])
    c.finish()

# ---- 1. design: TLC exhaustive ----
consts = dict(ev=4, nodes='{1, 2, 3}', groups='{1, 2}', shards=3) if c.quick else dict(ev=5, nodes='{1, 2, 3, 4}', groups='{1, 2}', shards=3)
cfg = '''SPECIFICATION Spec
CONSTANTS
  Groups = %(groups)s
  Nodes = %(nodes)s
  MaxShards = %(shards)d
  MaxReplicas = 1
  MaxEvents = %(ev)d
INVARIANTS
  Total
  Functional
  ReplicaDisjoint
  Confluent
  Balanced
''' % consts
# exhaustive invariant check without the history variable (VIEW) at the deeper bound
r = tlc.run('Placement.tla', 'mc.cfg', tag='c16mc', files={'mc.cfg': cfg + 'VIEW View\n'}, coverage=not c.quick, timeout=1500)
if r.violated or r.error or r.timed_out:
    c.inconclusive('TLC on Placement.tla: violated=%s error=%s timeout=%s\n%s' % (r.violated, r.error, r.timed_out, r.output[-1500:]))
states, transitions = r.distinct, r.generated
c.log('TLC Placement: %d distinct states, %d transitions, invariants hold (%.1fs)' % (r.distinct, r.generated, r.wall))
cover = r.coverage

# state graph with event labels for replay (smaller bound: every edge becomes an implementation step)
gconsts = dict(consts)
gconsts['ev'] = 3 if c.quick else 4
gcfg = cfg.replace('MaxEvents = %d' % consts['ev'], 'MaxEvents = %d' % gconsts['ev'])
g = tlc.run('Placement.tla', 'g.cfg', tag='c16g', files={'g.cfg': gcfg}, dump=True, timeout=1500)
if not g.ok:
    c.inconclusive('TLC graph dump failed: %s' % (g.error or g.violated))
nodes, edges, inits = tlc.graph(g)
behs, uncovered = tlc.cover_edges(nodes, edges, inits, max_len=gconsts['ev'] + 1)
tlc.cleanup(g)
c.log('state graph: %d states, %d edges -> %d behaviours (uncovered edges: %d)' % (len(nodes), len(edges), len(behs), uncovered))
# deeper random behaviours
sim = tlc.run('Placement.tla', 's.cfg', tag='c16s', files={'s.cfg': cfg.replace('MaxEvents = %d' % consts['ev'], 'MaxEvents = 14')},
              simulate={'num': 300 if c.quick else 3000}, depth=15, seed=c.seed, timeout=600)
sb = tlc.sim_behaviours(sim)
tlc.cleanup(sim)
# many shards: three groups of up to 8 shards (sorting / searching code switches algorithm with the number of entries)
big = cfg.replace('MaxEvents = %d' % consts['ev'], 'MaxEvents = 12').replace('Groups = %s' % consts['groups'], 'Groups = {1, 2, 3}').replace(
    'MaxShards = %d' % consts['shards'], 'MaxShards = 8')
sim2 = tlc.run('Placement.tla', 's2.cfg', tag='c16s2', files={'s2.cfg': big}, simulate={'num': 150 if c.quick else 1500}, depth=13, seed=c.seed + 1, timeout=600)
sb2 = tlc.sim_behaviours(sim2)
tlc.cleanup(sim2)
if not sb2:
    c.inconclusive('TLC -simulate with many shards produced no behaviours: %s' % (sim2.error or sim2.output[-500:]))
sb += sb2
allb = behs + sb
f = c.write_behaviours('graph', allb)
res = c.run_harness(binp, ['-mode', 'replay', '-in', f], timeout=1200)
if res.get('inconclusive'):
    c.inconclusive('; '.join(res['inconclusive']))
# reproduce each violation once more from scratch before reporting
seen = set()
for v in res['violations']:
    key = v['signature']
    if key in seen:
        continue
    seen.add(key)
    b = allb[v['behaviour']]
    f2 = c.write_behaviours('repro', [b])
    again = c.run_harness(binp, ['-mode', 'replay', '-in', f2])
    if not again['violations']:
        c.unreproduced('violation %s not reproduced' % key)
        continue
    c.report(v['signature'], v['detail'], {'behaviour': b[: v['step'] + 1], 'harness': 'c16'})
os.remove(f)

# ---- 2. code -> spec: routing traces from two coordinator processes ----
n = 150 if c.quick else 1500
tr = []
for coord in ('A', 'B'):
    tp = os.path.join(core.BUILD, 'out', 'c16-route-%s-%d.ndjson' % (coord, os.getpid()))
    rr = c.run_harness(binp, ['-mode', 'route', '-coord', coord, '-n', str(n), '-trace', tp, '-wseed', str(c.seed)])
    lines = open(tp).read().splitlines()
    os.remove(tp)
    tr.append(lines)
# interleave the two processes' events (any merge is a legal observation: the events are independent calls)
merged = [x for pair in zip(*tr) for x in pair]
tv = tlc.run('RoutingTrace.tla', 'RoutingTrace.cfg', tag='c16t', files={'trace.ndjson': '\n'.join(merged) + '\n'}, workers=1, timeout=600)
trace_ok = tv.ok
if not tv.ok:
    if tv.error and 'TraceAccepted' not in tv.output and not tv.violated:
        c.inconclusive('trace validation failed to run: %s\n%s' % (tv.error, tv.output[-1500:]))
    # rejected: find the longest accepted prefix
    import re
    m = re.search(r'The depth of the complete state graph search is (\d+)', tv.output)
    k = int(m.group(1)) - 1 if m else 0
    badline = merged[k] if k < len(merged) else ''
    c.report('route-not-a-pure-function', 'routing trace rejected by Routing.tla at event %d: %s (violated=%s)' % (k + 1, badline, tv.violated),
             {'trace_prefix': merged[: k + 1][-50:], 'harness': 'c16-route'})
# binding self-test: corrupt one recorded shard -> the trace must be rejected
mut = list(merged)
e = json.loads(mut[-1]); e['shard'] = (e['shard'] + 1) % max(e['shards'], 2) if e['shards'] > 1 else 7
mut[-1] = json.dumps(e)
st = tlc.run('RoutingTrace.tla', 'RoutingTrace.cfg', tag='c16t2', files={'trace.ndjson': '\n'.join(mut) + '\n'}, workers=1, timeout=600)
selftest = (not st.ok)
if not selftest:
    c.inconclusive('binding self-test failed: a corrupted Route event was accepted')

nontriv = core.nontrivial_count(allb, lambda st: any(s['last'].get('op') in ('addnode', 'delnode') for s in st[1:]) and any(s['last'].get('op') in ('group', 'delgroup', 'reinit') for s in st[1:]))
c.cov.update(
    states=states, transitions=transitions, traces_validated_against_impl=2 if trace_ok else 0,
    behaviours_replayed=res['behaviours'], steps_replayed=res['steps'], graph_edges=len(edges), graph_edges_uncovered=uncovered,
    exhaustive=(uncovered == 0), evaluations=res['behaviours'], distinct_nontrivial=nontriv,
    rule='behaviours = an edge cover of the TLC state graph (MaxEvents=%d) plus %d -simulate behaviours of depth 15; non-trivial = contains both a node event and a group event; distinct by full state sequence' % (gconsts['ev'], len(sb)),
    harness_stats=res['stats'], route_events=len(merged), binding_selftest_rejected=selftest,
    tlc_constants=consts, action_coverage=cover,
    samples=[[s['last'] for s in allb[len(allb) // 2][1:]], [s['last'] for s in allb[-1][1:]], merged[:2]],
)
c.assumptions += ['node/group names are mapped monotonically (byte order = model integer order)',
                  'the hash function itself is not modelled: Routing.tla fixes a key\'s shard at first sight and demands agreement afterwards (two OS processes)',
                  'TLC bounds: %s' % json.dumps(consts)]
c.finish()
