#!/usr/bin/env python3
"""Runs the repository's pinned baseline (the command of /root/.vp/BASELINE.json) with the verif guard OFF
(no build tag, no overlay) and checks that every stable-pass test still passes."""
import json, os, subprocess, sys
b = json.load(open('/root/.vp/BASELINE.json'))
env = dict(os.environ); env['GOFLAGS'] = '-mod=mod'; env['GOPROXY'] = 'off'
env.pop('GOTOOLCHAIN', None); env.pop('GOSUMDB', None)
p = subprocess.run(['go', 'test', '-mod=mod', '-json', '-vet=off', '-count=1', '-timeout', '25m', './...'], cwd='/repo', env=env,
                   stdout=subprocess.PIPE, stderr=subprocess.DEVNULL, text=True)
passed, failed = set(), set()
for line in p.stdout.splitlines():
    if not line.startswith('{'):
        continue
    try:
        ev = json.loads(line)
    except Exception:
        continue
    if ev.get('Test') is None or ev.get('Action') not in ('pass', 'fail'):
        continue
    (passed if ev['Action'] == 'pass' else failed).add(ev['Package'] + '::' + ev['Test'])
passed -= failed
want = set(b['stable_pass'])
missing = sorted(want - passed)
print('baseline (guard off): %d/%d stable tests pass, %d failed tests overall' % (len(want & passed), len(want), len(failed)))
for t in missing[:30]:
    print('  NOT PASSING:', t)
sys.exit(0 if not missing else 1)
