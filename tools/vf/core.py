"""Check framework: tiers, seeds, build of the Go harness inside /repo's module (overlay), harness
runs, verdict discipline (0 held / 1 VIOLATION / 2 inconclusive), known findings, evidence."""
import argparse
import hashlib
import json
import os
import re
import subprocess
import sys
import time
import itertools

_ctr = itertools.count()

VERIF = '/verif'
# The registered checks always run on /repo with /verif/.build and /verif/evidence.  The three overrides exist for
# tools/seedrun.sh only: a seeded change is evaluated in a scratch worktree with its own build and evidence
# directories, so that /repo stays untouched while other checks run.
REPO = os.environ.get('VERIF_REPO', '/repo')
BUILD = os.environ.get('VERIF_BUILD', os.path.join(VERIF, '.build'))
OVERLAY = os.path.join(BUILD, 'overlay.json')
EVID = os.environ.get('VERIF_EVID', os.path.join(VERIF, 'evidence'))
REPLAYS = os.path.join(EVID, 'replays')
KNOWN = os.path.join(VERIF, 'known_findings.json')
HARNESS_PKG = 'github.com/apache/skywalking-banyandb/banyand/verifharness/'


def goenv():
    e = dict(os.environ)
    e['GOFLAGS'] = '-mod=mod'
    e['GOPROXY'] = 'off'
    e.pop('GOTOOLCHAIN', None)
    e.pop('GOSUMDB', None)
    return e


class Inconclusive(Exception):
    pass


def _hook(tp, val, tb):
    # an internal error of the machinery is never a verdict about the code: exit 2
    import traceback
    traceback.print_exception(tp, val, tb)
    print('INCONCLUSIVE: internal error in the check machinery', flush=True)
    os._exit(2)


sys.excepthook = _hook


class Check:
    def __init__(self, pid, level, argv=None, design_ref=''):
        ap = argparse.ArgumentParser()
        ap.add_argument('--tier', default=os.environ.get('VERIF_TIER', 'quick'))
        ap.add_argument('--replay', default=None)
        a = ap.parse_args(argv)
        self.pid = pid
        self.level = level
        self.tier = a.tier if a.tier in ('quick', 'thorough') else 'quick'
        self.replay = a.replay
        try:
            self.seed = int(os.environ.get('VERIF_SEED', '1'))
        except ValueError:
            self.seed = 1
        self.t0 = time.time()
        self.violations = []
        self.known_hits = []
        self.unrepro = []
        self.notes = []
        self.cov = {}
        self.assumptions = []
        os.makedirs(REPLAYS, exist_ok=True)
        self._janitor()
        if not self.replay:
            for f in os.listdir(REPLAYS):
                if f.startswith(pid + '-'):
                    os.remove(os.path.join(REPLAYS, f))
        try:
            self.known = json.load(open(KNOWN))
        except Exception:
            self.known = {'findings': [], 'fixed': []}

    @staticmethod
    def _janitor():
        """The in-process servers are left through os.Exit (their close function takes 30 s), so their temp directories
        stay behind: remove scratch directories of harness runs that ended long ago."""
        import shutil, tempfile
        now = time.time()
        td = tempfile.gettempdir()
        try:
            names = os.listdir(td)
        except OSError:
            return
        for n in names:
            if n.startswith(('banyandb-test-', 'verif-', 'banyandb-')):
                p = os.path.join(td, n)
                try:
                    if now - os.path.getmtime(p) > 5400:
                        shutil.rmtree(p, ignore_errors=True)
                except OSError:
                    pass

    @property
    def quick(self):
        return self.tier == 'quick'

    def log(self, *a):
        print('[%s %6.1fs]' % (self.pid, time.time() - self.t0), *a, flush=True)

    # ---------- build ----------
    def setup(self):
        p = subprocess.run([os.path.join(VERIF, 'setup.sh')], stdout=subprocess.PIPE, stderr=subprocess.STDOUT, text=True, env=goenv())
        if p.returncode != 0:
            self.inconclusive('setup failed:\n' + p.stdout[-3000:])

    def gobuild(self, name, race=False, test=False):
        """Build harness package /verif/harness/pkg/<name> inside /repo's module."""
        out = os.path.join(BUILD, 'bin', name + ('.race' if race else ''))
        pkg = './banyand/verifharness/' + name
        if test:
            cmd = ['go', 'test', '-c', '-vet=off']
        else:
            cmd = ['go', 'build']
        cmd += ['-tags', 'verif', '-overlay', OVERLAY, '-o', out]
        if race:
            cmd.append('-race')
        cmd.append(pkg)
        t = time.time()
        p = subprocess.run(cmd, cwd=REPO, stdout=subprocess.PIPE, stderr=subprocess.STDOUT, text=True, env=goenv())
        if p.returncode != 0:
            self.inconclusive('harness %s does not build against the current tree:\n%s' % (name, p.stdout[-4000:]))
        self.log('built %s in %.1fs' % (name, time.time() - t))
        return out

    def run_harness(self, binary, args, timeout=900, env=None, stdin=None, allow_crash=False):
        """Runs a harness binary; it must write a JSON result to the path given by -out."""
        outp = os.path.join(BUILD, 'out', '%s-%d-%d-%d.json' % (self.pid, os.getpid(), int(time.time() * 1e3) % 10**9, next(_ctr)))
        os.makedirs(os.path.dirname(outp), exist_ok=True)
        e = goenv()
        e['VERIF_SEED'] = str(self.seed)
        e.update(env or {})
        try:
            p = subprocess.run([binary] + args + ['-out', outp], stdout=subprocess.PIPE, stderr=subprocess.STDOUT,
                               text=True, timeout=timeout, env=e, cwd=BUILD, input=stdin)
        except subprocess.TimeoutExpired:
            self.inconclusive('harness %s timed out after %ds' % (os.path.basename(binary), timeout))
        if not os.path.exists(outp) and allow_crash:
            return {'_crash': p.stdout, '_rc': p.returncode}
        if not os.path.exists(outp):
            self.inconclusive('harness %s produced no result (rc=%d):\n%s' % (os.path.basename(binary), p.returncode, p.stdout[-4000:]))
        try:
            res = json.load(open(outp))
        finally:
            os.remove(outp)
        for k in ('violations', 'inconclusive', 'samples'):
            if res.get(k) is None:
                res[k] = []
        if res.get('stats') is None:
            res['stats'] = {}
        res['_stdout'] = p.stdout[-2000:]
        res['_rc'] = p.returncode
        return res

    # ---------- crashes of the system under replay ----------
    @staticmethod
    def _server_panic(stdout):
        """If the process died from a Go panic / fatal error whose panicking goroutine is running code of /repo (not the
        harness, not the runtime alone), returns a short signature, else None."""
        m = re.search(r'^(panic: |fatal error: )(.*)$', stdout, flags=re.M)
        if not m:
            return None
        tail = stdout[m.start():]
        g = re.search(r'^goroutine \d+ [^\n]*\n((?:.+\n)+)', tail, flags=re.M)
        if not g:
            return None
        frames = re.findall(r'^(\S[^\n]*)\n\t(/\S+?):\d+', g.group(1), flags=re.M)
        for fn, path in frames:
            if path.startswith('/verif/') or '/verifharness/' in path:
                return None                     # the harness itself is on top: a harness bug, not a verdict
            if path.startswith(REPO + '/') and '/pkg/logger/' not in path:
                fn = re.sub(r'\([^()]*\)$', '', fn).replace('github.com/apache/skywalking-banyandb/', '')
                return fn
        return None

    def _run_chunk(self, binary, args, chunk, path, name, timeout, env):
        """One harness process over one chunk of behaviours.  When the process dies because the real code panics, the
        behaviour that was being replayed is re-run alone: a panic that reproduces is a violation (reported with that
        behaviour as the replay), the behaviours after it are then run in a fresh process."""
        results = []
        todo = list(chunk)
        f = path
        crashes = 0
        server_retried = False
        while todo:
            prog = f + '.progress'
            e = dict(env or {})
            e['VERIF_PROGRESS'] = prog
            r = self.run_harness(binary, args + ['-in', f], timeout=timeout, env=e, allow_crash=True)
            if '_crash' not in r and not server_retried and r.get('inconclusive') and all(str(x).startswith('server:') for x in r['inconclusive']) and not r.get('violations'):
                # the in-process server did not come up (loaded machine, a port taken meanwhile): nothing was replayed
                # yet, the chunk is run once more in a fresh process
                server_retried = True
                continue
            if '_crash' not in r:
                results.append(r)
                break
            sig = self._server_panic(r['_crash'])
            if sig is not None and crashes >= 3:
                break                           # three reproduced panics in this chunk already: the rest is not run
            if sig is None:
                self.inconclusive('harness %s produced no result (rc=%s):\n%s' % (os.path.basename(binary), r['_rc'], r['_crash'][-4000:]))
            crashes += 1
            at = None
            try:
                at = int(open(prog).read().strip())
            except (OSError, ValueError):
                pass
            ids = [b['id'] for b in todo]
            cands = [at] if at in ids else ids
            culprit = None
            for cid in cands:
                b = [x for x in todo if x['id'] == cid][0]
                sf = self.write_behaviours('%s-solo-%d' % (name, cid), [b])
                hits = 0
                for _ in range(2):
                    rr = self.run_harness(binary, args + ['-in', sf], timeout=timeout, env=env, allow_crash=True)
                    if '_crash' in rr and self._server_panic(rr['_crash']) == sig:
                        hits += 1
                os.remove(sf)
                if hits == 2:
                    culprit = b
                    break
                if hits == 1 and len(cands) == 1:
                    break
            if culprit is None:
                self.unreproduced('the server panicked in %s while a chunk of behaviours was replayed, but no single behaviour reproduces it' % sig)
                self.inconclusive('harness %s produced no result (rc=%s):\n%s' % (os.path.basename(binary), r['_rc'], r['_crash'][-4000:]))
            pm = re.search(r'^(panic: |fatal error: ).*$', r['_crash'], flags=re.M)
            results.append({'violations': [{'behaviour': culprit['id'], 'step': 1000000, 'signature': 'server-panic:' + sig,
                                            'detail': 'the server process panics while this behaviour is replayed (reproduced twice in a fresh process): ' + pm.group(0)[:400]}],
                            'inconclusive': [], 'samples': [], 'stats': {'server_panics': 1}, 'behaviours': 1, 'steps': 0})
            idx = [i for i, x in enumerate(todo) if x['id'] == culprit['id']][0]
            todo = todo[idx + 1:]
            if todo:
                f = self.write_behaviours('%s-rest-%d' % (name, crashes), todo)
        for x in (path + '.progress',):
            if os.path.exists(x):
                os.remove(x)
        return results

    def run_harness_parallel(self, binary, args, behaviours, name='par', procs=8, timeout=1500, env=None, max_per_proc=None):
        """Splits the behaviours over several harness processes ('-in' is appended); merges the results.
        Behaviour ids are global indexes into `behaviours`."""
        from concurrent.futures import ThreadPoolExecutor
        n = max(1, min(procs, len(behaviours)))
        workers = n
        if max_per_proc and len(behaviours) > n * max_per_proc:
            n = (len(behaviours) + max_per_proc - 1) // max_per_proc
        chunks = [[] for _ in range(n)]
        for i, b in enumerate(behaviours):
            chunks[i % n].append({'id': i, 'states': b})
        files = [self.write_behaviours('%s-%d' % (name, k), ch) for k, ch in enumerate(chunks)]

        def one(k):
            return self._run_chunk(binary, args, chunks[k], files[k], '%s-%d' % (name, k), timeout, env)
        with ThreadPoolExecutor(max_workers=workers) as ex:
            nested = list(ex.map(one, range(len(files))))
        results = [r for rs in nested for r in rs]
        for f in files:
            if os.path.exists(f):
                os.remove(f)
        out = {'violations': [], 'inconclusive': [], 'samples': [], 'stats': {}, 'behaviours': 0, 'steps': 0}
        for r in results:
            out['violations'] += r['violations']
            out['inconclusive'] += r['inconclusive']
            out['samples'] += r['samples']
            out['behaviours'] += r.get('behaviours', 0)
            out['steps'] += r.get('steps', 0)
            for k, v in r['stats'].items():
                out['stats'][k] = out['stats'].get(k, 0) + v
        out['violations'].sort(key=lambda v: (v['behaviour'], v['step']))
        return out

    # ---------- behaviours ----------
    def write_behaviours(self, name, behaviours):
        d = os.path.join(BUILD, 'beh')
        os.makedirs(d, exist_ok=True)
        p = os.path.join(d, '%s-%s-%d.ndjson' % (self.pid, name, os.getpid()))
        with open(p, 'w') as f:
            for i, b in enumerate(behaviours):
                if isinstance(b, dict) and 'states' in b:
                    f.write(json.dumps(b) + '\n')
                else:
                    f.write(json.dumps({'id': i, 'states': b}) + '\n')
        return p

    # ---------- verdicts ----------
    def is_known(self, signature):
        for k in self.known.get('findings', []):
            if k.get('property') == self.pid and k.get('signature') == signature:
                return k
        return None

    def report(self, signature, detail, replay_obj):
        """A reproduced violation of the property by the real code."""
        k = self.is_known(signature)
        if k:
            if signature not in [s for s, _ in self.known_hits]:
                print('KNOWN-FINDING: property=%s %s' % (self.pid, k.get('what', signature)), flush=True)
            self.known_hits.append((signature, detail))
            return
        h = hashlib.sha1(json.dumps(replay_obj, sort_keys=True).encode()).hexdigest()[:12]
        path = os.path.join(REPLAYS, '%s-%s.json' % (self.pid, h))
        obj = {'property': self.pid, 'signature': signature, 'detail': detail, 'seed': self.seed}
        obj.update(replay_obj)
        with open(path, 'w') as f:
            json.dump(obj, f, indent=1)
        if len(self.violations) < 5:
            print('VIOLATION property=%s replay=%s' % (self.pid, path), flush=True)
            print('  ' + signature + ': ' + str(detail)[:1500], flush=True)
        self.violations.append((signature, path))

    def unreproduced(self, msg):
        """A mismatch that did not show up again when re-executed: never a verdict by itself.  If nothing else is
        reported the run ends inconclusive (exit 2); reproduced violations of the same run are still reported."""
        print('NOTE property=%s not reproduced: %s' % (self.pid, msg[:600]), flush=True)
        self.unrepro.append(msg[:600])

    def inconclusive(self, msg):
        print('INCONCLUSIVE property=%s: %s' % (self.pid, msg), flush=True)
        if self.violations:
            # a violation already reproduced on the real code stands; what could not be explored is recorded
            self.write_evidence(extra={'inconclusive_part': msg[:2000]})
            self.log('FAILED: %d violation(s); the rest of the run was inconclusive' % len(self.violations))
            sys.exit(1)
        self.write_evidence(extra={'inconclusive': msg[:2000]})
        sys.exit(2)

    def write_evidence(self, extra=None):
        cov = dict(self.cov)
        if extra:
            cov.update(extra)
        ev = {
            'property_id': self.pid,
            'tier': self.tier,
            'seed': self.seed,
            'level': self.level,
            'coverage': cov,
            'assumptions': self.assumptions,
            'wall_s': round(time.time() - self.t0, 2),
            'violations': len(self.violations),
        }
        if self.known_hits:
            ev['coverage']['known_findings_hit'] = sorted(set(s for s, _ in self.known_hits))
        os.makedirs(EVID, exist_ok=True)
        tmp = os.path.join(EVID, self.pid + '.json.tmp')
        with open(tmp, 'w') as f:
            json.dump(ev, f, indent=1, sort_keys=True)
        os.replace(tmp, os.path.join(EVID, self.pid + '.json'))

    def finish(self):
        if self.unrepro and not self.violations:
            self.inconclusive('%d mismatch(es) seen once but not reproduced: %s' % (len(self.unrepro), self.unrepro[0]))
        if self.unrepro:
            self.cov['unreproduced_mismatches'] = self.unrepro[:5]
        self.write_evidence()
        if self.violations:
            self.log('FAILED: %d violation(s)' % len(self.violations))
            sys.exit(1)
        self.log('held on everything explored (%s)' % ', '.join('%s=%s' % (k, v) for k, v in self.cov.items()
                                                                 if isinstance(v, (int, float, bool))))
        sys.exit(0)


def nontrivial_count(behaviours, pred):
    """number of DISTINCT behaviours satisfying pred"""
    seen = set()
    for b in behaviours:
        st = b['states'] if isinstance(b, dict) else b
        if pred(st):
            seen.add(hashlib.sha1(json.dumps(st, sort_keys=True).encode()).hexdigest())
    return len(seen)
