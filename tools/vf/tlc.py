"""Running TLC (always under a timeout, own metadir, scratch copy of the spec directory)."""
import os
import re
import shutil
import subprocess
import time
from collections import deque

from . import tla

VERIF = '/verif'
BUILD = os.environ.get('VERIF_BUILD', os.path.join(VERIF, '.build'))
SPEC = os.path.join(VERIF, 'spec')


class TLCResult:
    def __init__(self):
        self.ok = False            # finished, no error found
        self.timed_out = False
        self.generated = 0
        self.distinct = 0
        self.depth = 0
        self.violated = None       # name of the violated invariant/property
        self.error = None          # other error text (parse error, deadlock, eval error)
        self.trace = []            # counterexample states
        self.coverage = {}         # action name -> (generated, distinct) when -coverage
        self.output = ''
        self.wall = 0.0
        self.workdir = None


def scratch(tag):
    d = os.path.join(BUILD, 'tlc', '%s-%d-%d' % (tag, os.getpid(), int(time.time() * 1000) % 100000000))
    os.makedirs(d, exist_ok=True)
    for f in os.listdir(SPEC):
        p = os.path.join(SPEC, f)
        if os.path.isfile(p):
            shutil.copy(p, d)
    return d


def run(module, cfg, tag='tlc', workers=8, timeout=600, coverage=False, dump=False, simulate=None,
        depth=None, seed=None, deadlock=False, extra=None, java_opts=None, keep=False, files=None,
        heap=None):
    """simulate = dict(num=N, file=True|False)"""
    r = TLCResult()
    d = scratch(tag)
    r.workdir = d
    for name, content in (files or {}).items():
        with open(os.path.join(d, name), 'w') as f:
            f.write(content)
    cmd = ['java', '-XX:+UseParallelGC']
    if heap:
        cmd.append('-Xmx' + heap)
    cmd += ['-Xss64m']
    cmd += (java_opts or [])
    cmd += ['-cp', '/opt/veriftools/tla/tla2tools.jar:/opt/veriftools/tla/CommunityModules-deps.jar', 'tlc2.TLC']
    cmd += ['-metadir', os.path.join(d, 'md'), '-config', cfg]
    if simulate:
        cmd += ['-workers', '1']
        s = 'num=%d' % simulate['num']
        if simulate.get('file', True):
            s = 'file=%s,%s' % (os.path.join(d, 'sim'), s)
        cmd += ['-simulate', s]
        cmd += ['-depth', str(depth or 20)]
        if seed is not None:
            cmd += ['-seed', str(seed)]
    else:
        cmd += ['-workers', str(workers)]
        if depth:
            cmd += ['-depth', str(depth)]
    if coverage:
        cmd += ['-coverage', '1']
    if dump:
        cmd += ['-dump', 'dot,actionlabels', os.path.join(d, 'graph.dot')]
    if deadlock:
        pass
    else:
        cmd += ['-deadlock']
    cmd += (extra or [])
    cmd += [module]
    t0 = time.time()
    try:
        p = subprocess.run(cmd, cwd=d, stdout=subprocess.PIPE, stderr=subprocess.STDOUT, timeout=timeout, text=True)
        out = p.stdout
        rc = p.returncode
    except subprocess.TimeoutExpired as e:
        out = (e.stdout or b'')
        if isinstance(out, bytes):
            out = out.decode('utf-8', 'replace')
        r.timed_out = True
        rc = -1
    r.wall = time.time() - t0
    r.output = out
    r.rc = rc
    m = re.search(r'(\d+) states generated, (\d+) distinct states found', out)
    if m:
        r.generated, r.distinct = int(m.group(1)), int(m.group(2))
    m = re.search(r'The number of states generated: (\d+)', out)
    if m and not r.generated:
        r.generated = int(m.group(1))
    m = re.search(r'depth of the complete state graph search is (\d+)', out)
    if m:
        r.depth = int(m.group(1))
    m = re.search(r'Invariant (\S+) is violated', out)
    if m:
        r.violated = m.group(1)
    m = re.search(r'Action property (\S+) is violated', out) or re.search(r'Temporal properties were violated', out)
    if m and not r.violated:
        r.violated = m.group(1) if m.groups() else 'temporal'
    if 'Model checking completed. No error has been found.' in out or (simulate and rc == 0 and 'Error:' not in out):
        r.ok = True
    if not r.ok and not r.violated and not r.timed_out:
        m = re.search(r'Error: (.*)', out)
        r.error = m.group(1) if m else 'tlc rc=%d' % rc
        if 'Deadlock reached' in out:
            r.error = 'deadlock'
    if r.violated or r.error:
        r.trace = parse_trace(out)
    if coverage:
        r.coverage = parse_coverage(out)
    if not keep and not dump and not (simulate and simulate.get('file', True)):
        shutil.rmtree(d, ignore_errors=True)
        r.workdir = None
    return r


def cleanup(r):
    if r.workdir:
        shutil.rmtree(r.workdir, ignore_errors=True)
        r.workdir = None


def parse_trace(out):
    states = []
    for m in re.finditer(r'^State \d+: <([^>]*)>\n((?:(?:/\\ .*|  .*|\S.*)\n)+?)\n', out, flags=re.M):
        body = m.group(2)
        try:
            st = tla.parse_state(body)
            st['_action'] = m.group(1).split(' line ')[0]
            states.append(st)
        except tla.ParseError:
            pass
    return states


def parse_coverage(out):
    cov = {}
    for m in re.finditer(r'^<(\w+) line (\d+), col \d+ to line \d+, col \d+ of module (\w+)>: (\d+):(\d+)', out, flags=re.M):
        name = m.group(1)
        cov[name] = cov.get(name, 0) + int(m.group(5))
    return cov


def sim_behaviours(r):
    """Behaviours from a finished -simulate file=... run."""
    out = []
    if not r.workdir:
        return out
    names = sorted(f for f in os.listdir(r.workdir) if f.startswith('sim_'))
    for f in names:
        try:
            b = tla.parse_sim_file(os.path.join(r.workdir, f))
        except tla.ParseError:
            continue
        if b:
            out.append(b)
    return out


def graph(r):
    nodes, edges, inits = tla.parse_dot(os.path.join(r.workdir, 'graph.dot'))
    return nodes, edges, inits


def cover_edges(nodes, edges, inits, max_len=40, max_behaviours=None):
    """A set of behaviours (paths from an initial state) covering every edge of the state graph at least once.
    Self loops (stuttering) and parallel edges are skipped.  O(E * depth): BFS tree from the initial states; edges are
    taken deepest-source first, each as tree-path(source) + edge, then extended greedily along uncovered edges."""
    out = {}
    seen = set()
    elist = []
    for (u, v, lab) in edges:
        if u == v or (u, v) in seen:
            continue
        seen.add((u, v))
        out.setdefault(u, []).append(v)
        elist.append((u, v))
    parent, depth = {}, {}
    dq = deque()
    for i0 in inits:
        parent[i0] = None
        depth[i0] = 0
        dq.append(i0)
    while dq:
        x = dq.popleft()
        for y in out.get(x, ()):
            if y not in parent:
                parent[y] = x
                depth[y] = depth[x] + 1
                dq.append(y)
    uncovered = set(e for e in elist if e[0] in parent)
    unreachable = len(elist) - len(uncovered)
    behaviours = []
    for (u, v) in sorted(uncovered, key=lambda e: -depth[e[0]]):
        if (u, v) not in uncovered:
            continue
        path = [u]
        while parent[path[-1]] is not None:
            path.append(parent[path[-1]])
        path.reverse()
        for a, b in zip(path, path[1:]):
            uncovered.discard((a, b))
        path.append(v)
        uncovered.discard((u, v))
        cur = v
        while len(path) < max_len:
            nxt = None
            for y in out.get(cur, ()):
                if (cur, y) in uncovered:
                    nxt = y
                    break
            if nxt is None:
                break
            uncovered.discard((cur, nxt))
            path.append(nxt)
            cur = nxt
        behaviours.append(path)
        if max_behaviours and len(behaviours) >= max_behaviours:
            break
    return [[nodes[x] for x in p] for p in behaviours], len(uncovered) + unreachable
