"""Parser for TLA+ values as printed by TLC (states in -dump dot labels, -simulate files,
counterexample traces) -> plain Python/JSON values.

  ints, TRUE/FALSE, "strings", model values (bare identifiers -> str)
  {a, b}            -> list (sorted by JSON text, so deterministic)
  <<a, b>>          -> list
  [f |-> v, ...]    -> dict
  (k :> v @@ ...)   -> dict with str(k) keys when every key is scalar, else list of [k, v]
  a..b              -> list of ints
"""
import json
import re

_tok = re.compile(r'''\s*(?:
    (?P<int>-?\d+)
  | (?P<str>"(?:[^"\\]|\\.)*")
  | (?P<op><<|>>|\|->|:>|@@|\.\.|[\[\]{}(),])
  | (?P<id>[A-Za-z_][A-Za-z0-9_!]*)
)''', re.X)


class ParseError(Exception):
    pass


def tokenize(s):
    pos, out = 0, []
    n = len(s)
    while pos < n:
        m = _tok.match(s, pos)
        if not m:
            if s[pos:].strip() == '':
                break
            raise ParseError('bad token at %r' % s[pos:pos + 40])
        pos = m.end()
        k = m.lastgroup
        out.append((k, m.group(k)))
    return out


class _P:
    def __init__(self, toks):
        self.t, self.i = toks, 0

    def peek(self):
        return self.t[self.i] if self.i < len(self.t) else (None, None)

    def next(self):
        x = self.peek()
        self.i += 1
        return x

    def expect(self, v):
        k, x = self.next()
        if x != v:
            raise ParseError('expected %r got %r' % (v, x))

    def value(self):
        k, x = self.next()
        if k == 'int':
            v = int(x)
            if self.peek()[1] == '..':
                self.next()
                hi = self.value()
                return list(range(v, hi + 1))
            return v
        if k == 'str':
            return json.loads(x)
        if k == 'id':
            if x == 'TRUE':
                return True
            if x == 'FALSE':
                return False
            return x
        if x == '{':
            items = self.items('}')
            try:
                return sorted(items, key=lambda v: json.dumps(v, sort_keys=True))
            except TypeError:
                return items
        if x == '<<':
            return self.items('>>')
        if x == '[':
            d = {}
            if self.peek()[1] == ']':
                self.next()
                return d
            while True:
                k2, name = self.next()
                self.expect('|->')
                d[name] = self.value()
                k3, sep = self.next()
                if sep == ']':
                    return d
                if sep != ',':
                    raise ParseError('record: expected , or ]')
        if x == '(':
            pairs = []
            while True:
                key = self.value()
                self.expect(':>')
                val = self.value()
                pairs.append((key, val))
                k3, sep = self.next()
                if sep == ')':
                    break
                if sep != '@@':
                    raise ParseError('function: expected @@ or )')
            if all(isinstance(k, (int, str, bool)) for k, _ in pairs):
                return {str(k): v for k, v in pairs}
            return [[k, v] for k, v in pairs]
        raise ParseError('unexpected token %r' % (x,))

    def items(self, close):
        out = []
        if self.peek()[1] == close:
            self.next()
            return out
        while True:
            out.append(self.value())
            k, sep = self.next()
            if sep == close:
                return out
            if sep != ',':
                raise ParseError('expected , or %s got %r' % (close, sep))


def parse_value(s):
    p = _P(tokenize(s))
    v = p.value()
    if p.i != len(p.t):
        raise ParseError('trailing tokens in %r' % s[:80])
    return v


_conj = re.compile(r'^\s*/\\\s*([A-Za-z_][A-Za-z0-9_]*)\s*=\s*', re.M)


def parse_state(text):
    """'/\\ x = 1\n/\\ y = <<>>' -> {'x': 1, 'y': []}. Also accepts a single 'x = 1'."""
    text = text.strip()
    if not text.startswith('/\\'):
        text = '/\\ ' + text
    parts = []
    ms = list(_conj.finditer(text))
    for i, m in enumerate(ms):
        end = ms[i + 1].start() if i + 1 < len(ms) else len(text)
        parts.append((m.group(1), text[m.end():end]))
    return {name: parse_value(val) for name, val in parts}


def parse_sim_file(path):
    """A file written by `tlc -simulate file=...`: STATE_n == conjunctions."""
    txt = open(path).read()
    txt = '\n'.join(l for l in txt.split('\n')
                    if not l.startswith('\\*') and not l.startswith('====') and not l.startswith('----'))
    chunks = re.split(r'^STATE_\d+\s*==\s*$', txt, flags=re.M)
    return [parse_state(c) for c in chunks[1:] if c.strip()]


_dot_node = re.compile(r'^(-?\d+) \[label="')
_dot_edge = re.compile(r'^(-?\d+) -> (-?\d+)(?: \[label="([^"]*)".*\])?;?$')


def _read_label(line, start):
    out, i, n = [], start, len(line)
    while i < n:
        c = line[i]
        if c == '\\' and i + 1 < n:
            d = line[i + 1]
            out.append('\n' if d == 'n' else d)
            i += 2
            continue
        if c == '"':
            return ''.join(out), i + 1
        out.append(c)
        i += 1
    raise ParseError('unterminated label')


def parse_dot(path, keep=None):
    """TLC `-dump dot,actionlabels` -> (nodes{id: state}, edges[(src, dst, action)], init ids)."""
    nodes, edges, inits = {}, [], []
    with open(path) as f:
        for line in f:
            line = line.rstrip('\n')
            m = _dot_edge.match(line)
            if m:
                edges.append((m.group(1), m.group(2), m.group(3) or ''))
                continue
            m = _dot_node.match(line)
            if m:
                lab, end = _read_label(line, m.end())
                nodes[m.group(1)] = parse_state(lab)
                if line[end:].startswith(',style = filled'):
                    inits.append(m.group(1))
    return nodes, edges, inits
