#!/bin/bash
# warms the go build cache for the engine packages and every harness (optional; checks rebuild anyway)
export GOFLAGS=-mod=mod GOPROXY=off
unset GOTOOLCHAIN GOSUMDB || true
cd /repo || exit 0
go build -tags verif -overlay /verif/.build/overlay.json ./banyand/... ./pkg/... >/verif/.build/warm.log 2>&1 || { tail -20 /verif/.build/warm.log; echo "warm: engine build failed (checks will report inconclusive)"; }
for d in /verif/harness/pkg/*/; do
  n=$(basename $d)
  if grep -qs '^package main' $d/*.go; then
    go build -tags verif -overlay /verif/.build/overlay.json -o /verif/.build/bin/$n ./banyand/verifharness/$n >>/verif/.build/warm.log 2>&1 || echo "warm: harness $n failed to build"
  fi
done
for s in /verif/spec/*.tla; do
  (cd /verif/spec && timeout 60 tla-sany $(basename $s) >/dev/null 2>&1) || echo "warm: SANY rejects $s"
done
rm -rf /verif/spec/states /verif/spec/*.old 2>/dev/null
exit 0
