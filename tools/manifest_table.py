# Table consumed by mkmanifest.py.  One check() per claimed property; NA[...] for the others.
NOTES = ("All checks: ./check <id> --tier quick|thorough [--replay path]. Exit 0 held / 1 VIOLATION (reproduced on the real code) / "
         "2 inconclusive (build failure, timeout, unreproduced or vacuous run: never a verdict). The generated protobuf code and gomock "
         "mocks that the pinned tree lacks are produced by setup.sh into /verif/.build and injected with go build -overlay; /repo is not modified by checks.")

ENGINES = []

import glob
for _f in sorted(glob.glob('/verif/tools/manifest.d/*.py')):
    exec(open(_f).read())

# only checks that have been run to completion on the current tree by the maintainer are claimed
_ready = set(open('/verif/tools/manifest_ready.txt').read().split())
for _pid in list(CHECKS):
    if _pid not in _ready:
        del CHECKS[_pid]
for pid in ['C%02d' % i for i in range(1, 21)]:
    if pid not in CHECKS and pid not in NA:
        NA[pid] = 'not claimed yet: the specification and conformance harness for this property are still being built (see DESIGN.md §10 build order)'
NA['C11'] = ('quantifies over raw value/byte domains (all int64/float64 bit patterns, arbitrary corrupted byte strings) with no state or protocol to model; '
             'a TLA+ transcription at toy widths would say nothing about 64-bit rounding or decoder bounds panics (DESIGN.md §6)')
