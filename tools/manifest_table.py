# Table consumed by mkmanifest.py.  One check() per claimed property; NA[...] for the others.
NOTES = ("All checks: ./check <id> --tier quick|thorough [--replay path]. Exit 0 held / 1 VIOLATION (reproduced on the real code) / "
         "2 inconclusive (build failure, timeout, unreproduced or vacuous run: never a verdict). The generated protobuf code and gomock "
         "mocks that the pinned tree lacks are produced by setup.sh into /verif/.build and injected with go build -overlay; /repo is not modified by checks.")

ENGINES = [
    dict(name='Placement', path='/verif/spec/Placement.tla', serves_properties=['C16'], kind_free_text='TLA+ spec of the coordinator shard->node selector; TLC exhaustive + edge-cover replay on pkg/node + liaison/grpc registry'),
    dict(name='Routing', path='/verif/spec/Routing.tla', serves_properties=['C16'], kind_free_text='TLA+ spec of the shard function as observed across coordinator processes; trace validation (RoutingTrace.tla)'),
]

check('C16', 'model_checking',
      'TLC checks Total/Functional/ReplicaDisjoint/Confluent/Balanced on Placement.tla exhaustively (groups x shards x replicas x nodes x event sequences incl. repeated and unknown add/remove, updates, re-list); every edge of that state graph plus deep -simulate behaviours is replayed on the real roundRobinSelector behind the real clusterNodeService and Locate() is compared with the spec after every event; the shard function is validated code->spec: Route events from two OS processes must form a behaviour of Routing.tla.',
      'Names map monotonically to model integers; the hash is uninterpreted (agreement + range, not distribution); bounds in evidence.tlc_constants.',
      'TLA+/TLC exhaustive model checking + state-graph edge-cover replay into the real selector + TLC trace validation of routing events',
      'Placement', 'DESIGN.md §5 C16')

for pid in ['C01','C02','C03','C04','C05','C06','C07','C08','C09','C10','C12','C13','C14','C15','C17','C18','C19','C20']:
    NA[pid] = 'not claimed yet: the specification and conformance harness for this property are still being built (see DESIGN.md §10 build order)'
NA['C11'] = ('quantifies over raw value/byte domains (all int64/float64 bit patterns, arbitrary corrupted byte strings) with no state or protocol to model; '
             'a TLA+ transcription at toy widths would say nothing about 64-bit rounding or decoder bounds panics (DESIGN.md §6)')
