#!/usr/bin/env python3
"""Compose the final go build -overlay JSON.

 base (protogen output)  +  gomock mocks  +  harness packages  +  in-package export files

 /verif/harness/pkg/<name>/*.go          -> <repo>/banyand/verifharness/<name>/<file>
 /verif/harness/export/<pkg path>/*.go   -> <repo>/<pkg path>/<file>      (in-package, //go:build verif)
"""
import json, os, sys

repo, build = sys.argv[1], sys.argv[2]
verif = os.path.dirname(os.path.dirname(os.path.abspath(__file__)))
ov = json.load(open(os.path.join(build, "overlay.base.json")))["Replace"]
ent = os.path.join(build, "mocks", "entries.txt")
if os.path.exists(ent):
    for line in open(ent):
        line = line.strip()
        if line:
            k, v = line.split("=", 1)
            ov[k] = v
hp = os.path.join(verif, "harness", "pkg")
if os.path.isdir(hp):
    for root, _, files in os.walk(hp):
        for f in files:
            if f.endswith(".go"):
                rel = os.path.relpath(os.path.join(root, f), hp)
                ov[os.path.join(repo, "banyand", "verifharness", rel)] = os.path.join(root, f)
he = os.path.join(verif, "harness", "export")
if os.path.isdir(he):
    for root, _, files in os.walk(he):
        for f in files:
            if f.endswith(".go"):
                rel = os.path.relpath(os.path.join(root, f), he)
                ov[os.path.join(repo, rel)] = os.path.join(root, f)
tmp = os.path.join(build, "overlay.json.tmp")
json.dump({"Replace": ov}, open(tmp, "w"), indent=1, sort_keys=True)
os.replace(tmp, os.path.join(build, "overlay.json"))
