#!/bin/bash
# runq.sh <tier> C.. C.. : run checks sequentially, log to /var/tmp/t1/<id>.<tier>.log, summary to /var/tmp/t1/summary.txt
tier=$1; shift
for p in "$@"; do
  s=$(date +%s)
  (cd /verif && ./check $p --tier $tier > /var/tmp/t1/$p.$tier.log 2>&1; echo "$p $tier rc=$? $(( $(date +%s) - s ))s $(date -u +%H:%M)" >> /var/tmp/t1/summary.txt)
done
