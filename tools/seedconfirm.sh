#!/bin/bash
# seedconfirm.sh <worktree> <patch> <demo src> <demo dest (rel)> <pkg> <run regex> <seeded dir name> <property>
# Confirms a seeded change in its scratch worktree: compiles, demo FAILS with it and PASSES without it; then files it.
wt=$1; patch=$2; demo=$3; dest=$4; pkg=$5; rx=$6; name=$7; prop=$8
export GOFLAGS=-mod=mod GOPROXY=off
cd $wt || exit 2
git checkout -q -- . ; git clean -fdq -e _seed -e .ovl.json
git apply $patch || { echo "PATCH DOES NOT APPLY"; exit 1; }
cp $demo $dest
go build -overlay .ovl.json ./banyand/... ./pkg/... > /tmp/seed/build.log 2>&1 || { echo "BUILD FAILS"; tail -5 /tmp/seed/build.log; exit 1; }
timeout 900 go test -overlay .ovl.json -vet=off -count=1 -run "$rx" $pkg > /tmp/seed/with.log 2>&1; w=$?
git apply -R $patch
timeout 900 go test -overlay .ovl.json -vet=off -count=1 -run "$rx" $pkg > /tmp/seed/without.log 2>&1; wo=$?
rm -f $dest
echo "with change rc=$w (expect non-zero); without rc=$wo (expect 0)"
if [ $w -ne 0 ] && [ $wo -eq 0 ]; then
  d=/verif/seeded/$name; mkdir -p $d
  cp $patch $d/patch.diff; cp $demo $d/$(basename $dest)
  tail -15 /tmp/seed/with.log > $d/demo_with_change.txt; tail -5 /tmp/seed/without.log > $d/demo_without_change.txt
  python3 - "$d" "$prop" "$dest" "$pkg" "$rx" <<'P'
import json,sys
d,prop,dest,pkg,rx=sys.argv[1:]
json.dump({"property":prop,"demo_path_in_repo":dest,"confirmed":{"build":"go build -overlay ... ./banyand/... ./pkg/... ok with the change",
 "demo":"go test -overlay ... -run '%s' %s : FAILS with the change, PASSES without it (scratch worktree)"%(rx,pkg)},"needs":"see NOTES","checks":{}},open(d+'/meta.json','w'),indent=1)
P
  echo "CONFIRMED -> $d"
else
  echo "NOT CONFIRMED"; tail -8 /tmp/seed/with.log; tail -5 /tmp/seed/without.log
fi
