#!/usr/bin/env python3
"""Writes /verif/MANIFEST.json from the table below (single source of truth; validates against the schema)."""
import json, os, subprocess, sys

BASE_OFF = ("cd /repo && for m in . ; do go build ./... >/dev/null 2>&1; done; "
            "python3 /verif/tools/baseline_off.py")

CHECKS = {}
NA = {}


def check(pid, category, text, note, technique, engine, design_ref):
    CHECKS[pid] = dict(property_id=pid, quick_cmd='./check %s --tier quick' % pid, thorough_cmd='./check %s --tier thorough' % pid,
                       evidence_file='/verif/evidence/%s.json' % pid, replay_cmd_template='./check %s --replay {path}' % pid,
                       engine=engine, level_claimed=dict(category=category, text=text, design_ref=design_ref), level_note=note,
                       technique=technique)


exec(open(os.path.join(os.path.dirname(__file__), 'manifest_table.py')).read())

hooks = subprocess.run(['git', '-C', '/repo', 'log', '--format=%h %s', '--grep=^verif-hook:'], stdout=subprocess.PIPE, text=True).stdout.split('\n')
m = {
    'version': 1,
    'setup_cmd': './setup.sh && ./tools/warm.sh',
    'hooks': {
        'guard': 'verif',
        'enable': 'go build -tags verif -overlay /verif/.build/overlay.json (harness packages and in-package export files are injected by the overlay; only one-line trace/gate points are commits in /repo)',
        'baseline_off_cmd': 'python3 /verif/tools/baseline_off.py',
        'source_commits': [h.split(' ')[0] for h in hooks if h.strip()],
        'add_only': True,
    },
    'engines': ENGINES,
    'checks': [CHECKS[k] for k in sorted(CHECKS)],
    'not_applicable': [dict(property_id=k, reason=v) for k, v in sorted(NA.items())],
    'notes': NOTES,
}
json.dump(m, open('/verif/MANIFEST.json', 'w'), indent=1)
try:
    sys.path.insert(0, '/opt/veriftools/pyvenv/lib/python3.11/site-packages')
    import jsonschema
    jsonschema.validate(m, json.load(open('/root/.vp/MANIFEST.schema.json')))
    print('MANIFEST.json valid: %d checks, %d not applicable' % (len(CHECKS), len(NA)))
except ImportError:
    print('MANIFEST.json written (jsonschema unavailable)')
