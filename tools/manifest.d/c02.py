check('C02', 'model_checking',
      'Engine.tla with Versioned=TRUE: LayoutAgrees / ViewIsResolve / MaintenanceInvisible checked exhaustively; every transition of a small state graph plus -simulate behaviours (competing versions of one (series, ts) in one batch, across batches, across parts that are then flushed and merged in any subset) replayed over gRPC; after every step the covering query must return exactly one admissible max-version row per key and the part layout (ids, mem/file, row counts after in-part dedup) must equal the spec.',
      'One shard, one segment; ties between equal versions accept any tied row; measure only (the property is about measures).',
      'TLA+/TLC exhaustive model checking + state-graph edge-cover replay through the public gRPC API with real flush/merge steps',
      'Engine', 'DESIGN.md §5 C02, §12')
