check('C09', 'model_checking',
      'Engine.tla computes for ordered queries (ASC/DESC by time x offsets x limits incl. beyond the end, with criteria/series restrictions) the window of sort keys of the full result; -simulate behaviours spread rows over batches, memory/file parts and merges; each query is sent over gRPC: rows must be admissible rows of the full result, sorted, and their sort-key sequence equal to the spec window. Sidx.tla (ordered secondary index: streaming vs synchronous interface, key ranges, batch sizes, flush/merge states) is bound by the sidx harness when present.',
      'One shard / one segment for the gRPC leg (cross-shard/segment/node merge not exercised); duplicate sort keys accept any tie order.',
      'TLA+/TLC window oracle + TLC-generated behaviours replayed through the public gRPC API; sidx behaviours replayed on the real index',
      'Engine', 'DESIGN.md §5 C09, §12')
