check('C07', 'model_checking',
      'Segments.tla retention half (NeverDeleteYoung, ForcedAtMostOldestNotLast, ExpiredInvisible, PartiallyExpiredVisible, RetentionOnlyRemovesExpired) checked exhaustively by TLC over interval/TTL combinations and clock positions on and around every boundary; every transition of each family graph plus -simulate behaviours replayed on a real storage.TSDB with a mock clock: real retentionTask.run, DeleteOldestSegment and SelectSegments; segment list, directories and select results compared after every step.',
      'Retention body invoked synchronously (cron trigger not exercised); races with queries/forced cleanup are C14\'s; TTL in hours.',
      'TLA+/TLC exhaustive model checking + state-graph edge-cover replay into the real retention/selection code',
      'Segments', 'DESIGN.md §5 C07')
