ENGINES.append(dict(name='Placement', path='/verif/spec/Placement.tla', serves_properties=['C16'], kind_free_text='TLA+ spec of the coordinator shard->node selector; TLC exhaustive + edge-cover replay on pkg/node + liaison/grpc registry'))
ENGINES.append(dict(name='Routing', path='/verif/spec/Routing.tla', serves_properties=['C16'], kind_free_text='TLA+ spec of the shard function as observed across coordinator processes; trace validation (RoutingTrace.tla)'))
check('C16', 'model_checking',
      'TLC checks Total/Functional/ReplicaDisjoint/Confluent/Balanced on Placement.tla exhaustively (groups x shards x replicas x nodes x event sequences incl. repeated and unknown add/remove, updates, re-list); every edge of that state graph plus deep -simulate behaviours is replayed on the real roundRobinSelector behind the real clusterNodeService and Locate() is compared with the spec after every event; the shard function is validated code->spec: Route events from two OS processes must form a behaviour of Routing.tla.',
      'Names map monotonically to model integers; the hash is uninterpreted (agreement + range, not distribution); bounds in evidence.tlc_constants.',
      'TLA+/TLC exhaustive model checking + state-graph edge-cover replay into the real selector + TLC trace validation of routing events',
      'Placement', 'DESIGN.md §5 C16')
