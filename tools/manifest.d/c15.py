check('C15', 'translation_validation',
      'The same TLC behaviours (datasets, part layouts, maintenance steps) and the same queries (projections, criteria, AND/OR, order by time ASC/DESC with offset/limit) are executed against stand-alone servers started with --measure-vectorized-enabled=false, =true and =true with batch size 2; every response must equal the Engine.tla answer, so the two pipelines agree on everything the spec fixes (row set, bit-exact values, order, window).',
      'Measure AND stream engines, each with the vectorized flag off (the documented roll-back rail) / on / on with batch size 2; single node: columnar frames between data node and coordinator are exercised by C17 part b only; aggregation/group-by/top-N equivalence is covered at plan level by C10; measure only.',
      'differential execution of TLC-generated query programs on row and vectorized pipelines against a TLA+ oracle',
      'Engine', 'DESIGN.md §5 C15, §12')
