check('C03', 'model_checking',
      'Engine.tla MaintenanceInvisible (action property) + LayoutAgrees checked by TLC; -simulate behaviours with write/flush/merge(any subset of file parts, fan-in 2..4) replayed inside a running stand-alone server: the flush and the merge of the TLC-chosen parts are executed by the real flusher/merger code (loops parked by the verif gate hook) and after EVERY step the covering query and the part layout must equal the spec.',
      'Measure engine over gRPC; stream/trace and tag-type conflicts not bound yet; the ordered secondary index is covered by the sidx component when registered; queries "during" maintenance are C05.',
      'TLA+/TLC model checking + TLC-generated maintenance schedules executed by the real flusher/merger and observed through the public query API',
      'Engine', 'DESIGN.md §5 C03, §12')
