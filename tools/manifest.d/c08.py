check('C08', 'model_checking',
      'Engine.tla evaluates Sat(row, criteria) itself (EQ/NE/LT/LE/GT/GE/IN/NOT_IN on an int and a string tag, HAVING/NOT_HAVING on an int-array tag, AND/OR pairs, time and series restrictions); -simulate behaviours vary dataset split, flush and merge states; at every QueryAll step each criteria query is sent over gRPC and must return exactly the spec-selected rows; the same behaviours run with no index rule and with inverted index rules on the filtered tags.',
      'Measure (none / inverted) and stream (none / inverted / skipping; one and two shards) engines; literal lists are also sent with repeated elements; trace-id filters (trace engine) not bound; MATCH out of scope.',
      'TLA+/TLC as criteria oracle + TLC-generated behaviours replayed through the public gRPC API under different index configurations',
      'Engine', 'DESIGN.md §5 C08, §12')
