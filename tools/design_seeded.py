#!/usr/bin/env python3
"""Regenerates the seeded-changes table of DESIGN.md §12.4 (between the SEEDED-TABLE markers) from seeded/*/verdicts.txt."""
import subprocess
t = subprocess.run(['python3', '/verif/tools/seedtable.py', '--table'], stdout=subprocess.PIPE, text=True).stdout
p = '/verif/DESIGN.md'
s = open(p).read()
a, b = s.index('<!-- SEEDED-TABLE-BEGIN -->'), s.index('<!-- SEEDED-TABLE-END -->')
s = s[:a] + '<!-- SEEDED-TABLE-BEGIN -->\n' + t + s[b:]
open(p, 'w').write(s)
print('table: %d lines' % len(t.splitlines()))
