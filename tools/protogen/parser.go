// Package main: protogen regenerates the Go protobuf bindings that upstream
// BanyanDB produces with buf/protoc (they are .gitignored and absent from the
// pinned tree).  No protoc / buf binary exists in the sandbox, so this file is a
// small proto3 parser that produces descriptorpb.FileDescriptorProto values.
package main

import (
	"fmt"
	"strconv"
	"strings"
	"unicode"

	"google.golang.org/protobuf/proto"
	dpb "google.golang.org/protobuf/types/descriptorpb"
)

type tokKind int

const (
	tEOF tokKind = iota
	tIdent
	tInt
	tFloat
	tString
	tSym
)

type token struct {
	kind tokKind
	text string
	line int
}

type lexer struct {
	src  []rune
	pos  int
	line int
	file string
}

func (l *lexer) errf(format string, a ...any) error {
	return fmt.Errorf("%s:%d: %s", l.file, l.line, fmt.Sprintf(format, a...))
}

func (l *lexer) next() (token, error) {
	for l.pos < len(l.src) {
		c := l.src[l.pos]
		switch {
		case c == '\n':
			l.line++
			l.pos++
		case unicode.IsSpace(c):
			l.pos++
		case c == '/' && l.pos+1 < len(l.src) && l.src[l.pos+1] == '/':
			for l.pos < len(l.src) && l.src[l.pos] != '\n' {
				l.pos++
			}
		case c == '/' && l.pos+1 < len(l.src) && l.src[l.pos+1] == '*':
			l.pos += 2
			for l.pos+1 < len(l.src) && !(l.src[l.pos] == '*' && l.src[l.pos+1] == '/') {
				if l.src[l.pos] == '\n' {
					l.line++
				}
				l.pos++
			}
			l.pos += 2
		default:
			goto scan
		}
	}
	return token{kind: tEOF, line: l.line}, nil
scan:
	c := l.src[l.pos]
	start := l.pos
	switch {
	case unicode.IsLetter(c) || c == '_':
		for l.pos < len(l.src) && (unicode.IsLetter(l.src[l.pos]) || unicode.IsDigit(l.src[l.pos]) || l.src[l.pos] == '_') {
			l.pos++
		}
		return token{tIdent, string(l.src[start:l.pos]), l.line}, nil
	case unicode.IsDigit(c) || (c == '.' && l.pos+1 < len(l.src) && unicode.IsDigit(l.src[l.pos+1])):
		isFloat := false
		if c == '0' && l.pos+1 < len(l.src) && (l.src[l.pos+1] == 'x' || l.src[l.pos+1] == 'X') {
			l.pos += 2
			for l.pos < len(l.src) && strings.ContainsRune("0123456789abcdefABCDEF", l.src[l.pos]) {
				l.pos++
			}
			return token{tInt, string(l.src[start:l.pos]), l.line}, nil
		}
		for l.pos < len(l.src) {
			ch := l.src[l.pos]
			if unicode.IsDigit(ch) {
				l.pos++
			} else if ch == '.' {
				isFloat = true
				l.pos++
			} else if ch == 'e' || ch == 'E' {
				isFloat = true
				l.pos++
				if l.pos < len(l.src) && (l.src[l.pos] == '+' || l.src[l.pos] == '-') {
					l.pos++
				}
			} else {
				break
			}
		}
		if isFloat {
			return token{tFloat, string(l.src[start:l.pos]), l.line}, nil
		}
		return token{tInt, string(l.src[start:l.pos]), l.line}, nil
	case c == '"' || c == '\'':
		q := c
		l.pos++
		var sb strings.Builder
		for l.pos < len(l.src) && l.src[l.pos] != q {
			ch := l.src[l.pos]
			if ch == '\\' && l.pos+1 < len(l.src) {
				l.pos++
				e := l.src[l.pos]
				switch e {
				case 'n':
					sb.WriteByte('\n')
				case 't':
					sb.WriteByte('\t')
				case 'r':
					sb.WriteByte('\r')
				case '\\', '"', '\'':
					sb.WriteRune(e)
				case '0':
					sb.WriteByte(0)
				default:
					return token{}, l.errf("unsupported escape \\%c", e)
				}
				l.pos++
				continue
			}
			if ch == '\n' {
				return token{}, l.errf("newline in string")
			}
			sb.WriteRune(ch)
			l.pos++
		}
		l.pos++
		return token{tString, sb.String(), l.line}, nil
	default:
		l.pos++
		return token{tSym, string(c), l.line}, nil
	}
}

// optionAST is one `name = value` option: Name is a path of parts; a part wrapped in
// parentheses is an extension name.
type optionAST struct {
	Parts []optPart
	Value optValue
}

type optPart struct {
	Name  string
	IsExt bool
}

type optValue struct {
	// Kind: "ident", "int", "float", "string", "aggregate"
	Kind string
	Text string // for aggregate: text-format body (without outer braces)
}

// parsed carries everything protogen needs about one .proto file.
type parsed struct {
	fd          *dpb.FileDescriptorProto
	fileOpts    []optionAST
	msgOpts     map[*dpb.DescriptorProto][]optionAST
	fieldOpts   map[*dpb.FieldDescriptorProto][]optionAST
	oneofOpts   map[*dpb.OneofDescriptorProto][]optionAST
	enumOpts    map[*dpb.EnumDescriptorProto][]optionAST
	enumValOpts map[*dpb.EnumValueDescriptorProto][]optionAST
	svcOpts     map[*dpb.ServiceDescriptorProto][]optionAST
	methodOpts  map[*dpb.MethodDescriptorProto][]optionAST
}

type parser struct {
	lx   *lexer
	tok  token
	peek *token
	out  *parsed
}

func parseProto(file, src string) (*parsed, error) {
	p := &parser{lx: &lexer{src: []rune(src), line: 1, file: file}}
	p.out = &parsed{
		fd:          &dpb.FileDescriptorProto{Name: proto.String(file)},
		msgOpts:     map[*dpb.DescriptorProto][]optionAST{},
		fieldOpts:   map[*dpb.FieldDescriptorProto][]optionAST{},
		oneofOpts:   map[*dpb.OneofDescriptorProto][]optionAST{},
		enumOpts:    map[*dpb.EnumDescriptorProto][]optionAST{},
		enumValOpts: map[*dpb.EnumValueDescriptorProto][]optionAST{},
		svcOpts:     map[*dpb.ServiceDescriptorProto][]optionAST{},
		methodOpts:  map[*dpb.MethodDescriptorProto][]optionAST{},
	}
	if err := p.advance(); err != nil {
		return nil, err
	}
	if err := p.parseFile(); err != nil {
		return nil, err
	}
	return p.out, nil
}

func (p *parser) advance() error {
	if p.peek != nil {
		p.tok = *p.peek
		p.peek = nil
		return nil
	}
	t, err := p.lx.next()
	if err != nil {
		return err
	}
	p.tok = t
	return nil
}

func (p *parser) errf(format string, a ...any) error {
	return fmt.Errorf("%s:%d: %s (at %q)", p.lx.file, p.tok.line, fmt.Sprintf(format, a...), p.tok.text)
}

func (p *parser) isSym(s string) bool   { return p.tok.kind == tSym && p.tok.text == s }
func (p *parser) isIdent(s string) bool { return p.tok.kind == tIdent && p.tok.text == s }

func (p *parser) expectSym(s string) error {
	if !p.isSym(s) {
		return p.errf("expected %q", s)
	}
	return p.advance()
}

func (p *parser) ident() (string, error) {
	if p.tok.kind != tIdent {
		return "", p.errf("expected identifier")
	}
	s := p.tok.text
	return s, p.advance()
}

// fullIdent parses a possibly dotted (and possibly leading-dot) name.
func (p *parser) fullIdent() (string, error) {
	var sb strings.Builder
	if p.isSym(".") {
		sb.WriteString(".")
		if err := p.advance(); err != nil {
			return "", err
		}
	}
	for {
		id, err := p.ident()
		if err != nil {
			return "", err
		}
		sb.WriteString(id)
		if !p.isSym(".") {
			break
		}
		sb.WriteString(".")
		if err := p.advance(); err != nil {
			return "", err
		}
	}
	return sb.String(), nil
}

func (p *parser) intLit() (int64, error) {
	neg := false
	if p.isSym("-") {
		neg = true
		if err := p.advance(); err != nil {
			return 0, err
		}
	}
	if p.tok.kind != tInt {
		return 0, p.errf("expected integer")
	}
	v, err := strconv.ParseInt(p.tok.text, 0, 64)
	if err != nil {
		return 0, p.errf("bad integer: %v", err)
	}
	if neg {
		v = -v
	}
	return v, p.advance()
}

func (p *parser) parseFile() error {
	for p.tok.kind != tEOF {
		switch {
		case p.isSym(";"):
			if err := p.advance(); err != nil {
				return err
			}
		case p.isIdent("syntax"):
			if err := p.advance(); err != nil {
				return err
			}
			if err := p.expectSym("="); err != nil {
				return err
			}
			if p.tok.kind != tString {
				return p.errf("expected syntax string")
			}
			if p.tok.text != "proto3" {
				return p.errf("only proto3 is supported")
			}
			p.out.fd.Syntax = proto.String("proto3")
			if err := p.advance(); err != nil {
				return err
			}
			if err := p.expectSym(";"); err != nil {
				return err
			}
		case p.isIdent("package"):
			if err := p.advance(); err != nil {
				return err
			}
			name, err := p.fullIdent()
			if err != nil {
				return err
			}
			p.out.fd.Package = proto.String(name)
			if err := p.expectSym(";"); err != nil {
				return err
			}
		case p.isIdent("import"):
			if err := p.advance(); err != nil {
				return err
			}
			public, weak := false, false
			if p.isIdent("public") {
				public = true
				if err := p.advance(); err != nil {
					return err
				}
			} else if p.isIdent("weak") {
				weak = true
				if err := p.advance(); err != nil {
					return err
				}
			}
			if p.tok.kind != tString {
				return p.errf("expected import path")
			}
			p.out.fd.Dependency = append(p.out.fd.Dependency, p.tok.text)
			idx := int32(len(p.out.fd.Dependency) - 1)
			if public {
				p.out.fd.PublicDependency = append(p.out.fd.PublicDependency, idx)
			}
			if weak {
				p.out.fd.WeakDependency = append(p.out.fd.WeakDependency, idx)
			}
			if err := p.advance(); err != nil {
				return err
			}
			if err := p.expectSym(";"); err != nil {
				return err
			}
		case p.isIdent("option"):
			o, err := p.parseOptionStmt()
			if err != nil {
				return err
			}
			p.out.fileOpts = append(p.out.fileOpts, o)
		case p.isIdent("message"):
			m, err := p.parseMessage()
			if err != nil {
				return err
			}
			p.out.fd.MessageType = append(p.out.fd.MessageType, m)
		case p.isIdent("enum"):
			e, err := p.parseEnum()
			if err != nil {
				return err
			}
			p.out.fd.EnumType = append(p.out.fd.EnumType, e)
		case p.isIdent("service"):
			s, err := p.parseService()
			if err != nil {
				return err
			}
			p.out.fd.Service = append(p.out.fd.Service, s)
		default:
			return p.errf("unexpected top-level token")
		}
	}
	return nil
}

// parseOptionStmt parses `option name = value ;`.
func (p *parser) parseOptionStmt() (optionAST, error) {
	if err := p.advance(); err != nil { // consume "option"
		return optionAST{}, err
	}
	o, err := p.parseOptionBody()
	if err != nil {
		return o, err
	}
	return o, p.expectSym(";")
}

// parseOptionBody parses `name = value` (shared by statements and [..] lists).
func (p *parser) parseOptionBody() (optionAST, error) {
	var o optionAST
	for {
		if p.isSym("(") {
			if err := p.advance(); err != nil {
				return o, err
			}
			name, err := p.fullIdent()
			if err != nil {
				return o, err
			}
			if err := p.expectSym(")"); err != nil {
				return o, err
			}
			o.Parts = append(o.Parts, optPart{Name: strings.TrimPrefix(name, "."), IsExt: true})
		} else {
			id, err := p.ident()
			if err != nil {
				return o, err
			}
			o.Parts = append(o.Parts, optPart{Name: id})
		}
		if !p.isSym(".") {
			break
		}
		if err := p.advance(); err != nil {
			return o, err
		}
	}
	if err := p.expectSym("="); err != nil {
		return o, err
	}
	v, err := p.parseConstant()
	o.Value = v
	return o, err
}

func (p *parser) parseConstant() (optValue, error) {
	switch {
	case p.isSym("{"):
		// aggregate: capture raw text up to the matching brace
		depth := 0
		start := p.lx.pos
		// p.tok is "{" already consumed by lexer; scan raw runes
		depth = 1
		i := p.lx.pos
		inStr := rune(0)
		for i < len(p.lx.src) && depth > 0 {
			c := p.lx.src[i]
			switch {
			case inStr != 0:
				if c == '\\' {
					i++
				} else if c == inStr {
					inStr = 0
				}
			case c == '"' || c == '\'':
				inStr = c
			case c == '{':
				depth++
			case c == '}':
				depth--
			case c == '\n':
				p.lx.line++
			}
			i++
		}
		if depth != 0 {
			return optValue{}, p.errf("unterminated aggregate")
		}
		body := string(p.lx.src[start : i-1])
		p.lx.pos = i
		if err := p.advance(); err != nil {
			return optValue{}, err
		}
		return optValue{Kind: "aggregate", Text: body}, nil
	case p.tok.kind == tString:
		s := p.tok.text
		if err := p.advance(); err != nil {
			return optValue{}, err
		}
		// adjacent string literals concatenate
		for p.tok.kind == tString {
			s += p.tok.text
			if err := p.advance(); err != nil {
				return optValue{}, err
			}
		}
		return optValue{Kind: "string", Text: s}, nil
	case p.tok.kind == tIdent:
		s, err := p.fullIdent()
		return optValue{Kind: "ident", Text: s}, err
	case p.isSym("-") || p.isSym("+") || p.tok.kind == tInt || p.tok.kind == tFloat:
		sign := ""
		if p.isSym("-") || p.isSym("+") {
			if p.isSym("-") {
				sign = "-"
			}
			if err := p.advance(); err != nil {
				return optValue{}, err
			}
		}
		kind := "int"
		if p.tok.kind == tFloat {
			kind = "float"
		} else if p.tok.kind == tIdent && (p.tok.text == "inf" || p.tok.text == "nan") {
			kind = "float"
		} else if p.tok.kind != tInt {
			return optValue{}, p.errf("expected number")
		}
		v := optValue{Kind: kind, Text: sign + p.tok.text}
		return v, p.advance()
	}
	return optValue{}, p.errf("expected constant")
}

// parseBracketOptions parses `[ a = b, c = d ]` if present.
func (p *parser) parseBracketOptions() ([]optionAST, error) {
	if !p.isSym("[") {
		return nil, nil
	}
	if err := p.advance(); err != nil {
		return nil, err
	}
	var out []optionAST
	for {
		o, err := p.parseOptionBody()
		if err != nil {
			return nil, err
		}
		out = append(out, o)
		if p.isSym(",") {
			if err := p.advance(); err != nil {
				return nil, err
			}
			continue
		}
		break
	}
	return out, p.expectSym("]")
}

var scalarTypes = map[string]dpb.FieldDescriptorProto_Type{
	"double": dpb.FieldDescriptorProto_TYPE_DOUBLE, "float": dpb.FieldDescriptorProto_TYPE_FLOAT,
	"int64": dpb.FieldDescriptorProto_TYPE_INT64, "uint64": dpb.FieldDescriptorProto_TYPE_UINT64,
	"int32": dpb.FieldDescriptorProto_TYPE_INT32, "fixed64": dpb.FieldDescriptorProto_TYPE_FIXED64,
	"fixed32": dpb.FieldDescriptorProto_TYPE_FIXED32, "bool": dpb.FieldDescriptorProto_TYPE_BOOL,
	"string": dpb.FieldDescriptorProto_TYPE_STRING, "bytes": dpb.FieldDescriptorProto_TYPE_BYTES,
	"uint32": dpb.FieldDescriptorProto_TYPE_UINT32, "sfixed32": dpb.FieldDescriptorProto_TYPE_SFIXED32,
	"sfixed64": dpb.FieldDescriptorProto_TYPE_SFIXED64, "sint32": dpb.FieldDescriptorProto_TYPE_SINT32,
	"sint64": dpb.FieldDescriptorProto_TYPE_SINT64,
}

func jsonName(s string) string {
	var sb strings.Builder
	up := false
	for _, c := range s {
		if c == '_' {
			up = true
			continue
		}
		if up {
			sb.WriteRune(unicode.ToUpper(c))
			up = false
		} else {
			sb.WriteRune(c)
		}
	}
	return sb.String()
}

func camelCase(s string) string {
	// matches protoc's ToCamelCase(name, lower_first=false) used for map entry names
	var sb strings.Builder
	up := true
	for _, c := range s {
		if c == '_' {
			up = true
			continue
		}
		if up {
			sb.WriteRune(unicode.ToUpper(c))
			up = false
		} else {
			sb.WriteRune(c)
		}
	}
	return sb.String()
}

func setFieldType(f *dpb.FieldDescriptorProto, typ string) {
	if t, ok := scalarTypes[typ]; ok {
		f.Type = t.Enum()
		return
	}
	// resolved later by the linker
	f.TypeName = proto.String(typ)
}

func (p *parser) parseMessage() (*dpb.DescriptorProto, error) {
	if err := p.advance(); err != nil { // "message"
		return nil, err
	}
	name, err := p.ident()
	if err != nil {
		return nil, err
	}
	m := &dpb.DescriptorProto{Name: proto.String(name)}
	if err := p.expectSym("{"); err != nil {
		return nil, err
	}
	for !p.isSym("}") {
		switch {
		case p.tok.kind == tEOF:
			return nil, p.errf("unexpected EOF in message")
		case p.isSym(";"):
			if err := p.advance(); err != nil {
				return nil, err
			}
		case p.isIdent("message"):
			nm, err := p.parseMessage()
			if err != nil {
				return nil, err
			}
			m.NestedType = append(m.NestedType, nm)
		case p.isIdent("enum"):
			ne, err := p.parseEnum()
			if err != nil {
				return nil, err
			}
			m.EnumType = append(m.EnumType, ne)
		case p.isIdent("option"):
			o, err := p.parseOptionStmt()
			if err != nil {
				return nil, err
			}
			p.out.msgOpts[m] = append(p.out.msgOpts[m], o)
		case p.isIdent("oneof"):
			if err := p.parseOneof(m); err != nil {
				return nil, err
			}
		case p.isIdent("reserved"):
			if err := p.parseReserved(m, nil); err != nil {
				return nil, err
			}
		case p.isIdent("map"):
			// could also be a message type named "map..." — only treat as map when followed by '<'
			if err := p.parseMapOrField(m); err != nil {
				return nil, err
			}
		default:
			f, err := p.parseField(true)
			if err != nil {
				return nil, err
			}
			if f.GetProto3Optional() {
				oo := &dpb.OneofDescriptorProto{Name: proto.String("_" + f.GetName())}
				// synthetic oneofs must come after all real oneofs: fix up at the end
				f.OneofIndex = proto.Int32(-1)
				m.OneofDecl = append(m.OneofDecl, oo)
				syntheticOneofs[oo] = f
			}
			m.Field = append(m.Field, f)
		}
	}
	if err := p.advance(); err != nil { // "}"
		return nil, err
	}
	fixSyntheticOneofs(m)
	return m, nil
}

// syntheticOneofs maps a synthetic oneof to its proto3-optional field so indexes can be fixed up
// after the whole message (and all its real oneofs) has been parsed.
var syntheticOneofs = map[*dpb.OneofDescriptorProto]*dpb.FieldDescriptorProto{}

func fixSyntheticOneofs(m *dpb.DescriptorProto) {
	var realO, synth []*dpb.OneofDescriptorProto
	for _, o := range m.OneofDecl {
		if _, ok := syntheticOneofs[o]; ok {
			synth = append(synth, o)
		} else {
			realO = append(realO, o)
		}
	}
	if len(synth) == 0 {
		return
	}
	// remap real oneof indexes
	oldIdx := map[*dpb.OneofDescriptorProto]int32{}
	for i, o := range m.OneofDecl {
		oldIdx[o] = int32(i)
	}
	newDecl := append(append([]*dpb.OneofDescriptorProto{}, realO...), synth...)
	newIdx := map[int32]int32{}
	for i, o := range newDecl {
		newIdx[oldIdx[o]] = int32(i)
	}
	for _, f := range m.Field {
		if f.OneofIndex != nil && f.GetOneofIndex() >= 0 {
			f.OneofIndex = proto.Int32(newIdx[f.GetOneofIndex()])
		}
	}
	for i, o := range newDecl {
		if f, ok := syntheticOneofs[o]; ok {
			f.OneofIndex = proto.Int32(int32(i))
		}
	}
	m.OneofDecl = newDecl
}

func (p *parser) parseMapOrField(m *dpb.DescriptorProto) error {
	// lookahead: "map" "<"
	save := p.tok
	t, err := p.lx.next()
	if err != nil {
		return err
	}
	if !(t.kind == tSym && t.text == "<") {
		p.peek = &t
		p.tok = save
		f, err := p.parseField(true)
		if err != nil {
			return err
		}
		m.Field = append(m.Field, f)
		return nil
	}
	if err := p.advance(); err != nil { // now at key type
		return err
	}
	keyType, err := p.ident()
	if err != nil {
		return err
	}
	if err := p.expectSym(","); err != nil {
		return err
	}
	valType, err := p.fullIdent()
	if err != nil {
		return err
	}
	if err := p.expectSym(">"); err != nil {
		return err
	}
	name, err := p.ident()
	if err != nil {
		return err
	}
	if err := p.expectSym("="); err != nil {
		return err
	}
	num, err := p.intLit()
	if err != nil {
		return err
	}
	opts, err := p.parseBracketOptions()
	if err != nil {
		return err
	}
	if err := p.expectSym(";"); err != nil {
		return err
	}
	entryName := camelCase(name) + "Entry"
	kf := &dpb.FieldDescriptorProto{Name: proto.String("key"), Number: proto.Int32(1), Label: dpb.FieldDescriptorProto_LABEL_OPTIONAL.Enum(), JsonName: proto.String("key")}
	setFieldType(kf, keyType)
	vf := &dpb.FieldDescriptorProto{Name: proto.String("value"), Number: proto.Int32(2), Label: dpb.FieldDescriptorProto_LABEL_OPTIONAL.Enum(), JsonName: proto.String("value")}
	setFieldType(vf, valType)
	entry := &dpb.DescriptorProto{
		Name:    proto.String(entryName),
		Field:   []*dpb.FieldDescriptorProto{kf, vf},
		Options: &dpb.MessageOptions{MapEntry: proto.Bool(true)},
	}
	m.NestedType = append(m.NestedType, entry)
	f := &dpb.FieldDescriptorProto{
		Name: proto.String(name), Number: proto.Int32(int32(num)),
		Label:    dpb.FieldDescriptorProto_LABEL_REPEATED.Enum(),
		TypeName: proto.String(entryName), JsonName: proto.String(jsonName(name)),
	}
	if len(opts) > 0 {
		p.out.fieldOpts[f] = opts
	}
	m.Field = append(m.Field, f)
	return nil
}

func (p *parser) parseField(allowLabel bool) (*dpb.FieldDescriptorProto, error) {
	f := &dpb.FieldDescriptorProto{Label: dpb.FieldDescriptorProto_LABEL_OPTIONAL.Enum()}
	if allowLabel {
		switch {
		case p.isIdent("repeated"):
			f.Label = dpb.FieldDescriptorProto_LABEL_REPEATED.Enum()
			if err := p.advance(); err != nil {
				return nil, err
			}
		case p.isIdent("optional"):
			f.Proto3Optional = proto.Bool(true)
			if err := p.advance(); err != nil {
				return nil, err
			}
		}
	}
	typ, err := p.fullIdent()
	if err != nil {
		return nil, err
	}
	setFieldType(f, typ)
	name, err := p.ident()
	if err != nil {
		return nil, err
	}
	f.Name = proto.String(name)
	f.JsonName = proto.String(jsonName(name))
	if err := p.expectSym("="); err != nil {
		return nil, err
	}
	num, err := p.intLit()
	if err != nil {
		return nil, err
	}
	f.Number = proto.Int32(int32(num))
	opts, err := p.parseBracketOptions()
	if err != nil {
		return nil, err
	}
	if len(opts) > 0 {
		p.out.fieldOpts[f] = opts
	}
	return f, p.expectSym(";")
}

func (p *parser) parseOneof(m *dpb.DescriptorProto) error {
	if err := p.advance(); err != nil {
		return err
	}
	name, err := p.ident()
	if err != nil {
		return err
	}
	o := &dpb.OneofDescriptorProto{Name: proto.String(name)}
	m.OneofDecl = append(m.OneofDecl, o)
	idx := int32(len(m.OneofDecl) - 1)
	if err := p.expectSym("{"); err != nil {
		return err
	}
	for !p.isSym("}") {
		switch {
		case p.isSym(";"):
			if err := p.advance(); err != nil {
				return err
			}
		case p.isIdent("option"):
			oo, err := p.parseOptionStmt()
			if err != nil {
				return err
			}
			p.out.oneofOpts[o] = append(p.out.oneofOpts[o], oo)
		default:
			f, err := p.parseField(false)
			if err != nil {
				return err
			}
			f.OneofIndex = proto.Int32(idx)
			m.Field = append(m.Field, f)
		}
	}
	return p.advance()
}

func (p *parser) parseReserved(m *dpb.DescriptorProto, e *dpb.EnumDescriptorProto) error {
	if err := p.advance(); err != nil {
		return err
	}
	for {
		if p.tok.kind == tString {
			if m != nil {
				m.ReservedName = append(m.ReservedName, p.tok.text)
			} else {
				e.ReservedName = append(e.ReservedName, p.tok.text)
			}
			if err := p.advance(); err != nil {
				return err
			}
		} else {
			lo, err := p.intLit()
			if err != nil {
				return err
			}
			hi := lo
			if p.isIdent("to") {
				if err := p.advance(); err != nil {
					return err
				}
				if p.isIdent("max") {
					hi = 536870911
					if e != nil {
						hi = 2147483647
					}
					if err := p.advance(); err != nil {
						return err
					}
				} else if hi, err = p.intLit(); err != nil {
					return err
				}
			}
			if m != nil {
				m.ReservedRange = append(m.ReservedRange, &dpb.DescriptorProto_ReservedRange{Start: proto.Int32(int32(lo)), End: proto.Int32(int32(hi + 1))})
			} else {
				e.ReservedRange = append(e.ReservedRange, &dpb.EnumDescriptorProto_EnumReservedRange{Start: proto.Int32(int32(lo)), End: proto.Int32(int32(hi))})
			}
		}
		if p.isSym(",") {
			if err := p.advance(); err != nil {
				return err
			}
			continue
		}
		break
	}
	return p.expectSym(";")
}

func (p *parser) parseEnum() (*dpb.EnumDescriptorProto, error) {
	if err := p.advance(); err != nil {
		return nil, err
	}
	name, err := p.ident()
	if err != nil {
		return nil, err
	}
	e := &dpb.EnumDescriptorProto{Name: proto.String(name)}
	if err := p.expectSym("{"); err != nil {
		return nil, err
	}
	for !p.isSym("}") {
		switch {
		case p.isSym(";"):
			if err := p.advance(); err != nil {
				return nil, err
			}
		case p.isIdent("option"):
			o, err := p.parseOptionStmt()
			if err != nil {
				return nil, err
			}
			p.out.enumOpts[e] = append(p.out.enumOpts[e], o)
		case p.isIdent("reserved"):
			if err := p.parseReserved(nil, e); err != nil {
				return nil, err
			}
		default:
			vn, err := p.ident()
			if err != nil {
				return nil, err
			}
			if err := p.expectSym("="); err != nil {
				return nil, err
			}
			num, err := p.intLit()
			if err != nil {
				return nil, err
			}
			v := &dpb.EnumValueDescriptorProto{Name: proto.String(vn), Number: proto.Int32(int32(num))}
			opts, err := p.parseBracketOptions()
			if err != nil {
				return nil, err
			}
			if len(opts) > 0 {
				p.out.enumValOpts[v] = opts
			}
			e.Value = append(e.Value, v)
			if err := p.expectSym(";"); err != nil {
				return nil, err
			}
		}
	}
	return e, p.advance()
}

func (p *parser) parseService() (*dpb.ServiceDescriptorProto, error) {
	if err := p.advance(); err != nil {
		return nil, err
	}
	name, err := p.ident()
	if err != nil {
		return nil, err
	}
	s := &dpb.ServiceDescriptorProto{Name: proto.String(name)}
	if err := p.expectSym("{"); err != nil {
		return nil, err
	}
	for !p.isSym("}") {
		switch {
		case p.isSym(";"):
			if err := p.advance(); err != nil {
				return nil, err
			}
		case p.isIdent("option"):
			o, err := p.parseOptionStmt()
			if err != nil {
				return nil, err
			}
			p.out.svcOpts[s] = append(p.out.svcOpts[s], o)
		case p.isIdent("rpc"):
			if err := p.advance(); err != nil {
				return nil, err
			}
			mn, err := p.ident()
			if err != nil {
				return nil, err
			}
			md := &dpb.MethodDescriptorProto{Name: proto.String(mn)}
			parseSide := func() (string, bool, error) {
				if err := p.expectSym("("); err != nil {
					return "", false, err
				}
				stream := false
				if p.isIdent("stream") {
					// "stream" could also be a type name; check next token is an identifier or '.'
					save := p.tok
					t, err := p.lx.next()
					if err != nil {
						return "", false, err
					}
					if t.kind == tIdent || (t.kind == tSym && t.text == ".") {
						stream = true
						p.tok = t
					} else {
						p.peek = &t
						p.tok = save
					}
				}
				tn, err := p.fullIdent()
				if err != nil {
					return "", false, err
				}
				return tn, stream, p.expectSym(")")
			}
			in, inS, err := parseSide()
			if err != nil {
				return nil, err
			}
			if !p.isIdent("returns") {
				return nil, p.errf("expected returns")
			}
			if err := p.advance(); err != nil {
				return nil, err
			}
			out, outS, err := parseSide()
			if err != nil {
				return nil, err
			}
			md.InputType, md.OutputType = proto.String(in), proto.String(out)
			if inS {
				md.ClientStreaming = proto.Bool(true)
			}
			if outS {
				md.ServerStreaming = proto.Bool(true)
			}
			if p.isSym("{") {
				if err := p.advance(); err != nil {
					return nil, err
				}
				for !p.isSym("}") {
					if p.isSym(";") {
						if err := p.advance(); err != nil {
							return nil, err
						}
						continue
					}
					if !p.isIdent("option") {
						return nil, p.errf("expected option in rpc body")
					}
					o, err := p.parseOptionStmt()
					if err != nil {
						return nil, err
					}
					p.out.methodOpts[md] = append(p.out.methodOpts[md], o)
				}
				if err := p.advance(); err != nil {
					return nil, err
				}
			} else if err := p.expectSym(";"); err != nil {
				return nil, err
			}
			s.Method = append(s.Method, md)
		default:
			return nil, p.errf("unexpected token in service")
		}
	}
	return s, p.advance()
}
