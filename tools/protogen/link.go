package main

import (
	"fmt"
	"math"
	"strconv"
	"strings"

	"google.golang.org/protobuf/encoding/prototext"
	"google.golang.org/protobuf/proto"
	"google.golang.org/protobuf/reflect/protodesc"
	"google.golang.org/protobuf/reflect/protoreflect"
	"google.golang.org/protobuf/reflect/protoregistry"
	dpb "google.golang.org/protobuf/types/descriptorpb"

	// Link the descriptors (and extension types) the BanyanDB protos import.
	_ "github.com/envoyproxy/protoc-gen-validate/validate"
	_ "github.com/grpc-ecosystem/grpc-gateway/v2/protoc-gen-openapiv2/options"
	_ "google.golang.org/genproto/googleapis/api/annotations"
	_ "google.golang.org/protobuf/types/known/anypb"
	_ "google.golang.org/protobuf/types/known/durationpb"
	_ "google.golang.org/protobuf/types/known/emptypb"
	_ "google.golang.org/protobuf/types/known/structpb"
	_ "google.golang.org/protobuf/types/known/timestamppb"
	_ "google.golang.org/protobuf/types/known/wrapperspb"
)

// symKind is 'm' for messages and 'e' for enums.
type symtab map[string]byte

func addFileSymbols(st symtab, fd *dpb.FileDescriptorProto) {
	pkg := fd.GetPackage()
	var walk func(prefix string, m *dpb.DescriptorProto)
	walk = func(prefix string, m *dpb.DescriptorProto) {
		fq := prefix + "." + m.GetName()
		st[fq] = 'm'
		for _, e := range m.EnumType {
			st[fq+"."+e.GetName()] = 'e'
		}
		for _, n := range m.NestedType {
			walk(fq, n)
		}
	}
	prefix := ""
	if pkg != "" {
		prefix = "." + pkg
	}
	for _, m := range fd.MessageType {
		walk(prefix, m)
	}
	for _, e := range fd.EnumType {
		st[prefix+"."+e.GetName()] = 'e'
	}
}

// resolve implements protobuf's relative-name lookup: innermost scope outwards.
func resolve(st symtab, scope, name string) (string, byte, bool) {
	if strings.HasPrefix(name, ".") {
		k, ok := st[name]
		return name, k, ok
	}
	first := name
	if i := strings.Index(name, "."); i >= 0 {
		first = name[:i]
	}
	for {
		cand := scope + "." + name
		if k, ok := st[cand]; ok {
			return cand, k, true
		}
		// protoc commits to the first scope in which the *first component* resolves
		if _, ok := st[scope+"."+first]; ok && first != name {
			return "", 0, false
		}
		if scope == "" {
			return "", 0, false
		}
		i := strings.LastIndex(scope, ".")
		scope = scope[:i]
	}
}

func linkFile(st symtab, fd *dpb.FileDescriptorProto) error {
	pkgScope := ""
	if fd.GetPackage() != "" {
		pkgScope = "." + fd.GetPackage()
	}
	var walk func(scope string, m *dpb.DescriptorProto) error
	walk = func(scope string, m *dpb.DescriptorProto) error {
		self := scope + "." + m.GetName()
		for _, f := range m.Field {
			if f.TypeName == nil {
				continue
			}
			fq, kind, ok := resolve(st, self, f.GetTypeName())
			if !ok {
				return fmt.Errorf("%s: cannot resolve type %q in %s", fd.GetName(), f.GetTypeName(), self)
			}
			f.TypeName = proto.String(fq)
			if kind == 'm' {
				f.Type = dpb.FieldDescriptorProto_TYPE_MESSAGE.Enum()
			} else {
				f.Type = dpb.FieldDescriptorProto_TYPE_ENUM.Enum()
			}
		}
		for _, n := range m.NestedType {
			if err := walk(self, n); err != nil {
				return err
			}
		}
		return nil
	}
	for _, m := range fd.MessageType {
		if err := walk(pkgScope, m); err != nil {
			return err
		}
	}
	for _, s := range fd.Service {
		for _, md := range s.Method {
			in, _, ok := resolve(st, pkgScope, md.GetInputType())
			if !ok {
				return fmt.Errorf("%s: cannot resolve %q", fd.GetName(), md.GetInputType())
			}
			out, _, ok := resolve(st, pkgScope, md.GetOutputType())
			if !ok {
				return fmt.Errorf("%s: cannot resolve %q", fd.GetName(), md.GetOutputType())
			}
			md.InputType, md.OutputType = proto.String(in), proto.String(out)
		}
	}
	return nil
}

// registryFile returns the FileDescriptorProto of a linked-in dependency (WKT, validate, google.api, openapiv2).
func registryFile(path string) (*dpb.FileDescriptorProto, error) {
	d, err := protoregistry.GlobalFiles.FindFileByPath(path)
	if err != nil {
		return nil, fmt.Errorf("import %q is neither in the source tree nor linked into protogen: %w", path, err)
	}
	return protodesc.ToFileDescriptorProto(d), nil
}

// applyOptions encodes the parsed option ASTs onto the descriptor's options messages.
func applyOptions(ps *parsed) error {
	fd := ps.fd
	pkg := fd.GetPackage()
	set := func(get func() proto.Message, opts []optionAST, where string) error {
		for _, o := range opts {
			if err := setOption(get().ProtoReflect(), o, pkg); err != nil {
				return fmt.Errorf("%s: %s: %w", fd.GetName(), where, err)
			}
		}
		return nil
	}
	if err := set(func() proto.Message {
		if fd.Options == nil {
			fd.Options = &dpb.FileOptions{}
		}
		return fd.Options
	}, ps.fileOpts, "file option"); err != nil {
		return err
	}
	for m, oo := range ps.msgOpts {
		m := m
		if err := set(func() proto.Message {
			if m.Options == nil {
				m.Options = &dpb.MessageOptions{}
			}
			return m.Options
		}, oo, "message "+m.GetName()); err != nil {
			return err
		}
	}
	for f, oo := range ps.fieldOpts {
		f := f
		var rest []optionAST
		for _, o := range oo {
			if len(o.Parts) == 1 && !o.Parts[0].IsExt && o.Parts[0].Name == "json_name" {
				f.JsonName = proto.String(o.Value.Text)
				continue
			}
			rest = append(rest, o)
		}
		if err := set(func() proto.Message {
			if f.Options == nil {
				f.Options = &dpb.FieldOptions{}
			}
			return f.Options
		}, rest, "field "+f.GetName()); err != nil {
			return err
		}
	}
	for x, oo := range ps.oneofOpts {
		x := x
		if err := set(func() proto.Message {
			if x.Options == nil {
				x.Options = &dpb.OneofOptions{}
			}
			return x.Options
		}, oo, "oneof "+x.GetName()); err != nil {
			return err
		}
	}
	for x, oo := range ps.enumOpts {
		x := x
		if err := set(func() proto.Message {
			if x.Options == nil {
				x.Options = &dpb.EnumOptions{}
			}
			return x.Options
		}, oo, "enum "+x.GetName()); err != nil {
			return err
		}
	}
	for x, oo := range ps.enumValOpts {
		x := x
		if err := set(func() proto.Message {
			if x.Options == nil {
				x.Options = &dpb.EnumValueOptions{}
			}
			return x.Options
		}, oo, "enum value "+x.GetName()); err != nil {
			return err
		}
	}
	for x, oo := range ps.svcOpts {
		x := x
		if err := set(func() proto.Message {
			if x.Options == nil {
				x.Options = &dpb.ServiceOptions{}
			}
			return x.Options
		}, oo, "service "+x.GetName()); err != nil {
			return err
		}
	}
	for x, oo := range ps.methodOpts {
		x := x
		if err := set(func() proto.Message {
			if x.Options == nil {
				x.Options = &dpb.MethodOptions{}
			}
			return x.Options
		}, oo, "method "+x.GetName()); err != nil {
			return err
		}
	}
	return nil
}

func findExtension(name, pkg string) (protoreflect.ExtensionType, error) {
	scope := pkg
	for {
		cand := name
		if scope != "" {
			cand = scope + "." + name
		}
		if xt, err := protoregistry.GlobalTypes.FindExtensionByName(protoreflect.FullName(cand)); err == nil {
			return xt, nil
		}
		if scope == "" {
			return nil, fmt.Errorf("unknown extension (%s)", name)
		}
		if i := strings.LastIndex(scope, "."); i >= 0 {
			scope = scope[:i]
		} else {
			scope = ""
		}
	}
}

func setOption(msg protoreflect.Message, o optionAST, pkg string) error {
	cur := msg
	for i, part := range o.Parts {
		var fdesc protoreflect.FieldDescriptor
		if part.IsExt {
			xt, err := findExtension(part.Name, pkg)
			if err != nil {
				return err
			}
			if xt.TypeDescriptor().ContainingMessage().FullName() != cur.Descriptor().FullName() {
				return fmt.Errorf("extension (%s) does not extend %s", part.Name, cur.Descriptor().FullName())
			}
			fdesc = xt.TypeDescriptor()
		} else {
			fdesc = cur.Descriptor().Fields().ByName(protoreflect.Name(part.Name))
			if fdesc == nil {
				return fmt.Errorf("option field %q not found in %s", part.Name, cur.Descriptor().FullName())
			}
		}
		last := i == len(o.Parts)-1
		if !last {
			if fdesc.Kind() != protoreflect.MessageKind || fdesc.IsList() || fdesc.IsMap() {
				return fmt.Errorf("option path component %q is not a singular message", part.Name)
			}
			cur = cur.Mutable(fdesc).Message()
			continue
		}
		return setLeaf(cur, fdesc, o.Value)
	}
	return nil
}

func setLeaf(cur protoreflect.Message, fdesc protoreflect.FieldDescriptor, v optValue) error {
	if fdesc.Kind() == protoreflect.MessageKind || fdesc.Kind() == protoreflect.GroupKind {
		if v.Kind != "aggregate" {
			return fmt.Errorf("option %s needs an aggregate value", fdesc.FullName())
		}
		var target protoreflect.Message
		if fdesc.IsList() {
			target = cur.Mutable(fdesc).List().AppendMutable().Message()
		} else {
			target = cur.Mutable(fdesc).Message()
		}
		tmp := target.New().Interface()
		if err := (prototext.UnmarshalOptions{}).Unmarshal([]byte(v.Text), tmp); err != nil {
			return fmt.Errorf("aggregate for %s: %w", fdesc.FullName(), err)
		}
		proto.Merge(target.Interface(), tmp)
		return nil
	}
	val, err := scalarValue(fdesc, v)
	if err != nil {
		return err
	}
	if fdesc.IsList() {
		cur.Mutable(fdesc).List().Append(val)
	} else {
		cur.Set(fdesc, val)
	}
	return nil
}

func scalarValue(fdesc protoreflect.FieldDescriptor, v optValue) (protoreflect.Value, error) {
	bad := func() (protoreflect.Value, error) {
		return protoreflect.Value{}, fmt.Errorf("option %s: cannot use %s %q", fdesc.FullName(), v.Kind, v.Text)
	}
	switch fdesc.Kind() {
	case protoreflect.BoolKind:
		if v.Kind != "ident" || (v.Text != "true" && v.Text != "false") {
			return bad()
		}
		return protoreflect.ValueOfBool(v.Text == "true"), nil
	case protoreflect.StringKind:
		if v.Kind != "string" {
			return bad()
		}
		return protoreflect.ValueOfString(v.Text), nil
	case protoreflect.BytesKind:
		if v.Kind != "string" {
			return bad()
		}
		return protoreflect.ValueOfBytes([]byte(v.Text)), nil
	case protoreflect.EnumKind:
		if v.Kind != "ident" {
			return bad()
		}
		ev := fdesc.Enum().Values().ByName(protoreflect.Name(v.Text))
		if ev == nil {
			return bad()
		}
		return protoreflect.ValueOfEnum(ev.Number()), nil
	case protoreflect.Int32Kind, protoreflect.Sint32Kind, protoreflect.Sfixed32Kind:
		n, err := strconv.ParseInt(v.Text, 0, 32)
		if err != nil || v.Kind != "int" {
			return bad()
		}
		return protoreflect.ValueOfInt32(int32(n)), nil
	case protoreflect.Int64Kind, protoreflect.Sint64Kind, protoreflect.Sfixed64Kind:
		n, err := strconv.ParseInt(v.Text, 0, 64)
		if err != nil || v.Kind != "int" {
			return bad()
		}
		return protoreflect.ValueOfInt64(n), nil
	case protoreflect.Uint32Kind, protoreflect.Fixed32Kind:
		n, err := strconv.ParseUint(v.Text, 0, 32)
		if err != nil || v.Kind != "int" {
			return bad()
		}
		return protoreflect.ValueOfUint32(uint32(n)), nil
	case protoreflect.Uint64Kind, protoreflect.Fixed64Kind:
		n, err := strconv.ParseUint(v.Text, 0, 64)
		if err != nil || v.Kind != "int" {
			return bad()
		}
		return protoreflect.ValueOfUint64(n), nil
	case protoreflect.FloatKind, protoreflect.DoubleKind:
		var f float64
		switch strings.TrimPrefix(v.Text, "-") {
		case "inf":
			f = math.Inf(1)
		case "nan":
			f = math.NaN()
		default:
			var err error
			if f, err = strconv.ParseFloat(strings.TrimPrefix(v.Text, "-"), 64); err != nil {
				return bad()
			}
		}
		if strings.HasPrefix(v.Text, "-") {
			f = -f
		}
		if fdesc.Kind() == protoreflect.FloatKind {
			return protoreflect.ValueOfFloat32(float32(f)), nil
		}
		return protoreflect.ValueOfFloat64(f), nil
	}
	return bad()
}
