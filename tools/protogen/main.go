package main

import (
	"bytes"
	"encoding/json"
	"flag"
	"fmt"
	"os"
	"os/exec"
	"path/filepath"
	"sort"
	"strings"

	"google.golang.org/protobuf/compiler/protogen"
	"google.golang.org/protobuf/proto"
	"google.golang.org/protobuf/reflect/protodesc"
	"google.golang.org/protobuf/reflect/protoregistry"
	dpb "google.golang.org/protobuf/types/descriptorpb"
	"google.golang.org/protobuf/types/pluginpb"
)

func die(format string, a ...any) {
	fmt.Fprintf(os.Stderr, "protogen: "+format+"\n", a...)
	os.Exit(2)
}

func main() {
	protoRoot := flag.String("proto_root", "/repo/api/proto", "directory holding banyandb/**/*.proto")
	outDir := flag.String("out", "", "output directory for generated Go files")
	overlayPath := flag.String("overlay", "", "path of the go build -overlay JSON to write")
	pluginGo := flag.String("protoc-gen-go", "", "path to protoc-gen-go binary")
	pluginGW := flag.String("protoc-gen-grpc-gateway", "", "path to protoc-gen-grpc-gateway binary (optional)")
	extraOverlay := flag.String("extra", "", "comma separated src=dst overlay entries to add")
	flag.Parse()
	if *outDir == "" || *overlayPath == "" || *pluginGo == "" {
		die("-out, -overlay and -protoc-gen-go are required")
	}

	// 1. parse
	var relFiles []string
	err := filepath.Walk(*protoRoot, func(p string, info os.FileInfo, err error) error {
		if err != nil {
			return err
		}
		if !info.IsDir() && strings.HasSuffix(p, ".proto") {
			rel, _ := filepath.Rel(*protoRoot, p)
			relFiles = append(relFiles, filepath.ToSlash(rel))
		}
		return nil
	})
	if err != nil {
		die("walk: %v", err)
	}
	sort.Strings(relFiles)
	parsedFiles := map[string]*parsed{}
	for _, rel := range relFiles {
		src, err := os.ReadFile(filepath.Join(*protoRoot, rel))
		if err != nil {
			die("%v", err)
		}
		ps, err := parseProto(rel, string(src))
		if err != nil {
			die("%v", err)
		}
		parsedFiles[rel] = ps
	}

	// 2. collect transitive deps (from the registry for non-source files), topologically ordered
	all := map[string]*dpb.FileDescriptorProto{}
	var order []string
	var visit func(path string, stack []string)
	visit = func(path string, stack []string) {
		if _, done := all[path]; done {
			return
		}
		for _, s := range stack {
			if s == path {
				die("import cycle: %v -> %s", stack, path)
			}
		}
		var fd *dpb.FileDescriptorProto
		if ps, ok := parsedFiles[path]; ok {
			fd = ps.fd
		} else {
			var err error
			if fd, err = registryFile(path); err != nil {
				die("%v", err)
			}
		}
		for _, dep := range fd.Dependency {
			visit(dep, append(stack, path))
		}
		all[path] = fd
		order = append(order, path)
	}
	for _, rel := range relFiles {
		visit(rel, nil)
	}

	// 3. link + options
	st := symtab{}
	for _, fd := range all {
		addFileSymbols(st, fd)
	}
	for _, rel := range relFiles {
		if err := linkFile(st, parsedFiles[rel].fd); err != nil {
			die("%v", err)
		}
		if err := applyOptions(parsedFiles[rel]); err != nil {
			die("%v", err)
		}
	}

	// 4. sanity: the descriptors must build (catches parser/linker mistakes early)
	files := new(protoregistry.Files)
	for _, path := range order {
		d, err := protodesc.NewFile(all[path], files)
		if err != nil {
			die("descriptor check failed for %s: %v", path, err)
		}
		if err := files.RegisterFile(d); err != nil {
			die("register %s: %v", path, err)
		}
	}

	// 5. run generators
	req := &pluginpb.CodeGeneratorRequest{
		FileToGenerate:  relFiles,
		Parameter:       proto.String("paths=source_relative"),
		CompilerVersion: &pluginpb.Version{Major: proto.Int32(5), Minor: proto.Int32(29), Patch: proto.Int32(3)},
	}
	for _, path := range order {
		req.ProtoFile = append(req.ProtoFile, all[path])
	}
	outputs := map[string]string{}
	collect := func(name string, resp *pluginpb.CodeGeneratorResponse) {
		if resp.Error != nil {
			die("%s: %s", name, resp.GetError())
		}
		for _, f := range resp.File {
			if f.GetInsertionPoint() != "" {
				die("%s: insertion points unsupported", name)
			}
			outputs[f.GetName()] = f.GetContent()
		}
	}
	collect("protoc-gen-go", runPlugin(*pluginGo, req))
	if *pluginGW != "" {
		collect("protoc-gen-grpc-gateway", runPlugin(*pluginGW, req))
	}
	collect("go-grpc(builtin)", runBuiltin(req, genGRPC))
	collect("validate(builtin)", runBuiltin(req, genValidate))

	// 6. write + overlay
	if err := os.RemoveAll(*outDir); err != nil {
		die("%v", err)
	}
	overlay := map[string]string{}
	names := make([]string, 0, len(outputs))
	for n := range outputs {
		names = append(names, n)
	}
	sort.Strings(names)
	for _, n := range names {
		dst := filepath.Join(*outDir, n)
		if err := os.MkdirAll(filepath.Dir(dst), 0o755); err != nil {
			die("%v", err)
		}
		if err := os.WriteFile(dst, []byte(outputs[n]), 0o644); err != nil {
			die("%v", err)
		}
		overlay[filepath.Join(*protoRoot, n)] = dst
	}
	if *extraOverlay != "" {
		for _, kv := range strings.Split(*extraOverlay, ",") {
			parts := strings.SplitN(kv, "=", 2)
			if len(parts) == 2 {
				overlay[parts[0]] = parts[1]
			}
		}
	}
	data, _ := json.MarshalIndent(map[string]any{"Replace": overlay}, "", " ")
	if err := os.MkdirAll(filepath.Dir(*overlayPath), 0o755); err != nil {
		die("%v", err)
	}
	if err := os.WriteFile(*overlayPath, data, 0o644); err != nil {
		die("%v", err)
	}
	fmt.Printf("protogen: %d proto files -> %d Go files in %s\n", len(relFiles), len(outputs), *outDir)
}

func runPlugin(bin string, req *pluginpb.CodeGeneratorRequest) *pluginpb.CodeGeneratorResponse {
	in, err := proto.Marshal(req)
	if err != nil {
		die("marshal request: %v", err)
	}
	cmd := exec.Command(bin)
	cmd.Stdin = bytes.NewReader(in)
	var out, errb bytes.Buffer
	cmd.Stdout, cmd.Stderr = &out, &errb
	if err := cmd.Run(); err != nil {
		die("%s failed: %v\n%s", bin, err, errb.String())
	}
	resp := &pluginpb.CodeGeneratorResponse{}
	if err := proto.Unmarshal(out.Bytes(), resp); err != nil {
		die("%s: bad response: %v", bin, err)
	}
	return resp
}

func runBuiltin(req *pluginpb.CodeGeneratorRequest, gen func(*protogen.Plugin) error) *pluginpb.CodeGeneratorResponse {
	plugin, err := protogen.Options{}.New(req)
	if err != nil {
		die("protogen: %v", err)
	}
	plugin.SupportedFeatures = uint64(pluginpb.CodeGeneratorResponse_FEATURE_PROTO3_OPTIONAL)
	if err := gen(plugin); err != nil {
		plugin.Error(err)
	}
	return plugin.Response()
}
