#!/bin/bash
# seedrun2.sh <seeded dir> <patch file name> <check ids...>
# Like seedrun.sh, but /repo is never touched: the seeded change is applied in a scratch worktree of /repo's HEAD
# (/var/tmp/seedwt) and the checks run against it with their own build and evidence directories
# (VERIF_REPO / VERIF_BUILD / VERIF_EVID), so registered checks can run on /repo at the same time.
# Only one seedrun2.sh at a time.
d=$1; pf=$2; shift 2
WT=/var/tmp/seedwt
export VERIF_REPO=$WT VERIF_BUILD=/var/tmp/seedbuild VERIF_EVID=/var/tmp/seedevid
head=$(git -C /repo rev-parse HEAD)
if [ -z "$SEEDRUN2_FORCE" ] && [ -n "$(git -C /repo status --porcelain --untracked-files=no)" ]; then echo "seedrun2: /repo has uncommitted changes; the scratch worktree would not equal it"; exit 2; fi
if [ ! -d $WT ]; then git -C /repo worktree add -q --detach $WT $head || exit 2; fi
cd $WT || exit 2
git checkout -q -- . && git checkout -q --detach $head || exit 2
mkdir -p $VERIF_BUILD $VERIF_EVID
if git apply --check "$d/$pf" 2>/dev/null; then git apply "$d/$pf"; else
  patch -p1 --fuzz=3 --no-backup-if-mismatch < "$d/$pf" || { echo "patch does not apply"; git checkout -q -- .; exit 2; }
fi
for p in "$@"; do
  s=$(date +%s)
  (cd /verif && ./check $p --tier quick > "$d/run.$pf.$p.log" 2>&1; rc=$?
   echo "$pf $p rc=$rc $(( $(date +%s) - s ))s $(grep -m1 -A1 '^VIOLATION' "$d/run.$pf.$p.log" | tail -1 | cut -c1-300)" >> "$d/verdicts.txt")
done
git checkout -q -- .
git status --short | head -3
tail -n $# "$d/verdicts.txt"
