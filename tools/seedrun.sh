#!/bin/bash
# seedrun.sh <seeded dir> <patch file name> <check ids...>
# Applies a seeded change to /repo, runs the given checks (quick tier), records verdicts, and reverts exactly the files
# the patch touched.  Must not run concurrently with other checks (they would see the mutated tree).
d=$1; pf=$2; shift 2
cd /repo || exit 2
files=$(git apply --numstat "$d/$pf" | awk '{print $3}')
if git apply --check "$d/$pf" 2>/dev/null; then git apply "$d/$pf"; else
  # the seed was made against a slightly older tree (hook lines added since): apply with context fuzz
  patch -p1 --fuzz=3 --no-backup-if-mismatch < "$d/$pf" || { echo "patch does not apply"; git checkout -- $files; exit 2; }
fi
for p in "$@"; do
  s=$(date +%s)
  (cd /verif && ./check $p --tier quick > "$d/run.$pf.$p.log" 2>&1; rc=$?
   echo "$pf $p rc=$rc $(( $(date +%s) - s ))s $(grep -m1 -A1 '^VIOLATION' "$d/run.$pf.$p.log" | tail -1 | cut -c1-300)" >> "$d/verdicts.txt")
done
git checkout -- $files
git status --short | grep -v "property.go\|shard.go" | head
tail -n $# "$d/verdicts.txt"
