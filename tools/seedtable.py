#!/usr/bin/env python3
"""Fills seeded/*/meta.json (needs, checks, what was run) from seeded/*/verdicts.txt and prints the DESIGN.md §12.4 table.
verdicts.txt is appended by tools/seedrun.sh: the LAST line per check is the verdict of the current machinery; earlier
lines are kept as the history (a miss or an inconclusive run that led to a strengthened check)."""
import json
import os
import re
import sys

SEEDED = '/verif/seeded'

# what the change is / what it needs to manifest (one line; the full text is NOTES.txt next to the patch)
NEEDS = {
    'C04-stream-gc-before-manifest': "stream persistSnapshot deletes the superseded .snp manifests before the new one is written: needs a crash between the deletion and the rename of the new manifest on a shard's second or later publication (restart then finds no manifest and removes every part as an orphan)",
    'C17-file-boundary-truncation': "sub processPart counts a file's announced size only when some of its bytes are present: needs a chunk cut exactly at a file boundary with a checksum and completion totals computed from what was really sent (a sender-side short read), then the part is installed with a whole file missing",
    'C13-verdict-cursor-shift': 'trace flushStaged advances the verdict cursor for every eligible group: needs a projecting sampler, a trace split over >= 3 parts with ~2 MiB of payload (mixed slow+raw group) followed by a drop verdict; the keep/drop verdicts of later traces shift by one',
    'C19-backup-cancel-swallowed': "backupSnapshot drops every context.Canceled from the upload group: needs the caller's context cancelled after the walk dispatched every file while small-file uploads are in flight; returns nil with an incomplete remote copy and prunes the previous backup's files",
    'C01-strarray-inplace-decode': 'string-array tag decoded in place after a merge: needs an array element containing the delimiter byte and a merge of the part',
    'C01-varint-plus64': 'var-int fast path extended to +64: needs a stored delta of exactly +64 inside one block (int field/tag, float mantissa, timestamp or version progression)',
    'C02-batch-version-unsigned': 'batch-internal version comparison made unsigned: needs two versions of one (series, ts) in ONE write batch',
    'C02-merge-version-index': 'merge keeps the wrong version when the newer one sits in the older part: needs competing versions across parts, then a merge',
    'C03-part-timerange-after-rollover': 'part-level time range restarted at every primary-block roll-over: needs a merged part with > ~2,500 blocks (thousands of series) and a time-bounded query',
    'C03-stream-merge-decoder-release': 'stream merge releases the pooled decoder while the pending block aliases it: needs fan-in >= 3 for one series and a tag with > 256 distinct values in one block',
    'C04-flush-map-order': 'parts of one flush round written in map order: needs >= 2 memory parts already named by a durable manifest, flushed in one round, and a crash between them',
    'C04-reject-dangling-manifest': 'loadSnapshot refuses a manifest naming a part without directory: needs a manifest published while a newer memory part exists, then a crash',
    'C05-incref-after-unlock': 'currentSnapshot releases the table lock before counting the reference: needs a preemption in a two-instruction window while the snapshot is replaced and released',
    'C05-shared-mergedids-map': 'liaison write-queue merge shares one map between introductions: needs the liaison (cluster) write path with concurrent merges',
    'C06-day-nexttime-24h': 'DAY grid advanced by 24 h: needs a DAY rule in a DST zone across a transition',
    'C06-shrunk-interval-reopen': 'segment end recomputed from the current interval at reopen: needs an interval change followed by a reopen',
    'C07-hide-only-oldest-expired': 'only the oldest expired segment is hidden from selection: needs two expired segments that are not yet removed',
    'C07-tick-retention-early': 'the tick path computes the deadline with the wrong boundary: needs a clock tick (not the retention task) when a segment is almost expired',
    'C08-having-repeated-literal': 'HAVING early exit on literal longer than stored array: needs a HAVING/NOT_HAVING literal with a repeated element',
    'C08-shard-narrowing-accumulates': 'stream block scanner narrows the shared time range per shard: needs shard_num >= 2, an inverted-index criterion and matches at different times per shard',
    'C09-disjoint-parts-last-max': 'stream disjoint-part grouping uses the last part\'s max: needs three unmerged parts with nested time ranges and a time-ordered query',
    'C09-sidx-batch-released-early': 'sidx scan batch released before the merge bound is read: needs StreamingQuery over more blocks than one scan batch with interleaving key ranges',
    'C10-minmax-partial-sentinel': 'MIN/MAX partial of an empty shard carries 0 instead of the sentinel: needs an empty shard next to shards with values of one sign',
    'C10-topn-subtraction-wrap': 'top-N comparator by subtraction: needs values further apart than 2^63',
    'C12-binary-entity-alias': 'binary entity values not escaped: needs an entity value containing the delimiter byte',
    'C12-negzero-regression': 'ordered float encoding branches on f >= 0 again: needs -0.0 or a sign-clear NaN',
    'C13-guard-skips-mem-parts': 'fragment guard ignores memory parts outside the merge: needs a late fragment in an unflushed part while a sampler-deciding merge runs',
    'C13-sidx-merge-pending-reset': 'sidx merge drops the pending block when the next block is filtered out completely: needs a sampler that drops whole later blocks of a series',
    'C14-decref-before-token': 'DecRef consumes the counter before the pending unpinned release: needs peek ; select ; release interleaved by two clients',
    'C14-delete-vs-slow-reopen': 'delete does not wait for a reopen in flight: needs a real race between retention and a reopening query',
    'C15-append-range-null-offset': 'vectorized AppendColumnRange marks NULL at the source offset: needs a NULL cell appended to a non-empty column (second chunk / second frame)',
    'C15-vec-mergecap-before-filter': 'stream vec merge caps at limit+offset before the egress filter: needs a stream query with a non-indexed condition ordered by an index rule',
    'C16-node-rejoin': 'a re-added node is appended: needs remove ; add of one node',
    'C16-shrink-by-two': 'group shrink drops two shards: needs a group update with fewer shards',
    'C17-finish-on-eof': 'receiver finishes the part on stream end: needs a stream that ends before the completion message',
    'C17-mem-merge-across-segments': 'liaison merges queued memory parts of different segments: needs one batch spanning two day segments in a cluster',
    'C18-sorted-dedup-new-sortkey': 'ordered property query looks up the superseded entry with the new sort value: needs order_by, a replica with a live older revision and a changed order-by tag',
    'C18-stale-tombstone-sticky': 'an offered tombstone bypasses the revision guard in repair: needs write ; delete ; re-create with the stale replica offering first',
    'C19-closed-snapshot-unlocked': 'closed-segment snapshot releases the segment mutex before hard-linking: needs a snapshot of an idle-closed segment racing with retention or a reopen',
    'C19-skip-removable-parts': 'file snapshot skips parts flagged removable: needs a snapshot while a merge has replaced parts that are still referenced',
    'C20-prepared-null-property-id': 'NULL guard of PROPERTY id = ? tests the template node: needs a NULL parameter at that position on the prepared path',
    'C02-less-drops-version-tiebreak': 'row-path cursor order no longer breaks ties by version: needs one key in three unmerged parts with versions arriving low, high, mid, queried on the row pipeline',
    'C05-stream-scan-close-before-workers': 'stream time scan releases its snapshot before the decode workers finish: needs the pinned snapshot superseded mid-query on the row pipeline',
    'C05-trace-fence-released-early': 'trace ordered query releases the publication fence before pinning the core snapshots: needs a publication that hides a selected trace between the two phases',
    'C06-create-next-is-newest': 'segment create caps the new segment at the newest instead of the closest successor: needs two later segments and a late write after an interval change',
    'C06-select-skips-boundary-start': 'segment selection skips segments starting at the inclusive end of the range: needs a query ending exactly on a segment boundary',
    'C07-forced-cleanup-skips-pinned': 'forced cleanup prefers the oldest unpinned segment: needs >= 3 segments and a holder of the oldest one',
    'C07-retention-remove-by-position': 'retention unlinks expired segments by stale positions: needs two or more segments expiring in one run',
    'C10-node-limit-zero-guard': 'distributed plan pushes limit 0 (= keep the client limit) to the nodes: needs group-by with more groups per node than limit+offset',
    'C10-prefix-groupby-streaming': 'streaming group-by chosen for a strict prefix of the entity: needs a two-tag entity and equal prefixes that are not adjacent',
    'C12-escape-prefix-copy': 'entity escaping copies a prefix in bulk up to the first delimiter: needs an escape byte before the first delimiter in one value',
    'C12-minint-abs-guard': 'Int64ToBytes clamps the magnitude of MinInt64: needs MinInt64 itself',
    'C14-collect-metrics-unlocked': 'metrics collection releases the segment lock before collecting: needs the idle reclaimer or a delete while a collection runs on a dormant segment',
    'C14-select-partial-defer-leak': 'partial-failure cleanup of SelectSegments runs on a nil slice: needs a reopen that fails for an older segment after a newer one was pinned',
    'C16-remove-unknown-binary-search': 'RemoveNode by binary search without equality test: needs the removal of an unknown or already removed node',
    'C16-sort-uint32-wrap': 'shard tie-break by uint32 subtraction: needs more than 12 shards in total and a group sorting before a known one',
    'C20-prepared-top-uint32': 'SELECT TOP ? bound is uint32 on the prepared path: needs a value in (2^31-1, 2^32-1]',
}


def verdicts(d):
    """-> {check: [(rc, seconds, text), ...]} in file order"""
    out = {}
    p = os.path.join(d, 'verdicts.txt')
    if not os.path.exists(p):
        return out
    for line in open(p):
        m = re.match(r'(\S+) (C\d\d) rc=(\d+) (\d+)s ?(.*)', line.strip())
        if not m:
            continue
        out.setdefault(m.group(2), []).append((int(m.group(3)), int(m.group(4)), m.group(5).strip()))
    return out


WORD = {0: 'missed', 1: 'caught', 2: 'inconclusive'}
rows = []
for name in sorted(os.listdir(SEEDED)):
    d = os.path.join(SEEDED, name)
    mp = os.path.join(d, 'meta.json')
    if not os.path.isdir(d) or not os.path.exists(mp):
        continue
    meta = json.load(open(mp))
    v = verdicts(d)
    checks = {}
    for chk, runs in v.items():
        rc, secs, text = runs[-1]
        checks[chk] = {'verdict': WORD.get(rc, 'rc=%d' % rc), 'seconds': secs, 'first_line': text[:200],
                       'earlier_runs': [WORD.get(r[0], '?') for r in runs[:-1]]}
    meta['needs'] = NEEDS.get(name, meta.get('needs', 'see NOTES.txt'))
    meta['checks'] = checks
    meta['ran'] = ('tools/seedrun.sh %s patch.diff %s  (git -C /repo apply patch.diff ; ./check <id> --tier quick ; '
                   'git -C /repo checkout -- <touched files>); logs: run.patch.diff.<id>.log' % (d, ' '.join(sorted(checks))))
    json.dump(meta, open(mp, 'w'), indent=1)
    rows.append((name, meta['property'], meta['needs'], checks))

if '--table' in sys.argv:
    print('| seeded change | needs to manifest | verdict of the quick tier (last run) | history |')
    print('|---|---|---|---|')
    for name, prop, needs, checks in rows:
        ver = '; '.join('%s **%s** (%ds)' % (k, c['verdict'], c['seconds']) for k, c in sorted(checks.items())) or 'not run'
        hist = '; '.join('%s earlier: %s' % (k, ', '.join(c['earlier_runs'])) for k, c in sorted(checks.items()) if c['earlier_runs'])
        print('| `%s` | %s | %s | %s |' % (name, needs, ver, hist))
    caught = sum(1 for r in rows if any(c['verdict'] == 'caught' for c in r[3].values()))
    print()
    print('%d seeded changes, %d caught by at least one registered quick check.' % (len(rows), caught))
