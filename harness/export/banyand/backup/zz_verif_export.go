//go:build verif

package backup

import (
	"context"

	"github.com/apache/skywalking-banyandb/pkg/fs/remote"
)

// VerifBackupSnapshot is the real backupSnapshot (C19, spec/Backup.tla).  No logic of its own.
func VerifBackupSnapshot(ctx context.Context, fs remote.FS, snapshotDir, catalog, timeDir string, concurrency int) error {
	return backupSnapshot(ctx, fs, snapshotDir, catalog, timeDir, concurrency)
}
