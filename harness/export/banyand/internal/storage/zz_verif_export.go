//go:build verif

package storage

import (
	"context"
	"os"
	"sync/atomic"
	"time"
)

// VerifSegInfo is the abstract state of one segment (projection used by the conformance harness).
type VerifSegInfo struct {
	Start         time.Time
	End           time.Time
	Suffix        string
	Location      string
	RefCount      int32
	Unpinned      int32
	Open          bool
	MustBeDeleted bool
	DirExists     bool
	Shards        int
}

func verifInfo[T TSTable, O any](s *segment[T, O]) VerifSegInfo {
	s.mu.RLock()
	open := s.index != nil
	s.mu.RUnlock()
	n := 0
	if l := s.sLst.Load(); l != nil {
		n = len(*l)
	}
	_, err := os.Stat(s.location)
	return VerifSegInfo{
		Start: s.Start, End: s.End, Suffix: s.suffix, Location: s.location,
		RefCount: atomic.LoadInt32(&s.refCount), Unpinned: atomic.LoadInt32(&s.unpinned), Open: open,
		MustBeDeleted: atomic.LoadUint32(&s.mustBeDeleted) != 0, DirExists: err == nil, Shards: n,
	}
}

// VerifSegments lists the controller's segments in order, without touching reference counts.
func VerifSegments[T TSTable, O any](db TSDB[T, O]) []VerifSegInfo {
	d := db.(*database[T, O])
	var out []VerifSegInfo
	for _, s := range d.segmentController.copySegments() {
		out = append(out, verifInfo(s))
	}
	return out
}

// VerifSegState projects one segment handle.
func VerifSegState[T TSTable, O any](seg Segment[T, O]) VerifSegInfo {
	return verifInfo(seg.(*segment[T, O]))
}

// VerifRetention runs the retention task body once, synchronously, with the given "now".
func VerifRetention[T TSTable, O any](db TSDB[T, O], now time.Time) {
	d := db.(*database[T, O])
	rt := newRetentionTask(d, d.segmentController.getOptions().TTL)
	rt.run(context.Background(), now, d.logger)
}

// VerifCloseIdle runs the idle reclaimer once.
func VerifCloseIdle[T TSTable, O any](db TSDB[T, O]) int {
	return db.(*database[T, O]).segmentController.closeIdleSegments()
}

// VerifCollect runs the metrics collection callback once.
func VerifCollect[T TSTable, O any](db TSDB[T, O]) {
	d := db.(*database[T, O])
	if d.metrics != nil {
		d.collect()
		return
	}
	// a database opened without a metrics factory returns from collect() at once: run the per-segment part of it
	for _, s := range d.segmentController.copySegments() {
		s.collectOpenMetrics(d.segmentController.metrics)
	}
}

// VerifScan does what the rotation tick does: segments(ctx, reopen) followed by DecRef of each.
func VerifScan[T TSTable, O any](db TSDB[T, O], reopen bool) (int, error) {
	d := db.(*database[T, O])
	ss, err := d.segmentController.segments(context.Background(), reopen)
	if err != nil {
		return 0, err
	}
	for _, s := range ss {
		s.DecRef()
	}
	return len(ss), nil
}

// VerifExpiredRange calls GetExpiredSegmentsTimeRange (lifecycle helper that scans with reopen=false).
func VerifSegmentCount[T TSTable, O any](db TSDB[T, O]) int {
	return len(db.(*database[T, O]).segmentController.copySegments())
}

// VerifSegmentTracer receives segment life-cycle events (closed / deleted) at the point where they happen, under the
// segment's mutex.  nil unless a harness installs one.
var VerifSegmentTracer func(event, location string)

func verifSegmentEvent(event, location string) {
	if f := VerifSegmentTracer; f != nil {
		f(event, location)
	}
}

// VerifTickSync reports an event time through database.Tick and waits until the rotation goroutine has processed it.
// The two blocking sends are barriers: each is received only after the previous pass has finished; the passes are
// idempotent (retention with the same deadline, creation of an existing segment).
func VerifTickSync[T TSTable, O any](db TSDB[T, O], ts int64) {
	d := db.(*database[T, O])
	d.Tick(ts)
	d.tsEventCh <- ts
	// barriers with a no-op event time (1 ns: nothing is expired, nothing is created): each is received only after the
	// previous pass has finished, so when the last one has been taken every pass for ts is complete
	d.tsEventCh <- 1
	d.tsEventCh <- 1
	quiet := 0
	for i := 0; i < 5000 && quiet < 5; i++ {
		if d.rotationProcessOn.Load() {
			quiet = 0
		} else {
			quiet++
		}
		time.Sleep(time.Millisecond)
	}
}
