//go:build verif

package stream

import (
	"errors"
	"fmt"
	"os"
	"path/filepath"
	"sync/atomic"

	"github.com/apache/skywalking-banyandb/banyand/internal/storage"
)

var verifSnapSeq atomic.Int64

// VerifTakeFileSnapshot calls TakeFileSnapshot of a live stream table, then inspects the copy (part directories present,
// parts listed by its manifest) and opens it with the real recovery code (initTSTable, element index included).  The call
// is bracketed by FileSnapBegin / FileSnapEnd events in the lifecycle trace.  Mirrors the measure twin.
func VerifTakeFileSnapshot(root, dst string) error {
	v, ok := verifTables.Load(root)
	if !ok {
		return fmt.Errorf("no table %s", root)
	}
	tst := v.(*verifLoop).tst
	if err := os.MkdirAll(dst, 0o755); err != nil {
		return err
	}
	id := int(verifSnapSeq.Add(1))
	verifFileSnap("FileSnapBegin", tst, id, false, nil, nil, nil)
	wrote, err := tst.TakeFileSnapshot(dst)
	if err != nil && errors.Is(err, storage.ErrNoCurrentSnapshot) {
		err = nil
	}
	if err != nil {
		return err
	}
	var copied, listed, opened []uint64
	if wrote {
		ents, _ := os.ReadDir(dst)
		for _, e := range ents {
			if e.IsDir() {
				if pid, perr := parseEpoch(e.Name()); perr == nil {
					copied = append(copied, pid)
				}
				continue
			}
			if epoch, perr := parseSnapshot(e.Name()); perr == nil {
				names, rerr := storage.ReadSnapshotPartNames(tst.fileSystem, filepath.Join(dst, snapshotName(epoch)))
				if rerr != nil {
					return fmt.Errorf("VIOLATION manifest of the copy is unreadable: %w", rerr)
				}
				for _, n := range names {
					pid, _ := parseEpoch(n)
					listed = append(listed, pid)
				}
			}
		}
		var openErr error
		func() {
			defer func() {
				if r := recover(); r != nil {
					openErr = fmt.Errorf("VIOLATION opening the copy panicked: %v", r)
				}
			}()
			t2, _, ierr := initTSTable(tst.fileSystem, dst, tst.p, tst.l, tst.option, nil, true)
			if ierr != nil {
				openErr = fmt.Errorf("VIOLATION the copy does not open: %w", ierr)
				return
			}
			if t2.snapshot != nil {
				for _, pw := range t2.snapshot.parts {
					opened = append(opened, pw.ID())
				}
				t2.snapshot.decRef()
				t2.snapshot = nil
			}
			if t2.index != nil {
				_ = t2.index.Close()
			}
		}()
		if openErr != nil {
			return openErr
		}
	}
	verifFileSnap("FileSnapEnd", tst, id, wrote, copied, listed, opened)
	return nil
}
