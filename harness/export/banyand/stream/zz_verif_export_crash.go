//go:build verif

package stream

import (
	"context"
	"fmt"
	"sort"
	"strings"

	"github.com/apache/skywalking-banyandb/api/common"
	"github.com/apache/skywalking-banyandb/banyand/protector"
	"github.com/apache/skywalking-banyandb/pkg/convert"
	"github.com/apache/skywalking-banyandb/pkg/fs"
	"github.com/apache/skywalking-banyandb/pkg/logger"
	pbv1 "github.com/apache/skywalking-banyandb/pkg/pb/v1"
	"github.com/apache/skywalking-banyandb/pkg/run"
	"github.com/apache/skywalking-banyandb/pkg/watcher"
)

// C04 (crash recovery), stream engine: the twin of harness/export/banyand/measure/zz_verif_export_crash.go.  A bare
// tsTable with only the real introducer loop; flush and merge are stepped by the harness with the real functions;
// recovery is the real initTSTable (without the element index, which lives outside the table directory here).
// No logic of its own: constructors, step functions, projections.

// VerifCrashTable is a bare stream tsTable on a directory.
type VerifCrashTable struct {
	tst     *tsTable
	flushCh chan *flusherIntroduction
	mergeCh chan *mergerIntroduction
}

// VerifNewCrashTable creates the table (empty directory) and starts the introducer loop at epoch 1; the element index
// is created under indexDir (outside root).
func VerifNewCrashTable(root, indexDir string) *VerifCrashTable {
	index, err := newElementIndex(context.TODO(), indexDir, 0, nil)
	if err != nil {
		panic(err)
	}
	tst := &tsTable{
		index:         index,
		loopCloser:    run.NewCloser(2),
		introductions: make(chan *introduction),
		fileSystem:    fs.NewLocalFileSystem(),
		root:          root,
		l:             logger.GetLogger("verif-c04-stream"),
		option:        option{protector: protector.Nop{}},
		pm:            protector.Nop{},
	}
	tst.gc.init(tst)
	t := &VerifCrashTable{tst: tst, flushCh: make(chan *flusherIntroduction), mergeCh: make(chan *mergerIntroduction)}
	go tst.introducerLoop(t.flushCh, t.mergeCh, make(watcher.Channel, 1), 1)
	return t
}

func verifBatch(b, nSeries, rowsPer int, tagged bool, salt int64) *elements {
	es := &elements{}
	for s := 1; s <= nSeries; s++ {
		for i := 0; i < rowsPer; i++ {
			ts := int64(b*1000 + i)
			es.seriesIDs = append(es.seriesIDs, common.SeriesID(s))
			es.timestamps = append(es.timestamps, ts)
			es.elementIDs = append(es.elementIDs, uint64(b*1000000+s*1000+i))
			tfs := []tagValues{
				{tag: "singleTag", values: []*tagValue{
					{tag: "strTag", valueType: pbv1.ValueTypeStr, value: []byte(fmt.Sprintf("batch-%d-series-%d-row-%d-%s", b, s, i, strings.Repeat("x", int(salt%7))))},
					{tag: "intTag", valueType: pbv1.ValueTypeInt64, value: convert.Int64ToBytes(ts ^ salt)},
				}},
			}
			if tagged {
				tfs = append(tfs, tagValues{tag: "arrTag", values: []*tagValue{
					{tag: "strArrTag", valueType: pbv1.ValueTypeStrArr, valueArr: [][]byte{[]byte(fmt.Sprintf("a%d", b)), []byte(fmt.Sprintf("s%d", s))}},
					{tag: "intArrTag", valueType: pbv1.ValueTypeInt64Arr, valueArr: [][]byte{convert.Int64ToBytes(ts), convert.Int64ToBytes(salt)}},
				}})
			}
			es.tagFamilies = append(es.tagFamilies, tfs)
		}
	}
	return es
}

// Write adds batch b as one mem part (real mustAddElements, acknowledged when it returns); returns the part id.
func (t *VerifCrashTable) Write(b, nSeries, rowsPer int, tagged bool, salt int64) uint64 {
	t.tst.mustAddElements(verifBatch(b, nSeries, rowsPer, tagged, salt))
	return t.tst.curPartID
}

// VerifBatchRows returns the canonical rows of batch b as the engine itself reads them back from a mem part.
func VerifBatchRows(b, nSeries, rowsPer int, tagged bool, salt int64) ([]string, error) {
	mp := generateMemPart()
	defer releaseMemPart(mp)
	mp.mustInitFromElements(verifBatch(b, nSeries, rowsPer, tagged, salt))
	return verifReadRows([]*part{openMemPart(mp)})
}

// Flush runs tsTable.flush on the current snapshot.
func (t *VerifCrashTable) Flush() {
	s := t.tst.currentSnapshot()
	if s == nil {
		return
	}
	defer s.decRef()
	t.tst.flush(s, t.flushCh)
}

// Parts projects the current snapshot.
func (t *VerifCrashTable) Parts() (epoch uint64, mem, file []uint64) {
	s := t.tst.currentSnapshot()
	if s == nil {
		return 0, nil, nil
	}
	defer s.decRef()
	for _, pw := range s.parts {
		if pw.mp != nil {
			mem = append(mem, pw.ID())
		} else {
			file = append(file, pw.ID())
		}
	}
	return s.epoch, mem, file
}

// NextPartID is the id the next part (mem part or merge output) will get.
func (t *VerifCrashTable) NextPartID() uint64 { return t.tst.curPartID + 1 }

// Merge merges the given file parts with the real merger and introduces the result.
func (t *VerifCrashTable) Merge(ids []uint64) (uint64, error) {
	s := t.tst.currentSnapshot()
	if s == nil {
		return 0, fmt.Errorf("no snapshot")
	}
	defer s.decRef()
	want := map[uint64]struct{}{}
	for _, id := range ids {
		want[id] = struct{}{}
	}
	var pws []*partWrapper
	for _, pw := range s.parts {
		if _, ok := want[pw.ID()]; ok && pw.mp == nil {
			pws = append(pws, pw)
		}
	}
	if len(pws) != len(ids) {
		return 0, fmt.Errorf("found %d of %d file parts", len(pws), len(ids))
	}
	np, err := t.tst.mergePartsThenSendIntroduction(snapshotCreatorMerger, pws, want, t.mergeCh, t.tst.loopCloser.CloseNotify(), "file")
	if err != nil {
		return 0, err
	}
	return np.ID(), nil
}

// Close stops the introducer and releases the snapshot.
func (t *VerifCrashTable) Close() { _ = t.tst.Close() }

// VerifRecovered is what a restart sees.
type VerifRecovered struct {
	Rows  []string
	Parts []uint64
	Epoch uint64
}

// VerifRecover runs the real initTSTable on a directory and reads every row of every part of the loaded snapshot
// through the engine's own block readers.  Panics of the engine propagate.
func VerifRecover(root string) *VerifRecovered {
	tst, epoch, err := initTSTable(fs.NewLocalFileSystem(), root, common.Position{}, logger.GetLogger("verif-c04-recover"),
		option{protector: protector.Nop{}}, nil, false)
	if err != nil {
		panic(err)
	}
	defer tst.Close()
	out := &VerifRecovered{Epoch: epoch}
	s := tst.currentSnapshot()
	if s == nil {
		return out
	}
	defer s.decRef()
	var pp []*part
	for _, pw := range s.parts {
		out.Parts = append(out.Parts, pw.ID())
		pp = append(pp, pw.p)
	}
	rows, err := verifReadRows(pp)
	if err != nil {
		panic(err)
	}
	out.Rows = rows
	return out
}

func verifReadRows(parts []*part) ([]string, error) {
	var rows []string
	pii := make([]*partMergeIter, 0, len(parts))
	for _, p := range parts {
		pmi := generatePartMergeIter()
		pmi.mustInitFromPart(p)
		pii = append(pii, pmi)
	}
	br := generateBlockReader()
	br.init(pii)
	dec := generateColumnValuesDecoder()
	for br.nextBlockMetadata() {
		br.loadBlockData(dec)
		b := br.block
		for i := range b.timestamps {
			var sb strings.Builder
			fmt.Fprintf(&sb, "sid=%d ts=%d eid=%d", b.bm.seriesID, b.timestamps[i], b.elementIDs[i])
			tfs := append([]tagFamily(nil), b.tagFamilies...)
			sort.Slice(tfs, func(x, y int) bool { return tfs[x].name < tfs[y].name })
			for _, tf := range tfs {
				cc := append([]tag(nil), tf.tags...)
				sort.Slice(cc, func(x, y int) bool { return cc[x].name < cc[y].name })
				for _, c := range cc {
					var v []byte
					if i < len(c.values) {
						v = c.values[i]
					}
					fmt.Fprintf(&sb, " t:%s.%s/%d=%x", tf.name, c.name, c.valueType, v)
				}
			}
			rows = append(rows, sb.String())
		}
	}
	err := br.error()
	releaseColumnValuesDecoder(dec)
	releaseBlockReader(br)
	for i := range pii {
		releasePartMergeIter(pii[i])
	}
	sort.Strings(rows)
	return rows, err
}
