//go:build verif

package stream

import (
	"encoding/json"
	"os"
	"sync"
	"sync/atomic"
	"time"
	"unsafe"
)

// Lifecycle tracer (tag "verif"): one ndjson event per linearization point of the snapshot / part
// reference-counting protocol.  Objects are identified by small integers assigned at first sight.
// Off unless a harness calls VerifStartTrace.

type verifPartInfo struct {
	pid  uint64
	mem  bool
	dead bool
}

type verifTracer struct {
	f    *os.File
	enc  *json.Encoder
	ids  map[unsafe.Pointer]int
	ep0  map[int]uint64 // table -> first epoch seen (epochs are nanosecond-based: log them relative, TLC integers are 32-bit)
	// objects are identified by their address; a freed object's address may be handed out again by the allocator, so a
	// dead snapshot / part wrapper that shows up again as a DIFFERENT object (new publication; other part id or kind)
	// gets a fresh identity, while the same object showing up again after its death keeps its identity (that is a bug
	// the trace must show)
	sdead map[unsafe.Pointer]bool
	pinfo map[unsafe.Pointer]verifPartInfo
	mu   sync.Mutex
	seq  int
	next int
}

var verifTrace atomic.Pointer[verifTracer]

// VerifStartTrace starts writing lifecycle events to path.
func VerifStartTrace(path string) error {
	f, err := os.Create(path)
	if err != nil {
		return err
	}
	verifTrace.Store(&verifTracer{f: f, enc: json.NewEncoder(f), ids: map[unsafe.Pointer]int{}, ep0: map[int]uint64{}, sdead: map[unsafe.Pointer]bool{}, pinfo: map[unsafe.Pointer]verifPartInfo{}})
	return nil
}

// VerifStopTrace stops tracing and returns the number of events written.
func VerifStopTrace() int {
	t := verifTrace.Swap(nil)
	if t == nil {
		return 0
	}
	t.mu.Lock()
	defer t.mu.Unlock()
	_ = t.f.Close()
	return t.seq
}

func (t *verifTracer) id(p unsafe.Pointer) int {
	if v, ok := t.ids[p]; ok {
		return v
	}
	t.next++
	t.ids[p] = t.next
	return t.next
}

func (t *verifTracer) emit(ev map[string]any) {
	t.seq++
	ev["seq"] = t.seq
	_ = t.enc.Encode(ev)
}

func verifSnapshotReplaced(tst *tsTable, next *snapshot) {
	t := verifTrace.Load()
	if t == nil {
		return
	}
	t.mu.Lock()
	defer t.mu.Unlock()
	parts := make([]int, 0, len(next.parts))
	mem := make([]int, 0, len(next.parts))
	pids := make([]uint64, 0, len(next.parts))
	if sp := unsafe.Pointer(next); t.sdead[sp] {
		delete(t.ids, sp) // a newly published snapshot at the address of a dead one
		delete(t.sdead, sp)
	}
	for _, pw := range next.parts {
		pp := unsafe.Pointer(pw)
		if info, ok := t.pinfo[pp]; ok && info.dead && (info.pid != pw.ID() || info.mem != (pw.mp != nil)) {
			delete(t.ids, pp)
		}
		if info, ok := t.pinfo[pp]; !ok || info.pid != pw.ID() || info.mem != (pw.mp != nil) {
			t.pinfo[pp] = verifPartInfo{pid: pw.ID(), mem: pw.mp != nil}
		}
		w := t.id(pp)
		parts = append(parts, w)
		if pw.mp != nil {
			mem = append(mem, w)
		}
		pids = append(pids, pw.ID())
	}
	tbl := t.id(unsafe.Pointer(tst))
	if _, ok := t.ep0[tbl]; !ok {
		t.ep0[tbl] = next.epoch - 1
	}
	t.emit(map[string]any{"event": "Replace", "tbl": tbl, "snap": t.id(unsafe.Pointer(next)),
		"epoch": next.epoch - t.ep0[tbl], "parts": parts, "mem": mem, "pids": pids, "creator": int(next.creator)})
}

func verifSnapshotRef(s *snapshot, delta, n int32) {
	t := verifTrace.Load()
	if t == nil {
		return
	}
	t.mu.Lock()
	defer t.mu.Unlock()
	if delta > 0 {
		t.emit(map[string]any{"event": "SnapInc", "snap": t.id(unsafe.Pointer(s))})
		return
	}
	t.emit(map[string]any{"event": "SnapDec", "snap": t.id(unsafe.Pointer(s)), "n": int(n)})
	if n == 0 {
		t.sdead[unsafe.Pointer(s)] = true
	}
}

func verifPartReleased(pw *partWrapper) {
	t := verifTrace.Load()
	if t == nil {
		return
	}
	t.mu.Lock()
	defer t.mu.Unlock()
	t.emit(map[string]any{"event": "PartZero", "part": t.id(unsafe.Pointer(pw)), "mem": pw.mp != nil, "removable": pw.removable.Load()})
	if info, ok := t.pinfo[unsafe.Pointer(pw)]; ok {
		info.dead = true
		t.pinfo[unsafe.Pointer(pw)] = info
	}
}

func verifPartRemoving(pw *partWrapper) {
	t := verifTrace.Load()
	if t == nil {
		return
	}
	t.mu.Lock()
	defer t.mu.Unlock()
	t.emit(map[string]any{"event": "PartRemove", "part": t.id(unsafe.Pointer(pw))})
}

func verifFileSnap(event string, tst *tsTable, id int, wrote bool, copied, listed, opened []uint64) {
	t := verifTrace.Load()
	if t == nil {
		return
	}
	t.mu.Lock()
	defer t.mu.Unlock()
	ev := map[string]any{"event": event, "tbl": t.id(unsafe.Pointer(tst)), "id": id}
	if event == "FileSnapEnd" {
		nz := func(l []uint64) []uint64 {
			if l == nil {
				return []uint64{}
			}
			return l
		}
		ev["wrote"], ev["copied"], ev["listed"], ev["opened"] = wrote, nz(copied), nz(listed), nz(opened)
	}
	t.emit(ev)
}

// verifChaos widens race windows: when on, verifPause sleeps a pseudo-random 0-2 ms at the marked sites.
var (
	verifChaos    atomic.Bool
	verifChaosCtr atomic.Uint64
)

// VerifSetChaos switches schedule perturbation on or off.
func VerifSetChaos(b bool) { verifChaos.Store(b) }

func verifPause(at string) {
	if !verifChaos.Load() {
		return
	}
	n := verifChaosCtr.Add(0x9E3779B97F4A7C15)
	if at == "snapshot-incref" {
		// every pin of a snapshot passes here: short pauses on a third of the calls keep the run going
		if (n>>33)%3 == 0 {
			time.Sleep(time.Duration((n>>40)%400) * time.Microsecond)
		}
		return
	}
	time.Sleep(time.Duration((n>>40)%2000) * time.Microsecond)
}
