//go:build verif

package stream

import (
	"fmt"
	"sort"
	"strings"
	"sync"
	"sync/atomic"
)

// Verification hooks, tag "verif": a registry of the live tsTables with the channels of their loops, a
// gate that parks the flusher (manual maintenance), and step functions that run the real flush / merge
// code from the harness goroutine.  No logic of its own.  Mirrors harness/export/banyand/measure.

type verifLoop struct {
	tst     *tsTable
	flushCh chan *flusherIntroduction
	mergeCh chan *mergerIntroduction
}

var (
	verifTables sync.Map // root -> *verifLoop
	verifManual atomic.Bool
)

func verifLoopsStarted(tst *tsTable, f chan *flusherIntroduction, m chan *mergerIntroduction) {
	verifTables.Store(tst.root, &verifLoop{tst: tst, flushCh: f, mergeCh: m})
}

func verifFlusherGate(tst *tsTable) {
	if verifManual.Load() {
		<-tst.loopCloser.CloseNotify()
	}
}

// VerifSetManual parks every flusher loop at its next wake-up (and with it the merger, which only
// reacts to flusher notifications).
func VerifSetManual(b bool) { verifManual.Store(b) }

// VerifTableRoots lists the roots of live tables whose path contains substr.
func VerifTableRoots(substr string) []string {
	var out []string
	verifTables.Range(func(k, v any) bool {
		l := v.(*verifLoop)
		if strings.Contains(k.(string), substr) && !l.tst.loopCloser.Closed() {
			out = append(out, k.(string))
		}
		return true
	})
	sort.Strings(out)
	return out
}

// VerifPart is the projection of one part of the current snapshot.
type VerifPart struct {
	ID    uint64
	Count uint64
	MinTS int64
	MaxTS int64
	Mem   bool
}

// VerifParts projects the current snapshot of a table.
func VerifParts(root string) (uint64, []VerifPart) {
	v, ok := verifTables.Load(root)
	if !ok {
		return 0, nil
	}
	s := v.(*verifLoop).tst.currentSnapshot()
	if s == nil {
		return 0, nil
	}
	defer s.decRef()
	var out []VerifPart
	for _, pw := range s.parts {
		out = append(out, VerifPart{ID: pw.ID(), Mem: pw.mp != nil, Count: pw.p.partMetadata.TotalCount,
			MinTS: pw.p.partMetadata.MinTimestamp, MaxTS: pw.p.partMetadata.MaxTimestamp})
	}
	return s.epoch, out
}

// VerifFlush runs tsTable.flush on the current snapshot (what the flusher loop does after its pause).
func VerifFlush(root string) error {
	v, ok := verifTables.Load(root)
	if !ok {
		return fmt.Errorf("no table %s", root)
	}
	l := v.(*verifLoop)
	s := l.tst.currentSnapshot()
	if s == nil {
		return nil
	}
	defer s.decRef()
	l.tst.flush(s, l.flushCh)
	return nil
}

// VerifMerge merges the given file parts with the real merger and introduces the result.
func VerifMerge(root string, ids []uint64) (uint64, error) {
	v, ok := verifTables.Load(root)
	if !ok {
		return 0, fmt.Errorf("no table %s", root)
	}
	l := v.(*verifLoop)
	s := l.tst.currentSnapshot()
	if s == nil {
		return 0, fmt.Errorf("no snapshot")
	}
	defer s.decRef()
	want := map[uint64]struct{}{}
	for _, id := range ids {
		want[id] = struct{}{}
	}
	var pws []*partWrapper
	for _, pw := range s.parts {
		if _, ok := want[pw.ID()]; ok {
			if pw.mp != nil {
				return 0, fmt.Errorf("part %d is a memory part", pw.ID())
			}
			pws = append(pws, pw)
		}
	}
	if len(pws) != len(ids) {
		return 0, fmt.Errorf("found %d of %d parts", len(pws), len(ids))
	}
	np, err := l.tst.mergePartsThenSendIntroduction(snapshotCreatorMerger, pws, want, l.mergeCh, l.tst.loopCloser.CloseNotify(), "file")
	if err != nil {
		return 0, err
	}
	return np.ID(), nil
}
