//go:build verif

package trace

import (
	"context"
	"fmt"
	"time"

	"github.com/apache/skywalking-banyandb/api/common"
	modelv1 "github.com/apache/skywalking-banyandb/api/proto/banyandb/model/v1"
	"github.com/apache/skywalking-banyandb/banyand/internal/sidx"
	"github.com/apache/skywalking-banyandb/banyand/protector"
	"github.com/apache/skywalking-banyandb/pkg/index"
	pbv1 "github.com/apache/skywalking-banyandb/pkg/pb/v1"
	"github.com/apache/skywalking-banyandb/pkg/query/model"
	vtrace "github.com/apache/skywalking-banyandb/pkg/query/vectorized/trace"
)

// VerifFenceResult is what one ordered (secondary-index driven) vectorized query observed.
type VerifFenceResult struct {
	Selected           []string // trace ids the index selection handed to the scan, in order
	Visible            []string // those of them with at least one block cursor (spans visible in the pinned core view)
	PublishedWhileHeld bool     // the publication completed while the query was parked between its two phases
	PublishedAtEnd     bool
}

// VerifFenceProbe runs the real buildConsistentVectorizedScanBatch over {gate table, vt} (real sidx of vt) and
// attempts ONE sync hand-off publication (introduceSync retiring every file part of vt: core and sidx in one
// snapshot transaction) at position pos of spec/TracePublication.tla:
//
//	"before"  the publication is complete before the query starts
//	"mid"     the publication is started while the query is parked after the index selection and before it pins
//	          the core snapshot of the first table (the gate table's lock is held for parkMillis)
//	"after"   the publication is started after the query returned
//
// No logic of its own: it schedules the two real code paths and projects the query's scanBatch.
func VerifFenceProbe(vt *VerifTable, pos string, parkMillis int) (VerifFenceResult, error) {
	var out VerifFenceResult
	tst := vt.tst
	cur := tst.currentSnapshot()
	if cur == nil {
		return out, fmt.Errorf("no snapshot")
	}
	ids := map[uint64]struct{}{}
	for _, p := range cur.parts {
		if p.mp != nil {
			cur.decRef()
			return out, fmt.Errorf("memory part %d in the snapshot", p.ID())
		}
		ids[p.ID()] = struct{}{}
	}
	next := cur.epoch + 1
	cur.decRef()
	applied := make(chan struct{})
	publish := func() {
		go tst.introduceSync(&syncIntroduction{synced: ids, applied: applied}, next)
	}
	waitApplied := func(d time.Duration) bool {
		select {
		case <-applied:
			return true
		case <-time.After(d):
			return false
		}
	}
	idx, err := tst.getOrCreateSidx(VerifSidxName)
	if err != nil {
		return out, err
	}
	tr := &trace{pm: protector.Nop{}, vectorized: vtrace.VectorizedConfig{Enabled: true, BatchSize: 10, QueryMemoryMiB: 100}}
	req := sidx.QueryRequest{Order: &index.OrderBy{Sort: modelv1.Sort_SORT_ASC}, SeriesIDs: []common.SeriesID{1}}
	qo := queryOptions{
		TraceQueryOptions: model.TraceQueryOptions{Order: req.Order},
		schemaTagTypes:    map[string]pbv1.ValueType{"t": pbv1.ValueTypeStr},
	}
	if pos == "before" {
		publish()
		if !waitApplied(30 * time.Second) {
			return out, fmt.Errorf("publication did not complete")
		}
	}
	gate := &tsTable{}
	if pos == "mid" {
		gate.Lock()
	}
	type res struct {
		b   *scanBatch
		err error
	}
	ch := make(chan res, 1)
	go func() {
		b, qerr := tr.buildConsistentVectorizedScanBatch(context.Background(), []*tsTable{gate, tst}, qo, []sidx.SIDX{idx}, req, true, 0)
		ch <- res{b, qerr}
	}()
	if pos == "mid" {
		// the index selection of a table of a few rows takes well under parkMillis; if it has not finished, the
		// publication lands before or inside it, which is another legal schedule (the oracle holds for all)
		for i := 0; i < 5000; i++ { // under load: wait until the query holds the fence (correct code keeps it while parked)
			if !tst.snapshotPublicationMu.TryLock() {
				break
			}
			tst.snapshotPublicationMu.Unlock()
			time.Sleep(time.Millisecond)
		}
		time.Sleep(time.Duration(parkMillis) * time.Millisecond)
		publish()
		out.PublishedWhileHeld = waitApplied(time.Duration(parkMillis) * time.Millisecond)
		gate.Unlock()
	}
	r := <-ch
	if r.err != nil {
		return out, r.err
	}
	if r.b == nil {
		return out, fmt.Errorf("nil scan batch")
	}
	out.Selected = append(out.Selected, r.b.traceIDsOrder...)
	seen := map[string]bool{}
	for _, c := range r.b.cursors {
		if c != nil && !seen[c.bm.traceID] {
			seen[c.bm.traceID] = true
		}
	}
	for _, id := range out.Selected {
		if seen[id] {
			out.Visible = append(out.Visible, id)
		}
	}
	releaseVectorizedScanBatch(r.b)
	if pos == "after" {
		publish()
	}
	out.PublishedAtEnd = waitApplied(30 * time.Second)
	return out, nil
}
