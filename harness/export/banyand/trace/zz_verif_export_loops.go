//go:build verif

package trace

import (
	"context"
	"fmt"
	"sort"
	"strings"
	"sync"
	"sync/atomic"
)

// Verification hooks, tag "verif", for trace tsTables that live inside a RUNNING server (harness eng, engine
// "trace"): a registry of the live tables with the channels of their loops, a gate that parks the flusher loop
// (manual maintenance), and step functions that run the real flush / merge code from the harness goroutine.
// No logic of its own.  Mirrors harness/export/banyand/stream/zz_verif_export.go; the bare-table access used by
// C13 lives in zz_verif_export.go (names there: VerifTable, VerifPart, VerifMerge) and is not touched.
//
//	VerifLoopFlush(root, false)  what flusherLoop does after its pause: mergeMemParts (>= 2 memory parts become ONE file
//	                             part, core and every sidx) and, if nothing was merged, tsTable.flush
//	VerifLoopFlush(root, true)   tsTable.flush only: every memory part becomes a file part of the same id (core + sidx)
//	VerifLoopMerge(root, ids)    mergePartsThenSendIntroduction(snapshotCreatorMerger, ..., mergeTypeFile): what a
//	                             mergeLaneWorker runs for a dispatched request (core parts and the sidx parts of the
//	                             same ids, one publication)

type verifLoop struct {
	tst     *tsTable
	flushCh chan *flusherIntroduction
	mergeCh chan *mergerIntroduction
}

var (
	verifLoopTables sync.Map // root -> *verifLoop
	verifLoopManual atomic.Bool
)

func verifLoopsStarted(tst *tsTable, f chan *flusherIntroduction, m chan *mergerIntroduction) {
	verifLoopTables.Store(tst.root, &verifLoop{tst: tst, flushCh: f, mergeCh: m})
}

func verifFlusherGate(tst *tsTable) {
	if verifLoopManual.Load() {
		<-tst.loopCloser.CloseNotify()
	}
}

// VerifSetManual parks every flusher loop at its next wake-up (and with it the merger, which only reacts to
// flusher notifications).
func VerifSetManual(b bool) { verifLoopManual.Store(b) }

// VerifTableRoots lists the roots of live tables whose path contains substr.
func VerifTableRoots(substr string) []string {
	var out []string
	verifLoopTables.Range(func(k, v any) bool {
		l := v.(*verifLoop)
		if strings.Contains(k.(string), substr) && !l.tst.loopCloser.Closed() {
			out = append(out, k.(string))
		}
		return true
	})
	sort.Strings(out)
	return out
}

// VerifLoopPart is the projection of one core part of the current snapshot.
type VerifLoopPart struct {
	ID     uint64
	Count  uint64 // spans
	Blocks uint64 // = traces (one block per trace id and part, unless a trace exceeds the block limits)
	MinTS  int64
	MaxTS  int64
	Mem    bool
}

// VerifLoopSidxPart is the projection of one part of a secondary index.
type VerifLoopSidxPart struct {
	ID   uint64
	File bool
}

// VerifLoopLayout is the projection of a table: core parts and, per secondary index, the FILE parts it holds under
// the ids of the core parts (PartPaths leaves memory parts out) and its total part count (Stats).
type VerifLoopLayout struct {
	Sidx      map[string][]VerifLoopSidxPart
	SidxCount map[string]int64
	Parts     []VerifLoopPart
	Epoch     uint64
}

// VerifLoopParts projects the current snapshot of a table.
func VerifLoopParts(root string) VerifLoopLayout {
	out := VerifLoopLayout{Sidx: map[string][]VerifLoopSidxPart{}, SidxCount: map[string]int64{}}
	v, ok := verifLoopTables.Load(root)
	if !ok {
		return out
	}
	tst := v.(*verifLoop).tst
	s := tst.currentSnapshot()
	if s == nil {
		return out
	}
	defer s.decRef()
	out.Epoch = s.epoch
	ids := map[uint64]struct{}{}
	for _, pw := range s.parts {
		m := &pw.p.partMetadata
		out.Parts = append(out.Parts, VerifLoopPart{ID: pw.ID(), Mem: pw.mp != nil, Count: m.TotalCount, Blocks: m.BlocksCount,
			MinTS: m.MinTimestamp, MaxTS: m.MaxTimestamp})
		ids[pw.ID()] = struct{}{}
	}
	for name, idx := range tst.getAllSidx() {
		paths := idx.PartPaths(ids)
		ps := make([]VerifLoopSidxPart, 0, len(paths))
		for id, p := range paths {
			ps = append(ps, VerifLoopSidxPart{ID: id, File: p != ""})
		}
		sort.Slice(ps, func(i, j int) bool { return ps[i].ID < ps[j].ID })
		out.Sidx[name] = ps
		if st, err := idx.Stats(context.Background()); err == nil && st != nil {
			out.SidxCount[name] = st.PartCount
		}
	}
	return out
}

// VerifLoopFlush runs the flusher's step on the current snapshot (see the table at the top).  It reports whether
// the memory parts were merged into one part (true) or flushed one by one (false).
func VerifLoopFlush(root string, plain bool) (bool, error) {
	v, ok := verifLoopTables.Load(root)
	if !ok {
		return false, fmt.Errorf("no table %s", root)
	}
	l := v.(*verifLoop)
	s := l.tst.currentSnapshot()
	if s == nil {
		return false, nil
	}
	defer s.decRef()
	if !plain {
		merged, err := l.tst.mergeMemParts(s, l.mergeCh)
		if err != nil {
			return false, err
		}
		if merged {
			return true, nil
		}
	}
	l.tst.flush(s, l.flushCh)
	return false, nil
}

// VerifLoopMerge merges the given file parts with the real merger and introduces the result.
func VerifLoopMerge(root string, ids []uint64) (uint64, error) {
	v, ok := verifLoopTables.Load(root)
	if !ok {
		return 0, fmt.Errorf("no table %s", root)
	}
	l := v.(*verifLoop)
	s := l.tst.currentSnapshot()
	if s == nil {
		return 0, fmt.Errorf("no snapshot")
	}
	defer s.decRef()
	want := map[uint64]struct{}{}
	for _, id := range ids {
		want[id] = struct{}{}
	}
	var pws []*partWrapper
	for _, pw := range s.parts {
		if _, ok := want[pw.ID()]; ok {
			if pw.mp != nil {
				return 0, fmt.Errorf("part %d is a memory part", pw.ID())
			}
			pws = append(pws, pw)
		}
	}
	if len(pws) != len(ids) {
		return 0, fmt.Errorf("found %d of %d parts", len(pws), len(ids))
	}
	np, err := l.tst.mergePartsThenSendIntroduction(snapshotCreatorMerger, pws, want, l.mergeCh, l.tst.loopCloser.CloseNotify(), mergeTypeFile, "", nil)
	if err != nil {
		return 0, err
	}
	return np.ID(), nil
}
