//go:build verif

package trace

import (
	"context"
	"fmt"
	"os"
	"sort"
	"sync"
	"time"

	"github.com/apache/skywalking-banyandb/api/common"
	"github.com/apache/skywalking-banyandb/banyand/internal/sidx"
	"github.com/apache/skywalking-banyandb/banyand/protector"
	"github.com/apache/skywalking-banyandb/pkg/fs"
	"github.com/apache/skywalking-banyandb/pkg/logger"
	"github.com/apache/skywalking-banyandb/pkg/pipeline/sdk"
	pbv1 "github.com/apache/skywalking-banyandb/pkg/pb/v1"
	"github.com/apache/skywalking-banyandb/pkg/query/model"
	"github.com/apache/skywalking-banyandb/pkg/run"
	"github.com/apache/skywalking-banyandb/pkg/timestamp"
	"github.com/apache/skywalking-banyandb/pkg/watcher"
)

// Verification access (tag "verif") to a bare trace tsTable: constructors, step functions that call the
// existing unexported code, and projections.  No logic of its own: every step is the call sequence the
// package itself (or its own tests) uses.
//
//	table     = tsTable literal + introducerLoop only (as query_test.go / tstable_test.go), no flusher, no merger
//	Write     = tail of the write callback: getOrCreateSidx + ConvertToMemPart + mustAddTraces
//	Flush     = tsTable.flush(currentSnapshot, flushCh)           (what flusherLoop does after its pause)
//	hot merge = the dispatcher's pin (incRef + inFlight) + a request to a REAL mergeLaneWorker goroutine
//	finalize  = runFinalizeRoundNamed(lookupNamedSamplers(group), grace)
//	mem merge = mergeMemParts(currentSnapshot, merges)            (the flusher's pre-flush merge)
//	query     = staticTraceBatchSource + startBlockScanStage + queryResult.Pull: the trace-id branch of trace.Query
//
// The merge functions get a private `merges` channel instead of the introducer's one (as
// fragment_guard_implementation_test.go does): the introduction waits there until the harness forwards it
// to the real introducer loop.

// VerifSidxName is the secondary index every write of the harness feeds.
const VerifSidxName = "idx"

// VerifSpan is one span to write.
type VerifSpan struct {
	TraceID string
	SpanID  string
	Payload []byte
	TS      int64
	SidxKey int64
}

// VerifPart is the projection of one part of the current snapshot.
type VerifPart struct {
	Path  string
	ID    uint64
	Count uint64
	MinTS int64
	MaxTS int64
	Gen   uint64
	Mem   bool
}

// VerifTable is a bare tsTable with its introducer loop.
type VerifTable struct {
	tst     *tsTable
	flushCh chan *flusherIntroduction
	mergeCh chan *mergerIntroduction // the introducer's merged-introduction channel
	group   string
}

// VerifNewTable creates an empty table on root for group with the given segment time range.
func VerifNewTable(root, group string, start, end time.Time, grace, decideTimeout time.Duration, pipeline bool) *VerifTable {
	tst := &tsTable{
		loopCloser:       run.NewCloser(2),
		introductions:    make(chan *introduction),
		fileSystem:       fs.NewLocalFileSystem(),
		root:             root,
		l:                logger.GetLogger("verif-c13"),
		p:                common.Position{Database: group},
		group:            group,
		pm:               protector.Nop{},
		attributionCh:    make(chan struct{}, 1),
		segmentTimeRange: timestamp.NewSectionTimeRange(start, end),
		option: option{
			protector:                 protector.Nop{},
			mergePolicy:               newDefaultMergePolicyForTesting(),
			decideTimeout:             decideTimeout,
			decideTimeoutCircuitBreak: 0,
			mergeGraceDefault:         grace,
			nativePipelineEnabled:     pipeline,
		},
	}
	tst.gc.init(tst)
	vt := &VerifTable{tst: tst, group: group, flushCh: make(chan *flusherIntroduction), mergeCh: make(chan *mergerIntroduction)}
	go tst.introducerLoop(vt.flushCh, vt.mergeCh, make(watcher.Channel, 1), 1)
	return vt
}

// Close stops the introducer and closes the table.
func (vt *VerifTable) Close() error { return vt.tst.Close() }

// RegisterSampler registers a named sampler for the table's group (and enables the MERGE event) the way
// the package's tests do; the returned function removes it.
func (vt *VerifTable) RegisterSampler(name string, s sdk.Sampler) func() {
	return registerNamedSampler(vt.group, name, s)
}

// SetMergeNow sets the logical clock of merges (mergeNowOverride).
func (vt *VerifTable) SetMergeNow(t time.Time) { vt.tst.setMergeNow(t) }

// SetDecideTimeout sets option.decideTimeout for merges started afterwards.
func (vt *VerifTable) SetDecideTimeout(d time.Duration) { vt.tst.option.decideTimeout = d }

// GraceNs returns effectiveMergeGraceNs.
func (vt *VerifTable) GraceNs() int64 { return vt.tst.effectiveMergeGraceNs() }

// Root returns the table directory.
func (vt *VerifTable) Root() string { return vt.tst.root }

// Write adds one batch: a core mem part and a sidx mem part in one introduction.
func (vt *VerifTable) Write(spans []VerifSpan) error {
	ts := &traces{}
	reqs := make([]sidx.WriteRequest, 0, len(spans))
	minTS, maxTS := spans[0].TS, spans[0].TS
	for _, s := range spans {
		ts.traceIDs = append(ts.traceIDs, s.TraceID)
		ts.timestamps = append(ts.timestamps, s.TS)
		ts.tags = append(ts.tags, []*tagValue{{tag: "t", valueType: pbv1.ValueTypeStr, value: []byte("v")}})
		ts.spans = append(ts.spans, s.Payload)
		ts.spanIDs = append(ts.spanIDs, s.SpanID)
		data := make([]byte, len(s.TraceID)+1)
		data[0] = byte(idFormatV1)
		copy(data[1:], s.TraceID)
		reqs = append(reqs, sidx.WriteRequest{Data: data, SeriesID: 1, Key: s.SidxKey})
		minTS, maxTS = min(minTS, s.TS), max(maxTS, s.TS)
	}
	idx, err := vt.tst.getOrCreateSidx(VerifSidxName)
	if err != nil {
		return err
	}
	mp, err := idx.ConvertToMemPart(reqs, vt.tst.segmentTimeRange.Start.UnixNano(), &minTS, &maxTS)
	if err != nil {
		return err
	}
	vt.tst.mustAddTraces(ts, map[string]*sidx.MemPart{VerifSidxName: mp})
	return nil
}

// Flush flushes every mem part of the current snapshot.
func (vt *VerifTable) Flush() {
	s := vt.tst.currentSnapshot()
	if s == nil {
		return
	}
	defer s.decRef()
	vt.tst.flush(s, vt.flushCh)
}

// Parts projects the current snapshot.
func (vt *VerifTable) Parts() (uint64, []VerifPart) {
	s := vt.tst.currentSnapshot()
	if s == nil {
		return 0, nil
	}
	defer s.decRef()
	out := make([]VerifPart, 0, len(s.parts))
	for _, pw := range s.parts {
		m := &pw.p.partMetadata
		out = append(out, VerifPart{ID: pw.ID(), Mem: pw.mp != nil, Count: m.TotalCount, MinTS: m.MinTimestamp, MaxTS: m.MaxTimestamp,
			Gen: m.FinalizeGen, Path: pw.p.path})
	}
	sort.Slice(out, func(i, j int) bool { return out[i].ID < out[j].ID })
	return s.epoch, out
}

// PartMightContain asks the trace-id filter of a part of the current snapshot.
func (vt *VerifTable) PartMightContain(id uint64, traceID string) (bool, bool) {
	s := vt.tst.currentSnapshot()
	if s == nil {
		return false, false
	}
	defer s.decRef()
	for _, pw := range s.parts {
		if pw.ID() == id {
			m, _ := traceFragmentGuardPartFilter{part: pw.p}.Lookup(traceID)
			return m != traceFragmentMembershipAbsent, true
		}
	}
	return false, false
}

// Sidx returns the real secondary index of the table (nil before the first write).
func (vt *VerifTable) Sidx() sidx.SIDX {
	s, _ := vt.tst.getSidx(VerifSidxName)
	return s
}

// WrapSidx replaces the registered index by wrap(index), the way the package's tests install fakes in sidxMap.
func (vt *VerifTable) WrapSidx(wrap func(sidx.SIDX) sidx.SIDX) bool {
	vt.tst.Lock()
	defer vt.tst.Unlock()
	cur, ok := vt.tst.sidxMap[VerifSidxName]
	if !ok {
		return false
	}
	vt.tst.sidxMap[VerifSidxName] = wrap(cur)
	return true
}

// VerifSidxPartPath is sidxPartPath.
func (vt *VerifTable) VerifSidxPartPath(id uint64) string {
	return sidxPartPath(vt.tst.root, VerifSidxName, id)
}

// PartDirs lists the part directories on disk (core).
func (vt *VerifTable) PartDirs() []uint64 {
	var out []uint64
	ee, _ := os.ReadDir(vt.tst.root)
	for _, e := range ee {
		if !e.IsDir() || e.Name() == sidxDirName {
			continue
		}
		if id, err := parseEpoch(e.Name()); err == nil {
			out = append(out, id)
		}
	}
	return out
}

// VerifQueryTrace runs the trace-id branch of trace.Query over the given tables and returns the span ids.
func VerifQueryTrace(tables []*VerifTable, traceID string) ([]string, error) {
	t := &trace{l: logger.GetLogger("verif-c13-query"), pm: protector.Nop{}}
	tsts := make([]*tsTable, 0, len(tables))
	for _, vt := range tables {
		tsts = append(tsts, vt.tst)
	}
	proj := &model.TagProjection{Names: []string{"t"}}
	qo := queryOptions{
		TraceQueryOptions: model.TraceQueryOptions{TagProjection: proj, TraceIDs: []string{traceID}},
		traceIDs:          []string{traceID},
		schemaTagTypes:    map[string]pbv1.ValueType{"t": pbv1.ValueTypeStr},
	}
	ctx, cancel := context.WithTimeout(context.Background(), queryTimeout)
	result := queryResult{ctx: ctx, cancel: cancel, tagProjection: proj, keys: make(map[string]int64)}
	traceBatchCh := staticTraceBatchSource(ctx, qo.traceIDs, 0, result.keys)
	result.cursorBatchCh = t.startBlockScanStage(ctx, tsts, qo, traceBatchCh)
	traceQueryResultTracker.Acquire(&result)
	defer result.Release()
	var ids []string
	for {
		r := result.Pull()
		if r == nil {
			break
		}
		if r.Error != nil {
			return ids, r.Error
		}
		if r.TID != traceID {
			return ids, fmt.Errorf("query for %q returned trace %q", traceID, r.TID)
		}
		if len(r.SpanIDs) != len(r.Spans) {
			return ids, fmt.Errorf("trace %q: %d span ids, %d spans", traceID, len(r.SpanIDs), len(r.Spans))
		}
		ids = append(ids, r.SpanIDs...)
	}
	sort.Strings(ids)
	return ids, nil
}

// VerifMerge is one running merge whose introductions wait in a private channel.
type VerifMerge struct {
	vt      *VerifTable
	pending chan *mergerIntroduction
	cur     *mergerIntroduction
	IntroC  chan struct{} // an introduction is waiting (Intro describes it; Forward hands it to the introducer)
	DoneC   chan error    // the merge function returned
	lane    chan *mergeDispatchRequest
	mu      sync.Mutex
}

// VerifIntro describes a waiting introduction.
type VerifIntro struct {
	Path     string
	SidxPath string
	PartID   uint64
	Count    uint64
	Guarded  bool
}

func (vt *VerifTable) newMerge() *VerifMerge {
	vm := &VerifMerge{vt: vt, pending: make(chan *mergerIntroduction), IntroC: make(chan struct{}, 1), DoneC: make(chan error, 1)}
	go func() {
		for mi := range vm.pending {
			vm.mu.Lock()
			vm.cur = mi
			vm.mu.Unlock()
			vm.IntroC <- struct{}{}
		}
	}()
	return vm
}

// Intro describes the waiting introduction.
func (vm *VerifMerge) Intro() VerifIntro {
	vm.mu.Lock()
	defer vm.mu.Unlock()
	mi := vm.cur
	return VerifIntro{PartID: mi.newPart.ID(), Path: mi.newPart.p.path, Count: mi.newPart.p.partMetadata.TotalCount,
		Guarded: mi.guard != nil, SidxPath: sidxPartPath(vm.vt.tst.root, VerifSidxName, mi.newPart.ID())}
}

// Forward hands the waiting introduction to the real introducer loop.
func (vm *VerifMerge) Forward() {
	vm.mu.Lock()
	mi := vm.cur
	vm.cur = nil
	vm.mu.Unlock()
	vm.vt.mergeCh <- mi
}

func (vm *VerifMerge) finish(err error) {
	close(vm.pending)
	vm.DoneC <- err
}

// StartHotMerge pins the given file parts the way dispatchAllMergesUpTo does and hands them to a real
// mergeLaneWorker.
func (vt *VerifTable) StartHotMerge(ids []uint64, lane string) (*VerifMerge, error) {
	tst := vt.tst
	s := tst.currentSnapshot()
	if s == nil {
		return nil, fmt.Errorf("no snapshot")
	}
	want := make(map[uint64]struct{}, len(ids))
	for _, id := range ids {
		want[id] = struct{}{}
	}
	var dst []*partWrapper
	for _, pw := range s.parts {
		if _, ok := want[pw.ID()]; ok && pw.mp == nil {
			dst = append(dst, pw)
		}
	}
	if len(dst) != len(ids) {
		s.decRef()
		return nil, fmt.Errorf("found %d of %d file parts", len(dst), len(ids))
	}
	for _, pw := range dst {
		pw.incRef()
	}
	s.decRef()
	tst.inFlightMu.Lock()
	if tst.inFlight == nil {
		tst.inFlight = make(map[uint64]struct{})
	}
	for _, pw := range dst {
		tst.inFlight[pw.ID()] = struct{}{}
	}
	tst.inFlightMu.Unlock()
	vm := vt.newMerge()
	vm.lane = make(chan *mergeDispatchRequest, 1)
	go func() {
		tst.mergeLaneWorker(vm.lane, vm.pending)
		vm.finish(nil)
	}()
	vm.lane <- &mergeDispatchRequest{parts: dst, toBeMerged: want, typ: mergeTypeFile, lane: lane}
	close(vm.lane) // the worker returns after this request
	return vm, nil
}

// StartFinalize runs one finalize round with the samplers registered for the group.
func (vt *VerifTable) StartFinalize(finalizeGraceNs int64) *VerifMerge {
	vm := vt.newMerge()
	vt.tst.mergeCh = vm.pending
	go func() {
		_, err := vt.tst.runFinalizeRoundNamed(lookupNamedSamplers(vt.group), finalizeGraceNs)
		vm.finish(err)
	}()
	return vm
}

// StartMemMerge runs the flusher's pre-flush merge of the mem parts of the current snapshot.
func (vt *VerifTable) StartMemMerge() *VerifMerge {
	vm := vt.newMerge()
	go func() {
		s := vt.tst.currentSnapshot()
		if s == nil {
			vm.finish(fmt.Errorf("no snapshot"))
			return
		}
		defer s.decRef()
		_, err := vt.tst.mergeMemParts(s, vm.pending)
		vm.finish(err)
	}()
	return vm
}
