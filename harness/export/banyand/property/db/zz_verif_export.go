//go:build verif

package db

// Verification-only access to the property shard's repair entry points (C18).  Add-only thin
// wrappers: Database.Repair discards shard.repair's (updated, selfNewer) results, and the document
// a replica offers during gossip is chosen by the unexported repairGossipBase.queryProperty.

import (
	"context"
	"errors"

	"github.com/apache/skywalking-banyandb/api/common"
	propertyv1 "github.com/apache/skywalking-banyandb/api/proto/banyandb/property/v1"
)

// VerifRepairResult is what shard.repair returned.
type VerifRepairResult struct {
	SelfNewerSource     []byte
	SelfNewerRevision   int64
	SelfNewerDeleteTime int64
	Updated             bool
	HasSelfNewer        bool
}

// VerifShardRepair calls shard.repair (the function behind Database.Repair and the gossip server/client).
func VerifShardRepair(ctx context.Context, d Database, shardID uint64, id []byte, property *propertyv1.Property, deleteTime int64) (VerifRepairResult, error) {
	var res VerifRepairResult
	real, ok := d.(*database)
	if !ok {
		return res, errors.New("not a *database")
	}
	s, err := real.loadShard(ctx, property.Metadata.Group, common.ShardID(shardID))
	if err != nil {
		return res, err
	}
	updated, newer, err := s.repair(ctx, id, property, deleteTime)
	res.Updated = updated
	if newer != nil {
		res.HasSelfNewer = true
		res.SelfNewerRevision = newer.timestamp
		res.SelfNewerDeleteTime = newer.deleteTime
		res.SelfNewerSource = newer.source
	}
	return res, err
}

// VerifGossipOffer calls repairGossipBase.queryProperty: the document of (group, name, id) this
// replica would send to a peer during a gossip repair round (nil if it has none).
func VerifGossipOffer(ctx context.Context, d Database, shardID uint64, group, name, id string) (docID []byte, property *propertyv1.Property, deleteTime int64, err error) {
	real, ok := d.(*database)
	if !ok {
		return nil, nil, 0, errors.New("not a *database")
	}
	s, err := real.loadShard(ctx, group, common.ShardID(shardID))
	if err != nil {
		return nil, nil, 0, err
	}
	b := &repairGossipBase{}
	qp, p, err := b.queryProperty(ctx, s, s.repairState.buildLeafNodeEntity(group, name, id))
	if err != nil || qp == nil {
		return nil, nil, 0, err
	}
	return qp.id, p, qp.deleteTime, nil
}
