//go:build verif

package sub

import (
	"sync"
	"time"

	clusterv1 "github.com/apache/skywalking-banyandb/api/proto/banyandb/cluster/v1"
	"github.com/apache/skywalking-banyandb/banyand/queue"
	"github.com/apache/skywalking-banyandb/pkg/bus"
	"github.com/apache/skywalking-banyandb/pkg/logger"
)

// Verification access (tag "verif") to the chunked-sync receiver: a constructor for a server value that
// serves SyncPart with given handlers and window settings, and a projection of the live session.
// No logic of its own.

// VerifNewSyncServer returns the real *server (as its ChunkedSyncService interface) with the given
// chunked-sync handlers and ordering configuration (the flags --chunk-reordering, --max-chunk-buffer-size,
// --max-chunk-gap-size, --chunk-buffer-timeout of the data node).
func VerifNewSyncServer(handlers map[bus.Topic]queue.ChunkedSyncHandler, reordering bool, maxBuffer, maxGap uint32,
	bufferTimeout time.Duration,
) clusterv1.ChunkedSyncServiceServer {
	return &server{
		log:                   logger.GetLogger("verif-sub"),
		listeners:             make(map[bus.Topic][]bus.MessageListener),
		topicMap:              make(map[string]bus.Topic),
		chunkedSyncHandlers:   handlers,
		enableChunkReordering: reordering,
		maxChunkBufferSize:    maxBuffer,
		maxChunkGapSize:       maxGap,
		chunkBufferTimeout:    bufferTimeout,
	}
}

// VerifSession is the projection of a syncSession.
type VerifSession struct {
	SessionID      string
	ExpectedIndex  uint32 // chunkBuffer.expectedIndex (reordering mode) / chunksReceived (sequential mode)
	Buffered       uint32 // len(chunkBuffer.chunks)
	ChunksReceived uint32
	TotalReceived  uint64
	PartID         uint64
	HasHandler     bool
	Completed      bool
	Known          bool // a session was registered for the stream (the hook is present)
}

var verifSessions sync.Map // stream -> *syncSession

// verifSessionStarted is called by SyncPart (hook fixes/hook-c17-sub-session.patch) whenever a session
// is started or switched; the session object is mutated in place afterwards.
func verifSessionStarted(stream any, s *syncSession) { verifSessions.Store(stream, s) }

// VerifSessionOf projects the session of a stream.  Only call it while the SyncPart goroutine of that
// stream is parked in Recv (or has returned).
func VerifSessionOf(srv clusterv1.ChunkedSyncServiceServer, stream any) VerifSession {
	v, ok := verifSessions.Load(stream)
	if !ok {
		return VerifSession{}
	}
	s := v.(*syncSession)
	out := VerifSession{
		Known: true, SessionID: s.sessionID, ChunksReceived: s.chunksReceived, TotalReceived: s.totalReceived,
		Completed: s.completed, ExpectedIndex: s.chunksReceived,
	}
	if srv.(*server).enableChunkReordering {
		out.ExpectedIndex = 0
		if s.chunkBuffer != nil {
			out.ExpectedIndex = s.chunkBuffer.expectedIndex
			out.Buffered = uint32(len(s.chunkBuffer.chunks))
		}
	}
	if s.partCtx != nil {
		out.PartID = s.partCtx.ID
		out.HasHandler = s.partCtx.Handler != nil
	}
	return out
}

// VerifForgetStream drops the registration of a finished stream.
func VerifForgetStream(stream any) { verifSessions.Delete(stream) }
