//go:build verif

package pub

import (
	"time"

	"google.golang.org/grpc"

	"github.com/apache/skywalking-banyandb/banyand/queue"
	"github.com/apache/skywalking-banyandb/pkg/logger"
)

// VerifNewChunkedSyncClient returns the real chunkedSyncClient bound to the given connection, as
// pub.NewChunkedSyncClientWithConfig builds it (without a connection manager and metrics).
// No logic of its own.
func VerifNewChunkedSyncClient(conn *grpc.ClientConn, node string, chunkSize uint32, oooRetryDelay time.Duration) queue.ChunkedSyncClient {
	return &chunkedSyncClient{
		conn:      conn,
		node:      node,
		log:       logger.GetLogger("verif-pub"),
		selfNode:  "verif-sender",
		chunkSize: chunkSize,
		config: &ChunkedSyncClientConfig{
			ChunkSize:        chunkSize,
			EnableRetryOnOOO: true,
			MaxOOORetries:    3,
			OOORetryDelay:    oooRetryDelay,
		},
	}
}
