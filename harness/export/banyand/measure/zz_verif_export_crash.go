//go:build verif

package measure

import (
	"fmt"
	"os"
	"sort"
	"strings"

	"github.com/apache/skywalking-banyandb/api/common"
	"github.com/apache/skywalking-banyandb/banyand/protector"
	"github.com/apache/skywalking-banyandb/pkg/convert"
	"github.com/apache/skywalking-banyandb/pkg/fs"
	"github.com/apache/skywalking-banyandb/pkg/logger"
	pbv1 "github.com/apache/skywalking-banyandb/pkg/pb/v1"
	"github.com/apache/skywalking-banyandb/pkg/run"
	"github.com/apache/skywalking-banyandb/pkg/watcher"
)

// C04 (crash recovery): a bare tsTable with only the real introducer loop (as upstream's tstable_test.go
// builds it); flush and merge are stepped by the harness with the real functions; recovery is the real
// initTSTable.  No logic of its own: constructors, step functions, projections.

// VerifCrashTable is a bare measure tsTable on a directory.
type VerifCrashTable struct {
	tst     *tsTable
	flushCh chan *flusherIntroduction
	mergeCh chan *mergerIntroduction
}

// VerifNewCrashTable creates the table (empty directory) and starts the introducer loop at epoch 1.
func VerifNewCrashTable(root string) *VerifCrashTable {
	tst := &tsTable{
		loopCloser:    run.NewCloser(2),
		introductions: make(chan *introduction),
		fileSystem:    fs.NewLocalFileSystem(),
		root:          root,
		l:             logger.GetLogger("verif-c04"),
		option:        option{protector: protector.Nop{}},
		pm:            protector.Nop{},
	}
	tst.gc.init(tst)
	t := &VerifCrashTable{tst: tst, flushCh: make(chan *flusherIntroduction), mergeCh: make(chan *mergerIntroduction)}
	go tst.introducerLoop(t.flushCh, t.mergeCh, make(watcher.Channel, 1), 1)
	return t
}

// verifBatch builds the data points of batch b: nSeries series, rowsPer rows each, timestamps b*1000+i.
// tagged=false writes fields only (such a part has no tag-family files and no tag.type).
func verifBatch(b, nSeries, rowsPer int, tagged bool, salt int64) *dataPoints {
	dps := &dataPoints{}
	for s := 1; s <= nSeries; s++ {
		for i := 0; i < rowsPer; i++ {
			ts := int64(b*1000 + i)
			dps.seriesIDs = append(dps.seriesIDs, common.SeriesID(s))
			dps.timestamps = append(dps.timestamps, ts)
			dps.versions = append(dps.versions, int64(b))
			var tfs []nameValues
			if tagged {
				tfs = []nameValues{
					{name: "arrTag", values: []*nameValue{
						{name: "strArrTag", valueType: pbv1.ValueTypeStrArr, valueArr: [][]byte{[]byte(fmt.Sprintf("a%d", b)), []byte(fmt.Sprintf("s%d", s))}},
						{name: "intArrTag", valueType: pbv1.ValueTypeInt64Arr, valueArr: [][]byte{convert.Int64ToBytes(ts), convert.Int64ToBytes(salt)}},
					}},
					{name: "singleTag", values: []*nameValue{
						{name: "strTag", valueType: pbv1.ValueTypeStr, value: []byte(fmt.Sprintf("batch-%d-series-%d-row-%d-%s", b, s, i, strings.Repeat("x", int(salt%7))))},
						{name: "intTag", valueType: pbv1.ValueTypeInt64, value: convert.Int64ToBytes(ts ^ salt)},
					}},
				}
			}
			dps.tagFamilies = append(dps.tagFamilies, tfs)
			dps.fields = append(dps.fields, nameValues{name: "skipped", values: []*nameValue{
				{name: "strField", valueType: pbv1.ValueTypeStr, value: []byte(fmt.Sprintf("f-%d-%d-%d", b, s, i))},
				{name: "intField", valueType: pbv1.ValueTypeInt64, value: convert.Int64ToBytes(ts*31 + salt)},
				{name: "floatField", valueType: pbv1.ValueTypeFloat64, value: convert.Float64ToBytes(float64(ts) + 0.5)},
			}})
		}
	}
	return dps
}

// Write adds batch b as one mem part (real mustAddDataPoints, acknowledged when it returns); returns the part id.
func (t *VerifCrashTable) Write(b, nSeries, rowsPer int, tagged bool, salt int64) uint64 {
	t.tst.mustAddDataPoints(verifBatch(b, nSeries, rowsPer, tagged, salt))
	return t.tst.curPartID
}

// VerifBatchRows returns the canonical rows of batch b as the engine itself reads them back from a mem part.
func VerifBatchRows(b, nSeries, rowsPer int, tagged bool, salt int64) ([]string, error) {
	mp := generateMemPart()
	defer releaseMemPart(mp)
	mp.mustInitFromDataPoints(verifBatch(b, nSeries, rowsPer, tagged, salt))
	return verifReadRows([]*part{openMemPart(mp)})
}

// Flush runs tsTable.flush on the current snapshot (every mem part, then introduceFlushed + manifest).
func (t *VerifCrashTable) Flush() {
	s := t.tst.currentSnapshot()
	if s == nil {
		return
	}
	defer s.decRef()
	t.tst.flush(s, t.flushCh)
}

// MemParts / FileParts project the current snapshot.
func (t *VerifCrashTable) Parts() (epoch uint64, mem, file []uint64) {
	s := t.tst.currentSnapshot()
	if s == nil {
		return 0, nil, nil
	}
	defer s.decRef()
	for _, pw := range s.parts {
		if pw.mp != nil {
			mem = append(mem, pw.ID())
		} else {
			file = append(file, pw.ID())
		}
	}
	return s.epoch, mem, file
}

// NextPartID is the id the next part (mem part or merge output) will get.
func (t *VerifCrashTable) NextPartID() uint64 { return t.tst.curPartID + 1 }

// Merge merges the given file parts with the real merger, introduces the result (manifest) and returns
// after the introduction; the inputs are removed when this function releases its snapshot reference.
func (t *VerifCrashTable) Merge(ids []uint64) (uint64, error) {
	s := t.tst.currentSnapshot()
	if s == nil {
		return 0, fmt.Errorf("no snapshot")
	}
	defer s.decRef()
	want := map[uint64]struct{}{}
	for _, id := range ids {
		want[id] = struct{}{}
	}
	var pws []*partWrapper
	for _, pw := range s.parts {
		if _, ok := want[pw.ID()]; ok && pw.mp == nil {
			pws = append(pws, pw)
		}
	}
	if len(pws) != len(ids) {
		return 0, fmt.Errorf("found %d of %d file parts", len(pws), len(ids))
	}
	np, err := t.tst.mergePartsThenSendIntroduction(snapshotCreatorMerger, pws, want, t.mergeCh, t.tst.loopCloser.CloseNotify(), "file")
	if err != nil {
		return 0, err
	}
	return np.ID(), nil
}

// Close stops the introducer and releases the snapshot.
func (t *VerifCrashTable) Close() { _ = t.tst.Close() }

// VerifRecovered is what a restart sees.
type VerifRecovered struct {
	Rows  []string
	Parts []uint64
	Epoch uint64
}

// VerifRecover runs the real initTSTable on a directory and reads every row of every part of the loaded
// snapshot through the engine's own block readers (all columns).  Panics of the engine propagate.
func VerifRecover(root string) *VerifRecovered {
	tst, epoch := initTSTable(fs.NewLocalFileSystem(), root, common.Position{}, logger.GetLogger("verif-c04-recover"),
		option{protector: protector.Nop{}}, nil)
	defer tst.Close()
	out := &VerifRecovered{Epoch: epoch}
	s := tst.currentSnapshot()
	if s == nil {
		return out
	}
	defer s.decRef()
	var pp []*part
	for _, pw := range s.parts {
		out.Parts = append(out.Parts, pw.ID())
		pp = append(pp, pw.p)
	}
	rows, err := verifReadRows(pp)
	if err != nil {
		panic(err)
	}
	out.Rows = rows
	return out
}

func verifReadRows(parts []*part) ([]string, error) {
	var rows []string
	pii := make([]*partMergeIter, 0, len(parts))
	for _, p := range parts {
		pmi := generatePartMergeIter()
		pmi.mustInitFromPart(p)
		pii = append(pii, pmi)
	}
	br := generateBlockReader()
	br.init(pii)
	dec := generateColumnValuesDecoder()
	for br.nextBlockMetadata() {
		br.loadBlockData(dec)
		b := br.block
		for i := range b.timestamps {
			var sb strings.Builder
			fmt.Fprintf(&sb, "sid=%d ts=%d v=%d", b.bm.seriesID, b.timestamps[i], b.versions[i])
			tfs := append([]columnFamily(nil), b.tagFamilies...)
			sort.Slice(tfs, func(x, y int) bool { return tfs[x].name < tfs[y].name })
			for _, tf := range tfs {
				verifCols(&sb, "t:"+tf.name, tf.columns, i)
			}
			verifCols(&sb, "f", b.field.columns, i)
			rows = append(rows, sb.String())
		}
	}
	err := br.error()
	releaseColumnValuesDecoder(dec)
	releaseBlockReader(br)
	for i := range pii {
		releasePartMergeIter(pii[i])
	}
	sort.Strings(rows)
	return rows, err
}

func verifCols(sb *strings.Builder, prefix string, cols []column, i int) {
	cc := append([]column(nil), cols...)
	sort.Slice(cc, func(x, y int) bool { return cc[x].name < cc[y].name })
	for _, c := range cc {
		var v []byte
		if i < len(c.values) {
			v = c.values[i]
		}
		fmt.Fprintf(sb, " %s.%s/%d=%x", prefix, c.name, c.valueType, v)
	}
}

// VerifListTree lists every file and directory under root (relative paths; directories end with "/").
func VerifListTree(root string) []string {
	var out []string
	var walk func(rel string)
	walk = func(rel string) {
		ee, err := os.ReadDir(root + "/" + rel)
		if err != nil {
			return
		}
		for _, e := range ee {
			p := rel + e.Name()
			if e.IsDir() {
				out = append(out, p+"/")
				walk(p + "/")
			} else {
				out = append(out, p)
			}
		}
	}
	walk("")
	sort.Strings(out)
	return out
}
