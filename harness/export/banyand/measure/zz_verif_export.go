//go:build verif

package measure

import (
	"errors"
	"fmt"
	"os"
	"path/filepath"
	"sort"
	"strings"
	"sync"
	"sync/atomic"

	"github.com/apache/skywalking-banyandb/banyand/internal/storage"
)

// Verification hooks, tag "verif": a registry of the live tsTables with the channels of their loops, a
// gate that parks the flusher (manual maintenance), and step functions that run the real flush / merge
// code from the harness goroutine.  No logic of its own.

type verifLoop struct {
	tst     *tsTable
	flushCh chan *flusherIntroduction
	mergeCh chan *mergerIntroduction
}

var (
	verifTables sync.Map // root -> *verifLoop
	verifManual atomic.Bool
)

func verifLoopsStarted(tst *tsTable, f chan *flusherIntroduction, m chan *mergerIntroduction) {
	verifTables.Store(tst.root, &verifLoop{tst: tst, flushCh: f, mergeCh: m})
}

func verifFlusherGate(tst *tsTable) {
	if verifManual.Load() {
		<-tst.loopCloser.CloseNotify()
	}
}

// VerifSetManual parks every flusher loop at its next wake-up (and with it the merger, which only
// reacts to flusher notifications).
func VerifSetManual(b bool) { verifManual.Store(b) }

// VerifTableRoots lists the roots of live tables whose path contains substr.
func VerifTableRoots(substr string) []string {
	var out []string
	verifTables.Range(func(k, v any) bool {
		l := v.(*verifLoop)
		if strings.Contains(k.(string), substr) && !l.tst.loopCloser.Closed() {
			out = append(out, k.(string))
		}
		return true
	})
	sort.Strings(out)
	return out
}

// VerifPart is the projection of one part of the current snapshot.
type VerifPart struct {
	ID    uint64
	Count uint64
	MinTS int64
	MaxTS int64
	Mem   bool
}

// VerifParts projects the current snapshot of a table.
func VerifParts(root string) (uint64, []VerifPart) {
	v, ok := verifTables.Load(root)
	if !ok {
		return 0, nil
	}
	s := v.(*verifLoop).tst.currentSnapshot()
	if s == nil {
		return 0, nil
	}
	defer s.decRef()
	var out []VerifPart
	for _, pw := range s.parts {
		out = append(out, VerifPart{ID: pw.ID(), Mem: pw.mp != nil, Count: pw.p.partMetadata.TotalCount,
			MinTS: pw.p.partMetadata.MinTimestamp, MaxTS: pw.p.partMetadata.MaxTimestamp})
	}
	return s.epoch, out
}

// VerifFlush runs tsTable.flush on the current snapshot (what the flusher loop does after its pause).
func VerifFlush(root string) error {
	v, ok := verifTables.Load(root)
	if !ok {
		return fmt.Errorf("no table %s", root)
	}
	l := v.(*verifLoop)
	s := l.tst.currentSnapshot()
	if s == nil {
		return nil
	}
	defer s.decRef()
	l.tst.flush(s, l.flushCh)
	return nil
}

// VerifMerge merges the given file parts with the real merger and introduces the result.
func VerifMerge(root string, ids []uint64) (uint64, error) {
	v, ok := verifTables.Load(root)
	if !ok {
		return 0, fmt.Errorf("no table %s", root)
	}
	l := v.(*verifLoop)
	s := l.tst.currentSnapshot()
	if s == nil {
		return 0, fmt.Errorf("no snapshot")
	}
	defer s.decRef()
	want := map[uint64]struct{}{}
	for _, id := range ids {
		want[id] = struct{}{}
	}
	var pws []*partWrapper
	for _, pw := range s.parts {
		if _, ok := want[pw.ID()]; ok {
			if pw.mp != nil {
				return 0, fmt.Errorf("part %d is a memory part", pw.ID())
			}
			pws = append(pws, pw)
		}
	}
	if len(pws) != len(ids) {
		return 0, fmt.Errorf("found %d of %d parts", len(pws), len(ids))
	}
	np, err := l.tst.mergePartsThenSendIntroduction(snapshotCreatorMerger, pws, want, l.mergeCh, l.tst.loopCloser.CloseNotify(), "file")
	if err != nil {
		return 0, err
	}
	return np.ID(), nil
}

var verifSnapSeq atomic.Int64

// VerifTakeFileSnapshot calls TakeFileSnapshot of a live table, then inspects the copy (part directories present,
// parts listed by its manifest) and opens it with the real recovery code (initTSTable).  The call is bracketed by
// FileSnapBegin / FileSnapEnd events in the lifecycle trace.
func VerifTakeFileSnapshot(root, dst string) error {
	v, ok := verifTables.Load(root)
	if !ok {
		return fmt.Errorf("no table %s", root)
	}
	tst := v.(*verifLoop).tst
	if err := os.MkdirAll(dst, 0o755); err != nil {
		return err
	}
	id := int(verifSnapSeq.Add(1))
	verifFileSnap("FileSnapBegin", tst, id, false, nil, nil, nil)
	wrote, err := tst.TakeFileSnapshot(dst)
	if err != nil && errors.Is(err, storage.ErrNoCurrentSnapshot) {
		err = nil
	}
	if err != nil {
		return err
	}
	var copied, listed, opened []uint64
	if wrote {
		ents, _ := os.ReadDir(dst)
		for _, e := range ents {
			if e.IsDir() {
				if pid, perr := parseEpoch(e.Name()); perr == nil {
					copied = append(copied, pid)
				}
				continue
			}
			if epoch, perr := parseSnapshot(e.Name()); perr == nil {
				names, rerr := storage.ReadSnapshotPartNames(tst.fileSystem, filepath.Join(dst, snapshotName(epoch)))
				if rerr != nil {
					return fmt.Errorf("VIOLATION manifest of the copy is unreadable: %w", rerr)
				}
				for _, n := range names {
					pid, _ := parseEpoch(n)
					listed = append(listed, pid)
				}
			}
		}
		// the copy must open with the real start-up code
		var openErr error
		func() {
			defer func() {
				if r := recover(); r != nil {
					openErr = fmt.Errorf("VIOLATION opening the copy panicked: %v", r)
				}
			}()
			t2, _ := initTSTable(tst.fileSystem, dst, tst.p, tst.l, tst.option, nil)
			if t2.snapshot != nil {
				for _, pw := range t2.snapshot.parts {
					opened = append(opened, pw.ID())
				}
				t2.snapshot.decRef()
				t2.snapshot = nil
			}
		}()
		if openErr != nil {
			return openErr
		}
	}
	verifFileSnap("FileSnapEnd", tst, id, wrote, copied, listed, opened)
	return nil
}
