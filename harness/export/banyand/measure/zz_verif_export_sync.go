//go:build verif

package measure

import (
	"context"
	"errors"
	"fmt"
	"io"
	"os"
	"path/filepath"
	"sort"
	"strconv"
	"strings"
	"sync/atomic"
	"time"

	"github.com/apache/skywalking-banyandb/api/common"
	"github.com/apache/skywalking-banyandb/banyand/internal/storage"
	"github.com/apache/skywalking-banyandb/banyand/protector"
	"github.com/apache/skywalking-banyandb/banyand/queue"
	"github.com/apache/skywalking-banyandb/pkg/convert"
	"github.com/apache/skywalking-banyandb/pkg/fs"
	"github.com/apache/skywalking-banyandb/pkg/logger"
	pbv1 "github.com/apache/skywalking-banyandb/pkg/pb/v1"
	"github.com/apache/skywalking-banyandb/pkg/run"
	resourceSchema "github.com/apache/skywalking-banyandb/pkg/schema"
	"github.com/apache/skywalking-banyandb/pkg/timestamp"
	"github.com/apache/skywalking-banyandb/pkg/watcher"
)

// Verification access (tag "verif") to the part-sync path of the measure engine (C17a): a node = a real TSDB
// in a directory whose shard tables run the introducer loop only (the setup of upstream's own
// write_data_segmentref_test.go / file_part_sync_test.go), the real chunked-sync receive callback
// (setUpChunkedSyncCallback: CreatePartHandler / HandleFileChunk / syncPartContext.FinishSync), the real
// sender-side calls (collectPartsToSync, createPartFileReaders, performInitialSync, retryPartsOnFailedNodes) and
// projections.  No logic of its own.

// VerifSyncFile is one file of a part as it travels (wire name) or as it lies in a part directory.
type VerifSyncFile struct {
	Name string
	Data []byte
}

// VerifSyncPart is the projection of one part.
type VerifSyncPart struct {
	Files []VerifSyncFile
	ID    uint64
	Count uint64
	MinTS int64
	MaxTS int64
}

// VerifSyncNode is a measure TSDB with one shard.
type VerifSyncNode struct {
	db      storage.TSDB[*tsTable, option]
	opts    storage.TSDBOpts[*tsTable, option]
	group   string
	segTime time.Time
}

type verifSyncRepo struct {
	resourceSchema.Repository
	g resourceSchema.Group
	n string
}

func (r *verifSyncRepo) LoadGroup(name string) (resourceSchema.Group, bool) {
	if name != r.n {
		return nil, false
	}
	return r.g, true
}

type verifSyncGroup struct {
	resourceSchema.Group
	db io.Closer
}

func (g *verifSyncGroup) SupplyTSDB() io.Closer { return g.db }

// verifSyncNewTable is newTSTable with the introducer loop only (no flusher, merger or syncer in the background).
func verifSyncNewTable(fileSystem fs.FileSystem, root string, p common.Position, l *logger.Logger, _ timestamp.TimeRange,
	opt option, m any,
) (*tsTable, error) {
	t, epoch := initTSTable(fileSystem, root, p, l, opt, m)
	t.loopCloser = run.NewCloser(1 + 1)
	t.introductions = make(chan *introduction)
	flushCh := make(chan *flusherIntroduction)
	mergeCh := make(chan *mergerIntroduction)
	introducerWatcher := make(watcher.Channel, 1)
	go t.introducerLoop(flushCh, mergeCh, introducerWatcher, epoch+1)
	return t, nil
}

// VerifSyncOpen opens (or re-opens) a node in dir.
func VerifSyncOpen(dir, group string) (*VerifSyncNode, error) {
	ir := storage.IntervalRule{Unit: storage.DAY, Num: 1}
	n := &VerifSyncNode{group: group, segTime: time.Date(2026, 4, 17, 0, 0, 0, 0, time.Local)}
	n.opts = storage.TSDBOpts[*tsTable, option]{
		ShardNum:         1,
		Location:         filepath.Join(dir, "tab"),
		TSTableCreator:   verifSyncNewTable,
		SegmentInterval:  ir,
		TTL:              storage.IntervalRule{Unit: storage.DAY, Num: 3650},
		DisableRetention: true,
		Option:           option{protector: protector.Nop{}, mergePolicy: newDefaultMergePolicyForTesting()},
	}
	if err := os.MkdirAll(n.opts.Location, storage.DirPerm); err != nil {
		return nil, err
	}
	ctx := common.SetPosition(
		context.WithValue(context.Background(), logger.ContextKey, logger.GetLogger("verif-measure")),
		func(p common.Position) common.Position {
			p.Database = "verif"
			return p
		},
	)
	db, err := storage.OpenTSDB[*tsTable, option](ctx, n.opts, nil, group)
	if err != nil {
		return nil, err
	}
	n.db = db
	return n, nil
}

// Close closes the TSDB.
func (n *VerifSyncNode) Close() error { return n.db.Close() }

// Handler returns the real receive callback of the measure engine bound to this node.
func (n *VerifSyncNode) Handler() queue.ChunkedSyncHandler {
	repo := &schemaRepo{
		Repository: &verifSyncRepo{n: n.group, g: &verifSyncGroup{db: n.db}},
		l:          logger.GetLogger("verif-measure"),
	}
	return setUpChunkedSyncCallback(logger.GetLogger("verif-measure"), repo)
}

func (n *VerifSyncNode) table() (*tsTable, func(), error) {
	seg, err := n.db.CreateSegmentIfNotExist(n.segTime)
	if err != nil {
		return nil, nil, err
	}
	t, err := seg.CreateTSTableIfNotExist(common.ShardID(0))
	if err != nil {
		seg.DecRef()
		return nil, nil, err
	}
	return t, seg.DecRef, nil
}

// AddFilePart writes rows data points (deterministic in seed) into a new file part of shard 0 through the real
// memPart / flush code and introduces it (what the flusher produces on a liaison).
func (n *VerifSyncNode) AddFilePart(seed, rows int) (uint64, error) {
	t, release, err := n.table()
	if err != nil {
		return 0, err
	}
	defer release()
	base := n.segTime.Add(time.Duration(seed+1) * time.Hour).UnixNano()
	dps := &dataPoints{}
	// seed 0: one row per series (the timestamps file is empty: single values live in the block metadata);
	// other seeds: two series with rows/2 irregularly spaced rows each
	series := rows
	if seed > 0 {
		series = 2
	}
	for i := 0; i < rows; i++ {
		sid := i % series
		k := i / series
		dps.seriesIDs = append(dps.seriesIDs, common.SeriesID(seed*1000+sid+1))
		dps.timestamps = append(dps.timestamps, base+int64(k*k*1000+k*7))
		dps.versions = append(dps.versions, int64(i*i+1))
		dps.tagFamilies = append(dps.tagFamilies, []nameValues{{
			name: "singleTag",
			values: []*nameValue{
				{name: "strTag", valueType: pbv1.ValueTypeStr, value: []byte(fmt.Sprintf("val-%d-%d", seed, i))},
			},
		}})
		dps.fields = append(dps.fields, nameValues{
			name: "intField",
			values: []*nameValue{
				{name: "intField", valueType: pbv1.ValueTypeInt64, value: convert.Int64ToBytes(int64(seed*7919 + i*104729))},
			},
		})
	}
	id := atomic.AddUint64(&t.curPartID, 1)
	mp := generateMemPart()
	mp.mustInitFromDataPoints(dps)
	mp.mustFlush(t.fileSystem, partPath(t.root, id))
	releaseMemPart(mp)
	t.mustAddFilePart(id)
	return id, nil
}

func verifSyncReadAll(r fs.SeqReader) []byte {
	var out []byte
	buf := make([]byte, 4096)
	for {
		k, err := r.Read(buf)
		out = append(out, buf[:k]...)
		if err != nil {
			return out
		}
	}
}

// WireParts returns what the real sender would ship for every part it has to sync: collectPartsToSync +
// createPartFileReaders read to the end.
func (n *VerifSyncNode) WireParts() ([]VerifSyncPart, error) {
	t, release, err := n.table()
	if err != nil {
		return nil, err
	}
	defer release()
	s := t.currentSnapshot()
	if s == nil {
		return nil, nil
	}
	defer s.decRef()
	parts := t.collectPartsToSync(s)
	t.sortPartsByID(parts)
	var out []VerifSyncPart
	for _, p := range parts {
		files, rel := createPartFileReaders(p)
		v := VerifSyncPart{ID: p.partMetadata.ID, Count: p.partMetadata.TotalCount, MinTS: p.partMetadata.MinTimestamp, MaxTS: p.partMetadata.MaxTimestamp}
		for _, f := range files {
			v.Files = append(v.Files, VerifSyncFile{Name: f.Name, Data: verifSyncReadAll(f.Reader)})
			fs.MustClose(f.Reader)
		}
		rel()
		out = append(out, v)
	}
	return out, nil
}

type verifSyncClient struct {
	queue.Client
	mk func(node string, chunkSize uint32) (queue.ChunkedSyncClient, error)
}

func (c *verifSyncClient) NewChunkedSyncClient(node string, chunkSize uint32) (queue.ChunkedSyncClient, error) {
	return c.mk(node, chunkSize)
}

// Sync ships the node's parts to "node" with the real sender code: the first attempt is performInitialSync over
// collectPartsToSync (only == nil), a retry is retryPartsOnFailedNodes for the given ids.  It returns the ids the
// caller keeps as failed (executeSyncWithRetry hands exactly these to the FailedPartsHandler; every other part is
// dropped from the sender's snapshot by sendSyncIntroduction).
func (n *VerifSyncNode) Sync(node string, only []uint64, mk func(node string, chunkSize uint32) (queue.ChunkedSyncClient, error)) ([]uint64, error) {
	t, release, err := n.table()
	if err != nil {
		return nil, err
	}
	defer release()
	t.group = n.group
	t.shardID = 0
	t.option.tire2Client = &verifSyncClient{mk: mk}
	s := t.currentSnapshot()
	if s == nil {
		return nil, errors.New("no snapshot")
	}
	defer s.decRef()
	parts := t.collectPartsToSync(s)
	t.sortPartsByID(parts)
	var releaseFuncs []func()
	defer func() {
		for _, r := range releaseFuncs {
			r()
		}
	}()
	var failed []queue.FailedPart
	if only == nil {
		failed = t.performInitialSync(context.Background(), parts, []string{node}, &releaseFuncs)[node]
	} else {
		set := map[uint64]struct{}{}
		var prev []queue.FailedPart
		for _, id := range only {
			set[id] = struct{}{}
			prev = append(prev, queue.FailedPart{PartID: strconv.FormatUint(id, 10)})
		}
		failed, err = t.retryPartsOnFailedNodes(context.Background(), only, t.filterPartsToRetry(only, parts), set, map[string][]queue.FailedPart{node: prev})
		if err != nil {
			return nil, err
		}
	}
	var out []uint64
	for _, f := range failed {
		id, perr := strconv.ParseUint(f.PartID, 10, 64)
		if perr != nil {
			return nil, perr
		}
		out = append(out, id)
	}
	sort.Slice(out, func(i, j int) bool { return out[i] < out[j] })
	return out, nil
}

func verifSyncWireName(file string) (string, bool) {
	switch {
	case file == metaFilename:
		return measureMetaName, true
	case file == primaryFilename:
		return measurePrimaryName, true
	case file == timestampsFilename:
		return measureTimestampsName, true
	case file == fieldValuesFilename:
		return measureFieldValuesName, true
	case file == tagTypeFilename:
		return tagTypeFilename, true
	case strings.HasSuffix(file, tagFamiliesMetadataFilenameExt):
		return measureTagMetadataPrefix + removeExt(file, tagFamiliesMetadataFilenameExt), true
	case strings.HasSuffix(file, tagFamiliesFilenameExt):
		return measureTagFamiliesPrefix + removeExt(file, tagFamiliesFilenameExt), true
	}
	return "", false
}

// Installed projects the receiver: the parts of the current snapshot of every shard table (files under their
// wire names, bytes as on disk) and the part directories on disk that no snapshot lists (leftovers).
func (n *VerifSyncNode) Installed() (parts []VerifSyncPart, leftovers []string, err error) {
	segs, err := n.db.SelectSegments(timestamp.NewInclusiveTimeRange(n.segTime.Add(-48*time.Hour), n.segTime.Add(72*time.Hour)), true)
	if err != nil {
		return nil, nil, err
	}
	for _, seg := range segs {
		tables, _ := seg.Tables()
		for _, t := range tables {
			listed := map[string]bool{}
			if s := t.currentSnapshot(); s != nil {
				for _, pw := range s.parts {
					v := VerifSyncPart{ID: pw.ID(), Count: pw.p.partMetadata.TotalCount, MinTS: pw.p.partMetadata.MinTimestamp, MaxTS: pw.p.partMetadata.MaxTimestamp}
					listed[partName(pw.ID())] = true
					if pw.mp == nil {
						for _, e := range t.fileSystem.ReadDir(pw.p.path) {
							if name, ok := verifSyncWireName(e.Name()); ok {
								data, rerr := t.fileSystem.Read(filepath.Join(pw.p.path, e.Name()))
								if rerr != nil {
									err = rerr
								}
								v.Files = append(v.Files, VerifSyncFile{Name: name, Data: data})
							}
						}
					}
					sort.Slice(v.Files, func(i, j int) bool { return v.Files[i].Name < v.Files[j].Name })
					parts = append(parts, v)
				}
				s.decRef()
			}
			for _, e := range t.fileSystem.ReadDir(t.root) {
				if e.IsDir() && e.Name() != storage.FailedPartsDirName && !listed[e.Name()] {
					leftovers = append(leftovers, e.Name())
				}
			}
		}
		seg.DecRef()
	}
	sort.Slice(parts, func(i, j int) bool { return parts[i].ID < parts[j].ID })
	return parts, leftovers, err
}
