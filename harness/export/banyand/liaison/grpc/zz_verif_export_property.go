//go:build verif

package grpc

// Verification-only access to the liaison's property service (C18).  Add-only, no logic of its
// own: a constructor that wires a real propertyServer the way NewServer does (but to a
// caller-supplied pipeline and registries), step functions that call the existing unexported code,
// and projection types.

import (
	"context"
	"sort"

	commonv1 "github.com/apache/skywalking-banyandb/api/proto/banyandb/common/v1"
	propertyv1 "github.com/apache/skywalking-banyandb/api/proto/banyandb/property/v1"
	"github.com/apache/skywalking-banyandb/banyand/metadata"
	"github.com/apache/skywalking-banyandb/banyand/metadata/schema"
	"github.com/apache/skywalking-banyandb/banyand/observability"
	"github.com/apache/skywalking-banyandb/banyand/queue"
	"github.com/apache/skywalking-banyandb/pkg/logger"
)

// VerifPropertyServer wraps a real propertyServer.
type VerifPropertyServer struct {
	ps *propertyServer
}

// VerifNewPropertyServer builds the property service exactly as NewServer/PreRun do (groupRepo,
// discovery service, logger, metrics, repair queue); the repair queue's goroutine is not started,
// VerifDrainRepairQueue runs its body synchronously.
func VerifNewPropertyServer(repo metadata.Repo, pipeline queue.Client, nr NodeRegistry, groups []*commonv1.Group, repairQueueSize int) *VerifPropertyServer {
	gr := &groupRepo{
		resourceOpts: make(map[string]*commonv1.ResourceOpts),
		inflight:     make(map[string]*groupInflight),
	}
	ps := &propertyServer{
		schemaRegistry:   repo,
		pipeline:         pipeline,
		nodeRegistry:     nr,
		discoveryService: newDiscoveryService(schema.KindProperty, repo, nr, gr),
		repairQueueCount: repairQueueSize,
	}
	ps.SetLogger(logger.GetLogger("verif-liaison-property"))
	ps.metrics = newMetrics(observability.BypassRegistry.With(liaisonGrpcScope))
	ps.repairQueue = newRepairQueue(ps, ps.repairQueueCount)
	for _, g := range groups {
		gr.OnAddOrUpdate(schema.Metadata{TypeMeta: schema.TypeMeta{Kind: schema.KindGroup, Name: g.Metadata.Name, Group: g.Metadata.Name}, Spec: g})
	}
	return &VerifPropertyServer{ps: ps}
}

// Service is the gRPC service implementation (Apply / Delete / Query).
func (v *VerifPropertyServer) Service() propertyv1.PropertyServiceServer { return v.ps }

// VerifNodeProperties is the result of propertyServer.queryProperties: what every node returned.
type VerifNodeProperties struct {
	m map[string][]*propertyWithMetadata
}

// VerifProperty is the projection of a propertyWithMetadata / propertyWithCount.
type VerifProperty struct {
	Property   *propertyv1.Property
	Node       string
	Entity     string
	ExistNodes []string
	DeleteTime int64
}

func verifProject(p *propertyWithMetadata) VerifProperty {
	return VerifProperty{Property: p.Property, Node: p.node, DeleteTime: p.deletedTime}
}

func verifProjectCounts(l []*propertyWithCount) []VerifProperty {
	out := make([]VerifProperty, 0, len(l))
	for _, p := range l {
		vp := verifProject(p.propertyWithMetadata)
		vp.Entity = p.entity
		for n := range p.existNodes {
			vp.ExistNodes = append(vp.ExistNodes, n)
		}
		sort.Strings(vp.ExistNodes)
		out = append(out, vp)
	}
	return out
}

// QueryProperties calls propertyServer.queryProperties.
func (v *VerifPropertyServer) QueryProperties(ctx context.Context, req *propertyv1.QueryRequest) (*VerifNodeProperties, error) {
	m, _, _, err := v.ps.queryProperties(ctx, req)
	if err != nil {
		return nil, err
	}
	return &VerifNodeProperties{m: m}, nil
}

// Nodes projects the per-node result sets.
func (np *VerifNodeProperties) Nodes() map[string][]VerifProperty {
	out := make(map[string][]VerifProperty, len(np.m))
	for n, l := range np.m {
		for _, p := range l {
			out[n] = append(out[n], verifProject(p))
		}
	}
	return out
}

// SimpleDedupWithoutSort calls propertyServer.simpleDedupWithoutSort on the per-node result sets.
func (v *VerifPropertyServer) SimpleDedupWithoutSort(np *VerifNodeProperties) []VerifProperty {
	return verifProjectCounts(v.ps.simpleDedupWithoutSort(np.m))
}

// SortedQueryWithDedup calls propertyServer.sortedQueryWithDedup on the per-node result sets.
func (v *VerifPropertyServer) SortedQueryWithDedup(np *VerifNodeProperties, req *propertyv1.QueryRequest) []VerifProperty {
	return verifProjectCounts(v.ps.sortedQueryWithDedup(np.m, req))
}

// FindPrevAndOlderProperties calls propertyServer.findPrevAndOlderProperties (the read half of Apply).
func (v *VerifPropertyServer) FindPrevAndOlderProperties(np *VerifNodeProperties) (prev *VerifProperty, older []VerifProperty) {
	p, o := v.ps.findPrevAndOlderProperties(np.m)
	if p != nil {
		vp := verifProject(p)
		prev = &vp
	}
	for _, x := range o {
		older = append(older, verifProject(x))
	}
	return prev, older
}

// ResetRepairQueue installs a fresh repair queue (as startRepairQueue does, without the goroutine).
func (v *VerifPropertyServer) ResetRepairQueue() {
	v.ps.repairQueue = newRepairQueue(v.ps, v.ps.repairQueueCount)
}

// DrainRepairQueue runs the body of repairQueue.Start's loop until the queue is empty.
func (v *VerifPropertyServer) DrainRepairQueue(ctx context.Context) (tasks int, err error) {
	for {
		select {
		case task := <-v.ps.repairQueue.queue:
			tasks++
			if e := v.ps.repairQueue.processTask(ctx, task); e != nil && err == nil {
				err = e
			}
		default:
			return tasks, err
		}
	}
}
