//go:build verif

// Verification-only access to the liaison's BydbQL service and its prepared-statement cache
// (property C20).  Add-only; no behaviour of its own: a constructor, the real Query, the three
// calls Query makes up to the native request (getOrPrepare -> Bind -> TransformBound), and
// projections of the cache state.
package grpc

import (
	"context"

	bydbqlv1 "github.com/apache/skywalking-banyandb/api/proto/banyandb/bydbql/v1"
	modelv1 "github.com/apache/skywalking-banyandb/api/proto/banyandb/model/v1"
	"github.com/apache/skywalking-banyandb/banyand/metadata"
	"github.com/apache/skywalking-banyandb/banyand/observability"
	"github.com/apache/skywalking-banyandb/pkg/bydbql"
	"github.com/apache/skywalking-banyandb/pkg/logger"
)

// VerifBydbQL wraps a real bydbQLService.
type VerifBydbQL struct {
	svc *bydbQLService
}

// VerifNewBydbQL builds a bydbQLService with a real prepared cache (count bound size, byte bound
// maxBytes) and a real transformer over repo.  The native services refuse the given groups at
// their first statement (group pending deletion), so Query runs parse/cache -> bind -> transform
// -> dispatch and stops there with FailedPrecondition.
func VerifNewBydbQL(repo metadata.Repo, size, maxBytes int, blockedGroups []string) *VerifBydbQL {
	m := newMetrics(observability.NewBypassRegistry().With(liaisonGrpcScope))
	gr := &groupRepo{inflight: make(map[string]*groupInflight)}
	for _, g := range blockedGroups {
		gr.inflight[g] = &groupInflight{done: make(chan struct{})}
	}
	ds := &discoveryService{groupRepo: gr}
	return &VerifBydbQL{svc: &bydbQLService{
		l:              logger.GetLogger("verif-bydbql"),
		metrics:        m,
		repo:           repo,
		transformer:    bydbql.NewTransformer(repo),
		cache:          newPreparedCache(size, maxBytes, m),
		streamSvc:      &streamService{discoveryService: ds, metrics: m},
		measureSvc:     &measureService{discoveryService: ds, metrics: m},
		traceSvc:       &traceService{discoveryService: ds, metrics: m},
		propertyServer: &propertyServer{discoveryService: ds, metrics: m},
	}}
}

// Query is the real RPC handler.
func (v *VerifBydbQL) Query(ctx context.Context, query string, params []*modelv1.TagValue) (*bydbqlv1.QueryResponse, error) {
	return v.svc.Query(ctx, &bydbqlv1.QueryRequest{Query: query, Params: params})
}

// Exec performs the calls bydbQLService.Query makes before dispatching (bydbql.go, "prepare
// (parse once, cached), bind parameters, and transform to native request") and returns the native
// request instead of dispatching it.  stage names the call that failed.
func (v *VerifBydbQL) Exec(ctx context.Context, query string, params []*modelv1.TagValue) (
	res *bydbql.TransformResult, stmt *bydbql.PreparedStatement, cacheResult, stage string, err error,
) {
	stmt, cacheResult, err = v.svc.cache.getOrPrepare(query)
	if err != nil {
		return nil, nil, cacheResult, "parse", err
	}
	bound, err := stmt.Bind(params)
	if err != nil {
		return nil, stmt, cacheResult, "bind", err
	}
	res, err = v.svc.transformer.TransformBound(ctx, bound)
	if err != nil {
		return nil, stmt, cacheResult, "transform", err
	}
	return res, stmt, cacheResult, "", nil
}

// Keys lists the cached query texts, oldest first.
func (v *VerifBydbQL) Keys() []string {
	c := v.svc.cache
	if c.lru == nil {
		return nil
	}
	var out []string
	for _, k := range c.lru.Keys() {
		out = append(out, k.(string))
	}
	return out
}

// Peek returns the cached statement and its accounted cost without touching the recency order.
func (v *VerifBydbQL) Peek(query string) (*bydbql.PreparedStatement, int, bool) {
	c := v.svc.cache
	if c.lru == nil {
		return nil, 0, false
	}
	val, ok := c.lru.Peek(query)
	if !ok {
		return nil, 0, false
	}
	cv := val.(*cacheValue)
	return cv.ps, cv.cost, true
}

// Bytes is the accounted size of the cache.
func (v *VerifBydbQL) Bytes() int64 { return v.svc.cache.curBytes.Load() }

// WasEvicted reports whether the cache remembers having evicted query.
func (v *VerifBydbQL) WasEvicted(query string) bool { return v.svc.cache.wasEvicted(query) }
