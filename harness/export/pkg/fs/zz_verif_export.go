//go:build verif

package fs

import (
	"sync"
	"sync/atomic"
)

// Verification hooks, tag "verif": the trace point that pkg/fs calls BEFORE every mutating
// file-system operation (fixes/hook-fs.patch).  No logic of its own: it forwards to a tracer
// installed by a harness, or does nothing.
//
// Operations: mkdir, create, write, bufwrite (user-space buffer of a SeqWriter), bufflush,
// fsync, close, rename (path = old + "\x00" + new), unlink, rmall, link (src + "\x00" + dst),
// syncdir.

// VerifSysEvent is one entry of the append-only syscall log.
type VerifSysEvent struct {
	Op   string `json:"op"`
	Path string `json:"path"`
	N    int    `json:"n"`
	Seq  int    `json:"seq"`
}

// VerifTracer receives every event, in a total order (the calls are serialised by a mutex), before the
// operation is executed.  A tracer may copy the directory ("crash image at index Seq": all operations
// with a smaller Seq have completed, this one has not started) or panic to abort the operation.
type VerifTracer func(ev VerifSysEvent)

var (
	verifMu     sync.Mutex
	verifTracer atomic.Pointer[VerifTracer]
	verifSeq    int
)

// VerifInstallTracer installs (or, with nil, removes) the tracer and resets the sequence counter.
func VerifInstallTracer(t VerifTracer) {
	verifMu.Lock()
	defer verifMu.Unlock()
	verifSeq = 0
	if t == nil {
		verifTracer.Store(nil)
		return
	}
	verifTracer.Store(&t)
}

func verifSys(op, path string, n int) {
	if verifTracer.Load() == nil {
		return
	}
	verifMu.Lock()
	defer verifMu.Unlock()
	t := verifTracer.Load()
	if t == nil {
		return
	}
	ev := VerifSysEvent{Op: op, Path: path, N: n, Seq: verifSeq}
	verifSeq++
	(*t)(ev)
}
