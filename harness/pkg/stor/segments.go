package main

import (
	"context"
	"encoding/json"
	"fmt"
	"math/rand"
	"os"
	"path/filepath"
	"sort"
	"strings"
	"sync/atomic"
	"time"

	"github.com/apache/skywalking-banyandb/api/common"
	commonv1 "github.com/apache/skywalking-banyandb/api/proto/banyandb/common/v1"
	"github.com/apache/skywalking-banyandb/banyand/internal/storage"
	"github.com/apache/skywalking-banyandb/banyand/verifharness/vlib"
	"github.com/apache/skywalking-banyandb/pkg/fs"
	"github.com/apache/skywalking-banyandb/pkg/logger"
	"github.com/apache/skywalking-banyandb/pkg/timestamp"
)

type fakeTable struct {
	closed *atomic.Int32
	misuse *atomic.Pointer[string] // set when the storage layer uses a table it has closed (or closes one it is using)
	root   string
	slow   bool // concurrent runs: the operations take a moment, as on real tables
	gone   atomic.Bool
	inUse  atomic.Int32
}

func (f *fakeTable) note(what string) {
	if f.misuse != nil {
		s := what + " " + f.root
		f.misuse.CompareAndSwap(nil, &s)
	}
}

func (f *fakeTable) use(what string) func() {
	if f.gone.Load() {
		f.note(what + " called on a closed table")
	}
	f.inUse.Add(1)
	if f.slow {
		time.Sleep(150 * time.Microsecond)
	}
	return func() {
		if f.gone.Load() {
			f.note("table closed while " + what + " was running on it")
		}
		f.inUse.Add(-1)
	}
}

func (f *fakeTable) Close() error {
	if f.inUse.Load() > 0 {
		f.note("Close called while the table was in use")
	}
	f.gone.Store(true)
	f.closed.Add(1)
	return nil
}

func (f *fakeTable) Collect(storage.Metrics) { defer f.use("Collect")() }

func (f *fakeTable) TakeFileSnapshot(dst string) (bool, error) {
	defer f.use("TakeFileSnapshot")()
	return true, os.WriteFile(filepath.Join(dst, "fake.snp"), []byte("x"), 0o600)
}

type segCfg struct {
	Unit      string `json:"unit"`
	InitNum   int    `json:"initNum"`
	TTL       int    `json:"ttl"`
	DstStart  int    `json:"dstStart"`
	DstEnd    int    `json:"dstEnd"`
	Origin    string `json:"origin"` // local date of hour 0, e.g. 2026-03-07
	Retention bool   `json:"retention"`
}

type tsdb = storage.TSDB[*fakeTable, any]

type world struct {
	misuse     *atomic.Pointer[string]
	slowTables bool
	failOpen string // injected fault: shard tables under a directory containing this name fail to open
	db     tsdb
	mc     timestamp.MockClock
	closes *atomic.Int32
	rnd    *rand.Rand
	dir    string
	origin time.Time
	cfg    segCfg
	num    int
}

func unitOf(s string) storage.IntervalUnit {
	if s == "DAY" {
		return storage.DAY
	}
	return storage.HOUR
}

func (w *world) at(h int) time.Time { return w.origin.Add(time.Duration(h) * time.Hour) }

func (w *world) hours(t time.Time) (int, bool) {
	d := t.Sub(w.origin)
	return int(d / time.Hour), d%time.Hour == 0
}

func (w *world) open(now int) error {
	w.mc = timestamp.NewMockClock()
	w.mc.Set(w.at(now))
	opts := storage.TSDBOpts[*fakeTable, any]{
		Location:        w.dir,
		SegmentInterval: storage.IntervalRule{Unit: unitOf(w.cfg.Unit), Num: w.num},
		TTL:             storage.IntervalRule{Unit: storage.HOUR, Num: w.cfg.TTL},
		ShardNum:        1,
		TSTableCreator: func(_ fs.FileSystem, root string, _ common.Position, _ *logger.Logger, _ timestamp.TimeRange, _ any, _ any) (*fakeTable, error) {
			if w.failOpen != "" && strings.Contains(root, w.failOpen) {
				return nil, fmt.Errorf("injected: shard table of %s does not open", w.failOpen)
			}
			return &fakeTable{root: root, closed: w.closes, misuse: w.misuse, slow: w.slowTables}, nil
		},
		SegmentIdleTimeout: time.Nanosecond,
		DisableRetention:   false,
	}
	ctx := timestamp.SetClock(context.Background(), w.mc)
	ctx = common.SetPosition(ctx, func(p common.Position) common.Position {
		p.Database = "verif"
		return p
	})
	db, err := storage.OpenTSDB(ctx, opts, storage.NewBypassCache(), "g")
	if err != nil {
		return err
	}
	w.db = db
	return nil
}

func (w *world) legacy(s, e int) error {
	rule := storage.IntervalRule{Unit: unitOf(w.cfg.Unit), Num: w.num}
	p := filepath.Join(w.dir, "seg-"+storage.FormatSegmentTime(w.at(s), rule))
	if err := os.MkdirAll(p, 0o700); err != nil {
		return err
	}
	meta, _ := json.Marshal(storage.SegmentMetadata{Version: storage.CurrentSegmentVersion, EndTime: w.at(e).Format(time.RFC3339Nano)})
	return os.WriteFile(filepath.Join(p, storage.SegmentMetadataFilename), meta, 0o600)
}

type hseg struct{ S, E int }

func specSegs(l []any) []hseg {
	var out []hseg
	for _, v := range l {
		r := vlib.Rec(v)
		out = append(out, hseg{vlib.Int(r, "s"), vlib.Int(r, "e")})
	}
	sort.Slice(out, func(i, j int) bool { return out[i].S < out[j].S })
	return out
}

func (w *world) realSegs() ([]hseg, string) {
	var out []hseg
	for _, s := range storage.VerifSegments(w.db) {
		a, ok1 := w.hours(s.Start)
		b, ok2 := w.hours(s.End)
		if !ok1 || !ok2 {
			return nil, fmt.Sprintf("segment boundary not on an hour: %s .. %s", s.Start, s.End)
		}
		if !s.DirExists {
			return nil, fmt.Sprintf("segment %s is listed but its directory is gone", s.Suffix)
		}
		out = append(out, hseg{a, b})
	}
	sort.Slice(out, func(i, j int) bool { return out[i].S < out[j].S })
	return out, ""
}

func (w *world) diskSegs() int {
	n := 0
	ents, _ := os.ReadDir(w.dir)
	for _, e := range ents {
		if e.IsDir() && strings.HasPrefix(e.Name(), "seg-") {
			n++
		}
	}
	return n
}

func (w *world) zoneClass(h int) string {
	c := w.cfg
	switch {
	case c.DstStart >= c.DstEnd:
		return "nodst"
	case h == c.DstEnd-1 || h == c.DstEnd:
		return "dst-repeated-hour"
	case h == c.DstStart-1 || h == c.DstStart:
		return "dst-skipped-hour"
	case h >= c.DstStart && h < c.DstEnd:
		return "dst-summer"
	}
	return "standard"
}

// firstDiff returns the start hour of the earliest segment present in only one of the two lists.
func firstDiff(a, b []hseg) int {
	in := func(l []hseg, x hseg) bool {
		for _, y := range l {
			if x == y {
				return true
			}
		}
		return false
	}
	best := -1
	for _, x := range a {
		if !in(b, x) && (best < 0 || x.S < best) {
			best = x.S
		}
	}
	for _, x := range b {
		if !in(a, x) && (best < 0 || x.S < best) {
			best = x.S
		}
	}
	return best
}

func runSegments(bs []vlib.Behaviour, cfgJSON string, res *vlib.Result) {
	var cfg segCfg
	if err := json.Unmarshal([]byte(cfgJSON), &cfg); err != nil {
		res.Inconclusive = append(res.Inconclusive, "bad cfg: "+err.Error())
		return
	}
	origin, err := time.ParseInLocation("2006-01-02", cfg.Origin, time.Local)
	if err != nil {
		res.Inconclusive = append(res.Inconclusive, err.Error())
		return
	}
	rnd := rand.New(rand.NewSource(vlib.Seed()))
	for _, b := range bs {
		vlib.Progress(b.ID)
		res.Behaviours++
		replaySegments(b, cfg, origin, rnd, res)
	}
}

func replaySegments(b vlib.Behaviour, cfg segCfg, origin time.Time, rnd *rand.Rand, res *vlib.Result) {
	dir, err := os.MkdirTemp("", "verif-seg")
	if err != nil {
		res.Inconclusive = append(res.Inconclusive, err.Error())
		return
	}
	defer os.RemoveAll(dir)
	w := &world{dir: filepath.Join(dir, "db"), origin: origin, cfg: cfg, closes: &atomic.Int32{}, rnd: rnd}
	_ = os.MkdirAll(w.dir, 0o700)
	defer func() {
		if w.db != nil {
			func() {
				defer func() { _ = recover() }()
				_ = w.db.Close()
			}()
		}
	}()
	for i, st := range b.States {
		ev := vlib.Map(st, "last")
		op := vlib.Str(ev, "op")
		w.num = vlib.Int(st, "num")
		now := vlib.Int(st, "now")
		sigTail := ":" + cfg.Unit
		fail := func(kind, format string, a ...any) {
			res.Violate(b.ID, i, kind+sigTail, format, a...)
		}
		res.Inc("op_" + op)
		stop := false
		func() {
			defer func() {
				if r := recover(); r != nil {
					cls := ""
					if op == "create" {
						cls = ":" + w.zoneClass(vlib.Int(ev, "ts"))
					}
					fail("panic-in-"+op+cls, "%s panicked: %v (step %v)", op, r, vlib.Canon(ev))
					stop = true
				}
			}()
			switch op {
			case "open":
				for _, g := range specSegs(vlib.List(st, "segs")) {
					if err := w.legacy(g.S, g.E); err != nil {
						res.Inconclusive = append(res.Inconclusive, err.Error())
						stop = true
						return
					}
				}
				if err := w.open(now); err != nil {
					fail("open-failed", "OpenTSDB: %v", err)
					stop = true
				}
			case "create":
				res.Steps++
				h := vlib.Int(ev, "ts")
				ts := w.at(h)
				if rnd.Intn(3) > 0 {
					ts = ts.Add(time.Duration(rnd.Intn(3599))*time.Second + time.Duration(rnd.Intn(1e9)))
				}
				seg, err := w.db.CreateSegmentIfNotExist(ts)
				if err != nil {
					fail("create-error:"+w.zoneClass(h), "CreateSegmentIfNotExist(%s): %v", ts, err)
					stop = true
					return
				}
				tr := seg.GetTimeRange()
				seg.DecRef()
				if !tr.Contains(ts.UnixNano()) {
					fail("filed-outside-segment:"+w.zoneClass(h), "timestamp %s filed under segment %s which does not contain it", ts, tr)
					stop = true
					return
				}
				a, _ := w.hours(tr.Start)
				z, _ := w.hours(tr.End)
				if a != vlib.Int(ev, "s") || z != vlib.Int(ev, "e") {
					fail("created-segment-differs:"+w.zoneClass(h), "ts hour %d: real segment [%d,%d) (%s), spec [%d,%d)", h, a, z, tr, vlib.Int(ev, "s"), vlib.Int(ev, "e"))
					stop = true
				}
			case "reopen":
				res.Steps++
				if err := w.db.Close(); err != nil {
					fail("close-failed", "%v", err)
				}
				w.db = nil
				if err := w.open(now); err != nil {
					fail("reopen-failed", "OpenTSDB after close: %v", err)
					stop = true
				}
			case "interval":
				res.Steps++
				u := commonv1.IntervalRule_UNIT_HOUR
				if cfg.Unit == "DAY" {
					u = commonv1.IntervalRule_UNIT_DAY
				}
				w.db.UpdateOptions(&commonv1.ResourceOpts{
					ShardNum:        1,
					SegmentInterval: &commonv1.IntervalRule{Unit: u, Num: uint32(w.num)},
					Ttl:             &commonv1.IntervalRule{Unit: commonv1.IntervalRule_UNIT_HOUR, Num: uint32(cfg.TTL)},
				})
			case "clock":
				res.Steps++
				w.mc.Set(w.at(now))
			case "select":
				res.Steps++
				lo, hi := vlib.Int(ev, "lo"), vlib.Int(ev, "hi")
				segs, err := w.db.SelectSegments(timestamp.NewInclusiveTimeRange(w.at(lo), w.at(hi)), true)
				if err != nil {
					fail("select-error", "%v", err)
					stop = true
					return
				}
				var got []hseg
				for _, s := range segs {
					a, _ := w.hours(s.GetTimeRange().Start)
					z, _ := w.hours(s.GetTimeRange().End)
					got = append(got, hseg{a, z})
					s.DecRef()
				}
				sort.Slice(got, func(i, j int) bool { return got[i].S < got[j].S })
				want := specSegs(vlib.List(ev, "res"))
				if fmt.Sprint(got) != fmt.Sprint(want) {
					deadline := now - cfg.TTL
					kind := "select-differs"
					for _, g := range got {
						if g.E <= deadline {
							kind = "select-returns-expired"
						}
					}
					for _, g := range want {
						found := false
						for _, x := range got {
							found = found || x == g
						}
						if !found {
							kind = "select-hides-live-segment"
						}
					}
					fail(kind, "SelectSegments[%d,%d] at now=%d ttl=%d: real %v, spec %v", lo, hi, now, cfg.TTL, got, want)
					stop = true
				}
			case "retention":
				res.Steps++
				storage.VerifRetention(w.db, w.at(now))
			case "tick":
				res.Steps++
				t := w.at(vlib.Int(ev, "t"))
				if rnd.Intn(2) == 0 {
					t = t.Add(time.Duration(rnd.Intn(3599)) * time.Second)
				}
				storage.VerifTickSync(w.db, t.UnixNano())
			case "forced":
				res.Steps++
				if _, err := w.db.DeleteOldestSegment(); err != nil {
					fail("forced-error", "%v", err)
				}
			}
		}()
		if stop {
			return
		}
		want := specSegs(vlib.List(st, "segs"))
		got, msg := w.realSegs()
		if msg != "" {
			fail("segment-state-broken-after-"+op, "%s", msg)
			return
		}
		if fmt.Sprint(got) != fmt.Sprint(want) {
			kind := "segments-differ-after-" + op + ":" + w.zoneClass(firstDiff(got, want))
			if op == "retention" || op == "forced" || op == "tick" {
				deadline := now - cfg.TTL
				if op == "tick" {
					deadline = vlib.Int(ev, "t") - cfg.TTL
				}
				for _, g := range want {
					found := false
					for _, x := range got {
						found = found || x == g
					}
					if !found && g.E > deadline {
						kind = "young-segment-deleted-by-" + op
					}
				}
			}
			fail(kind, "after %s: real segments %v, spec %v", vlib.Canon(ev), got, want)
			return
		}
		if n := w.diskSegs(); n != len(want) {
			fail("segment-dirs-differ-after-"+op, "after %s: %d seg-* directories on disk, spec has %d segments", vlib.Canon(ev), n, len(want))
			return
		}
		// overlap is a property-level predicate evaluated on the real state
		for k := 1; k < len(got); k++ {
			if got[k].S < got[k-1].E {
				fail("segments-overlap", "real segments overlap: %v", got)
				return
			}
		}
	}
}
