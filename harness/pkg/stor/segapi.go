package main

import "github.com/apache/skywalking-banyandb/banyand/verifharness/vlib"

func runSegAPI(bs []vlib.Behaviour, cfgJSON string, res *vlib.Result) {
	res.Inconclusive = append(res.Inconclusive, "segapi not built yet")
}

func runSegAtomic(bs []vlib.Behaviour, cfgJSON string, res *vlib.Result) {
	res.Inconclusive = append(res.Inconclusive, "segatomic not built yet")
}
