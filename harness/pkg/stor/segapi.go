package main

import (
	"fmt"
	"os"
	"path/filepath"
	"sort"
	"sync/atomic"
	"time"

	"github.com/apache/skywalking-banyandb/banyand/internal/storage"
	"github.com/apache/skywalking-banyandb/banyand/verifharness/vlib"
	"github.com/apache/skywalking-banyandb/pkg/timestamp"
)

// API-level replay of spec/SegmentAPI.tla on a real TSDB from a single goroutine.

type segHandle = storage.Segment[*fakeTable, any]

type apiWorld struct {
	*world
	objs    map[int]segHandle          // one handle per segment captured at setup (released immediately): projection only
	held    map[[2]int]segHandle       // (k, s) -> handle a logical client holds
	pinned  map[[2]int]bool
	nsegs   int
	snapDir string
}

func (a *apiWorld) dayStart(s int) time.Time { return a.at((s - 1) * 24) }

func (a *apiWorld) rangeOf(segs []int) timestamp.TimeRange {
	sort.Ints(segs)
	lo, hi := segs[0], segs[len(segs)-1]
	return timestamp.NewInclusiveTimeRange(a.dayStart(lo).Add(time.Hour), a.dayStart(hi).Add(2*time.Hour))
}

func setOf(l []any) map[int]bool {
	m := map[int]bool{}
	for _, v := range l {
		m[vlib.AsInt(v)] = true
	}
	return m
}

func runSegAPI(bs []vlib.Behaviour, cfgJSON string, res *vlib.Result) {
	for _, b := range bs {
		vlib.Progress(b.ID)
		res.Behaviours++
		replaySegAPI(b, res)
	}
}

func replaySegAPI(b vlib.Behaviour, res *vlib.Result) {
	dir, err := os.MkdirTemp("", "verif-segapi")
	if err != nil {
		res.Inconclusive = append(res.Inconclusive, err.Error())
		return
	}
	defer os.RemoveAll(dir)
	origin := time.Date(2026, 5, 10, 0, 0, 0, 0, time.Local)
	w := &world{dir: filepath.Join(dir, "db"), origin: origin, cfg: segCfg{Unit: "DAY", TTL: 100000}, closes: &atomic.Int32{}, num: 1}
	_ = os.MkdirAll(w.dir, 0o700)
	a := &apiWorld{world: w, objs: map[int]segHandle{}, held: map[[2]int]segHandle{}, pinned: map[[2]int]bool{}, snapDir: filepath.Join(dir, "snap")}
	first := b.States[0]
	a.nsegs = len(vlib.List(first, "rc"))
	if err := w.open(0); err != nil {
		res.Inconclusive = append(res.Inconclusive, "open: "+err.Error())
		return
	}
	defer func() {
		defer func() { _ = recover() }()
		_ = w.db.Close()
	}()
	// setup = the spec's Init: every segment created, one shard written, dormant
	for s := 1; s <= a.nsegs; s++ {
		seg, cerr := w.db.CreateSegmentIfNotExist(a.dayStart(s).Add(90 * time.Minute))
		if cerr != nil {
			res.Inconclusive = append(res.Inconclusive, "setup create: "+cerr.Error())
			return
		}
		if _, terr := seg.CreateTSTableIfNotExist(0); terr != nil {
			res.Inconclusive = append(res.Inconclusive, "setup table: "+terr.Error())
			return
		}
		a.objs[s] = seg
		seg.DecRef()
	}
	for i, st := range b.States {
		ev := vlib.Map(st, "last")
		op := vlib.Str(ev, "op")
		if i > 0 {
			res.Steps++
			res.Inc("op_" + op)
			if msg := a.apply(ev); msg != "" {
				res.Violate(b.ID, i, op+"-failed", "%s at %s", msg, vlib.Canon(ev))
				return
			}
		}
		if sig, msg := a.compare(st, op, ev); sig != "" {
			res.Violate(b.ID, i, sig, "%s (after %s)", msg, vlib.Canon(ev))
			return
		}
	}
	// release what is still held so Close is clean
	for k, h := range a.held {
		if a.pinned[k] {
			h.DecRef()
		}
	}
}

func (a *apiWorld) apply(ev map[string]any) (msg string) {
	defer func() {
		if r := recover(); r != nil {
			msg = fmt.Sprintf("panic: %v", r)
		}
	}()
	switch vlib.Str(ev, "op") {
	case "select":
		segs := vlib.Ints(vlib.List(ev, "segs"))
		k := vlib.Int(ev, "k")
		got, err := a.db.SelectSegments(a.rangeOf(segs), vlib.Bool(ev, "reopen"))
		if err != nil {
			return "SelectSegments: " + err.Error()
		}
		if len(got) != len(segs) {
			for _, g := range got {
				g.DecRef()
			}
			return fmt.Sprintf("SelectSegments returned %d segments, spec expects %v", len(got), segs)
		}
		for _, g := range got {
			h, _ := a.hours(g.GetTimeRange().Start)
			a.held[[2]int{k, h/24 + 1}] = g
		}
	case "selectfail":
		segs := vlib.Ints(vlib.List(ev, "segs"))
		a.failOpen = "seg-" + a.dayStart(vlib.Int(ev, "bad")).Format("20060102")
		got, err := a.db.SelectSegments(a.rangeOf(segs), true)
		a.failOpen = ""
		if err == nil {
			for _, g := range got {
				g.DecRef()
			}
			return fmt.Sprintf("SelectSegments succeeded (%d segments) although the shard tables of segment %d cannot be opened", len(got), vlib.Int(ev, "bad"))
		}
	case "release":
		key := [2]int{vlib.Int(ev, "k"), vlib.Int(ev, "s")}
		h, ok := a.held[key]
		if !ok {
			return "harness: no such handle"
		}
		delete(a.held, key)
		h.DecRef() // the documented contract: the caller releases every segment it was given
	case "idle":
		storage.VerifCloseIdle(a.db)
	case "retention":
		upto := vlib.Int(ev, "upto")
		// deadline = end of segment `upto`: now = that end + TTL
		storage.VerifRetention(a.db, a.dayStart(upto+1).Add(time.Duration(a.cfg.TTL)*time.Hour))
	case "forced":
		if _, err := a.db.DeleteOldestSegment(); err != nil {
			return "DeleteOldestSegment: " + err.Error()
		}
	case "scan":
		if _, err := storage.VerifScan(a.db, vlib.Bool(ev, "reopen")); err != nil {
			return "segments scan: " + err.Error()
		}
	case "snapshot":
		_ = os.RemoveAll(a.snapDir)
		_ = os.MkdirAll(a.snapDir, 0o700)
		ok, err := a.db.TakeFileSnapshot(a.snapDir)
		if err != nil {
			return "TakeFileSnapshot: " + err.Error()
		}
		want := setOf(vlib.List(ev, "copied"))
		ents, _ := os.ReadDir(a.snapDir)
		if len(ents) != len(want) || (ok != (len(want) > 0)) {
			return fmt.Sprintf("snapshot copied %d segment directories (success=%v), spec expects %d", len(ents), ok, len(want))
		}
	case "collect":
		storage.VerifCollect(a.db)
	}
	return ""
}

// compare projects the real segments onto (rc, open, flag, dir, listed) and checks the holders' view.
func (a *apiWorld) compare(st vlib.State, op string, ev map[string]any) (string, string) {
	rc := vlib.Ints(vlib.List(st, "rc"))
	tok := vlib.Ints(vlib.List(st, "tok"))
	open, flag, dirs, inlist := setOf(vlib.List(st, "Open")), setOf(vlib.List(st, "Flag")), setOf(vlib.List(st, "Dir")), setOf(vlib.List(st, "InList"))
	listed := map[string]bool{}
	for _, s := range storage.VerifSegments(a.db) {
		listed[s.Suffix] = true
	}
	suffix := ""
	if op == "release" && !vlib.Bool(ev, "pinned") {
		suffix = "-of-unpinned-handle"
	}
	for s := 1; s <= a.nsegs; s++ {
		info := storage.VerifSegState[*fakeTable, any](a.objs[s])
		if int(info.RefCount) != rc[s-1] {
			return "refcount-differs-after-" + op + suffix, fmt.Sprintf("segment %d: real refCount %d, spec %d", s, info.RefCount, rc[s-1])
		}
		if int(info.Unpinned) != tok[s-1] {
			return "unpinned-releases-differ-after-" + op + suffix, fmt.Sprintf("segment %d: real pending unpinned releases %d, spec %d", s, info.Unpinned, tok[s-1])
		}
		if info.Open != open[s] {
			return "open-differs-after-" + op + suffix, fmt.Sprintf("segment %d: real open=%v, spec %v", s, info.Open, open[s])
		}
		if info.MustBeDeleted != flag[s] {
			return "flag-differs-after-" + op, fmt.Sprintf("segment %d: real mustBeDeleted=%v, spec %v", s, info.MustBeDeleted, flag[s])
		}
		if info.DirExists != dirs[s] {
			return "dir-differs-after-" + op + suffix, fmt.Sprintf("segment %d: directory exists=%v, spec %v", s, info.DirExists, dirs[s])
		}
		if listed[info.Suffix] != inlist[s] {
			return "listing-differs-after-" + op, fmt.Sprintf("segment %d: listed=%v, spec %v", s, listed[info.Suffix], inlist[s])
		}
	}
	// property-level: every pinned handle sees an open segment with its shard table and directory
	for _, hv := range vlib.List(st, "handles") {
		h := vlib.Rec(hv)
		if !vlib.Bool(h, "pinned") {
			continue
		}
		key := [2]int{vlib.Int(h, "k"), vlib.Int(h, "s")}
		a.pinned[key] = true
		seg := a.held[key]
		if seg == nil {
			continue
		}
		tables, _ := seg.Tables()
		info := storage.VerifSegState[*fakeTable, any](seg)
		if len(tables) == 0 || !info.Open || !info.DirExists {
			return "held-segment-closed-or-deleted-after-" + op + suffix,
				fmt.Sprintf("client %v holds segment %d but open=%v dir=%v tables=%d", h["c"], key[1], info.Open, info.DirExists, len(tables))
		}
	}
	return "", ""
}
