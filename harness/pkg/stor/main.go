// Command stor binds spec/Segments.tla (C06, C07) and spec/SegmentAPI.tla / SegmentRef.tla (C14) to the real
// banyand/internal/storage package: a real TSDB (OpenTSDB) on a temp directory with a fake TSTable that
// records open/close, a mock clock, real directories and the real series index.
package main

import (
	"flag"
	"os"

	"github.com/apache/skywalking-banyandb/banyand/verifharness/vlib"
	"github.com/apache/skywalking-banyandb/pkg/logger"
)

func main() {
	mode := flag.String("mode", "segments", "segments|segapi|segatomic")
	in := flag.String("in", "", "behaviour file")
	out := flag.String("out", "", "result file")
	cfg := flag.String("cfg", "{}", "json config")
	flag.Parse()
	_ = logger.Init(logger.Logging{Env: "prod", Level: "fatal"})
	res := vlib.NewResult()
	if *mode == "segstress" {
		runSegStress(*cfg, res)
		res.Write(*out)
		os.Exit(0)
	}
	bs, err := vlib.ReadBehaviours(*in)
	if err != nil {
		res.Inconclusive = append(res.Inconclusive, err.Error())
		res.Write(*out)
		os.Exit(0)
	}
	switch *mode {
	case "segments":
		runSegments(bs, *cfg, res)
	case "segapi":
		runSegAPI(bs, *cfg, res)
	case "segatomic":
		runSegAtomic(bs, *cfg, res)
	}
	res.Write(*out)
}
