package main

import (
	"encoding/json"
	"fmt"
	"math/rand"
	"os"
	"path/filepath"
	"runtime"
	"sync"
	"sync/atomic"
	"time"

	"github.com/apache/skywalking-banyandb/banyand/internal/storage"
	"github.com/apache/skywalking-banyandb/banyand/verifharness/vlib"
	"github.com/apache/skywalking-banyandb/pkg/timestamp"
)

// Concurrent driver for C14 (code -> spec): queries, stats peeks, the idle reclaimer, rotation scans, retention,
// forced cleanup, file snapshots and metrics collection run against one real TSDB from separate goroutines.

type segStressCfg struct {
	Trace  string `json:"trace"`
	Millis int    `json:"millis"`
	Segs   int    `json:"segs"`
}

type evLog struct {
	enc *json.Encoder
	mu  sync.Mutex
	n   int
}

func (e *evLog) emit(ev map[string]any) {
	e.mu.Lock()
	defer e.mu.Unlock()
	e.n++
	ev["seq"] = e.n
	_ = e.enc.Encode(ev)
}

func runSegStress(cfgJSON string, res *vlib.Result) {
	var sc segStressCfg
	if err := json.Unmarshal([]byte(cfgJSON), &sc); err != nil {
		res.Inconclusive = append(res.Inconclusive, "bad cfg: "+err.Error())
		return
	}
	dir, err := os.MkdirTemp("", "verif-segstress")
	if err != nil {
		res.Inconclusive = append(res.Inconclusive, err.Error())
		return
	}
	defer os.RemoveAll(dir)
	tf, err := os.Create(sc.Trace)
	if err != nil {
		res.Inconclusive = append(res.Inconclusive, err.Error())
		return
	}
	defer tf.Close()
	log := &evLog{enc: json.NewEncoder(tf)}
	var pauseCtr atomic.Uint64
	storage.VerifSegmentTracer = func(event, location string) {
		log.emit(map[string]any{"event": event, "seg": filepath.Base(location)})
		if event == "SnapClosedBegin" {
			// schedule perturbation: the hard-link of a tiny directory takes microseconds, real segments take long
			n := pauseCtr.Add(0x9E3779B97F4A7C15)
			time.Sleep(time.Duration((n>>40)%600) * time.Microsecond)
		}
	}
	defer func() { storage.VerifSegmentTracer = nil }()
	origin := time.Date(2026, 5, 10, 0, 0, 0, 0, time.Local)
	w := &world{dir: filepath.Join(dir, "db"), origin: origin, cfg: segCfg{Unit: "DAY", TTL: 100000}, closes: &atomic.Int32{}, num: 1,
		misuse: &atomic.Pointer[string]{}, slowTables: true}
	_ = os.MkdirAll(w.dir, 0o700)
	if err = w.open(0); err != nil {
		res.Inconclusive = append(res.Inconclusive, "open: "+err.Error())
		return
	}
	day := func(s int) time.Time { return w.at((s - 1) * 24) }
	for s := 1; s <= sc.Segs; s++ {
		seg, cerr := w.db.CreateSegmentIfNotExist(day(s).Add(90 * time.Minute))
		if cerr != nil {
			res.Inconclusive = append(res.Inconclusive, "setup: "+cerr.Error())
			return
		}
		_, _ = seg.CreateTSTableIfNotExist(0)
		seg.DecRef()
	}
	var stop atomic.Bool
	var wg sync.WaitGroup
	var failed atomic.Pointer[string]
	fail := func(sig, msg string) {
		s := sig + "\x00" + msg
		failed.CompareAndSwap(nil, &s)
	}
	var holdSeq atomic.Int64
	var nHolds, nPeeks, nHouse atomic.Int64
	seed := vlib.Seed()
	rangeOf := func(r *rand.Rand) timestamp.TimeRange {
		lo := 1 + r.Intn(sc.Segs)
		hi := lo + r.Intn(sc.Segs-lo+1)
		return timestamp.NewInclusiveTimeRange(day(lo).Add(time.Hour), day(hi).Add(2*time.Hour))
	}
	spawn := func(name string, f func(r *rand.Rand)) {
		wg.Add(1)
		go func() {
			defer wg.Done()
			defer func() {
				if p := recover(); p != nil {
					fail("panic-in-"+name, fmt.Sprint(p))
				}
			}()
			r := rand.New(rand.NewSource(seed*131 + int64(len(name))*7919 + holdSeq.Add(1)))
			for !stop.Load() {
				f(r)
			}
		}()
	}
	for q := 0; q < 3; q++ {
		c := fmt.Sprintf("q%d", q)
		spawn("query", func(r *rand.Rand) {
			segs, serr := w.db.SelectSegments(rangeOf(r), true)
			if serr != nil {
				return // a segment being deleted may refuse the acquisition: allowed, nothing is held
			}
			k := int(holdSeq.Add(1))
			for _, s := range segs {
				log.emit(map[string]any{"event": "HoldBegin", "c": c, "k": k, "seg": filepath.Base(s.Location())})
			}
			nHolds.Add(int64(len(segs)))
			for i := 0; i < 1+r.Intn(3); i++ {
				runtime.Gosched()
				for _, s := range segs {
					info := storage.VerifSegState[*fakeTable, any](s)
					tables, _ := s.Tables()
					if !info.Open || !info.DirExists || len(tables) == 0 {
						fail("held-segment-closed-or-deleted", fmt.Sprintf("%s holds %s but open=%v dir=%v tables=%d", c, filepath.Base(s.Location()), info.Open, info.DirExists, len(tables)))
					}
				}
			}
			for _, s := range segs {
				log.emit(map[string]any{"event": "HoldEnd", "c": c, "k": k, "seg": filepath.Base(s.Location())})
				s.DecRef()
			}
		})
	}
	spawn("peek", func(r *rand.Rand) {
		segs, serr := w.db.SelectSegments(rangeOf(r), false)
		if serr != nil {
			return
		}
		nPeeks.Add(1)
		runtime.Gosched()
		for _, s := range segs {
			_, _ = s.SeriesIndexStats()
			s.DecRef() // the documented contract: release every segment that was returned
		}
	})
	spawn("idle", func(r *rand.Rand) {
		storage.VerifCloseIdle(w.db)
		nHouse.Add(1)
		time.Sleep(time.Duration(r.Intn(300)) * time.Microsecond)
	})
	spawn("scan", func(r *rand.Rand) {
		_, _ = storage.VerifScan(w.db, r.Intn(2) == 0)
		nHouse.Add(1)
		time.Sleep(time.Duration(r.Intn(500)) * time.Microsecond)
	})
	spawn("collect", func(r *rand.Rand) {
		storage.VerifCollect(w.db)
		time.Sleep(time.Duration(r.Intn(500)) * time.Microsecond)
	})
	snapDir := filepath.Join(dir, "snap")
	var snapN atomic.Int64
	spawn("snapshot", func(r *rand.Rand) {
		d := filepath.Join(snapDir, fmt.Sprint(snapN.Add(1)))
		_ = os.MkdirAll(d, 0o700)
		if _, serr := w.db.TakeFileSnapshot(d); serr != nil {
			fail("snapshot-failed", serr.Error())
		}
		_ = os.RemoveAll(d)
		time.Sleep(time.Duration(r.Intn(2000)) * time.Microsecond)
	})
	// deletions: one segment every so often, oldest first (forced cleanup and retention alternate)
	wg.Add(1)
	go func() {
		defer wg.Done()
		r := rand.New(rand.NewSource(seed))
		upto := 0
		step := time.Duration(sc.Millis/(sc.Segs)) * time.Millisecond
		for !stop.Load() && upto < sc.Segs-2 {
			time.Sleep(step/2 + time.Duration(r.Int63n(int64(step))))
			upto++
			if r.Intn(2) == 0 {
				_, _ = w.db.DeleteOldestSegment()
			} else {
				storage.VerifRetention(w.db, day(upto+1).Add(time.Duration(w.cfg.TTL)*time.Hour))
			}
			nHouse.Add(1)
		}
	}()
	time.Sleep(time.Duration(sc.Millis) * time.Millisecond)
	stop.Store(true)
	wg.Wait()
	if mu := w.misuse.Load(); mu != nil {
		fail("table-used-after-or-during-close", *mu)
	}
	// quiescence: no reference may be left behind
	for _, s := range storage.VerifSegments(w.db) {
		if s.RefCount != 0 || s.Unpinned != 0 {
			fail("reference-leaked", fmt.Sprintf("segment %s has refCount=%d unpinned=%d after every client released", s.Suffix, s.RefCount, s.Unpinned))
		}
	}
	func() {
		defer func() { _ = recover() }()
		_ = w.db.Close()
	}()
	res.Behaviours = 1
	res.Steps = log.n
	res.Stats["events"] = log.n
	res.Stats["holds"] = int(nHolds.Load())
	res.Stats["peeks"] = int(nPeeks.Load())
	res.Stats["housekeeping_calls"] = int(nHouse.Load())
	if f := failed.Load(); f != nil {
		var sig, msg string
		for i := 0; i < len(*f); i++ {
			if (*f)[i] == 0 {
				sig, msg = (*f)[:i], (*f)[i+1:]
			}
		}
		res.Violate(0, 0, sig, "%s", msg)
	}
}
