package main

import "github.com/apache/skywalking-banyandb/banyand/verifharness/vlib"

func runSegAtomic(bs []vlib.Behaviour, cfgJSON string, res *vlib.Result) {
	res.Inconclusive = append(res.Inconclusive, "segatomic not built yet")
}
