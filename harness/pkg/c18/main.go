// Command c18 binds spec/PropertyStore.tla to the real property store:
//
//   - the liaison's real propertyServer (banyand/liaison/grpc/property.go: Apply, Delete, Query,
//     findPrevAndOlderProperties, mergeProperty, replaceProperty, simpleDedupWithoutSort,
//     sortedQueryWithDedup, repairPropertyIfNeed + repairQueue.processTask), constructed through the
//     verif export file and wired to
//   - N real banyand/property/db databases (OpenDB; Update / Delete / Query / shard.repair /
//     repairGossipBase.queryProperty), one per replica, through
//   - an in-process pipeline (queue.Client) that delivers the liaison's messages to the replicas the
//     way banyand/property/listener.go handles them, and drops the update / delete messages of a
//     step for the replicas that the TLC behaviour says were not reached.
//
// Every step of every TLC behaviour is executed on that real code; after EVERY step the contents of
// every replica (documents: revision, create revision, tags, tombstone), the answer of the real
// Query and the result of the dedup functions on the per-replica result sets are compared with the
// spec state.
//
//	-in behaviours.ndjson -out result.json -replicas a,b,c [-reps 200] [-rotate 400] [-workers 6]
package main

import (
	"context"
	"errors"
	"flag"
	"fmt"
	"math/rand"
	"os"
	"runtime"
	"runtime/debug"
	"runtime/pprof"
	"sort"
	"strconv"
	"strings"
	"sync"
	"time"

	"google.golang.org/protobuf/encoding/protojson"
	"google.golang.org/protobuf/proto"

	"github.com/apache/skywalking-banyandb/api/common"
	"github.com/apache/skywalking-banyandb/api/data"
	commonv1 "github.com/apache/skywalking-banyandb/api/proto/banyandb/common/v1"
	databasev1 "github.com/apache/skywalking-banyandb/api/proto/banyandb/database/v1"
	modelv1 "github.com/apache/skywalking-banyandb/api/proto/banyandb/model/v1"
	propertyv1 "github.com/apache/skywalking-banyandb/api/proto/banyandb/property/v1"
	lgrpc "github.com/apache/skywalking-banyandb/banyand/liaison/grpc"
	"github.com/apache/skywalking-banyandb/banyand/metadata"
	"github.com/apache/skywalking-banyandb/banyand/metadata/schema"
	"github.com/apache/skywalking-banyandb/banyand/observability"
	propdb "github.com/apache/skywalking-banyandb/banyand/property/db"
	"github.com/apache/skywalking-banyandb/banyand/queue"
	"github.com/apache/skywalking-banyandb/banyand/verifharness/vlib"
	"github.com/apache/skywalking-banyandb/pkg/bus"
	"github.com/apache/skywalking-banyandb/pkg/fs"
	"github.com/apache/skywalking-banyandb/pkg/logger"
)

const (
	groupName = "vg"
	propName  = "vp"
)

var allTags = []string{"t1", "t2", "t3", "t4"}

// ---- concretisation: tag t written by the Apply of model revision rev ----

func tagValue(t string, rev int) *modelv1.TagValue {
	if t == "t2" || t == "t4" {
		return &modelv1.TagValue{Value: &modelv1.TagValue_Str{Str: &modelv1.Str{Value: "v|" + strconv.Itoa(rev)}}}
	}
	return &modelv1.TagValue{Value: &modelv1.TagValue_Int{Int: &modelv1.Int{Value: int64(rev)}}}
}

func tagRev(v *modelv1.TagValue) int {
	switch x := v.GetValue().(type) {
	case *modelv1.TagValue_Int:
		return int(x.Int.GetValue())
	case *modelv1.TagValue_Str:
		n, err := strconv.Atoi(strings.TrimPrefix(x.Str.GetValue(), "v|"))
		if err != nil {
			return -1
		}
		return n
	}
	return -1
}

// ---- schema registry and node registry seen by the liaison ----

type fakeGroups struct {
	schema.Group
	g *commonv1.Group
}

func (f fakeGroups) GetGroup(_ context.Context, name string) (*commonv1.Group, error) {
	if name != f.g.Metadata.Name {
		return nil, errors.New("not found")
	}
	return f.g, nil
}

type fakeProps struct {
	schema.Property
}

func (fakeProps) GetProperty(_ context.Context, md *commonv1.Metadata) (*databasev1.Property, error) {
	p := &databasev1.Property{Metadata: &commonv1.Metadata{Group: md.Group, Name: md.Name}}
	for _, t := range allTags {
		tp := databasev1.TagType_TAG_TYPE_INT
		if t == "t2" || t == "t4" {
			tp = databasev1.TagType_TAG_TYPE_STRING
		}
		p.Tags = append(p.Tags, &databasev1.TagSpec{Name: t, Type: tp})
	}
	return p, nil
}

type fakeRepo struct {
	metadata.Repo
	g fakeGroups
}

func (f fakeRepo) GroupRegistry() schema.Group                              { return f.g }
func (f fakeRepo) PropertyRegistry() schema.Property                        { return fakeProps{} }
func (f fakeRepo) RegisterHandler(string, schema.Kind, schema.EventHandler) {}

type fakeNodes struct{ c *cluster }

func (f fakeNodes) Locate(_, _ string, _, replicaID uint32) (string, error) {
	if int(replicaID) >= len(f.c.reps) {
		return "", errors.New("no such replica")
	}
	return f.c.reps[replicaID].node, nil
}

func (f fakeNodes) LocateAll(_ string, _ uint32, replicas int) ([]string, error) {
	var out []string
	for i := 0; i < replicas && i < len(f.c.reps); i++ {
		out = append(out, f.c.reps[i].node)
	}
	return out, nil
}

func (f fakeNodes) String() string { return "verif" }

// ---- replicas: real property databases behind the data node's listeners ----

type replica struct {
	db   propdb.Database
	name string
	node string
	dir  string
}

func msgID() bus.MessageID { return bus.MessageID(time.Now().UnixNano()) }

// the four handlers below are banyand/property/listener.go (updateListener, deleteListener,
// queryListener, repairListener) without logging, tracing and disk checks.
func (r *replica) onUpdate(ctx context.Context, d *propertyv1.InternalUpdateRequest) bus.Message {
	switch {
	case d.Property == nil:
		return bus.NewMessageWithNode(msgID(), r.node, common.NewError("property is nil"))
	case d.Property.Tags == nil:
		return bus.NewMessageWithNode(msgID(), r.node, common.NewError("tags is nil"))
	case len(d.Id) == 0:
		return bus.NewMessageWithNode(msgID(), r.node, common.NewError("id is empty"))
	}
	if err := r.db.Update(ctx, common.ShardID(d.ShardId), d.Id, d.Property); err != nil {
		return bus.NewMessageWithNode(msgID(), r.node, common.NewError("fail to update property: %v", err))
	}
	return bus.NewMessageWithNode(msgID(), r.node, &propertyv1.ApplyResponse{Created: true, TagsNum: uint32(len(d.Property.Tags))})
}

func (r *replica) onDelete(ctx context.Context, d *propertyv1.InternalDeleteRequest) bus.Message {
	if len(d.Ids) == 0 {
		return bus.NewMessageWithNode(msgID(), r.node, common.NewError("id is empty"))
	}
	if err := r.db.Delete(ctx, d.Ids, time.Now()); err != nil {
		return bus.NewMessageWithNode(msgID(), r.node, common.NewError("fail to delete property: %v", err))
	}
	return bus.NewMessageWithNode(msgID(), r.node, &propertyv1.DeleteResponse{Deleted: true})
}

func (r *replica) onQuery(ctx context.Context, d *propertyv1.QueryRequest) bus.Message {
	if len(d.Groups) == 0 {
		return bus.NewMessageWithNode(msgID(), r.node, common.NewError("groups is empty"))
	}
	if d.Limit == 0 {
		return bus.NewMessageWithNode(msgID(), r.node, common.NewError("limit is 0"))
	}
	properties, err := r.db.Query(ctx, d)
	if err != nil {
		return bus.NewMessageWithNode(msgID(), r.node, common.NewError("fail to query property: %v", err))
	}
	qResp := &propertyv1.InternalQueryResponse{}
	for _, p := range properties {
		qResp.Sources = append(qResp.Sources, p.Source())
		qResp.Deletes = append(qResp.Deletes, p.DeleteTime())
		qResp.SortedValues = append(qResp.SortedValues, p.SortedValue())
	}
	return bus.NewMessageWithNode(msgID(), r.node, qResp)
}

func (r *replica) onRepair(ctx context.Context, d *propertyv1.InternalRepairRequest) bus.Message {
	if d.Id == nil {
		return bus.NewMessageWithNode(msgID(), r.node, common.NewError("id is nil"))
	}
	if d.Property == nil {
		return bus.NewMessageWithNode(msgID(), r.node, common.NewError("property is nil"))
	}
	if err := r.db.Repair(ctx, d.Id, d.ShardId, d.Property, d.DeleteTime); err != nil {
		return bus.NewMessageWithNode(msgID(), r.node, common.NewError("fail to delete property: %v", err))
	}
	return bus.NewMessageWithNode(msgID(), r.node, &propertyv1.InternalRepairResponse{})
}

// ---- the pipeline between the liaison and the replicas ----

type future struct {
	err error
	m   bus.Message
}

func (f future) Get() (bus.Message, error)      { return f.m, f.err }
func (f future) GetAll() ([]bus.Message, error) { return []bus.Message{f.m}, f.err }

type pipeline struct {
	queue.Client
	c *cluster
}

func (p *pipeline) Publish(ctx context.Context, topic bus.Topic, msgs ...bus.Message) (bus.Future, error) {
	if len(msgs) != 1 {
		return nil, errors.New("verif pipeline: one message expected")
	}
	m := msgs[0]
	rep := p.c.byNode[m.Node()]
	if rep == nil {
		return nil, fmt.Errorf("verif pipeline: unknown node %q", m.Node())
	}
	switch topic {
	case data.TopicPropertyUpdate:
		if !p.c.reach[rep.node] {
			return nil, errors.New("node is not reachable")
		}
		d := proto.Clone(m.Data().(*propertyv1.InternalUpdateRequest)).(*propertyv1.InternalUpdateRequest)
		p.c.updates = append(p.c.updates, d)
		return future{m: rep.onUpdate(ctx, d)}, nil
	case data.TopicPropertyRepair:
		d := proto.Clone(m.Data().(*propertyv1.InternalRepairRequest)).(*propertyv1.InternalRepairRequest)
		p.c.repairsSent++
		return future{m: rep.onRepair(ctx, d)}, nil
	}
	return nil, fmt.Errorf("verif pipeline: unexpected topic %s", topic.String())
}

func (p *pipeline) Broadcast(_ time.Duration, topic bus.Topic, m bus.Message) ([]bus.Future, error) {
	ctx := context.Background()
	order := p.c.rnd.Perm(len(p.c.reps))
	var out []bus.Future
	for _, i := range order {
		rep := p.c.reps[i]
		switch topic {
		case data.TopicPropertyQuery: // reads reach every replica
			d := proto.Clone(m.Data().(*propertyv1.QueryRequest)).(*propertyv1.QueryRequest)
			out = append(out, future{m: rep.onQuery(ctx, d)})
		case data.TopicPropertyDelete:
			if !p.c.reach[rep.node] {
				continue
			}
			d := proto.Clone(m.Data().(*propertyv1.InternalDeleteRequest)).(*propertyv1.InternalDeleteRequest)
			out = append(out, future{m: rep.onDelete(ctx, d)})
		default:
			return nil, fmt.Errorf("verif pipeline: unexpected topic %s", topic.String())
		}
	}
	return out, nil
}

// ---- cluster = liaison + replicas ----

type cluster struct {
	svc         propertyv1.PropertyServiceServer
	vps         *lgrpc.VerifPropertyServer
	byNode      map[string]*replica
	reach       map[string]bool
	rnd         *rand.Rand
	root        string
	reps        []*replica
	updates     []*propertyv1.InternalUpdateRequest
	repairsSent int
	gen         int
}

func newCluster(root string, names []string, gen int, rnd *rand.Rand) (*cluster, error) {
	c := &cluster{byNode: map[string]*replica{}, reach: map[string]bool{}, rnd: rnd, root: root, gen: gen}
	for _, n := range names {
		dir := fmt.Sprintf("%s/gen%d-%s", root, gen, n)
		d, err := propdb.OpenDB(context.Background(), propdb.Config{
			Location: dir, MetricsScopeName: fmt.Sprintf("verif_c18_%d_%s", gen, n), FlushInterval: time.Second,
			ExpireToDeleteDuration: time.Hour,
		}, observability.BypassRegistry, fs.NewLocalFileSystem())
		if err != nil {
			return nil, err
		}
		r := &replica{name: n, node: "node-" + n, db: d, dir: dir}
		c.reps = append(c.reps, r)
		c.byNode[r.node] = r
	}
	g := &commonv1.Group{
		Metadata: &commonv1.Metadata{Name: groupName}, Catalog: commonv1.Catalog_CATALOG_PROPERTY,
		ResourceOpts: &commonv1.ResourceOpts{ShardNum: 1, Replicas: uint32(len(names) - 1)},
	}
	c.vps = lgrpc.VerifNewPropertyServer(fakeRepo{g: fakeGroups{g: g}}, &pipeline{c: c}, fakeNodes{c: c}, []*commonv1.Group{g}, 128)
	c.svc = c.vps.Service()
	return c, nil
}

func (c *cluster) close() {
	for _, r := range c.reps {
		_ = r.db.Close()
		_ = os.RemoveAll(r.dir)
	}
}

func (c *cluster) rep(name string) *replica {
	for _, r := range c.reps {
		if r.name == name {
			return r
		}
	}
	return nil
}

func (c *cluster) setReach(names []string) {
	c.reach = map[string]bool{}
	for _, n := range names {
		c.reach["node-"+n] = true
	}
}

func (c *cluster) reachAll() {
	c.reach = map[string]bool{}
	for _, r := range c.reps {
		c.reach[r.node] = true
	}
}

// ---- projections ----

// run is the execution of one behaviour: ids are private to it, revisions are mapped to the model's.
type run struct {
	c      *cluster
	res    *vlib.Result
	revOf  map[int64]int // real ModRevision -> model revision
	perSig map[string]int
	suffix string
	reps   int
	bid    int
	stepNo int
	failed bool
}

// violate records a mismatch (at most 3 per signature are kept in full, all are counted).
func (r *run) violate(sig, detail string) {
	r.failed = true
	r.res.Inc("violations_" + sig)
	if r.perSig[sig] >= 3 {
		r.res.Inc("violations_total")
		return
	}
	r.perSig[sig]++
	r.res.Violate(r.bid, r.stepNo, sig, "%s", detail)
	if len(r.res.Samples) < 3 {
		r.res.Samples = append(r.res.Samples, map[string]any{"behaviour": r.bid, "step": r.stepNo, "signature": sig, "detail": detail})
	}
}

func (r *run) id(k string) string { return k + "-" + r.suffix }

func (r *run) docString(rev, crev int, del bool, tags map[string]int) string {
	ks := make([]string, 0, len(tags))
	for t := range tags {
		ks = append(ks, t)
	}
	sort.Strings(ks)
	var sb strings.Builder
	fmt.Fprintf(&sb, "rev=%d crev=%d del=%v tags=", rev, crev, del)
	for i, t := range ks {
		if i > 0 {
			sb.WriteByte(',')
		}
		fmt.Fprintf(&sb, "%s:%d", t, tags[t])
	}
	return sb.String()
}

// newestOf picks the newest document (highest revision, the tombstone on a tie) of a replica's documents
// rendered by docString; "" if there is none.
func newestOf(docs []string) string {
	best, bestRev, bestDel := "", 0, false
	for _, d := range docs {
		var rev, crev int
		var del bool
		if _, err := fmt.Sscanf(d, "rev=%d crev=%d del=%t", &rev, &crev, &del); err != nil {
			return "unparsable: " + d
		}
		if best == "" || rev > bestRev || (rev == bestRev && del && !bestDel) {
			best, bestRev, bestDel = d, rev, del
		}
	}
	return best
}

func specTags(v any) map[string]int {
	out := map[string]int{}
	l, _ := v.([]any)
	for _, x := range l {
		m := vlib.Rec(x)
		out[vlib.Str(m, "t")] = vlib.Int(m, "v")
	}
	return out
}

func (r *run) modelRev(real int64) int {
	if v, ok := r.revOf[real]; ok {
		return v
	}
	return -int(real % 1000000) // unknown revision: never equal to a model revision
}

func (r *run) realDoc(p *propertyv1.Property, deleteTime int64) string {
	tags := map[string]int{}
	for _, t := range p.Tags {
		tags[t.Key] = tagRev(t.Value)
	}
	return r.docString(r.modelRev(p.Metadata.ModRevision), r.modelRev(p.Metadata.CreateRevision), deleteTime > 0, tags)
}

// the documents replica rep holds for key k, as sorted strings
func (r *run) realDocs(rep *replica, k string) ([]string, error) {
	qs, err := rep.db.Query(context.Background(), &propertyv1.QueryRequest{Groups: []string{groupName}, Name: propName, Ids: []string{r.id(k)}, Limit: 100})
	if err != nil {
		return nil, err
	}
	out := make([]string, 0, len(qs))
	for _, q := range qs {
		var p propertyv1.Property
		if err := protojson.Unmarshal(q.Source(), &p); err != nil {
			return nil, err
		}
		if p.Metadata.ModRevision != q.Timestamp() {
			return nil, fmt.Errorf("document timestamp %d differs from its ModRevision %d", q.Timestamp(), p.Metadata.ModRevision)
		}
		out = append(out, r.realDoc(&p, q.DeleteTime()))
	}
	sort.Strings(out)
	// a replica's state is a SET of documents: identical copies of one document (shard.repair may write the
	// tombstone of a revision twice in one batch) are not observable through anything the property states
	uniq := out[:0]
	for i, d := range out {
		if i == 0 || d != out[i-1] {
			uniq = append(uniq, d)
		} else {
			r.res.Inc("identical_duplicate_documents")
		}
	}
	return uniq, nil
}

func (r *run) specDocs(st vlib.State, rep, k string) []string {
	var out []string
	for _, x := range vlib.List(st, "docs") {
		d := vlib.Rec(x)
		if vlib.Str(d, "r") == rep && vlib.Str(d, "k") == k {
			out = append(out, r.docString(vlib.Int(d, "rev"), vlib.Int(d, "crev"), vlib.Bool(d, "del"), specTags(d["tags"])))
		}
	}
	sort.Strings(out)
	return out
}

// the sequential map's value for k in a spec state ("" = no value)
func (r *run) specValue(st vlib.State, k string) string {
	for _, x := range vlib.List(st, "model") {
		m := vlib.Rec(x)
		if vlib.Str(m, "k") == k {
			return r.docString(vlib.Int(m, "rev"), vlib.Int(m, "crev"), false, specTags(m["tags"]))
		}
	}
	return ""
}

func (r *run) specHasDocs(st vlib.State, k string) bool {
	for _, x := range vlib.List(st, "docs") {
		if vlib.Str(vlib.Rec(x), "k") == k {
			return true
		}
	}
	return false
}

func (r *run) specLiveDocs(st vlib.State, k string) int {
	n := 0
	for _, x := range vlib.List(st, "docs") {
		d := vlib.Rec(x)
		if vlib.Str(d, "k") == k && !vlib.Bool(d, "del") {
			n++
		}
	}
	return n
}

func (r *run) queryReq(k string) *propertyv1.QueryRequest {
	return &propertyv1.QueryRequest{Groups: []string{groupName}, Name: propName, Ids: []string{r.id(k)}}
}

// winner of a dedup function as a string: "" nothing, "deleted rev=N" tombstone, else the value
func (r *run) dedupString(l []lgrpc.VerifProperty) string {
	if len(l) == 0 {
		return ""
	}
	if len(l) > 1 {
		return fmt.Sprintf("%d results for one key", len(l))
	}
	if l[0].DeleteTime > 0 {
		return "deleted"
	}
	return r.realDoc(l[0].Property, 0)
}

func expectDedup(value string, hasDocs bool) string {
	switch {
	case value != "":
		return value
	case hasDocs:
		return "deleted"
	}
	return ""
}

// ---- one behaviour ----

type stepError struct {
	sig    string
	detail string
}

func (r *run) keys(b vlib.Behaviour) []string {
	seen := map[string]bool{}
	for _, st := range b.States {
		if k := vlib.Str(vlib.Map(st, "last"), "k"); k != "" {
			seen[k] = true
		}
	}
	out := make([]string, 0, len(seen))
	for k := range seen {
		out = append(out, k)
	}
	sort.Strings(out)
	return out
}

// checkState compares the real cluster with spec state st (after a step): replica contents, Query, dedup.
func (r *run) checkState(st vlib.State, op string, keys []string) *stepError {
	ctx := context.Background()
	for _, k := range keys {
		for _, rep := range r.c.reps {
			got, err := r.realDocs(rep, k)
			if err != nil {
				return &stepError{"harness-error", err.Error()}
			}
			want := r.specDocs(st, rep.name, k)
			r.res.Inc("replica_contents_compared")
			if strings.Join(got, " ; ") != strings.Join(want, " ; ") {
				if newestOf(got) == newestOf(want) {
					// Only documents below the replica's newest one differ (how older revisions are tombstoned). They
					// can never be returned by a query or offered by a repair, so the property does not speak about
					// them: no verdict, but the comparison of this behaviour ends here and the case is counted.
					r.res.Inc("older_documents_differ_behaviour_cut")
					return &stepError{"", ""}
				}
				return &stepError{op + "-replica-contents", fmt.Sprintf("replica %s key %s holds [%s], spec [%s]", rep.name, k, strings.Join(got, " ; "), strings.Join(want, " ; "))}
			}
		}
	}
	for _, k := range keys {
		want := r.specValue(st, k)
		hasDocs := r.specHasDocs(st, k)
		// the per-replica result sets the liaison works on
		np, err := r.c.vps.QueryProperties(ctx, r.queryReq(k))
		if err != nil {
			return &stepError{"harness-error", "queryProperties: " + err.Error()}
		}
		// the dedup functions on these per-replica result sets, repeatedly: they iterate over a map keyed by
		// node, and Go's order for a small map is skewed (one of two orders may come up only once in eight)
		wantD := expectDedup(want, hasDocs)
		asc := r.queryReq(k)
		asc.Limit = 100
		asc.OrderBy = &propertyv1.QueryOrder{TagName: "t1", Sort: modelv1.Sort_SORT_ASC}
		desc := r.queryReq(k)
		desc.Limit = 100
		desc.OrderBy = &propertyv1.QueryOrder{TagName: "t1", Sort: modelv1.Sort_SORT_DESC}
		orderDependent := false
		n := r.repsFor(np)
		for i := 0; i < n; i++ {
			r.res.Inc("dedup_calls_compared")
			if g := r.dedupString(r.c.vps.SimpleDedupWithoutSort(np)); g != wantD {
				orderDependent = true
				r.violate("dedup-simple", fmt.Sprintf("simpleDedupWithoutSort(%s) call %d = [%s], expected [%s]; per-replica results %s", k, i+1, g, wantD, r.nodeResults(np)))
				break
			}
		}
		for _, req := range []*propertyv1.QueryRequest{asc, desc} {
			bad := false
			// as the real Query does: the per-replica result sets of the ORDERED request carry the sort values the
			// merge works with (the order-by tag t1 holds the revision, so it differs between revisions of one key)
			npo, oerr := r.c.vps.QueryProperties(ctx, req)
			if oerr != nil {
				return &stepError{"harness-error", "queryProperties(ordered): " + oerr.Error()}
			}
			for i := 0; i < n && !bad; i++ {
				r.res.Inc("dedup_calls_compared")
				if g := r.dedupString(r.c.vps.SortedQueryWithDedup(npo, req)); g != wantD {
					bad, orderDependent = true, true
					r.violate("dedup-sorted", fmt.Sprintf("sortedQueryWithDedup(%s, %s) call %d = [%s], expected [%s]; per-replica results %s", k, req.OrderBy.Sort, i+1, g, wantD, r.nodeResults(npo)))
				}
			}
			if bad {
				break
			}
		}
		// the real Query: a few times; if its dedup has just been seen to depend on the map order, until the
		// wrong answer shows (bounded), so that the symptom on the real path is demonstrated reliably
		qn := 3
		if orderDependent {
			qn = n
		}
		for i := 0; i < 3*qn; i++ {
			qreq := r.queryReq(k)
			if i >= qn && i < 2*qn {
				qreq = asc
			} else if i >= 2*qn {
				qreq = desc
			}
			resp, err := r.c.svc.Query(ctx, qreq)
			if err != nil {
				return &stepError{"harness-error", "Query: " + err.Error()}
			}
			got := ""
			switch len(resp.Properties) {
			case 0:
			case 1:
				got = r.realDoc(resp.Properties[0], 0)
			default:
				got = fmt.Sprintf("%d properties for one key", len(resp.Properties))
			}
			r.res.Inc("queries_compared")
			if got != want {
				// an observation: the replicas still are what the spec says, so the behaviour goes on
				r.violate("query-after-"+op, fmt.Sprintf("Query(%s) call %d = [%s], sequential map has [%s]; replicas: %s", k, i+1, got, want, r.replicaDump(k)))
				break
			}
		}
	}
	return nil
}

// the functions under test iterate over a map keyed by node: their result can depend on the iteration
// order only if at least two nodes returned something, so only then they are called r.reps times.
func (r *run) repsFor(np *lgrpc.VerifNodeProperties) int {
	n := 0
	for _, l := range np.Nodes() {
		if len(l) > 0 {
			n++
		}
	}
	if n < 2 {
		return 2
	}
	return r.reps
}

func (r *run) replicaDump(k string) string {
	var sb strings.Builder
	for _, rep := range r.c.reps {
		l, _ := r.realDocs(rep, k)
		fmt.Fprintf(&sb, "%s:[%s] ", rep.name, strings.Join(l, " ; "))
	}
	return sb.String()
}

func (r *run) nodeResults(np *lgrpc.VerifNodeProperties) string {
	m := np.Nodes()
	ns := make([]string, 0, len(m))
	for n := range m {
		ns = append(ns, n)
	}
	sort.Strings(ns)
	var sb strings.Builder
	for _, n := range ns {
		var l []string
		for _, p := range m[n] {
			l = append(l, r.realDoc(p.Property, p.DeleteTime))
		}
		sort.Strings(l)
		fmt.Fprintf(&sb, "%s:[%s] ", n, strings.Join(l, " ; "))
	}
	return sb.String()
}

func (r *run) step(prev, st vlib.State, keys []string) *stepError {
	ctx := context.Background()
	ev := vlib.Map(st, "last")
	op := vlib.Str(ev, "op")
	k := vlib.Str(ev, "k")
	r.res.Inc("op_" + op)
	switch op {
	case "apply":
		// the read half of Apply on the real per-replica result sets, repeatedly
		np, err := r.c.vps.QueryProperties(ctx, r.queryReq(k))
		if err != nil {
			return &stepError{"harness-error", "queryProperties: " + err.Error()}
		}
		wantPrev := r.specValue(prev, k)
		wantOlder := r.specLiveDocs(prev, k)
		for i, n := 0, r.repsFor(np); i < n; i++ {
			p, older := r.c.vps.FindPrevAndOlderProperties(np)
			got := ""
			if p != nil && p.DeleteTime <= 0 { // Apply ignores a deleted previous property
				got = r.realDoc(p.Property, 0)
			}
			r.res.Inc("findprev_calls_compared")
			if got != wantPrev {
				return &stepError{"apply-previous-revision", fmt.Sprintf("findPrevAndOlderProperties(%s) call %d: previous = [%s], sequential map has [%s]; per-replica results %s", k, i+1, got, wantPrev, r.nodeResults(np))}
			}
			if len(older) != wantOlder {
				r.res.Inc("findprev_older_count_differs_from_spec") // bookkeeping of superseded documents: no verdict
			}
		}
		rev := vlib.Int(ev, "rev")
		p := &propertyv1.Property{Metadata: &commonv1.Metadata{Group: groupName, Name: propName}, Id: r.id(k)}
		for _, t := range vlib.Strs(vlib.List(ev, "tags")) {
			p.Tags = append(p.Tags, &modelv1.Tag{Key: t, Value: tagValue(t, rev)})
		}
		strategy := propertyv1.ApplyRequest_STRATEGY_MERGE
		if vlib.Str(ev, "strategy") == "replace" {
			strategy = propertyv1.ApplyRequest_STRATEGY_REPLACE
		}
		r.c.setReach(vlib.Strs(vlib.List(ev, "reach")))
		r.c.updates = nil
		resp, err := r.c.svc.Apply(ctx, &propertyv1.ApplyRequest{Property: p, Strategy: strategy})
		r.c.reachAll()
		if err != nil {
			return &stepError{"apply-failed", fmt.Sprintf("Apply(%s) reaching %v failed: %v", k, vlib.List(ev, "reach"), err)}
		}
		if len(r.c.updates) == 0 {
			return &stepError{"harness-error", "Apply wrote nothing"}
		}
		real := r.c.updates[0].Property.Metadata.ModRevision
		for _, u := range r.c.updates {
			if u.Property.Metadata.ModRevision != real {
				return &stepError{"apply-revisions-differ", "one Apply wrote different revisions to different replicas"}
			}
		}
		if _, dup := r.revOf[real]; dup {
			// two applies in the same nanosecond: the wall clock, not the code
			return &stepError{"harness-inconclusive", "two Apply calls got the same wall-clock revision"}
		}
		for old := range r.revOf {
			if old >= real {
				return &stepError{"modrevision-not-increasing", fmt.Sprintf("Apply assigned revision %d after %d", real, old)}
			}
		}
		r.revOf[real] = rev
		if resp.Created != vlib.Bool(ev, "created") || int(resp.TagsNum) != vlib.Int(ev, "ntags") {
			return &stepError{"apply-response", fmt.Sprintf("Apply(%s,%s) answered created=%v tags_num=%d, sequential map says created=%v tags_num=%d", k, vlib.Str(ev, "strategy"), resp.Created, resp.TagsNum, vlib.Bool(ev, "created"), vlib.Int(ev, "ntags"))}
		}
	case "delete":
		r.c.setReach(vlib.Strs(vlib.List(ev, "reach")))
		_, err := r.c.svc.Delete(ctx, &propertyv1.DeleteRequest{Group: groupName, Name: propName, Id: r.id(k)})
		r.c.reachAll()
		if err != nil {
			return &stepError{"delete-failed", fmt.Sprintf("Delete(%s) failed: %v", k, err)}
		}
	case "repair":
		from, to := r.c.rep(vlib.Str(ev, "from")), r.c.rep(vlib.Str(ev, "to"))
		docID, prop, deleteTime, err := propdb.VerifGossipOffer(ctx, from.db, 0, groupName, propName, r.id(k))
		if err != nil {
			return &stepError{"harness-error", "gossip offer: " + err.Error()}
		}
		if prop == nil {
			return &stepError{"repair-nothing-to-offer", fmt.Sprintf("replica %s has no document of %s to offer, spec has", from.name, k)}
		}
		out, err := propdb.VerifShardRepair(ctx, to.db, 0, docID, prop, deleteTime)
		if err != nil {
			return &stepError{"repair-failed", fmt.Sprintf("shard.repair on %s failed: %v", to.name, err)}
		}
		if out.Updated {
			r.res.Inc("repair_updated")
		} else {
			r.res.Inc("repair_refused")
		}
		if out.Updated != vlib.Bool(ev, "took") {
			r.res.Inc("repair_updated_flag_differs_from_spec")
		}
		if se := r.checkState(st, op, keys); se != nil {
			if se.sig == "repair-replica-contents" {
				// RepairMonotone: the spec refuses iff the local newest version is newer than or equal to the offer
				if vlib.Bool(ev, "took") {
					se.sig = "repair-not-taken"
				} else {
					se.sig = "repair-not-monotone"
				}
				se.detail = fmt.Sprintf("Repair(%s -> %s, %s) offering [%s] (shard.repair updated=%v): %s; before the step %s held [%s]",
					from.name, to.name, k, r.realDoc(prop, deleteTime), out.Updated, se.detail, to.name, strings.Join(r.specDocs(prev, to.name, k), " ; "))
			}
			return se
		}
		return nil
	case "readrepair":
		if r.failed {
			// Read repair sends what the query dedup picked.  The dedup of this behaviour has already been
			// reported wrong (and order dependent), so what it would send now is a coin flip: stop here.
			r.res.Inc("readrepair_not_run_after_reported_dedup_violation")
			return &stepError{"", ""}
		}
		r.c.vps.ResetRepairQueue()
		r.c.repairsSent = 0
		if _, err := r.c.svc.Query(ctx, r.queryReq(k)); err != nil {
			return &stepError{"harness-error", "Query: " + err.Error()}
		}
		if _, err := r.c.vps.DrainRepairQueue(ctx); err != nil {
			return &stepError{"readrepair-failed", err.Error()}
		}
		r.res.Stats["readrepair_messages"] += r.c.repairsSent
		// Read repair is an optimisation: a replica that was not repaired is not a violation (gossip will
		// do it).  Accept "unchanged" per replica, but then stop comparing this behaviour.
		lazy := false
		for _, rep := range r.c.reps {
			got, err := r.realDocs(rep, k)
			if err != nil {
				return &stepError{"harness-error", err.Error()}
			}
			g := strings.Join(got, " ; ")
			if g == strings.Join(r.specDocs(st, rep.name, k), " ; ") {
				continue
			}
			if g == strings.Join(r.specDocs(prev, rep.name, k), " ; ") {
				lazy = true
				continue
			}
			return &stepError{"readrepair-replica-contents", fmt.Sprintf("replica %s key %s holds [%s] after read repair, spec [%s]", rep.name, k, g, strings.Join(r.specDocs(st, rep.name, k), " ; "))}
		}
		if lazy {
			r.res.Inc("readrepair_lazy_behaviour_cut")
			return &stepError{"", ""}
		}
	default:
		return &stepError{"harness-error", "unknown op " + op}
	}
	return r.checkState(st, op, keys)
}

// worker replays its share of the behaviours on its own cluster into its own result.
func worker(w int, bs []vlib.Behaviour, root string, names []string, reps, rotate, workers int, res *vlib.Result) {
	rnd := rand.New(rand.NewSource(vlib.Seed()*131 + int64(w)))
	var c *cluster
	var err error
	perSig := map[string]int{}
	gen, done := 0, 0
	defer func() {
		if c != nil {
			c.close()
		}
	}()
	for n, b := range bs {
		if n%workers != w {
			continue
		}
		if c == nil || (rotate > 0 && done%rotate == 0) {
			if c != nil {
				c.close()
			}
			gen++
			if c, err = newCluster(root, names, w*100000+gen, rnd); err != nil {
				res.Inconclusive = append(res.Inconclusive, "OpenDB: "+err.Error())
				c = nil
				return
			}
			res.Inc("clusters_opened")
		}
		done++
		res.Behaviours++
		r := &run{c: c, res: res, revOf: map[int64]int{}, perSig: perSig, suffix: fmt.Sprintf("%d.%d", gen, n), reps: reps, bid: b.ID}
		c.vps.ResetRepairQueue()
		c.reachAll()
		keys := r.keys(b)
		for i := 1; i < len(b.States); i++ {
			res.Steps++
			r.stepNo = i
			se := r.step(b.States[i-1], b.States[i], keys)
			if se == nil {
				continue
			}
			switch se.sig {
			case "": // behaviour cut without verdict
			case "harness-error", "harness-inconclusive":
				res.Inconclusive = append(res.Inconclusive, fmt.Sprintf("behaviour %d step %d: %s", b.ID, i, se.detail))
			default:
				r.violate(se.sig, se.detail)
			}
			break
		}
		if r.failed {
			res.Inc("behaviours_with_violation")
		}
	}
}

func replay(in string, names []string, reps, rotate, workers int, res *vlib.Result) {
	bs, err := vlib.ReadBehaviours(in)
	if err != nil {
		res.Inconclusive = append(res.Inconclusive, err.Error())
		return
	}
	root, err := os.MkdirTemp("", "verif-c18-")
	if err != nil {
		res.Inconclusive = append(res.Inconclusive, err.Error())
		return
	}
	defer os.RemoveAll(root)
	if workers < 1 {
		workers = 1
	}
	if workers > len(bs) {
		workers = len(bs)
	}
	parts := make([]*vlib.Result, workers)
	var wg sync.WaitGroup
	for w := 0; w < workers; w++ {
		parts[w] = vlib.NewResult()
		wg.Add(1)
		go func(w int) {
			defer wg.Done()
			worker(w, bs, root, names, reps, rotate, workers, parts[w])
		}(w)
	}
	wg.Wait()
	perSig := map[string]int{}
	for _, p := range parts {
		res.Behaviours += p.Behaviours
		res.Steps += p.Steps
		res.Inconclusive = append(res.Inconclusive, p.Inconclusive...)
		for k, v := range p.Stats {
			res.Stats[k] += v
		}
		for _, v := range p.Violations {
			if perSig[v.Signature] < 3 && len(res.Violations) < 50 {
				perSig[v.Signature]++
				res.Violations = append(res.Violations, v)
			}
		}
		for _, x := range p.Samples {
			if len(res.Samples) < 3 {
				res.Samples = append(res.Samples, x)
			}
		}
	}
	sort.SliceStable(res.Violations, func(i, j int) bool { return res.Violations[i].Behaviour < res.Violations[j].Behaviour })
}

func main() {
	in := flag.String("in", "", "behaviour file")
	out := flag.String("out", "", "result file")
	reps := flag.Int("reps", 200, "repetitions of the order-sensitive functions per state")
	rotate := flag.Int("rotate", 400, "open fresh databases every N behaviours")
	replicas := flag.String("replicas", "a,b", "replica names = the spec's Replicas constant")
	workers := flag.Int("workers", 6, "parallel replay workers (each with its own databases)")
	prof := flag.String("cpuprofile", "", "write a CPU profile (development)")
	flag.Parse()
	if *prof != "" {
		if f, err := os.Create(*prof); err == nil {
			_ = pprof.StartCPUProfile(f)
			defer pprof.StopCPUProfile()
		}
	}
	_ = logger.Init(logger.Logging{Env: "prod", Level: "error"})
	res := vlib.NewResult()
	names := strings.Split(*replicas, ",")
	sort.Strings(names)
	debug.SetGCPercent(400)
	if *workers+2 < runtime.GOMAXPROCS(0) {
		runtime.GOMAXPROCS(*workers + 2)
	}
	replay(*in, names, *reps, *rotate, *workers, res)
	res.Write(*out)
}
