// Command c13 binds spec/TraceSampling.tla to banyand/trace: every behaviour TLC generated for the
// specification (writes, flushes, merge sessions with a sampler, a writer interleaved at every step of a
// merge) is replayed on REAL trace tsTables (table X = the merged segment, table Y = the next segment) on
// a temp directory and the projection of the real state is compared with the spec state after EVERY step.
//
// How the TLC-chosen interleaving is forced (no hook in /repo is needed): the real merge functions
// (mergeLaneWorker -> mergePartsThenSendIntroduction, runFinalizeRoundNamed, mergeMemParts) run on their own
// goroutine and stop at three natural seams that the harness owns:
//
//	G1  the stub sampler's Decide (registered with registerNamedSampler like the package's tests do) waits
//	    for the decisions prescribed by the behaviour                  = between MergeStart and Decide
//	G2  a wrapper around the table's real sidx.SIDX (installed in tsTable.sidxMap like the package's fakes)
//	    waits in Merge before delegating                               = between Decide and Revalidate
//	G3  the `merges` channel handed to the merge function is private; the introduction waits there until
//	    the harness forwards it to the real introducer loop            = between Revalidate and Introduce
//
// A writer step of the behaviour between two merge steps is therefore just a call made while the merge
// goroutine is parked at the corresponding seam.  A goroutine that does not arrive at the expected seam is
// a conformance violation (the real pipeline took another path than the specification); no arrival at all
// within the time-out is inconclusive.
//
// Observation after every step: for every trace id the span ids returned by the package's query-by-trace-id
// path (staticTraceBatchSource -> startBlockScanStage -> queryResult.Pull over both tables), the entries of the
// secondary index (ScanQuery and QuerySync of the real sidx), the part list (id, mem/file, count, bounds)
// and the epoch.  In addition the property is evaluated directly on the real observations around every
// publication (whole-or-nothing, no loss without sampler, index entries match survivors, fail-open,
// rejected outputs removed), independently of the expected state.
package main

import (
	"context"
	"encoding/json"
	"flag"
	"fmt"
	"math/rand"
	"os"
	"path/filepath"
	"sort"
	"strings"
	"time"

	"github.com/apache/skywalking-banyandb/api/common"
	"github.com/apache/skywalking-banyandb/banyand/internal/sidx"
	"github.com/apache/skywalking-banyandb/banyand/trace"
	"github.com/apache/skywalking-banyandb/banyand/verifharness/vlib"
	"github.com/apache/skywalking-banyandb/pkg/fs"
	"github.com/apache/skywalking-banyandb/pkg/logger"
	"github.com/apache/skywalking-banyandb/pkg/pipeline/sdk"
)

type config struct {
	SegSplit int  `json:"seg_split"`
	Grace    int  `json:"grace"`
	Sampling bool `json:"sampling"`
	Mutate   int  `json:"mutate"` // binding self-test: corrupt the expectation of that step of every behaviour
}

const (
	unit        = int64(time.Hour)
	stepTimeout = 90 * time.Second
)

var baseTime = time.Date(2026, 3, 10, 0, 0, 0, 0, time.UTC)

// ---- events from the merge goroutines ------------------------------------------------------------------
type samplerCall struct {
	reply chan map[string]string // real trace id -> decision
	ids   []string
}

type sidxCall struct {
	release chan struct{}
	newID   uint64
	keep    bool
}

type event struct {
	sampler *samplerCall
	sidx    *sidxCall
	kind    string // sampler | sidx | intro | done
	err     error
}

type stubSampler struct{ w *world }

func (s *stubSampler) Kind() sdk.Kind          { return sdk.KindSampler }
func (s *stubSampler) Project() sdk.Projection { return sdk.Projection{} }
func (s *stubSampler) Close() error            { return nil }
func (s *stubSampler) Decide(batch *sdk.TraceBatch) (sdk.Verdict, error) {
	call := &samplerCall{reply: make(chan map[string]string, 1)}
	for i := range batch.Traces {
		call.ids = append(call.ids, batch.Traces[i].TraceID)
	}
	s.w.events <- event{kind: "sampler", sampler: call}
	dec := <-call.reply
	keep := make([]bool, len(batch.Traces))
	var failed bool
	for i := range batch.Traces {
		switch dec[batch.Traces[i].TraceID] {
		case "Panic":
			panic("verif: prescribed sampler panic")
		case "Error":
			failed = true
		case "Drop":
		default:
			keep[i] = true
		}
	}
	if failed {
		return sdk.Verdict{}, fmt.Errorf("verif: prescribed sampler error")
	}
	return sdk.Verdict{Keep: keep}, nil
}

type gatedSidx struct {
	sidx.SIDX
	w *world
}

func (g *gatedSidx) Merge(closeCh <-chan struct{}, ids map[uint64]struct{}, newID uint64, keep func([]byte) bool) (*sidx.MergerIntroduction, error) {
	call := &sidxCall{release: make(chan struct{}), newID: newID, keep: keep != nil}
	g.w.events <- event{kind: "sidx", sidx: call}
	<-call.release
	return g.SIDX.Merge(closeCh, ids, newID, keep)
}

// ---- world -----------------------------------------------------------------------------------------------
type session struct {
	vm       *trace.VerifMerge
	sampler  *samplerCall
	sidx     *sidxCall
	stale    []*samplerCall // abandoned (timed out) sampler calls, answered at cleanup
	inputs   map[uint64]bool
	rejected []trace.VerifIntro
	intro    *trace.VerifIntro
	name     string
	done     bool
}

type world struct {
	res      *vlib.Result
	X, Y     *trace.VerifTable
	events   chan event
	sessions map[string]*session
	realID   map[string]uint64 // "X/3" -> real part id
	tname    map[string]string // spec trace -> real trace id
	tspec    map[string]string
	rng      *rand.Rand
	cfg      config
	dir      string
	bid      int
	step     int
	lastEp   uint64
	wrapped  bool
	failed   bool
	fp       bool // a bloom false positive was observed: the behaviour is re-run with other names
	vsig     string
	vmsg     string
	vstep    int
	dsig     string // deferred mismatch: reported when the behaviour shows no consequence of it
	dmsg     string
	dstep    int
	prevObs  *obs
}

// violate keeps the first mismatch of the behaviour; it is reported when the run turns out not to be
// disturbed by a bloom false positive (see replay).
func (w *world) violate(sig, format string, a ...any) {
	if !w.failed {
		w.vsig, w.vmsg, w.vstep = sig, fmt.Sprintf(format, a...), w.step
	}
	w.failed = true
}

func (w *world) ts(t int) int64 { return baseTime.UnixNano() + int64(t)*unit + unit/2 }

func spanID(t string, k int) string { return fmt.Sprintf("%s#%d", t, k) }

func newWorld(res *vlib.Result, cfg config, bid int, salt int64, traces []string) (*world, error) {
	dir, err := os.MkdirTemp("", "verif-c13-")
	if err != nil {
		return nil, err
	}
	w := &world{res: res, cfg: cfg, bid: bid, dir: dir, events: make(chan event, 64), sessions: map[string]*session{},
		realID: map[string]uint64{}, tname: map[string]string{}, tspec: map[string]string{},
		rng: rand.New(rand.NewSource(vlib.Seed()*1000003 + int64(bid)*7919 + salt))}
	for _, t := range traces {
		n := fmt.Sprintf("%s-%06x", t, w.rng.Intn(1<<24))
		if w.rng.Intn(2) == 0 { // order of real ids need not follow the order of the model names
			n = fmt.Sprintf("%06x-%s", w.rng.Intn(1<<24), t)
		}
		w.tname[t], w.tspec[n] = n, t
	}
	grace := time.Duration(int64(cfg.Grace) * unit)
	group := fmt.Sprintf("verif-c13-%d-%d-%d", os.Getpid(), bid, salt)
	split := baseTime.Add(time.Duration(int64(cfg.SegSplit) * unit))
	for _, d := range []string{"x", "y"} {
		if err := os.MkdirAll(filepath.Join(dir, d), 0o700); err != nil {
			return nil, err
		}
	}
	pipeline := cfg.Sampling || w.rng.Intn(2) == 0
	w.X = trace.VerifNewTable(filepath.Join(dir, "x"), group, baseTime, split, grace, time.Hour, pipeline)
	w.Y = trace.VerifNewTable(filepath.Join(dir, "y"), group, split, split.Add(time.Duration(int64(cfg.SegSplit)*unit)), grace, time.Hour, pipeline)
	return w, nil
}

func (w *world) wait() (event, bool) {
	select {
	case e := <-w.events:
		return e, true
	case <-time.After(stepTimeout):
		return event{}, false
	}
}

// next waits for the next seam the goroutine of s arrives at.
func (w *world) next(s *session) (event, bool) {
	select {
	case e := <-w.events:
		return e, true
	case <-s.vm.IntroC:
		in := s.vm.Intro()
		s.intro = &in
		return event{kind: "intro"}, true
	case err := <-s.vm.DoneC:
		s.done = true
		return event{kind: "done", err: err}, true
	case <-time.After(stepTimeout):
		return event{}, false
	}
}

func (w *world) close() {
	// drain every running merge losslessly so that the tables can be closed
	for _, s := range w.sessions {
		for _, c := range s.stale {
			c.reply <- map[string]string{}
		}
		if s.vm == nil || s.done {
			continue
		}
		for !s.done {
			switch {
			case s.sampler != nil:
				s.sampler.reply <- map[string]string{}
				s.sampler = nil
			case s.sidx != nil:
				close(s.sidx.release)
				s.sidx = nil
			case s.intro != nil:
				s.intro = nil
				s.vm.Forward()
			}
			e, ok := w.next(s)
			if !ok {
				w.res.Inconclusive = append(w.res.Inconclusive, fmt.Sprintf("behaviour %d: merge %s did not drain at cleanup", w.bid, s.name))
				return // leak the directory rather than block
			}
			switch e.kind {
			case "sampler":
				s.sampler = e.sampler
			case "sidx":
				s.sidx = e.sidx
			}
		}
	}
	func() {
		defer func() { _ = recover() }()
		_ = w.X.Close()
		_ = w.Y.Close()
	}()
	_ = os.RemoveAll(w.dir)
}

// ---- spec accessors ----------------------------------------------------------------------------------
type frag struct {
	t  string
	k  int
	ts int
}

func frags(l []any) []frag {
	out := make([]frag, 0, len(l))
	for _, v := range l {
		r := vlib.Rec(v)
		out = append(out, frag{t: vlib.Str(r, "t"), k: vlib.Int(r, "k"), ts: vlib.Int(r, "ts")})
	}
	sort.Slice(out, func(i, j int) bool {
		if out[i].t != out[j].t {
			return out[i].t < out[j].t
		}
		return out[i].k < out[j].k
	})
	return out
}

func (w *world) table(tbl string) *trace.VerifTable {
	if tbl == "Y" {
		return w.Y
	}
	return w.X
}

func specTraces(st vlib.State) []string {
	m := vlib.Map(st, "ms")
	for _, v := range m {
		d := vlib.Map(vlib.Rec(v), "dec")
		out := make([]string, 0, len(d))
		for t := range d {
			out = append(out, t)
		}
		sort.Strings(out)
		return out
	}
	return nil
}

// ---- observation ------------------------------------------------------------------------------------------
type obs struct {
	spans map[string][]string // spec trace -> sorted span ids
	index []string            // sorted "trace#k" of the index entries of both tables
	dupes []string
}

// sidxEntries collects the physical entries of the table's secondary index: file parts are read row by row
// (sidx.ScanRawParts), mem parts through ScanQuery (the query entry points return one row per distinct payload
// of a part; a mem part of this harness never holds two entries of one trace).  QuerySync - what the
// ordered trace query uses - must return exactly the traces that have an entry.
func (w *world) sidxEntries(vt *trace.VerifTable, o *obs) error {
	idx := vt.Sidx()
	if idx == nil {
		return nil
	}
	_, parts := vt.Parts()
	mem := map[uint64]bool{}
	var files []uint64
	for _, p := range parts {
		if p.Mem {
			mem[p.ID] = true
		} else if p.Count > 0 {
			files = append(files, p.ID)
		}
	}
	scan := map[string]int{}
	resp, err := idx.ScanQuery(context.Background(), sidx.ScanQueryRequest{})
	if err != nil {
		return fmt.Errorf("ScanQuery: %w", err)
	}
	inSnapshot := map[uint64]bool{}
	for _, r := range resp {
		if r.Error != nil {
			return fmt.Errorf("ScanQuery response: %w", r.Error)
		}
		for i := range r.Keys {
			inSnapshot[r.PartIDs[i]] = true
			if mem[r.PartIDs[i]] {
				scan[w.entryName(r.Data[i], r.Keys[i])]++
			}
		}
	}
	var present []uint64
	for _, id := range files {
		if _, err := os.Stat(vt.VerifSidxPartPath(id)); err == nil {
			present = append(present, id)
		}
	}
	err = sidx.ScanRawParts(context.Background(), fs.NewLocalFileSystem(), filepath.Join(vt.Root(), "sidx", trace.VerifSidxName), present, func(r sidx.RawRow) error {
		if !inSnapshot[r.PartID] {
			return fmt.Errorf("index part %d is on disk but not in the index snapshot", r.PartID)
		}
		scan[w.entryName(r.Data, r.Key)]++
		if os.Getenv("VERIF_C13_DEBUG") != "" {
			fmt.Fprintf(os.Stderr, "  step %d raw part=%d key=%d data=%q\n", w.step, r.PartID, r.Key, r.Data)
		}
		return nil
	})
	if err != nil {
		return fmt.Errorf("ScanRawParts: %w", err)
	}
	for id := range inSnapshot {
		if !mem[id] && !containsID(present, id) {
			return fmt.Errorf("index snapshot has part %d that is neither a mem part nor a file part of the core snapshot", id)
		}
	}
	ctx, cancel := context.WithTimeout(context.Background(), stepTimeout)
	defer cancel()
	qr, err := idx.QuerySync(ctx, sidx.QueryRequest{SeriesIDs: []common.SeriesID{1}})
	if err != nil {
		return fmt.Errorf("QuerySync: %w", err)
	}
	sync := map[string]int{}
	for _, r := range qr {
		if r.Error != nil {
			return fmt.Errorf("QuerySync response: %w", r.Error)
		}
		for i := range r.Keys {
			sync[traceOf(w.entryName(r.Data[i], r.Keys[i]))]++
		}
	}
	scanTraces := map[string]bool{}
	for e, n := range scan {
		o.index = append(o.index, e)
		if n > 1 {
			o.dupes = append(o.dupes, e)
		}
		scanTraces[traceOf(e)] = true
		if sync[traceOf(e)] == 0 {
			return fmt.Errorf("index entry %s is in the parts but QuerySync returns nothing for its trace", e)
		}
	}
	for t := range sync {
		if !scanTraces[t] {
			return fmt.Errorf("QuerySync returns trace %s that no index part holds", t)
		}
	}
	return nil
}

func containsID(l []uint64, x uint64) bool {
	for _, v := range l {
		if v == x {
			return true
		}
	}
	return false
}

func traceOf(entry string) string { return entry[:strings.LastIndex(entry, "#")] }

func (w *world) entryName(data []byte, key int64) string {
	id := "?" + string(data)
	if len(data) > 1 && data[0] == 1 {
		if t, ok := w.tspec[string(data[1:])]; ok {
			id = t
		}
	}
	return fmt.Sprintf("%s#%d", id, key)
}

func (w *world) observe(traces []string) (*obs, error) {
	o := &obs{spans: map[string][]string{}}
	for _, t := range traces {
		ids, err := trace.VerifQueryTrace([]*trace.VerifTable{w.X, w.Y}, w.tname[t])
		if err != nil {
			return nil, fmt.Errorf("query %s: %w", t, err)
		}
		o.spans[t] = ids
	}
	for _, vt := range []*trace.VerifTable{w.X, w.Y} {
		if err := w.sidxEntries(vt, o); err != nil {
			return nil, err
		}
	}
	sort.Strings(o.index)
	return o, nil
}

func contains(l []string, x string) bool {
	for _, v := range l {
		if v == x {
			return true
		}
	}
	return false
}

func subset(a, b []string) bool {
	for _, x := range a {
		if !contains(b, x) {
			return false
		}
	}
	return true
}

// ---- replay -----------------------------------------------------------------------------------------------
func replay(b vlib.Behaviour, cfg config, res *vlib.Result) {
	for salt := int64(0); salt < 6; salt++ {
		if !replayOnce(b, cfg, res, salt) {
			return
		}
		res.Inc("bloom_false_positive_reruns")
	}
	res.Inconclusive = append(res.Inconclusive, fmt.Sprintf("behaviour %d: bloom false positives with 6 different namings", b.ID))
}

// replayOnce returns true when the behaviour has to be re-run with other trace names.
func replayOnce(b vlib.Behaviour, cfg config, res *vlib.Result, salt int64) bool {
	traces := specTraces(b.States[0])
	w, err := newWorld(res, cfg, b.ID, salt, traces)
	if err != nil {
		res.Inconclusive = append(res.Inconclusive, err.Error())
		return false
	}
	defer w.close()
	defer func() {
		if w.fp {
			return
		}
		if w.vsig != "" {
			res.Violate(w.bid, w.vstep, w.vsig, "%s", w.vmsg)
		} else if w.dsig != "" {
			res.Violate(w.bid, w.dstep, w.dsig, "%s", w.dmsg)
		}
	}()
	if cfg.Sampling {
		defer w.X.RegisterSampler("verif-stub", &stubSampler{w: w})()
	}
	before, err := w.observe(traces)
	if err != nil {
		res.Inconclusive = append(res.Inconclusive, "initial observation: "+err.Error())
		return false
	}
	for i := 1; i < len(b.States); i++ {
		w.step = i
		w.prevObs = before
		prev, st := b.States[i-1], b.States[i]
		ev := vlib.Map(st, "last")
		op := vlib.Str(ev, "op")
		if cfg.Mutate > 0 && i == min(cfg.Mutate, len(b.States)-1) {
			st = mutate(st)
		}
		res.Steps++
		res.Inc("op_" + op)
		if !w.apply(prev, st, ev, traces) {
			if w.fp {
				return true
			}
			return false
		}
		after, err := w.observe(traces)
		if err != nil {
			w.violate("observation-failed-after-"+op, "%v (after %s)", err, vlib.Canon(ev))
			return false
		}
		w.property(prev, st, ev, before, after, traces)
		w.compare(st, ev, after, traces)
		if w.fp {
			return true
		}
		if w.failed {
			return false
		}
		before = after
	}
	return false
}

// mutate corrupts the expectation (binding self-test): one visible fragment disappears from the spec state.
func mutate(st vlib.State) vlib.State {
	out := vlib.State{}
	for k, v := range st {
		out[k] = v
	}
	var parts []any
	done := false
	for _, pv := range vlib.List(st, "parts") {
		p := vlib.Rec(pv)
		fl := vlib.List(p, "frags")
		if !done && len(fl) > 0 {
			q := map[string]any{}
			for k, v := range p {
				q[k] = v
			}
			q["frags"], q["idx"] = fl[1:], fl[1:]
			parts = append(parts, q)
			done = true
			continue
		}
		parts = append(parts, pv)
	}
	out["parts"] = parts
	return out
}

func (w *world) sess(ev map[string]any) *session {
	m := vlib.Str(ev, "m")
	s := w.sessions[m]
	if s == nil {
		s = &session{name: m, inputs: map[uint64]bool{}}
		w.sessions[m] = s
	}
	return s
}

func (w *world) expect(s *session, want string, op string) bool {
	e, ok := w.next(s)
	if !ok {
		w.res.Inconclusive = append(w.res.Inconclusive, fmt.Sprintf("behaviour %d step %d: merge %s reached no seam within %s after %s", w.bid, w.step, s.name, stepTimeout, op))
		w.failed = true
		return false
	}
	switch e.kind {
	case "sampler":
		s.sampler = e.sampler
	case "sidx":
		s.sidx = e.sidx
	case "done":
		if e.err != nil {
			w.violate("merge-failed-after-"+op, "merge %s returned %v", s.name, e.err)
			return false
		}
	}
	if e.kind != want {
		w.violate("merge-pipeline-diverged-at-"+op, "merge %s: the specification expects the real merge to stop at seam %q after %s, it stopped at %q%s",
			s.name, want, op, e.kind, w.describe(s))
		return false
	}
	return true
}

func (w *world) describe(s *session) string {
	if s.intro != nil {
		return fmt.Sprintf(" (introduction of part %d with %d spans, guarded=%v)", s.intro.PartID, s.intro.Count, s.intro.Guarded)
	}
	return ""
}

func (w *world) apply(prev, st vlib.State, ev map[string]any, traces []string) (ok bool) {
	defer func() {
		if r := recover(); r != nil {
			w.violate("panic-in-"+vlib.Str(ev, "op"), "panic: %v", r)
			ok = false
		}
	}()
	op := vlib.Str(ev, "op")
	switch op {
	case "write":
		vt := w.table(vlib.Str(ev, "tbl"))
		var spans []trace.VerifSpan
		for _, f := range frags(vlib.List(ev, "frags")) {
			payload := make([]byte, 1+w.rng.Intn(200))
			w.rng.Read(payload)
			spans = append(spans, trace.VerifSpan{TraceID: w.tname[f.t], SpanID: spanID(f.t, f.k), Payload: payload, TS: w.ts(f.ts), SidxKey: int64(f.k)})
		}
		w.rng.Shuffle(len(spans), func(i, j int) { spans[i], spans[j] = spans[j], spans[i] })
		if err := vt.Write(spans); err != nil {
			w.violate("write-failed", "%v", err)
			return false
		}
		if vt == w.X && !w.wrapped {
			w.wrapped = w.X.WrapSidx(func(in sidx.SIDX) sidx.SIDX { return &gatedSidx{SIDX: in, w: w} })
		}
	case "flush":
		w.X.Flush()
	case "start":
		s := w.sess(ev)
		kind := vlib.Str(ev, "kind")
		fr := vlib.Int(ev, "frontier")
		w.X.SetMergeNow(time.Unix(0, w.ts(fr)+w.X.GraceNs()))
		if vlib.Bool(ev, "timeout") {
			w.X.SetDecideTimeout(40 * time.Millisecond)
		} else {
			w.X.SetDecideTimeout(time.Hour)
		}
		var ids []uint64
		for _, id := range vlib.Ints(vlib.List(ev, "inputs")) {
			rid := w.realID[fmt.Sprintf("X/%d", id)]
			ids = append(ids, rid)
			s.inputs[rid] = true
		}
		switch kind {
		case "hot":
			lane := "fast"
			if s.name != "m1" {
				lane = "slow"
			}
			vm, err := w.X.StartHotMerge(ids, lane)
			if err != nil {
				w.violate("merge-start-failed", "%v", err)
				return false
			}
			s.vm = vm
		case "finalize":
			s.vm = w.X.StartFinalize(0)
		case "mem":
			s.vm = w.X.StartMemMerge()
		}
		switch {
		case vlib.Bool(ev, "decides"):
			if !w.expect(s, "sampler", op) {
				return false
			}
		case vlib.Bool(ev, "timeout"):
			if !w.expect(s, "sampler", op) {
				return false
			}
			stale := s.sampler
			s.stale, s.sampler = append(s.stale, stale), nil
			if !w.expect(s, "sidx", op) {
				return false
			}
			// the chain has abandoned the call: let it return (it holds one of the global execution slots)
			s.stale = s.stale[:len(s.stale)-1]
			stale.reply <- map[string]string{}
		default:
			if !w.expect(s, "sidx", op) {
				return false
			}
		}
	case "decide":
		s := w.sess(ev)
		dec := map[string]string{}
		var elig []string
		for t, d := range vlib.Map(ev, "dec") {
			dec[w.tname[t]], _ = d.(string)
		}
		// the batch offered to the sampler must be exactly the eligible trace groups of the specification
		pm := vlib.Rec(vlib.Map(prev, "ms")[s.name])
		elig = w.eligible(prev, pm)
		var got []string
		for _, id := range s.sampler.ids {
			got = append(got, w.tspec[id])
		}
		sort.Strings(got)
		if strings.Join(got, ",") != strings.Join(elig, ",") {
			w.violate("sampler-batch-differs", "the sampler was offered traces %v, the specification offers %v (merge %s)", got, elig, s.name)
			return false
		}
		s.sampler.reply <- dec
		s.sampler = nil
		if !w.expect(s, "sidx", op) {
			return false
		}
		if want := len(vlib.List(ev, "dropped")) > 0; s.sidx.keep != want && w.dsig == "" {
			// the only thing visible here is whether the core merge hands a drop predicate to the index merge;
			// the behaviour goes on so that the consequence (partial trace, orphaned entries, ...) names the report
			w.dsig = "sampler-drop-not-applied"
			if vlib.Bool(ev, "failed") {
				w.dsig = "sampler-error-not-fail-open"
			} else if s.sidx.keep {
				w.dsig = "dropped-although-fragment-outside"
			}
			w.dmsg = fmt.Sprintf("merge %s after decisions %s: the real merge passes a drop predicate to the index merge = %v, the specification drops %v",
				s.name, vlib.Canon(ev["dec"]), s.sidx.keep, vlib.List(ev, "dropped"))
			w.dstep = w.step
		}
	case "revalidate":
		s := w.sess(ev)
		attempt := s.sidx.newID
		close(s.sidx.release)
		s.sidx = nil
		if vlib.Bool(ev, "ok") {
			if !w.expect(s, "intro", op) {
				return false
			}
		} else {
			if !w.expect(s, "sidx", op) {
				w.published(s, prev, ev, traces)
				return false
			}
			s.rejected = append(s.rejected, trace.VerifIntro{PartID: attempt, Path: filepath.Join(w.X.Root(), fmt.Sprintf("%016x", attempt)), SidxPath: w.X.VerifSidxPartPath(attempt)})
		}
	case "introduce":
		s := w.sess(ev)
		in := *s.intro
		s.intro = nil
		s.vm.Forward()
		if vlib.Bool(ev, "published") {
			if !w.expect(s, "done", op) {
				return false
			}
			w.realID[fmt.Sprintf("X/%d", vlib.Int(ev, "part"))] = in.PartID
		} else {
			if !w.expect(s, "sidx", op) {
				w.published(s, prev, ev, traces)
				return false
			}
			s.rejected = append(s.rejected, in)
		}
	case "retrysidx":
		s := w.sess(ev)
		close(s.sidx.release)
		s.sidx = nil
		if !w.expect(s, "intro", op) {
			return false
		}
	case "retryintroduce":
		s := w.sess(ev)
		in := *s.intro
		s.intro = nil
		s.vm.Forward()
		if !w.expect(s, "done", op) {
			return false
		}
		w.realID[fmt.Sprintf("X/%d", vlib.Int(ev, "part"))] = in.PartID
	default:
		w.res.Inconclusive = append(w.res.Inconclusive, "unknown op "+op)
		w.failed = true
		return false
	}
	return true
}

// published: the real merge went on to publish where the specification rejects the attempt.  Let it publish and
// evaluate the property on the real observations, so that the report names the consequence (if there is one)
// instead of the divergence.
func (w *world) published(s *session, prev vlib.State, ev map[string]any, traces []string) {
	if w.vsig == "" || !strings.HasPrefix(w.vsig, "merge-pipeline-diverged") {
		return
	}
	before := w.prevObs
	if s.intro != nil {
		var err error
		if before, err = w.observe(traces); err != nil {
			return
		}
		s.intro = nil
		s.vm.Forward()
		if e, ok := w.next(s); !ok || e.kind != "done" {
			return
		}
	} else if !s.done || before == nil {
		return
	}
	after, err := w.observe(traces)
	if err != nil {
		return
	}
	div, dmsg, dstep := w.vsig, w.vmsg, w.vstep
	w.failed, w.vsig = false, ""
	w.property(prev, prev, map[string]any{"op": "introduce", "m": s.name, "published": true}, before, after, traces)
	if w.vsig == "" {
		w.vsig, w.vmsg, w.vstep = div, dmsg, dstep
	} else {
		w.vmsg += " [the specification rejects this attempt: " + dmsg + "]"
	}
	w.failed = true
}

// eligible recomputes the spec's Eligible set of a session in state `prev` (pc = "decide").
func (w *world) eligible(prev vlib.State, pm map[string]any) []string {
	in := map[int]bool{}
	for _, id := range vlib.Ints(vlib.List(pm, "inputs")) {
		in[id] = true
	}
	maxTS := map[string]int{}
	for _, pv := range vlib.List(prev, "parts") {
		p := vlib.Rec(pv)
		if vlib.Str(p, "tbl") != "X" || !in[vlib.Int(p, "id")] {
			continue
		}
		for _, f := range frags(vlib.List(p, "frags")) {
			if v, ok := maxTS[f.t]; !ok || f.ts > v {
				maxTS[f.t] = f.ts
			}
		}
	}
	var out []string
	for t, m := range maxTS {
		if vlib.Str(pm, "kind") == "finalize" || m <= vlib.Int(pm, "frontier") {
			out = append(out, t)
		}
	}
	sort.Strings(out)
	return out
}

// property evaluates C13 directly on the real observations before and after the step.
func (w *world) property(prev, st vlib.State, ev map[string]any, before, after *obs, traces []string) {
	op := vlib.Str(ev, "op")
	publishing := (op == "introduce" && vlib.Bool(ev, "published")) || op == "retryintroduce"
	var pm map[string]any
	if m := vlib.Str(ev, "m"); m != "" {
		pm = vlib.Rec(vlib.Map(prev, "ms")[m])
	}
	for _, t := range traces {
		b, a := before.spans[t], after.spans[t]
		if subset(b, a) {
			continue
		}
		// something of t that was returned before the step is not returned after it
		switch {
		case !publishing:
			w.violate("span-lost-outside-publication", "trace %s: %v before %s, %v after it", t, b, op, a)
		case !vlib.Bool(pm, "active"):
			w.violate("span-lost-without-sampler", "trace %s: %v before the publication of a merge without active sampler, %v after it (%s)", t, b, a, vlib.Canon(ev))
		case len(a) > 0:
			w.violate("partial-trace-after-merge", "trace %s: spans %v before the publication of merge %s, spans %v after it: neither kept entirely nor removed entirely", t, b, vlib.Str(ev, "m"), a)
		case vlib.Bool(pm, "tmo") || w.decFailed(pm):
			w.violate("sampler-error-not-fail-open", "trace %s was dropped although the sampler call failed (decisions %s, timeout=%v)", t, vlib.Canon(pm["dec"]), vlib.Bool(pm, "tmo"))
		case w.outside(prev, pm, t):
			w.violate("dropped-although-fragment-outside", "trace %s was removed by merge %s although a part outside the merged ones holds a fragment of it", t, vlib.Str(ev, "m"))
		}
	}
	// index entries and surviving spans must be the same set
	vis := map[string]bool{}
	for _, t := range traces {
		for _, id := range after.spans[t] {
			vis[id] = true
		}
	}
	for _, e := range after.index {
		if !vis[e] {
			w.violate("sidx-entry-orphaned", "after %s the secondary index still has entry %s but no such span is returned (%s)", op, e, vlib.Canon(ev))
		}
		delete(vis, e)
	}
	for id := range vis {
		sig := "sidx-entry-lost"
		if publishing && pm != nil && !vlib.Bool(pm, "active") {
			sig = "sidx-entry-lost-without-sampler"
		}
		w.violate(sig, "after %s span %s is returned by the query but the secondary index has no entry for it", op, id)
	}
	if len(after.dupes) > 0 {
		w.violate("sidx-entry-duplicated", "after %s the index holds entries more than once: %v", op, after.dupes)
	}
	// rejected attempts leave nothing behind
	for _, s := range w.sessions {
		for _, r := range s.rejected {
			for _, p := range []string{r.Path, r.SidxPath} {
				if _, err := os.Stat(p); err == nil {
					w.violate("rejected-merge-left-output", "merge %s: the output of the rejected attempt (part %d) still exists: %s", s.name, r.PartID, p)
				}
			}
		}
	}
}

func (w *world) decFailed(pm map[string]any) bool {
	for _, d := range vlib.Map(pm, "dec") {
		if d == "Error" || d == "Panic" {
			return true
		}
	}
	return false
}

func (w *world) outside(prev vlib.State, pm map[string]any, t string) bool {
	in := map[int]bool{}
	for _, id := range vlib.Ints(vlib.List(pm, "inputs")) {
		in[id] = true
	}
	for _, pv := range vlib.List(prev, "parts") {
		p := vlib.Rec(pv)
		if vlib.Str(p, "tbl") == "X" && in[vlib.Int(p, "id")] {
			continue
		}
		for _, f := range frags(vlib.List(p, "frags")) {
			if f.t == t {
				return true
			}
		}
	}
	return false
}

// compare: the projection of the real state must equal the spec state.
func (w *world) compare(st vlib.State, ev map[string]any, o *obs, traces []string) {
	op := vlib.Str(ev, "op")
	// parts
	type pinfo struct {
		frags  []frag
		mem    bool
		lo, hi int
	}
	spec := map[string]pinfo{}
	wantSpans := map[string][]string{}
	var wantIdx []string
	for _, pv := range vlib.List(st, "parts") {
		p := vlib.Rec(pv)
		fl := frags(vlib.List(p, "frags"))
		spec[fmt.Sprintf("%s/%d", vlib.Str(p, "tbl"), vlib.Int(p, "id"))] = pinfo{frags: fl, mem: vlib.Bool(p, "mem"), lo: vlib.Int(p, "lo"), hi: vlib.Int(p, "hi")}
		for _, f := range fl {
			wantSpans[f.t] = append(wantSpans[f.t], spanID(f.t, f.k))
		}
		for _, f := range frags(vlib.List(p, "idx")) {
			wantIdx = append(wantIdx, spanID(f.t, f.k))
		}
	}
	sort.Strings(wantIdx)
	for _, t := range traces {
		sort.Strings(wantSpans[t])
		if strings.Join(wantSpans[t], ",") != strings.Join(o.spans[t], ",") {
			w.violate("spans-differ-after-"+op, "trace %s: the query returns %v, the specification %v (after %s)", t, o.spans[t], wantSpans[t], vlib.Canon(ev))
		}
	}
	if strings.Join(wantIdx, ",") != strings.Join(o.index, ",") {
		w.violate("sidx-differs-after-"+op, "secondary index entries %v, the specification %v (after %s)", o.index, wantIdx, vlib.Canon(ev))
	}
	for _, tbl := range []string{"X", "Y"} {
		vt := w.table(tbl)
		epoch, real := vt.Parts()
		byID := map[uint64]trace.VerifPart{}
		for _, p := range real {
			byID[p.ID] = p
		}
		mapped := map[uint64]bool{}
		var unmapped []string
		for key, sp := range spec {
			if !strings.HasPrefix(key, tbl+"/") {
				continue
			}
			rid, ok := w.realID[key]
			if !ok {
				unmapped = append(unmapped, key)
				continue
			}
			mapped[rid] = true
			w.checkPart(vt, key, sp.frags, sp.mem, sp.lo, sp.hi, byID, rid, op, traces)
		}
		var fresh []uint64
		for _, p := range real {
			if !mapped[p.ID] {
				fresh = append(fresh, p.ID)
			}
		}
		if len(unmapped) == 1 && len(fresh) == 1 && op == "write" {
			w.realID[unmapped[0]] = fresh[0]
			sp := spec[unmapped[0]]
			w.checkPart(vt, unmapped[0], sp.frags, sp.mem, sp.lo, sp.hi, byID, fresh[0], op, traces)
		} else if len(unmapped) > 0 || len(fresh) > 0 {
			w.violate("parts-differ-after-"+op, "table %s: spec parts without real counterpart %v, real parts without spec counterpart %v (after %s)", tbl, unmapped, fresh, vlib.Canon(ev))
		}
		if tbl == "X" {
			specChanged := op == "flush" || op == "retryintroduce" || (op == "write" && vlib.Str(ev, "tbl") == "X") || (op == "introduce" && vlib.Bool(ev, "published"))
			if (epoch != w.lastEp) != specChanged {
				w.violate("epoch-differs-after-"+op, "snapshot of X changed=%v, the specification says %v", epoch != w.lastEp, specChanged)
			}
			w.lastEp = epoch
		}
	}
}

func (w *world) checkPart(vt *trace.VerifTable, key string, fl []frag, mem bool, slo, shi int, byID map[uint64]trace.VerifPart, rid uint64, op string, traces []string) {
	p, ok := byID[rid]
	if !ok {
		w.violate("parts-differ-after-"+op, "part %s (real %d) is not in the snapshot", key, rid)
		return
	}
	if p.Mem != mem || int(p.Count) != len(fl) {
		w.violate("parts-differ-after-"+op, "part %s (real %d): mem=%v count=%d, the specification mem=%v count=%d", key, rid, p.Mem, p.Count, mem, len(fl))
		return
	}
	// the bounds of the part metadata (a merged part inherits them from its inputs)
	if p.MinTS != w.ts(slo) || p.MaxTS != w.ts(shi) {
		w.violate("parts-differ-after-"+op, "part %s (real %d): bounds [%d,%d], the specification [%d,%d]", key, rid, p.MinTS, p.MaxTS, w.ts(slo), w.ts(shi))
	}
	has := map[string]bool{}
	for _, f := range fl {
		has[f.t] = true
	}
	for _, t := range traces {
		may, found := vt.PartMightContain(rid, w.tname[t])
		if !found {
			continue
		}
		if has[t] && !may {
			w.violate("trace-id-filter-misses-trace", "part %s (real %d) holds trace %s but its trace-id filter says absent", key, rid, t)
		}
		if !has[t] && may {
			w.fp = true // bloom false positive: the model assumes an exact filter; re-run with other names
		}
	}
}

func main() {
	in := flag.String("in", "", "behaviour file")
	out := flag.String("out", "", "result file")
	cfgs := flag.String("cfg", "{}", "json config")
	flag.Parse()
	_ = logger.Init(logger.Logging{Env: "prod", Level: "fatal"})
	res := vlib.NewResult()
	var cfg config
	if err := json.Unmarshal([]byte(*cfgs), &cfg); err != nil {
		res.Inconclusive = append(res.Inconclusive, "cfg: "+err.Error())
		res.Write(*out)
		return
	}
	bs, err := vlib.ReadBehaviours(*in)
	if err != nil {
		res.Inconclusive = append(res.Inconclusive, err.Error())
		res.Write(*out)
		return
	}
	for _, b := range bs {
		vlib.Progress(b.ID)
		res.Behaviours++
		replay(b, cfg, res)
	}
	res.Write(*out)
}
