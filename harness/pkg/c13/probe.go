package main

import (
	"context"
	"fmt"
	"os"
	"path/filepath"

	"github.com/apache/skywalking-banyandb/api/common"
	"github.com/apache/skywalking-banyandb/banyand/internal/sidx"
	"github.com/apache/skywalking-banyandb/banyand/protector"
	"github.com/apache/skywalking-banyandb/pkg/fs"
)

// sidxProbe: development aid (VERIF_C13_PROBE=1): three parts {1,1},{2},{2} of one series merged without predicate.
func sidxProbe() {
	dir, _ := os.MkdirTemp("", "verif-c13-probe")
	defer os.RemoveAll(dir)
	opts, _ := sidx.NewOptions(filepath.Join(dir, "sidx"), protector.Nop{})
	idx, err := sidx.NewSIDX(fs.NewLocalFileSystem(), opts)
	if err != nil {
		fmt.Println(err)
		return
	}
	defer idx.Close()
	add := func(id uint64, rows ...[2]string) {
		var reqs []sidx.WriteRequest
		for _, r := range rows {
			var k int64
			fmt.Sscan(r[0], &k)
			reqs = append(reqs, sidx.WriteRequest{SeriesID: 1, Key: k, Data: []byte(r[1])})
		}
		mp, err := idx.ConvertToMemPart(reqs, 1, nil, nil)
		if err != nil {
			fmt.Println(err)
		}
		idx.IntroduceMemPart(id, mp)
	}
	scan := func(tag string) {
		resp, err := idx.ScanQuery(context.Background(), sidx.ScanQueryRequest{})
		fmt.Println(tag, err)
		for _, r := range resp {
			for i := range r.Keys {
				fmt.Printf("   part=%d key=%d data=%s\n", r.PartIDs[i], r.Keys[i], r.Data[i])
			}
		}
	}
	add(1, [2]string{"1", "a"}, [2]string{"1", "b"})
	add(2, [2]string{"2", "b"})
	add(3, [2]string{"2", "a"})
	scan("mem")
	ids := map[uint64]struct{}{1: {}, 2: {}, 3: {}}
	fi, err := idx.Flush(ids)
	if err != nil {
		fmt.Println(err)
	}
	idx.IntroduceFlushed(fi)
	scan("flushed")
	mi, err := idx.Merge(make(chan struct{}), ids, 4, nil)
	if err != nil {
		fmt.Println(err)
	}
	if done := idx.IntroduceMerged(mi); done != nil {
		done()
	}
	scan("merged")
	_ = sidx.ScanRaw(context.Background(), idx, func(r sidx.RawRow) error {
		fmt.Printf("   raw part=%d block=%d key=%d data=%s\n", r.PartID, r.BlockID, r.Key, r.Data)
		return nil
	})
	qr, err := idx.QuerySync(context.Background(), sidx.QueryRequest{SeriesIDs: []common.SeriesID{1}})
	fmt.Println("querysync", err)
	for _, r := range qr {
		for i := range r.Keys {
			fmt.Printf("   q part=%d key=%d data=%s\n", r.PartIDs[i], r.Keys[i], r.Data[i])
		}
	}
}
