// Command sidx binds spec/Sidx.tla (C09 and C03, sidx clauses) to the real ordered secondary index
// banyand/internal/sidx through its exported interface only:
//
//	Write  -> ConvertToMemPart + IntroduceMemPart        (or PrepareMemPart  in a snapshot.Transition)
//	Flush  -> Flush + IntroduceFlushed                   (or PrepareFlushed  in a snapshot.Transition)
//	Merge  -> Merge(keep) + IntroduceMerged              (or PrepareMerged   in a snapshot.Transition)
//	Query  -> StreamingQuery and QuerySync
//
// Every behaviour of the specification is replayed on a fresh index on a temp directory from one
// goroutine (no background loops).  After EVERY step
//   - the real parts are projected with ScanQuery/PartPaths/Stats onto the spec's `parts` (ids, mem/file,
//     entries per part) and compared, and
//   - a matrix of queries (series subsets x key ranges x ASC/DESC x MaxBatchSize) is executed through BOTH
//     query entry points and compared with the result the specification defines for the state.
//
// Spec keys, series and payload tokens are concretised per behaviour (seed, variant): strictly monotone key
// maps incl. negative and extreme int64, spec entries multiplied into several real entries whose keys are
// spread inside the spec key's interval, payloads from 1 byte to many kilobytes.
package main

import (
	"context"
	"encoding/binary"
	"encoding/json"
	"flag"
	"fmt"
	"math"
	"math/rand"
	"os"
	"path/filepath"
	"sort"
	"strings"
	"time"

	"github.com/apache/skywalking-banyandb/api/common"
	modelv1 "github.com/apache/skywalking-banyandb/api/proto/banyandb/model/v1"
	"github.com/apache/skywalking-banyandb/banyand/internal/sidx"
	"github.com/apache/skywalking-banyandb/banyand/internal/snapshot"
	"github.com/apache/skywalking-banyandb/banyand/observability"
	"github.com/apache/skywalking-banyandb/banyand/protector"
	"github.com/apache/skywalking-banyandb/banyand/verifharness/vlib"
	"github.com/apache/skywalking-banyandb/pkg/fs"
	"github.com/apache/skywalking-banyandb/pkg/index"
	"github.com/apache/skywalking-banyandb/pkg/logger"
	pbv1 "github.com/apache/skywalking-banyandb/pkg/pb/v1"
)

type config struct {
	Keys   int    `json:"keys"`   // spec keys are 1..Keys
	Fat    int    `json:"fat"`    // >0: multiply every spec entry by about this many real entries (block limits)
	Matrix string `json:"matrix"` // "full": whole query matrix after every step; "marked": after the states the check marked _full; "last": after the last step; a seeded sample elsewhere
	Seed   int64  `json:"seed"`   // overrides VERIF_SEED (replay files)
}

type realEntry struct {
	data string
	key  int64
	sid  common.SeriesID
	tok  int
	part int // spec part id currently holding it
}

type world struct {
	idx     sidx.SIDX
	res     *vlib.Result
	rng     *rand.Rand
	byData  map[string]*realEntry
	byTok   map[int][]*realEntry
	realID  map[int]uint64
	specID  map[uint64]int
	sigSeen map[string]bool
	dir     string
	keyBase []int64 // 1-based
	series  []common.SeriesID
	absent  common.SeriesID
	cfg     config
	width   int64
	mult    int
	payload int
	bid     int
	step    int
	txn     bool
	withTag bool
}

var sigCount = map[string]int{}

func main() {
	in := flag.String("in", "", "behaviour file")
	out := flag.String("out", "", "result file")
	cfgs := flag.String("cfg", "{}", "json config")
	flag.Parse()
	_ = logger.Init(logger.Logging{Env: "prod", Level: "fatal"})
	res := vlib.NewResult()
	var cfg config
	if err := json.Unmarshal([]byte(*cfgs), &cfg); err != nil {
		res.Inconclusive = append(res.Inconclusive, "bad -cfg: "+err.Error())
		res.Write(*out)
		return
	}
	if cfg.Keys <= 0 {
		cfg.Keys = 3
	}
	if cfg.Seed == 0 {
		cfg.Seed = vlib.Seed()
	}
	bs, err := vlib.ReadBehaviours(*in)
	if err != nil {
		res.Inconclusive = append(res.Inconclusive, err.Error())
		res.Write(*out)
		return
	}
	for _, b := range bs {
		vlib.Progress(b.ID)
		res.Behaviours++
		replay(b, cfg, res)
	}
	res.Write(*out)
}

// violate records at most 4 violations per signature and process (the counters see all of them).
func (w *world) violate(sig, format string, a ...any) {
	w.res.Inc("sig_" + sig)
	if w.sigSeen[sig] {
		return // one per signature and behaviour
	}
	w.sigSeen[sig] = true
	sigCount[sig]++
	if sigCount[sig] > 4 {
		return
	}
	w.res.Violate(w.bid, w.step, sig, format, a...)
}

func variantOf(b vlib.Behaviour) int {
	if len(b.States) > 0 {
		if v, ok := b.States[0]["_variant"]; ok {
			return vlib.AsInt(v)
		}
	}
	return b.ID
}

func replay(b vlib.Behaviour, cfg config, res *vlib.Result) {
	variant := variantOf(b)
	w := &world{
		res: res, cfg: cfg, bid: b.ID, rng: rand.New(rand.NewSource(cfg.Seed*1000003 + int64(variant)*7919 + 17)),
		byData: map[string]*realEntry{}, byTok: map[int][]*realEntry{}, realID: map[int]uint64{}, specID: map[uint64]int{},
		sigSeen: map[string]bool{},
	}
	w.concretise(variant)
	dir, err := os.MkdirTemp("", "verif-sidx")
	if err != nil {
		res.Inconclusive = append(res.Inconclusive, err.Error())
		return
	}
	defer os.RemoveAll(dir)
	w.dir = filepath.Join(dir, "sidx")
	opts, err := sidx.NewOptions(w.dir, protector.NewMemory(observability.NewBypassRegistry()))
	if err != nil {
		res.Inconclusive = append(res.Inconclusive, "NewOptions: "+err.Error())
		return
	}
	idx, err := sidx.NewSIDX(fs.NewLocalFileSystem(), opts)
	if err != nil {
		res.Inconclusive = append(res.Inconclusive, "NewSIDX: "+err.Error())
		return
	}
	w.idx = idx
	defer func() {
		defer func() { _ = recover() }()
		_ = idx.Close()
	}()
	for i, st := range b.States {
		if i == 0 {
			continue
		}
		w.step = i
		ev := vlib.Map(st, "last")
		op := vlib.Str(ev, "op")
		res.Steps++
		res.Inc("op_" + op)
		if msg := w.apply(op, ev); msg != "" {
			if strings.HasPrefix(msg, "harness:") {
				res.Inconclusive = append(res.Inconclusive, fmt.Sprintf("behaviour %d step %d: %s", b.ID, i, msg))
			} else {
				w.violate("sidx-"+op+"-failed", "%s at %s [%s]", msg, vlib.Canon(ev), w.describe())
			}
			return
		}
		if !w.compareState(st, op, ev) {
			return // the real state left the specification: later steps mean nothing
		}
		// the whole matrix where the check asks for it ("marked": the first occurrence of every spec state over all
		// behaviours; "last": the last step; "full": everywhere), a seeded sample otherwise
		full := cfg.Matrix == "full" || (cfg.Matrix == "marked" && vlib.Bool(st, "_full")) || (cfg.Matrix == "last" && i == len(b.States)-1)
		if op == "query" {
			w.specQuery(ev)
			continue // the state is the one of the previous step
		}
		if full {
			res.Inc("full_matrices")
		}
		w.queryMatrix(full, op)
	}
}

func (w *world) describe() string {
	return fmt.Sprintf("concretisation: keys=%v width=%d series=%v mult=%d payload=%d txn=%v tag=%v", w.keyBase[1:w.cfg.Keys+1], w.width, w.series[1:], w.mult, w.payload, w.txn, w.withTag)
}

// ---------------------------------------------------------------- concretisation

func (w *world) concretise(variant int) {
	k := w.cfg.Keys
	w.keyBase = make([]int64, k+2)
	w.txn = variant%2 == 1
	w.withTag = variant%3 == 0
	mults := []int{1, 1, 2, 1, 3, 1, 2, 5}
	w.mult = mults[(variant/2)%len(mults)]
	if w.cfg.Fat > 0 {
		w.mult = w.cfg.Fat + w.rng.Intn(w.cfg.Fat/8+1)
	}
	switch (variant / 3) % 6 {
	case 0: // small positive, wide intervals
		w.width = 10
		for i := 1; i <= k; i++ {
			w.keyBase[i] = int64(i) * 10
		}
	case 1: // around zero
		w.width = 1000
		for i := 1; i <= k; i++ {
			w.keyBase[i] = int64(i-(k+1)/2)*1000 - 500
		}
	case 2: // the whole int64 range: first interval starts at MinInt64, last ends at MaxInt64
		w.width = 4
		step := uint64(math.MaxUint64) / uint64(k)
		for i := 1; i <= k; i++ {
			w.keyBase[i] = int64(uint64(i-1)*step) + math.MinInt64
		}
		w.keyBase[1] = math.MinInt64
		w.keyBase[k] = math.MaxInt64 - w.width + 1
	case 3: // adjacent single keys: every copy of a spec key shares one real key (maximal ties)
		w.width = 1
		for i := 1; i <= k; i++ {
			w.keyBase[i] = int64(i) - 2
		}
	case 4: // random increasing
		w.width = 1 << 20
		cur := int64(math.MinInt64/2) + w.rng.Int63n(1<<40)
		for i := 1; i <= k; i++ {
			w.keyBase[i] = cur
			cur += w.width + w.rng.Int63n(math.MaxInt64/int64(k+1))
		}
	default: // touching intervals, negative
		w.width = 3
		for i := 1; i <= k; i++ {
			w.keyBase[i] = int64(i-k-1) * 3
		}
	}
	if w.cfg.Fat > 0 && w.width > 1 && w.width < int64(w.mult)*4 && (variant/3)%6 != 2 && (variant/3)%6 != 5 {
		// give the copies room: many distinct keys inside a block
		for i := 1; i <= k; i++ {
			w.keyBase[i] *= int64(w.mult)
		}
		w.width *= int64(w.mult)
	}
	seriesTables := [][]common.SeriesID{{0, 1, 2}, {0, 7, 1 << 40}, {0, math.MaxUint64 - 1, math.MaxUint64}, {0, 3, 4}}
	w.series = seriesTables[(variant/5)%len(seriesTables)]
	w.absent = 5
	// payload size class
	sizes := []int{0, 0, 1, 0, 300, 0, 5000, 70000}
	w.payload = sizes[(variant/7)%len(sizes)]
	if w.cfg.Fat > 0 {
		fatSizes := []int{0, 40, 300, 0, 1200}
		w.payload = fatSizes[(variant/7)%len(fatSizes)]
	}
}

// payloadOf builds a distinct byte string for (token, copy).
func (w *world) payloadOf(tok, copyNo int) []byte {
	switch {
	case w.payload == 1 && w.mult == 1 && tok < 250:
		return []byte{byte(tok)} // one byte, incl. 0x01.. (the API rejects empty payloads)
	case w.payload > 1:
		buf := make([]byte, w.payload+w.rng.Intn(w.payload/4+1))
		for i := range buf {
			buf[i] = byte(w.rng.Intn(256))
		}
		binary.BigEndian.PutUint32(buf[0:], uint32(tok))
		binary.BigEndian.PutUint32(buf[4:], uint32(copyNo))
		return buf
	}
	// short; binary with NUL and 0xff bytes on even tokens
	if tok%2 == 0 {
		b := []byte{0, 0xff, 0, 0, 0, 0, 0, 0, 0, 0}
		binary.BigEndian.PutUint32(b[2:], uint32(tok))
		binary.BigEndian.PutUint32(b[6:], uint32(copyNo))
		return b
	}
	return []byte(fmt.Sprintf("trace-%d/%d", tok, copyNo))
}

func (w *world) partIDOf(spec int) uint64 {
	if id, ok := w.realID[spec]; ok {
		return id
	}
	id := uint64(spec)*7 + 0x20 // monotone, not the identity; directory names are %016x of it
	w.realID[spec] = id
	w.specID[id] = spec
	return id
}

func idSet(w *world, ids []int) map[uint64]struct{} {
	m := map[uint64]struct{}{}
	for _, i := range ids {
		m[w.partIDOf(i)] = struct{}{}
	}
	return m
}

// ---------------------------------------------------------------- actions

func (w *world) apply(op string, ev map[string]any) (msg string) {
	defer func() {
		if r := recover(); r != nil {
			msg = fmt.Sprintf("panic: %v", r)
		}
	}()
	switch op {
	case "write":
		spec := vlib.Int(ev, "id")
		var reqs []sidx.WriteRequest
		for _, x := range vlib.List(ev, "ents") {
			e := vlib.Rec(x)
			k, s, t := vlib.Int(e, "k"), vlib.Int(e, "s"), vlib.Int(e, "t")
			for c := 0; c < w.mult; c++ {
				off := int64(0)
				if w.width > 1 {
					off = w.rng.Int63n(w.width)
				}
				re := &realEntry{key: w.keyBase[k] + off, sid: w.series[s], tok: t, part: spec, data: string(w.payloadOf(t, c))}
				if _, dup := w.byData[re.data]; dup {
					return "harness: payload collision"
				}
				w.byData[re.data] = re
				w.byTok[t] = append(w.byTok[t], re)
				req := sidx.WriteRequest{SeriesID: re.sid, Key: re.key, Data: []byte(re.data)}
				if w.withTag {
					req.Tags = []sidx.Tag{{Name: "svc", Value: []byte(fmt.Sprintf("svc-%d", t%3)), ValueType: pbv1.ValueTypeStr}}
				}
				reqs = append(reqs, req)
			}
		}
		w.rng.Shuffle(len(reqs), func(i, j int) { reqs[i], reqs[j] = reqs[j], reqs[i] })
		mp, err := w.idx.ConvertToMemPart(reqs, 1, nil, nil)
		if err != nil {
			return "ConvertToMemPart: " + err.Error()
		}
		id := w.partIDOf(spec)
		if w.txn {
			tr := snapshot.NewTransition[*sidx.Snapshot](w.idx, w.idx.PrepareMemPart(id, mp))
			tr.Commit()
			tr.Release()
		} else {
			w.idx.IntroduceMemPart(id, mp)
		}
	case "flush":
		ids := idSet(w, vlib.Ints(vlib.List(ev, "ids")))
		intro, err := w.idx.Flush(ids)
		if err != nil {
			return "Flush: " + err.Error()
		}
		if intro == nil {
			return "Flush returned no introduction"
		}
		if w.txn {
			tr := snapshot.NewTransition[*sidx.Snapshot](w.idx, w.idx.PrepareFlushed(intro))
			tr.Commit()
			tr.Release()
		} else {
			w.idx.IntroduceFlushed(intro)
		}
		intro.Release()
	case "merge":
		specIDs := vlib.Ints(vlib.List(ev, "ids"))
		ids := idSet(w, specIDs)
		newSpec := vlib.Int(ev, "newid")
		var keep func([]byte) bool
		if drop := vlib.Ints(vlib.List(ev, "drop")); len(drop) > 0 {
			// keep sees the payload only (the trace layer decodes a trace id from it)
			rejected := map[string]bool{}
			for _, t := range drop {
				for _, re := range w.byTok[t] {
					rejected[re.data] = true
					delete(w.byData, re.data)
				}
				delete(w.byTok, t)
			}
			keep = func(data []byte) bool { return !rejected[string(data)] }
		}
		closeCh := make(chan struct{})
		intro, err := w.idx.Merge(closeCh, ids, w.partIDOf(newSpec), keep)
		if err != nil {
			return "Merge: " + err.Error()
		}
		if intro == nil {
			return "Merge returned no introduction"
		}
		if w.txn {
			tr := snapshot.NewTransition[*sidx.Snapshot](w.idx, w.idx.PrepareMerged(intro))
			tr.Commit()
			tr.Release()
		} else if done := w.idx.IntroduceMerged(intro); done != nil {
			done()
		}
		intro.Release()
		in := map[int]bool{}
		for _, i := range specIDs {
			in[i] = true
		}
		for _, re := range w.byData {
			if in[re.part] {
				re.part = newSpec
			}
		}
	case "query", "init":
	default:
		return "harness: unknown op " + op
	}
	return ""
}

// ---------------------------------------------------------------- state projection

type row struct {
	data string
	key  int64
	sid  common.SeriesID
}

func rowsKey(rs []row) string {
	sort.Slice(rs, func(i, j int) bool {
		if rs[i].key != rs[j].key {
			return rs[i].key < rs[j].key
		}
		if rs[i].sid != rs[j].sid {
			return rs[i].sid < rs[j].sid
		}
		return rs[i].data < rs[j].data
	})
	var sb strings.Builder
	for _, r := range rs {
		fmt.Fprintf(&sb, "%d/%d/%x;", r.key, r.sid, shortData(r.data))
	}
	return sb.String()
}

func shortData(s string) string {
	if len(s) > 12 {
		return s[:12]
	}
	return s
}

// compareState projects the real index onto the spec's `parts` and compares.
func (w *world) compareState(st vlib.State, op string, ev map[string]any) (ok bool) {
	defer func() {
		if r := recover(); r != nil {
			w.violate("sidx-scan-failed", "panic while projecting the state after %s: %v [%s]", op, r, w.describe())
			ok = false
		}
	}()
	// expected, from the spec state
	type specPart struct {
		kind string
		rows []row
	}
	want := map[int]*specPart{}
	for _, pv := range vlib.List(st, "parts") {
		p := vlib.Rec(pv)
		sp := &specPart{kind: vlib.Str(p, "kind")}
		for _, x := range vlib.List(p, "ents") {
			e := vlib.Rec(x)
			t := vlib.Int(e, "t")
			res, known := w.byTok[t]
			if !known {
				w.res.Inconclusive = append(w.res.Inconclusive, fmt.Sprintf("harness: spec token %d unknown", t))
				return false
			}
			for _, re := range res {
				if re.key < w.keyBase[vlib.Int(e, "k")] || re.key-w.keyBase[vlib.Int(e, "k")] >= w.width || re.sid != w.series[vlib.Int(e, "s")] {
					w.res.Inconclusive = append(w.res.Inconclusive, "harness: concretisation out of sync with the spec entry")
					return false
				}
				sp.rows = append(sp.rows, row{key: re.key, sid: re.sid, data: re.data})
			}
		}
		want[vlib.Int(p, "id")] = sp
	}
	// real
	got := map[int][]row{}
	resp, err := w.idx.ScanQuery(context.Background(), sidx.ScanQueryRequest{})
	if err != nil {
		w.violate("sidx-scan-failed", "ScanQuery after %s: %v", op, err)
		return false
	}
	for _, r := range resp {
		for i := range r.Keys {
			spec, known := w.specID[r.PartIDs[i]]
			if !known {
				spec = -int(r.PartIDs[i])
			}
			got[spec] = append(got[spec], row{key: r.Keys[i], sid: r.SIDs[i], data: string(r.Data[i])})
		}
	}
	sigBase := "sidx-" + op + "-changed-contents"
	if op == "query" {
		sigBase = "sidx-query-changed-contents"
	}
	if op == "merge" {
		newSpec := vlib.Int(ev, "newid")
		if sp := want[newSpec]; sp != nil && rowsKey(sp.rows) != rowsKey(got[newSpec]) {
			w.violate("sidx-merged-part-differs-from-union", "merge %s: the new part holds %d entries, the union of its inputs (minus the rejected payloads) has %d: %s [%s]",
				vlib.Canon(ev), len(got[newSpec]), len(sp.rows), diffRows(sp.rows, got[newSpec]), w.describe())
			return false
		}
	}
	for id, sp := range want {
		if rowsKey(sp.rows) != rowsKey(got[id]) {
			w.violate(sigBase, "after %s part %d holds %d entries, the specification says %d: %s [%s]", vlib.Canon(ev), id, len(got[id]), len(sp.rows), diffRows(sp.rows, got[id]), w.describe())
			return false
		}
	}
	for id, rs := range got {
		if want[id] == nil && len(rs) > 0 {
			w.violate(sigBase, "after %s the index still serves %d entries from part %d which the specification no longer has [%s]", vlib.Canon(ev), len(rs), id, w.describe())
			return false
		}
	}
	// part set, mem/file
	stats, err := w.idx.Stats(context.Background())
	if err != nil {
		w.violate("sidx-stats-failed", "Stats: %v", err)
		return false
	}
	if int(stats.PartCount) != len(want) {
		w.violate("sidx-part-set-differs-after-"+op, "after %s the index has %d parts, the specification %d [%s]", vlib.Canon(ev), stats.PartCount, len(want), w.describe())
		return false
	}
	all := map[uint64]struct{}{}
	for spec := range w.realID {
		all[w.realID[spec]] = struct{}{}
	}
	paths := w.idx.PartPaths(all)
	for id, sp := range want {
		p, isFile := paths[w.partIDOf(id)]
		if isFile != (sp.kind == "file") {
			w.violate("sidx-part-kind-differs-after-"+op, "after %s part %d: file part=%v, the specification says %s [%s]", vlib.Canon(ev), id, isFile, sp.kind, w.describe())
			return false
		}
		if isFile {
			if fi, serr := os.Stat(p); serr != nil || !fi.IsDir() {
				w.violate("sidx-part-directory-missing", "after %s part %d has no directory %s", vlib.Canon(ev), id, p)
				return false
			}
		}
	}
	for rid := range paths {
		if spec, known := w.specID[rid]; !known || want[spec] == nil {
			w.violate("sidx-part-set-differs-after-"+op, "after %s the index still has file part %d (spec id %d) [%s]", vlib.Canon(ev), rid, spec, w.describe())
			return false
		}
	}
	return true
}

func diffRows(want, got []row) string {
	cnt := map[row]int{}
	for _, r := range want {
		cnt[r]++
	}
	for _, r := range got {
		cnt[r]--
	}
	var missing, extra []string
	for r, c := range cnt {
		s := fmt.Sprintf("(key %d, series %d, payload %x)", r.key, r.sid, shortData(r.data))
		if c > 0 && len(missing) < 3 {
			missing = append(missing, s)
		}
		if c < 0 && len(extra) < 3 {
			extra = append(extra, s)
		}
	}
	sort.Strings(missing)
	sort.Strings(extra)
	return fmt.Sprintf("missing %v, unexpected %v", missing, extra)
}

// ---------------------------------------------------------------- queries

type query struct {
	lo, hi *int64
	sids   []common.SeriesID
	mb     int
	desc   bool
	nilOrd bool
}

func (q query) String() string {
	lo, hi := "-inf", "+inf"
	if q.lo != nil {
		lo = fmt.Sprint(*q.lo)
	}
	if q.hi != nil {
		hi = fmt.Sprint(*q.hi)
	}
	d := "ASC"
	if q.desc {
		d = "DESC"
	}
	return fmt.Sprintf("series=%v keys=[%s,%s] %s MaxBatchSize=%d", q.sids, lo, hi, d, q.mb)
}

func (q query) request() sidx.QueryRequest {
	req := sidx.QueryRequest{SeriesIDs: append([]common.SeriesID(nil), q.sids...), MinKey: q.lo, MaxKey: q.hi, MaxBatchSize: q.mb}
	switch {
	case q.desc:
		req.Order = &index.OrderBy{Sort: modelv1.Sort_SORT_DESC}
	case !q.nilOrd:
		req.Order = &index.OrderBy{Sort: modelv1.Sort_SORT_ASC}
	}
	return req
}

// expected: what the specification defines (every entry of Contents whose series and key match).
func (w *world) expected(q query) map[string]*realEntry {
	in := map[common.SeriesID]bool{}
	for _, s := range q.sids {
		in[s] = true
	}
	out := map[string]*realEntry{}
	for d, re := range w.byData {
		if !in[re.sid] || (q.lo != nil && re.key < *q.lo) || (q.hi != nil && re.key > *q.hi) {
			continue
		}
		out[d] = re
	}
	return out
}

type answer struct {
	batches [][]row
	parts   [][]uint64
	err     error
}

func (a *answer) flat() ([]row, []uint64) {
	var rs []row
	var ps []uint64
	for i, b := range a.batches {
		rs = append(rs, b...)
		ps = append(ps, a.parts[i]...)
	}
	return rs, ps
}

func collect(resp []*sidx.QueryResponse, a *answer) {
	for _, r := range resp {
		if r == nil {
			continue
		}
		if r.Error != nil && a.err == nil {
			a.err = r.Error
		}
		var b []row
		for i := range r.Keys {
			var d string
			if i < len(r.Data) {
				d = string(r.Data[i])
			}
			var s common.SeriesID
			if i < len(r.SIDs) {
				s = r.SIDs[i]
			}
			b = append(b, row{key: r.Keys[i], sid: s, data: d})
		}
		a.batches = append(a.batches, b)
		a.parts = append(a.parts, append([]uint64(nil), r.PartIDs...))
	}
}

func (w *world) runStream(q query) (a *answer, timedOut bool) {
	a = &answer{}
	ctx, cancel := context.WithTimeout(context.Background(), 120*time.Second)
	defer cancel()
	resCh, errCh := w.idx.StreamingQuery(ctx, q.request())
	for r := range resCh {
		collect([]*sidx.QueryResponse{r}, a)
	}
	if err, ok := <-errCh; ok && err != nil && a.err == nil {
		a.err = err
	}
	return a, ctx.Err() != nil
}

func (w *world) runSync(q query) (a *answer, timedOut bool) {
	a = &answer{}
	ctx, cancel := context.WithTimeout(context.Background(), 120*time.Second)
	defer cancel()
	resp, err := w.idx.QuerySync(ctx, q.request())
	a.err = err
	collect(resp, a)
	return a, ctx.Err() != nil
}

func sortedByKey(rs []row, desc bool) (int, bool) {
	for i := 1; i < len(rs); i++ {
		if (!desc && rs[i-1].key > rs[i].key) || (desc && rs[i-1].key < rs[i].key) {
			return i, false
		}
	}
	return 0, true
}

func keysOf(rs []row, n int) []int64 {
	var out []int64
	for i, r := range rs {
		if i >= n {
			break
		}
		out = append(out, r.key)
	}
	return out
}

// check compares one real answer with the specification's definition.  complete: every matching entry is
// required (streaming; synchronous with MaxBatchSize 0); otherwise the ordered top-MaxBatchSize.
func (w *world) check(q query, mode string, a *answer, complete bool, after string) []row {
	ctxs := func() string { return fmt.Sprintf("%s %s after %s [%s]", mode, q, after, w.describe()) }
	if a.err != nil {
		w.violate("sidx-query-error", "%v: %s", a.err, ctxs())
		return nil
	}
	rs, parts := a.flat()
	want := w.expected(q)
	seen := map[string]bool{}
	for i, r := range rs {
		re, known := w.byData[r.data]
		switch {
		case !known:
			w.violate("sidx-query-unknown-entry", "entry %d (key %d, series %d, payload %x) was never written or was rejected by a merge: %s", i, r.key, r.sid, shortData(r.data), ctxs())
			continue
		case re.key != r.key || re.sid != r.sid:
			w.violate("sidx-query-corrupt-entry", "payload %x was written with key %d series %d, returned with key %d series %d: %s", shortData(r.data), re.key, re.sid, r.key, r.sid, ctxs())
		case want[r.data] == nil:
			w.violate("sidx-query-unexpected-entry", "entry (key %d, series %d) does not match the request: %s", r.key, r.sid, ctxs())
		}
		if seen[r.data] {
			w.violate("sidx-query-duplicate", "entry (key %d, series %d, payload %x) returned twice: %s", r.key, r.sid, shortData(r.data), ctxs())
		}
		seen[r.data] = true
		if i < len(parts) && known {
			if spec, ok := w.specID[parts[i]]; !ok || spec != re.part {
				w.violate("sidx-query-wrong-part-id", "entry (key %d) reported from part %d, it lives in spec part %d: %s", r.key, parts[i], re.part, ctxs())
			}
		}
	}
	if at, ok := sortedByKey(rs, q.desc); !ok {
		lo := at - 3
		if lo < 0 {
			lo = 0
		}
		w.violate("sidx-query-unsorted", "keys out of order at position %d: ...%v... (of %d): %s", at, keysOf(rs[lo:], 6), len(rs), ctxs())
	}
	if complete {
		for d, re := range want {
			if !seen[d] {
				w.violate("sidx-query-missing-entry", "entry (key %d, series %d, payload %x, part %d) matches but was not returned (%d of %d returned): %s", re.key, re.sid, shortData(d), re.part, len(seen), len(want), ctxs())
				break
			}
		}
	} else {
		need := q.mb
		if len(want) < need {
			need = len(want)
		}
		if len(seen) < need {
			w.violate("sidx-sync-fewer-than-budget", "%d entries returned, %d match and MaxBatchSize is %d: %s", len(seen), len(want), q.mb, ctxs())
		}
		// a prefix of the order: nothing that was left out may sort strictly before something returned
		if len(rs) > 0 {
			lastKey := rs[len(rs)-1].key
			for d, re := range want {
				if !seen[d] && ((!q.desc && re.key < lastKey) || (q.desc && re.key > lastKey)) {
					w.violate("sidx-sync-topn-not-a-prefix", "entry with key %d was left out although key %d was returned (%d of %d returned): %s", re.key, lastKey, len(seen), len(want), ctxs())
					break
				}
			}
		}
	}
	if mode == "stream" && q.mb > 0 {
		for i, b := range a.batches {
			if len(b) > q.mb {
				w.violate("sidx-streaming-batch-exceeds-max", "batch %d holds %d entries: %s", i, len(b), ctxs())
				break
			}
		}
	}
	return rs
}

// both runs the query through both entry points and relates the two answers.
func (w *world) both(q query, after string) {
	w.res.Inc("queries")
	sa, to1 := w.runStream(q)
	ya, to2 := w.runSync(q)
	if to1 || to2 {
		w.res.Inconclusive = append(w.res.Inconclusive, "query timed out: "+q.String())
		return
	}
	srows := w.check(q, "stream", sa, true, after)
	yrows := w.check(q, "sync", ya, q.mb == 0, after)
	if sa.err != nil || ya.err != nil {
		return
	}
	// the synchronous answer is the streaming answer (MaxBatchSize 0) or a prefix of it, up to ties
	if q.mb == 0 && len(srows) != len(yrows) {
		w.violate("sidx-streaming-differs-from-sync", "streaming returned %d entries, synchronous %d: %s after %s [%s]", len(srows), len(yrows), q, after, w.describe())
		return
	}
	n := len(yrows)
	if n > len(srows) {
		w.violate("sidx-streaming-differs-from-sync", "synchronous returned %d entries, streaming only %d: %s after %s [%s]", len(yrows), len(srows), q, after, w.describe())
		return
	}
	for i := 0; i < n; i++ {
		if srows[i].key != yrows[i].key {
			w.violate("sidx-streaming-differs-from-sync", "position %d: streaming key %d, synchronous key %d: %s after %s [%s]", i, srows[i].key, yrows[i].key, q, after, w.describe())
			return
		}
	}
	if q.mb == 0 {
		ms := map[string]int{}
		for _, r := range srows {
			ms[r.data]++
		}
		for _, r := range yrows {
			ms[r.data]--
		}
		for d, c := range ms {
			if c != 0 {
				w.violate("sidx-streaming-differs-from-sync", "payload %x: %d more times in the streaming answer: %s after %s [%s]", shortData(d), c, q, after, w.describe())
				return
			}
		}
	}
}

func p64(v int64) *int64 { return &v }

func (w *world) ranges(full bool) [][2]*int64 {
	k := w.cfg.Keys
	end := func(i int) int64 { return w.keyBase[i] + w.width - 1 }
	out := [][2]*int64{{nil, nil}}
	if !full {
		a := 1 + w.rng.Intn(k)
		b := a + w.rng.Intn(k-a+1)
		return append(out, [2]*int64{p64(w.keyBase[a]), p64(end(b))})
	}
	out = append(out, [2]*int64{p64(w.keyBase[1]), p64(end(k))})
	for i := 1; i <= k; i++ {
		out = append(out, [2]*int64{p64(w.keyBase[i]), p64(end(i))})
	}
	if k >= 3 {
		out = append(out, [2]*int64{p64(w.keyBase[1]), p64(end(2))}, [2]*int64{p64(w.keyBase[2]), p64(end(k))})
	}
	out = append(out, [2]*int64{nil, p64(end(1))}, [2]*int64{p64(w.keyBase[k]), nil})
	if w.width > 1 { // cut inside the intervals
		out = append(out, [2]*int64{p64(w.keyBase[1] + w.width/2), p64(w.keyBase[k] + w.width/2)})
	}
	if w.keyBase[1] > math.MinInt64+10 { // nothing below the first key
		out = append(out, [2]*int64{p64(w.keyBase[1] - 9), p64(w.keyBase[1] - 1)})
	}
	return out
}

// queryMatrix runs queries through both entry points.  full: every series subset x every range x both
// directions, each with one MaxBatchSize (rotating, seeded) and the unrestricted query with all of them;
// otherwise a small seeded sample.
func (w *world) queryMatrix(full bool, after string) {
	s1, s2 := w.series[1], w.series[2]
	sets := [][]common.SeriesID{{s2, s1}, {s1}, {s2}, {w.absent, s1}}
	mbs := []int{0, 1, 2, 3, 1000}
	if w.cfg.Fat > 0 {
		mbs = []int{0, 1000, 7, 1}
	}
	rot := w.rng.Intn(len(mbs))
	if !full {
		sets = [][]common.SeriesID{sets[0], sets[1+w.rng.Intn(2)]}
	}
	for si, set := range sets {
		for ri, r := range w.ranges(full) {
			for _, desc := range []bool{false, true} {
				if full && si == 0 && ri == 0 {
					for i, mb := range mbs {
						w.both(query{sids: set, lo: r[0], hi: r[1], desc: desc, mb: mb, nilOrd: i%2 == 1}, after)
					}
					continue
				}
				rot++
				w.both(query{sids: set, lo: r[0], hi: r[1], desc: desc, mb: mbs[rot%len(mbs)], nilOrd: rot%3 == 0}, after)
			}
		}
	}
}

// specQuery executes a Query step of the behaviour and compares the answer with the values TLC computed
// (last.expect = the matching entries, last.keys = the key sequence of the ordered answer).
func (w *world) specQuery(ev map[string]any) {
	var sids []common.SeriesID
	for _, s := range vlib.Ints(vlib.List(ev, "series")) {
		sids = append(sids, w.series[s])
	}
	lo, hi := vlib.Int(ev, "lo"), vlib.Int(ev, "hi")
	q := query{sids: sids, lo: p64(w.keyBase[lo]), hi: p64(w.keyBase[hi] + w.width - 1), desc: !vlib.Bool(ev, "asc"), mb: vlib.Int(ev, "mb")}
	mode := vlib.Str(ev, "mode")
	var a *answer
	var to bool
	if mode == "sync" {
		a, to = w.runSync(q)
	} else {
		a, to = w.runStream(q)
	}
	if to {
		w.res.Inconclusive = append(w.res.Inconclusive, "query timed out: "+q.String())
		return
	}
	w.res.Inc("spec_queries")
	complete := mode == "stream" || q.mb == 0
	rs := w.check(q, mode, a, complete, "query(spec)")
	if a.err != nil {
		return
	}
	// against TLC's values
	wantTok := map[int]int{}
	for _, x := range vlib.List(ev, "expect") {
		wantTok[vlib.Int(vlib.Rec(x), "t")] += w.mult
	}
	var wantKeys []int
	for _, kv := range vlib.Ints(vlib.List(ev, "keys")) {
		for c := 0; c < w.mult; c++ {
			wantKeys = append(wantKeys, kv)
		}
	}
	if complete && len(rs) != len(wantKeys) {
		w.violate("sidx-query-differs-from-spec-result", "%d entries returned, the specification's answer has %d: %s %s [%s]", len(rs), len(wantKeys), mode, q, w.describe())
		return
	}
	for i, r := range rs {
		sk := w.specKey(r.key)
		if i >= len(wantKeys) || sk != wantKeys[i] {
			w.violate("sidx-query-differs-from-spec-result", "position %d holds key %d (spec key %d), the specification's answer has spec keys %v: %s %s [%s]", i, r.key, sk, vlib.List(ev, "keys"), mode, q, w.describe())
			return
		}
		if re := w.byData[r.data]; re != nil {
			wantTok[re.tok]--
			if wantTok[re.tok] < 0 {
				w.violate("sidx-query-differs-from-spec-result", "payload token %d is not in the specification's answer: %s %s [%s]", re.tok, mode, q, w.describe())
				return
			}
		}
	}
	if complete {
		for t, c := range wantTok {
			if c != 0 {
				w.violate("sidx-query-differs-from-spec-result", "payload token %d of the specification's answer is missing: %s %s [%s]", t, mode, q, w.describe())
				return
			}
		}
	}
}

func (w *world) specKey(k int64) int {
	for i := w.cfg.Keys; i >= 1; i-- {
		if k >= w.keyBase[i] {
			return i
		}
	}
	return 0
}
