// Command c20 binds spec/Bydbql.tla to pkg/bydbql (parser, binder, prepared statements,
// transformer) and to the liaison's BydbQL service / prepared cache (banyand/liaison/grpc).
//
//	-mode replay -in behaviours.ndjson -cachesize N -maxbytes M
//	      every Execute step of every TLC behaviour is run on the real code through
//	        oneshot   ParseQuery -> BindParams -> Transform
//	        prepared  Prepare (once per statement text, shared by all executions) -> Bind -> TransformBound
//	        cached    liaison preparedCache.getOrPrepare -> Bind -> TransformBound  (export file)
//	        service   the real bydbQLService.Query up to the dispatch of the native request
//	      and compared with the spec: reject iff the spec rejects; the native request must be
//	      proto.Equal to the one the real transformer produces for the LITERALISED statement
//	      (rendered from the spec's Literalise record by the same renderer); its shape must be the
//	      spec's Shape; the cache verdict / LRU order / byte count must be the spec's; the prepared
//	      template must not change; earlier (stmt, params) pairs must still give the same request.
//	-mode cost -in stmts.json       accounted cache cost of statements (input of the spec's Cost)
//
// func render is the trusted definition of "the statement with the values written as properly
// quoted literals": strings are single-quoted with \ and ' escaped by a backslash (the lexer's
// String rule + participle.Unquote), integers are decimal, null is NULL.
//
// The `id` position of a PROPERTY select (`WHERE id = v`, `WHERE id IN (..)`) is rendered like any
// other condition (the spec's tag "id"); in the native request its values are not criteria but the
// entries of QueryRequest.ids, so the shape has two extra components: the ID conditions of the
// statement (operators, textual order; read from the grammar tree the transformer worked on) and
// the number of IDs in the request (expected: the number of values the spec's literalised statement
// has at id positions).
package main

import (
	"bufio"
	"context"
	"encoding/json"
	"flag"
	"fmt"
	"os"
	"reflect"
	"runtime"
	"sort"
	"strconv"
	"strings"
	"sync"

	"google.golang.org/grpc/codes"
	"google.golang.org/grpc/status"
	"google.golang.org/protobuf/encoding/protojson"
	"google.golang.org/protobuf/proto"
	"google.golang.org/protobuf/types/known/timestamppb"

	commonv1 "github.com/apache/skywalking-banyandb/api/proto/banyandb/common/v1"
	databasev1 "github.com/apache/skywalking-banyandb/api/proto/banyandb/database/v1"
	measurev1 "github.com/apache/skywalking-banyandb/api/proto/banyandb/measure/v1"
	modelv1 "github.com/apache/skywalking-banyandb/api/proto/banyandb/model/v1"
	propertyv1 "github.com/apache/skywalking-banyandb/api/proto/banyandb/property/v1"
	streamv1 "github.com/apache/skywalking-banyandb/api/proto/banyandb/stream/v1"
	tracev1 "github.com/apache/skywalking-banyandb/api/proto/banyandb/trace/v1"
	lgrpc "github.com/apache/skywalking-banyandb/banyand/liaison/grpc"
	"github.com/apache/skywalking-banyandb/banyand/metadata"
	"github.com/apache/skywalking-banyandb/banyand/metadata/schema"
	"github.com/apache/skywalking-banyandb/banyand/verifharness/vlib"
	"github.com/apache/skywalking-banyandb/pkg/bydbql"
	"github.com/apache/skywalking-banyandb/pkg/logger"
)

// ---------------------------------------------------------------- schema (fake registry)

const group = "g1"

var resource = map[string]string{"stream": "st", "measure": "ms", "trace": "tr", "property": "pr", "topn": "tn"}

func tagSpecs() []*databasev1.TagSpec {
	return []*databasev1.TagSpec{
		{Name: "s", Type: databasev1.TagType_TAG_TYPE_STRING},
		{Name: "i", Type: databasev1.TagType_TAG_TYPE_INT},
	}
}

type fakeStream struct{ schema.Stream }

func (fakeStream) GetStream(_ context.Context, md *commonv1.Metadata) (*databasev1.Stream, error) {
	return &databasev1.Stream{Metadata: md, TagFamilies: []*databasev1.TagFamilySpec{{Name: "fam", Tags: tagSpecs()}}}, nil
}

type fakeMeasure struct{ schema.Measure }

func (fakeMeasure) GetMeasure(_ context.Context, md *commonv1.Metadata) (*databasev1.Measure, error) {
	return &databasev1.Measure{
		Metadata: md, TagFamilies: []*databasev1.TagFamilySpec{{Name: "fam", Tags: tagSpecs()}},
		Fields: []*databasev1.FieldSpec{{Name: "f", FieldType: databasev1.FieldType_FIELD_TYPE_INT}},
	}, nil
}

type fakeTrace struct{ schema.Trace }

func (fakeTrace) GetTrace(_ context.Context, md *commonv1.Metadata) (*databasev1.Trace, error) {
	return &databasev1.Trace{Metadata: md, Tags: []*databasev1.TraceTagSpec{
		{Name: "s", Type: databasev1.TagType_TAG_TYPE_STRING}, {Name: "i", Type: databasev1.TagType_TAG_TYPE_INT},
	}}, nil
}

type fakeProperty struct{ schema.Property }

func (fakeProperty) GetProperty(_ context.Context, md *commonv1.Metadata) (*databasev1.Property, error) {
	return &databasev1.Property{Metadata: md, Tags: tagSpecs()}, nil
}

type fakeTopN struct{ schema.TopNAggregation }

func (fakeTopN) GetTopNAggregation(_ context.Context, md *commonv1.Metadata) (*databasev1.TopNAggregation, error) {
	return &databasev1.TopNAggregation{Metadata: md, SourceMeasure: &commonv1.Metadata{Name: "ms", Group: group}}, nil
}

type fakeRepo struct{ metadata.Repo }

func (fakeRepo) StreamRegistry() schema.Stream                   { return fakeStream{} }
func (fakeRepo) MeasureRegistry() schema.Measure                 { return fakeMeasure{} }
func (fakeRepo) TraceRegistry() schema.Trace                     { return fakeTrace{} }
func (fakeRepo) PropertyRegistry() schema.Property               { return fakeProperty{} }
func (fakeRepo) TopNAggregationRegistry() schema.TopNAggregation { return fakeTopN{} }

// ---------------------------------------------------------------- concretisation of tokens

var intTok = map[string]int64{
	"i64min": -9223372036854775808, "-1": -1, "0": 0, "3": 3, "7": 7, "i32max": 2147483647, "i32max+1": 2147483648,
	"u32max": 4294967295, "u32max+1": 4294967296, "i64max": 9223372036854775807,
}

func tokInt(k string) int64 {
	v, ok := intTok[k]
	if !ok {
		panic("unknown int token " + k)
	}
	return v
}

func tsTok(k string) *timestamppb.Timestamp {
	switch k {
	case "ts1":
		return &timestamppb.Timestamp{Seconds: 1772323200} // 2026-03-01T00:00:00Z
	case "ts2":
		return &timestamppb.Timestamp{Seconds: 1772323200, Nanos: 123456789}
	case "tsrange":
		return &timestamppb.Timestamp{Seconds: 253402300800} // year 10000: out of range
	case "tsnil":
		return nil
	}
	panic("unknown timestamp token " + k)
}

// param turns a spec value into the TagValue sent with the request.
func param(v map[string]any) *modelv1.TagValue {
	switch vlib.Str(v, "t") {
	case "str":
		return &modelv1.TagValue{Value: &modelv1.TagValue_Str{Str: &modelv1.Str{Value: vlib.Str(v, "v")}}}
	case "int":
		return &modelv1.TagValue{Value: &modelv1.TagValue_Int{Int: &modelv1.Int{Value: tokInt(vlib.Str(v, "v"))}}}
	case "null":
		return &modelv1.TagValue{Value: &modelv1.TagValue_Null{}}
	case "none":
		return &modelv1.TagValue{}
	case "nil":
		return nil
	case "bin":
		return &modelv1.TagValue{Value: &modelv1.TagValue_BinaryData{BinaryData: []byte("' OR 1=1 --")}}
	case "strs":
		return &modelv1.TagValue{Value: &modelv1.TagValue_StrArray{StrArray: &modelv1.StrArray{Value: vlib.Strs(vlib.List(v, "vs"))}}}
	case "ints":
		var out []int64
		for _, k := range vlib.Strs(vlib.List(v, "vs")) {
			out = append(out, tokInt(k))
		}
		return &modelv1.TagValue{Value: &modelv1.TagValue_IntArray{IntArray: &modelv1.IntArray{Value: out}}}
	case "ts":
		return &modelv1.TagValue{Value: &modelv1.TagValue_Timestamp{Timestamp: tsTok(vlib.Str(v, "v"))}}
	}
	panic("unknown value type " + vlib.Str(v, "t"))
}

func params(l []any) []*modelv1.TagValue {
	out := make([]*modelv1.TagValue, 0, len(l))
	for _, v := range l {
		out = append(out, param(vlib.Rec(v)))
	}
	return out
}

// ---------------------------------------------------------------- the renderer (trusted)

func quote(s string) string {
	return "'" + strings.NewReplacer(`\`, `\\`, `'`, `\'`).Replace(s) + "'"
}

func leaf(l map[string]any) string {
	switch vlib.Str(l, "t") {
	case "ph":
		return "?"
	case "str":
		return quote(vlib.Str(l, "v"))
	case "int":
		return strconv.FormatInt(tokInt(vlib.Str(l, "v")), 10)
	case "null":
		return "NULL"
	}
	panic("cannot render leaf " + vlib.Canon(l))
}

func present(l map[string]any) bool { return vlib.Str(l, "t") != "absent" }

func leaves(l []any) []string {
	out := make([]string, 0, len(l))
	for _, a := range l {
		out = append(out, leaf(vlib.Rec(a)))
	}
	return out
}

// render gives the BydbQL text of a statement record (placeholders as ?, values as literals).
func render(s map[string]any) string {
	kind := vlib.Str(s, "kind")
	var b strings.Builder
	top := vlib.Map(s, "top")
	switch kind {
	case "topn":
		b.WriteString("SHOW TOP " + leaf(top) + " FROM MEASURE tn IN " + group)
	case "measure":
		if present(top) {
			b.WriteString("SELECT TOP " + leaf(top) + " f DESC, s, i FROM MEASURE ms IN " + group)
		} else {
			b.WriteString("SELECT s, i, f FROM MEASURE ms IN " + group)
		}
	default:
		b.WriteString("SELECT s, i FROM " + strings.ToUpper(kind) + " " + resource[kind] + " IN " + group)
	}
	tm := vlib.Map(s, "time")
	if op := vlib.Str(tm, "op"); op != "none" {
		a := leaves(vlib.List(tm, "args"))
		if op == "between" {
			b.WriteString(" TIME BETWEEN " + a[0] + " AND " + a[1])
		} else {
			b.WriteString(" TIME " + op + " " + a[0])
		}
	}
	w := vlib.Map(s, "w")
	for n, cv := range vlib.List(w, "conds") {
		c := vlib.Rec(cv)
		if n == 0 {
			b.WriteString(" WHERE ")
		} else {
			b.WriteString(" " + vlib.Str(w, "join") + " ")
		}
		a := leaves(vlib.List(c, "args"))
		tag, op, many := vlib.Str(c, "tag"), vlib.Str(c, "op"), vlib.Str(c, "form") == "many"
		switch {
		case op == "IN":
			b.WriteString(tag + " IN (" + strings.Join(a, ", ") + ")")
		case op == "MATCH" && many:
			b.WriteString(tag + " MATCH((" + strings.Join(a, ", ") + "))")
		case op == "MATCH":
			b.WriteString(tag + " MATCH(" + a[0] + ")")
		case op == "HAVING" && many:
			b.WriteString(tag + " HAVING (" + strings.Join(a, ", ") + ")")
		default: // =, !=, >, HAVING with a single value
			b.WriteString(tag + " " + op + " " + a[0])
		}
	}
	if vlib.Str(s, "order") == "DESC" {
		if kind == "topn" {
			b.WriteString(" ORDER BY DESC")
		} else {
			b.WriteString(" ORDER BY s DESC")
		}
	}
	lo := vlib.Map(s, "lo")
	if l := vlib.Map(lo, "l"); present(l) {
		b.WriteString(" LIMIT " + leaf(l))
	}
	if f := vlib.Map(lo, "f"); present(f) {
		b.WriteString(" OFFSET " + leaf(f))
	}
	return b.String()
}

// ---------------------------------------------------------------- shapes

type shape struct {
	Kind   string
	Top    bool
	Time   bool
	Where  string // "s=,iIN" in textual order (conditions on tags: the criteria tree)
	IDs    string // "=,IN": the conditions on the property ID, in textual order
	NIDs   int    // number of entries of QueryRequest.ids
	Join   string // set of logical operators, e.g. "", "AND", "OR"
	Order  string
	Limit  bool
	Offset bool
	Target string
}

func specShape(sh map[string]any) shape {
	var w []string
	for _, c := range vlib.List(sh, "where") {
		w = append(w, vlib.Str(vlib.Rec(c), "tag")+vlib.Str(vlib.Rec(c), "op"))
	}
	kind := vlib.Str(sh, "kind")
	out := shape{
		Kind: kind, Top: vlib.Bool(sh, "top"), Time: vlib.Str(sh, "time") != "none", Where: strings.Join(w, ","),
		IDs:   strings.Join(vlib.Strs(vlib.List(sh, "ids")), ","),
		Order: vlib.Str(sh, "order"), Limit: vlib.Bool(sh, "limit"), Offset: vlib.Bool(sh, "offset"), Target: group + "/" + resource[kind],
	}
	if len(w) > 1 {
		out.Join = vlib.Str(sh, "join")
	}
	return out
}

var opName = map[modelv1.Condition_BinaryOp]string{
	modelv1.Condition_BINARY_OP_EQ: "=", modelv1.Condition_BINARY_OP_NE: "!=", modelv1.Condition_BINARY_OP_GT: ">",
	modelv1.Condition_BINARY_OP_IN: "IN", modelv1.Condition_BINARY_OP_MATCH: "MATCH", modelv1.Condition_BINARY_OP_HAVING: "HAVING",
}

func condName(c *modelv1.Condition) string {
	if n, ok := opName[c.GetOp()]; ok {
		return c.GetName() + n
	}
	return c.GetName() + c.GetOp().String()
}

func flatten(c *modelv1.Criteria, conds *[]string, joins map[string]bool) {
	if c == nil {
		return
	}
	switch e := c.Exp.(type) {
	case *modelv1.Criteria_Condition:
		*conds = append(*conds, condName(e.Condition))
	case *modelv1.Criteria_Le:
		flatten(e.Le.GetLeft(), conds, joins)
		joins[strings.TrimPrefix(e.Le.GetOp().String(), "LOGICAL_OP_")] = true
		flatten(e.Le.GetRight(), conds, joins)
	}
}

// isID tells whether a condition of a statement record sits at the property-ID position.
func isID(c map[string]any) bool { return vlib.Str(c, "tag") == "id" }

// idValues counts the values a (literalised) statement record has at id positions.
func idValues(s map[string]any) int {
	n := 0
	for _, c := range vlib.List(vlib.Map(s, "w"), "conds") {
		if isID(vlib.Rec(c)) {
			n += len(vlib.List(vlib.Rec(c), "args"))
		}
	}
	return n
}

// idConds lists the operators of the ID conditions of a grammar tree in textual order, the way
// extractIDsFromPredicate recognises them (identifier equal to "id" in any case).
func idConds(e *bydbql.GrammarOrExpr, out *[]string) {
	if e == nil {
		return
	}
	and := func(a *bydbql.GrammarAndExpr) {
		if a == nil {
			return
		}
		preds := []*bydbql.GrammarPredicate{a.Left}
		for _, r := range a.Right {
			preds = append(preds, r.Right)
		}
		for _, p := range preds {
			switch {
			case p == nil:
			case p.Paren != nil:
				idConds(p.Paren, out)
			case p.Binary != nil:
				if n, err := p.Binary.Identifier.ToString(false); err == nil && strings.EqualFold(n, "id") {
					switch {
					case p.Binary.Tail != nil && p.Binary.Tail.Compare != nil:
						*out = append(*out, p.Binary.Tail.Compare.Operator)
					default:
						*out = append(*out, "MATCH")
					}
				}
			case p.In != nil:
				if n, err := p.In.Identifier.ToString(false); err == nil && strings.EqualFold(n, "id") {
					if p.In.Not != nil {
						*out = append(*out, "NOT IN")
					} else {
						*out = append(*out, "IN")
					}
				}
			}
		}
	}
	and(e.Left)
	for _, r := range e.Right {
		and(r.Right)
	}
}

func sortName(s modelv1.Sort) string {
	if s == modelv1.Sort_SORT_DESC {
		return "DESC"
	}
	return "none"
}

// realShape extracts the same structure from what the real code produced: the native request and
// (for LIMIT/OFFSET presence, which a zero count hides in the request) the grammar tree.
func realShape(r *bydbql.TransformResult) shape {
	var out shape
	var crit *modelv1.Criteria
	var conds []string
	joins := map[string]bool{}
	target := func(groups []string, name string) string { return strings.Join(groups, ",") + "/" + name }
	switch q := r.QueryRequest.(type) {
	case *streamv1.QueryRequest:
		out.Kind, out.Time, crit, out.Target = "stream", q.TimeRange != nil, q.Criteria, target(q.Groups, q.Name)
		if q.OrderBy != nil {
			out.Order = sortName(q.OrderBy.Sort)
		}
	case *measurev1.QueryRequest:
		out.Kind, out.Time, crit, out.Target = "measure", q.TimeRange != nil, q.Criteria, target(q.Groups, q.Name)
		out.Top = q.Top != nil
		if q.OrderBy != nil {
			out.Order = sortName(q.OrderBy.Sort)
		}
	case *tracev1.QueryRequest:
		out.Kind, out.Time, crit, out.Target = "trace", q.TimeRange != nil, q.Criteria, target(q.Groups, q.Name)
		if q.OrderBy != nil {
			out.Order = sortName(q.OrderBy.Sort)
		}
	case *propertyv1.QueryRequest:
		out.Kind, crit, out.Target = "property", q.Criteria, target(q.Groups, q.Name)
		out.NIDs = len(q.Ids)
		if g := r.Original; g != nil && g.Select != nil && g.Select.Where != nil {
			var ids []string
			idConds(g.Select.Where.Expr, &ids)
			out.IDs = strings.Join(ids, ",")
		}
		if q.OrderBy != nil {
			out.Order = sortName(q.OrderBy.Sort)
		}
	case *measurev1.TopNRequest:
		out.Kind, out.Time, out.Top, out.Target = "topn", q.TimeRange != nil, true, target(q.Groups, q.Name)
		for _, c := range q.Conditions {
			conds = append(conds, condName(c))
		}
		if len(q.Conditions) > 1 {
			joins["AND"] = true
		}
		out.Order = sortName(q.FieldValueSort)
	}
	if out.Order == "" {
		out.Order = "none"
	}
	flatten(crit, &conds, joins)
	out.Where = strings.Join(conds, ",")
	var js []string
	for j := range joins {
		js = append(js, j)
	}
	sort.Strings(js)
	out.Join = strings.Join(js, "+")
	if g := r.Original; g != nil && g.Select != nil {
		out.Limit, out.Offset = g.Select.Limit != nil, g.Select.Offset != nil
	}
	return out
}

// ---------------------------------------------------------------- deep rendering of the template

// dump renders everything reachable from v (also unexported fields) without addresses.
func dump(v reflect.Value, b *strings.Builder) {
	switch v.Kind() {
	case reflect.Pointer, reflect.Interface:
		if v.IsNil() {
			b.WriteString("nil")
			return
		}
		b.WriteString("&")
		dump(v.Elem(), b)
	case reflect.Struct:
		b.WriteString("{")
		for i := 0; i < v.NumField(); i++ {
			b.WriteString(v.Type().Field(i).Name + ":")
			dump(v.Field(i), b)
			b.WriteString(" ")
		}
		b.WriteString("}")
	case reflect.Slice, reflect.Array:
		if v.Kind() == reflect.Slice && v.IsNil() {
			b.WriteString("nil[]")
			return
		}
		b.WriteString("[")
		for i := 0; i < v.Len(); i++ {
			dump(v.Index(i), b)
			b.WriteString(",")
		}
		b.WriteString("]")
	case reflect.String:
		b.WriteString(strconv.Quote(v.String()))
	case reflect.Bool:
		b.WriteString(strconv.FormatBool(v.Bool()))
	case reflect.Int, reflect.Int8, reflect.Int16, reflect.Int32, reflect.Int64:
		b.WriteString(strconv.FormatInt(v.Int(), 10))
	case reflect.Uint, reflect.Uint8, reflect.Uint16, reflect.Uint32, reflect.Uint64:
		b.WriteString(strconv.FormatUint(v.Uint(), 10))
	default:
		b.WriteString("?" + v.Kind().String())
	}
}

func dumpOf(x any) string {
	var b strings.Builder
	dump(reflect.ValueOf(x), &b)
	return b.String()
}

// ---------------------------------------------------------------- execution on the real code

type outcome struct {
	req   proto.Message
	res   *bydbql.TransformResult
	err   error
	stage string // "", parse, bind, transform
}

func (o outcome) rejected() bool { return o.err != nil }

var (
	ctx         = context.Background()
	transformer = bydbql.NewTransformer(fakeRepo{})
)

func oneshot(text string, ps []*modelv1.TagValue) outcome {
	g, err := bydbql.ParseQuery(text)
	if err != nil {
		return outcome{err: err, stage: "parse"}
	}
	if err = bydbql.BindParams(g, ps); err != nil {
		return outcome{err: err, stage: "bind"}
	}
	r, err := transformer.Transform(ctx, g)
	if err != nil {
		return outcome{err: err, stage: "transform"}
	}
	return outcome{req: r.QueryRequest, res: r}
}

type prepared struct {
	ps   *bydbql.PreparedStatement
	err  error
	dump string
}

var preparedOnce sync.Map // text -> *prepared : prepare once, bind many (also concurrently)

func viaPrepared(text string, ps []*modelv1.TagValue) (outcome, *prepared) {
	v, ok := preparedOnce.Load(text)
	if !ok {
		p := &prepared{}
		p.ps, p.err = bydbql.Prepare(text)
		if p.err == nil {
			p.dump = dumpOf(p.ps)
		}
		v, _ = preparedOnce.LoadOrStore(text, p)
	}
	p := v.(*prepared)
	if p.err != nil {
		return outcome{err: p.err, stage: "parse"}, p
	}
	bq, err := p.ps.Bind(ps)
	if err != nil {
		return outcome{err: err, stage: "bind"}, p
	}
	r, err := transformer.TransformBound(ctx, bq)
	if err != nil {
		return outcome{err: err, stage: "transform"}, p
	}
	return outcome{req: r.QueryRequest, res: r}, p
}

// maskNow removes the one wall-clock dependent field: the end of an open-ended TIME > range.
func maskNow(m proto.Message, timeOp string) proto.Message {
	if timeOp != ">" || m == nil {
		return m
	}
	c := proto.Clone(m)
	switch q := c.(type) {
	case *streamv1.QueryRequest:
		q.TimeRange.End = nil
	case *measurev1.QueryRequest:
		q.TimeRange.End = nil
	case *tracev1.QueryRequest:
		q.TimeRange.End = nil
	case *measurev1.TopNRequest:
		q.TimeRange.End = nil
	}
	return c
}

func pj(m proto.Message) string {
	if m == nil {
		return "<none>"
	}
	b, _ := protojson.MarshalOptions{}.Marshal(m)
	return string(b)
}

// ---------------------------------------------------------------- replay

type syncRes struct {
	mu     sync.Mutex
	r      *vlib.Result
	idSeen map[string]bool // kinds of property-ID executions already written out
	plain  int             // number of other samples
}

func (s *syncRes) violate(b, step int, sig, f string, a ...any) {
	s.mu.Lock()
	s.r.Violate(b, step, sig, f, a...)
	s.mu.Unlock()
}

func (s *syncRes) inc(k string) { s.mu.Lock(); s.r.Inc(k); s.mu.Unlock() }

func (s *syncRes) inconclusive(f string, a ...any) {
	s.mu.Lock()
	if len(s.r.Inconclusive) < 20 {
		s.r.Inconclusive = append(s.r.Inconclusive, fmt.Sprintf(f, a...))
	}
	s.mu.Unlock()
}

// sampleID keeps the first written-out execution of every kind of parameter at the property-ID position.
func (s *syncRes) sampleID(kind string, x map[string]any) {
	s.mu.Lock()
	if s.idSeen == nil {
		s.idSeen = map[string]bool{}
	}
	if !s.idSeen[kind] && len(s.idSeen) < 40 {
		s.idSeen[kind] = true
		x["id_sample"] = kind
		s.r.Samples = append(s.r.Samples, x)
	}
	s.mu.Unlock()
}

func errText(err error) string {
	if err == nil {
		return ""
	}
	return err.Error()
}

func pj2(m proto.Message) string {
	if m == nil {
		return "null"
	}
	return pj(m)
}

func (s *syncRes) sample(x any) {
	s.mu.Lock()
	if s.plain < 8 {
		s.plain++
		s.r.Samples = append(s.r.Samples, x)
	}
	s.mu.Unlock()
}

// amplification: the spec treats a plain string as an opaque token, so the baseline string "b1" of a
// behaviour may be replaced (in the parameters and in the literalised statement alike) by any string that
// is neither a decimal integer nor a time expression; these are strings TLC cannot print reliably.
var extraStrings = []string{
	"\x00", "nul\x00mid", "ü-é-漢-😀", "\r\n", "\\", "'", "''", "\\'", "'\\", "\"", "\t;\v\f", "%s%d%!", "\u2028\u2029", "`x`", "--", "/*", "*/ ;",
	"a\\", "\\n", "' OR ''='", "\\' OR 1=1 --", "?, ?", "?) OR (s = ?", "$1", ":p", strings.Repeat("a' ", 2000), "\ufeff", "\x7f", " lead and trail ",
}

func substitute(v any, from, to string) any {
	switch x := v.(type) {
	case map[string]any:
		out := make(map[string]any, len(x))
		for k, e := range x {
			if k == "v" {
				if sv, ok := e.(string); ok && sv == from {
					out[k] = to
					continue
				}
			}
			out[k] = substitute(e, from, to)
		}
		return out
	case []any:
		out := make([]any, len(x))
		for i, e := range x {
			if sv, ok := e.(string); ok && sv == from {
				out[i] = to
			} else {
				out[i] = substitute(e, from, to)
			}
		}
		return out
	}
	return v
}

func mentions(v any, s string) bool {
	switch x := v.(type) {
	case map[string]any:
		for _, e := range x {
			if mentions(e, s) {
				return true
			}
		}
	case []any:
		for _, e := range x {
			if mentions(e, s) {
				return true
			}
		}
	case string:
		return x == s
	}
	return false
}

var textOf sync.Map // rendered text -> canonical statement: the renderer must be injective

// slotNames names the placeholders of a statement record in textual order (for signatures and for the
// evidence counters; the expectation never depends on it): top, time, scalar, list, match-one, ...,
// limit, offset; a placeholder at the property-ID position is "id-scalar" (id = ?) or "id-list" (id IN (?)).
func slotNames(s map[string]any) []string {
	var k []string
	if vlib.Str(vlib.Map(s, "top"), "t") == "ph" {
		k = append(k, "top")
	}
	for _, a := range vlib.List(vlib.Map(s, "time"), "args") {
		if vlib.Str(vlib.Rec(a), "t") == "ph" {
			k = append(k, "time")
		}
	}
	for _, c := range vlib.List(vlib.Map(s, "w"), "conds") {
		pre := ""
		if isID(vlib.Rec(c)) {
			pre = "id-"
		}
		for _, a := range vlib.List(vlib.Rec(c), "args") {
			if vlib.Str(vlib.Rec(a), "t") == "ph" {
				switch op := vlib.Str(vlib.Rec(c), "op"); op {
				case "=", "!=", ">":
					k = append(k, pre+"scalar")
				case "IN":
					k = append(k, pre+"list")
				default:
					k = append(k, pre+strings.ToLower(op)+"-"+vlib.Str(vlib.Rec(c), "form"))
				}
			}
		}
	}
	if vlib.Str(vlib.Map(vlib.Map(s, "lo"), "l"), "t") == "ph" {
		k = append(k, "limit")
	}
	if vlib.Str(vlib.Map(vlib.Map(s, "lo"), "f"), "t") == "ph" {
		k = append(k, "offset")
	}
	return k
}

func slotKinds(s map[string]any) string { return strings.Join(slotNames(s), "+") }

// idParams describes the parameters that sit at property-ID placeholders of an execution: one
// "<id-scalar|id-list>_<type of the parameter>" per such placeholder that the vector reaches, a string
// parameter being told apart as str (plain), strq (contains a quote or a backslash) or strempty.
func idParams(stmt map[string]any, pv []any) []string {
	var out []string
	for i, n := range slotNames(stmt) {
		if !strings.HasPrefix(n, "id-") || i >= len(pv) {
			continue
		}
		p := vlib.Rec(pv[i])
		t := vlib.Str(p, "t")
		if t == "str" {
			switch v := vlib.Str(p, "v"); {
			case v == "":
				t = "strempty"
			case strings.ContainsAny(v, `'"\`):
				t = "strq"
			}
		}
		out = append(out, strings.ReplaceAll(n, "-", "")+"_"+t)
	}
	return out
}

func paramTypes(l []any) string {
	var t []string
	for _, v := range l {
		t = append(t, vlib.Str(vlib.Rec(v), "t"))
	}
	return strings.Join(t, "+")
}

type replayer struct {
	res       *syncRes
	cacheSize int
	maxBytes  int
	amplify   bool // also run every behaviour mentioning "b1" with each of extraStrings in its place
	noBytes   bool // the spec was not given the byte costs: do not compare the byte count
	shared    bool // one long-lived service per worker (stateless behaviours); the cache verdict is then not compared
}

type seen struct {
	text   string
	params []*modelv1.TagValue
	timeOp string
	req    proto.Message
	rej    bool
}

// check compares one real outcome with the spec's expectation for this execution.
func (rp *replayer) check(bid, step int, path string, got outcome, wantRej bool, lit outcome, want shape, timeOp, sk, pt, text string, pv []any, idp []string) bool {
	rp.res.inc("executions_" + path)
	rp.countID(path, idp, got.rejected())
	switch {
	case wantRej && !got.rejected():
		rp.res.violate(bid, step, "accepted-invalid-params:"+path+":"+sk+":"+pt,
			"%s: `%s` with params %s must be rejected, but produced %s", path, text, vlib.Canon(pv), pj(got.req))
		return false
	case !wantRej && got.rejected():
		rp.res.violate(bid, step, "rejected-valid-params:"+path+":"+sk+":"+pt,
			"%s: `%s` with params %s must be accepted, but failed at %s: %v", path, text, vlib.Canon(pv), got.stage, got.err)
		return false
	case wantRej:
		rp.res.inc("rejections_agreed")
		if got.stage == "parse" {
			rp.res.violate(bid, step, "statement-does-not-parse:"+path, "%s: `%s` is a statement of the bounded grammar but does not parse: %v", path, text, got.err)
			return false
		}
		return true
	}
	if !proto.Equal(maskNow(got.req, timeOp), maskNow(lit.req, timeOp)) {
		rp.res.violate(bid, step, "bound-differs-from-literal:"+path+":"+sk+":"+pt,
			"%s: `%s` with params %s gives %s but the literalised statement gives %s", path, text, vlib.Canon(pv), pj(got.req), pj(lit.req))
		return false
	}
	if rs := realShape(got.res); rs != want {
		rp.res.violate(bid, step, "shape-changed:"+path+":"+sk+":"+pt,
			"%s: `%s` with params %s: shape of the result %+v, shape of the statement %+v", path, text, vlib.Canon(pv), rs, want)
		return false
	}
	rp.res.inc("requests_equal_to_literal")
	return true
}

func (rp *replayer) behaviour(b vlib.Behaviour, svc, qsvc *lgrpc.VerifBydbQL) {
	if svc == nil {
		// one cache driven through the export (requests visible), one service driven through the real Query
		svc = lgrpc.VerifNewBydbQL(fakeRepo{}, rp.cacheSize, rp.maxBytes, []string{group})
		qsvc = lgrpc.VerifNewBydbQL(fakeRepo{}, rp.cacheSize, rp.maxBytes, []string{group})
	}
	var history []seen
	for i, st := range b.States {
		last := vlib.Map(st, "last")
		if vlib.Str(last, "op") != "exec" {
			continue
		}
		rp.res.mu.Lock()
		rp.res.r.Steps++
		rp.res.mu.Unlock()
		stmt := vlib.Map(last, "stmt")
		pv := vlib.List(last, "params")
		path := vlib.Str(last, "path")
		text := render(stmt)
		if prev, loaded := textOf.LoadOrStore(text, vlib.Canon(stmt)); loaded && prev.(string) != vlib.Canon(stmt) {
			rp.res.inconclusive("renderer is not injective: %q is the text of %s and of %s", text, prev, vlib.Canon(stmt))
			return
		}
		// the spec's expectation for (stmt, params): the matching element of hist
		key := vlib.Canon(stmt) + vlib.Canon(pv)
		var out map[string]any
		for _, h := range vlib.List(st, "hist") {
			hr := vlib.Rec(h)
			if vlib.Canon(vlib.Map(hr, "stmt"))+vlib.Canon(vlib.List(hr, "params")) == key {
				out = vlib.Map(hr, "out")
			}
		}
		if out == nil {
			rp.res.inconclusive("behaviour %d step %d: no history entry for the executed statement", b.ID, i)
			return
		}
		wantRej := vlib.Str(out, "rej") != "no"
		timeOp := vlib.Str(vlib.Map(stmt, "time"), "op")
		sk, pt := slotKinds(stmt), paramTypes(pv)
		idp := idParams(stmt, pv)
		ps := params(pv)
		var lit outcome
		var want shape
		var litText string
		if !wantRej {
			litText = render(vlib.Map(out, "lit"))
			lit = oneshot(litText, nil)
			want = specShape(vlib.Map(out, "shape"))
			want.NIDs = idValues(vlib.Map(out, "lit"))
			if lit.rejected() {
				rp.res.violate(b.ID, i, "literal-rejected:"+sk+":"+pt,
					"the spec accepts `%s` with params %s, but the real transformer rejects the literalised statement `%s` at %s: %v",
					text, vlib.Canon(pv), litText, lit.stage, lit.err)
				return
			}
			if rs := realShape(lit.res); rs != want {
				rp.res.violate(b.ID, i, "literal-shape:"+sk, "literalised statement `%s`: real shape %+v, spec shape %+v", litText, rs, want)
				return
			}
		} else if vlib.Str(out, "rej") == "check" {
			rp.res.inc("rejected_by_literal_rules")
		}
		ok := true
		// (1) one-shot binder
		o1 := oneshot(text, ps)
		ok = rp.check(b.ID, i, "oneshot", o1, wantRej, lit, want, timeOp, sk, pt, text, pv, idp) && ok
		// (2) prepare once / bind many: the shared prepared statement, whose template must never change
		o2, p := viaPrepared(text, ps)
		ok = rp.check(b.ID, i, "prepared", o2, wantRej, lit, want, timeOp, sk, pt, text, pv, idp) && ok
		if p.err == nil {
			if d := dumpOf(p.ps); d != p.dump {
				rp.res.violate(b.ID, i, "template-mutated:prepared:"+sk+":"+pt, "Bind/TransformBound changed the prepared template of `%s` (params %s):\n before %s\n after  %s",
					text, vlib.Canon(pv), p.dump, d)
				ok = false
			}
		}
		// (3) the liaison's cached path
		if path == "cached" || rp.shared {
			r, cached, cres, stage, err := svc.Exec(ctx, text, ps)
			o3 := outcome{err: err, stage: stage, res: r}
			if r != nil {
				o3.req = r.QueryRequest
			}
			ok = rp.check(b.ID, i, "cached", o3, wantRej, lit, want, timeOp, sk, pt, text, pv, idp) && ok
			if cached != nil && stage != "parse" {
				// the statement handed out by the cache is a parse of its key and nothing else
				fresh, perr := bydbql.Prepare(text)
				if perr == nil && dumpOf(cached) != dumpOf(fresh) {
					rp.res.violate(b.ID, i, "template-mutated:cached:"+sk+":"+pt, "the cached template of `%s` differs from a fresh parse after binding %s:\n cached %s\n fresh  %s",
						text, vlib.Canon(pv), dumpOf(cached), dumpOf(fresh))
					ok = false
				}
			}
			if !rp.shared {
				ok = rp.cacheState(b.ID, i, st, last, cres, svc) && ok
			}
			// (4) the real RPC handler on a service of its own (same bounds, same history)
			ok = rp.service(b.ID, i, qsvc, st, text, ps, pv, wantRej, sk, pt, idp) && ok
		}
		// no leak: every earlier (stmt, params) of this history still gives what it gave
		for _, h := range history {
			again := oneshot(h.text, h.params)
			again2, _ := viaPrepared(h.text, h.params)
			for pi, a := range []outcome{again, again2} {
				rp.res.inc("reexecutions")
				if a.rejected() != h.rej || (!h.rej && !proto.Equal(maskNow(a.req, h.timeOp), maskNow(h.req, h.timeOp))) {
					rp.res.violate(b.ID, i, "leak:reexecution-differs", "re-executing `%s` (path %d) after `%s` with %s gives %s (err %v), before it gave %s",
						h.text, pi, text, vlib.Canon(pv), pj(a.req), a.err, pj(h.req))
					ok = false
				}
			}
			if cps, _, present := svc.Peek(h.text); present && !rp.shared {
				// bind the template that sits in the cache right now (no recency change)
				var a outcome
				if bq, err := cps.Bind(h.params); err != nil {
					a = outcome{err: err, stage: "bind"}
				} else if r, terr := transformer.TransformBound(ctx, bq); terr != nil {
					a = outcome{err: terr, stage: "transform"}
				} else {
					a = outcome{req: r.QueryRequest, res: r}
				}
				rp.res.inc("reexecutions_on_cached_template")
				if a.rejected() != h.rej || (!h.rej && !proto.Equal(maskNow(a.req, h.timeOp), maskNow(h.req, h.timeOp))) {
					rp.res.violate(b.ID, i, "leak:cached-reexecution-differs", "re-executing the cached `%s` after `%s` with %s gives %s (err %v), before it gave %s",
						h.text, text, vlib.Canon(pv), pj(a.req), a.err, pj(h.req))
					ok = false
				}
			}
		}
		history = append(history, seen{text: text, params: ps, timeOp: timeOp, req: o1.req, rej: o1.rejected()})
		if len(idp) == 1 && len(pv) == 1 && len(slotNames(stmt)) == 1 { // written-out cases: the one placeholder of the statement is an ID
			rp.res.sampleID(idp[0], map[string]any{"statement": text, "params": pv, "spec_rejects": wantRej, "literalised": litText,
				"oneshot_error": errText(o1.err), "prepared_error": errText(o2.err), "request": json.RawMessage(pj2(o2.req))})
		}
		if !wantRej && strings.Contains(vlib.Canon(pv), "'") { // written-out cases for the evidence: accepted hostile strings
			rp.res.sample(map[string]any{"statement": text, "params": pv, "literalised": litText, "request": json.RawMessage(pj(o1.req))})
		}
		if !ok {
			return
		}
	}
}

// countID records that a parameter of each listed kind was executed at a property-ID placeholder on path
// and what the real code did with the statement: idpos_<path>_<idscalar|idlist>_<type>_<accepted|rejected>.
func (rp *replayer) countID(path string, idp []string, rejected bool) {
	verdict := "_accepted"
	if rejected {
		verdict = "_rejected"
	}
	for _, k := range idp {
		rp.res.inc("idpos_" + path + "_" + k + verdict)
	}
}

// cacheState compares the real cache with the spec state after a cached execution.
func (rp *replayer) cacheState(bid, step int, st, last map[string]any, cres string, svc *lgrpc.VerifBydbQL) bool {
	want := vlib.Str(last, "cres")
	if want == "off" {
		want = ""
	}
	rp.res.inc("cres_" + vlib.Str(last, "cres"))
	if cres != want {
		rp.res.violate(bid, step, "cache-verdict:"+want+"-vs-"+cres, "cache verdict %q, spec %q for `%s`", cres, want, render(vlib.Map(last, "stmt")))
		return false
	}
	var wantKeys []string // spec: most recently used first; Keys(): oldest first
	for _, e := range vlib.List(st, "cache") {
		wantKeys = append([]string{render(vlib.Map(vlib.Rec(e), "key"))}, wantKeys...)
	}
	got := svc.Keys()
	if strings.Join(got, "\n") != strings.Join(wantKeys, "\n") {
		rp.res.violate(bid, step, "cache-content", "cache holds (oldest first) %q, spec %q", got, wantKeys)
		return false
	}
	if !rp.noBytes && int(svc.Bytes()) != vlib.Int(last, "bytes") {
		rp.res.violate(bid, step, "cache-bytes", "cache accounts %d bytes, spec %d", svc.Bytes(), vlib.Int(last, "bytes"))
		return false
	}
	ev := map[string]bool{}
	for _, e := range vlib.List(st, "evicted") {
		ev[render(vlib.Rec(e))] = true
	}
	for _, h := range vlib.List(st, "hist") {
		t := render(vlib.Map(vlib.Rec(h), "stmt"))
		if svc.WasEvicted(t) != ev[t] {
			rp.res.violate(bid, step, "cache-evicted-set", "wasEvicted(`%s`)=%v, spec %v", t, svc.WasEvicted(t), ev[t])
			return false
		}
	}
	rp.res.inc("cache_states_compared")
	return true
}

// service drives the real RPC handler (its own cache, same bounds, same history).
func (rp *replayer) service(bid, step int, qsvc *lgrpc.VerifBydbQL, st map[string]any, text string, ps []*modelv1.TagValue, pv []any, wantRej bool, sk, pt string, idp []string) bool {
	_, err := qsvc.Query(ctx, text, ps)
	rp.res.inc("executions_service")
	code := status.Code(err)
	// dispatched to the native service (which refuses the group) <=> accepted
	accepted := code == codes.FailedPrecondition && strings.Contains(err.Error(), "pending deletion")
	rp.countID("service", idp, !accepted)
	if accepted == wantRej {
		sig := "accepted-invalid-params"
		if wantRej == false {
			sig = "rejected-valid-params"
		}
		rp.res.violate(bid, step, sig+":service:"+sk+":"+pt, "bydbQLService.Query(`%s`, %s): %v (spec rejects: %v)", text, vlib.Canon(pv), err, wantRej)
		return false
	}
	if wantRej && code != codes.InvalidArgument && code != codes.Internal {
		rp.res.inc("service_unexpected_code_" + code.String())
	}
	if wantRej {
		rp.res.inc("service_reject_" + code.String())
	}
	if !rp.shared {
		var wantKeys []string
		for _, e := range vlib.List(st, "cache") {
			wantKeys = append([]string{render(vlib.Map(vlib.Rec(e), "key"))}, wantKeys...)
		}
		if got := qsvc.Keys(); strings.Join(got, "\n") != strings.Join(wantKeys, "\n") {
			rp.res.violate(bid, step, "cache-content:service", "after Query the cache holds (oldest first) %q, spec %q", got, wantKeys)
			return false
		}
	}
	return true
}

func replay(in string, res *vlib.Result, cacheSize, maxBytes int, shared, noBytes, amplify bool) {
	f, err := os.Open(in)
	if err != nil {
		res.Inconclusive = append(res.Inconclusive, err.Error())
		return
	}
	defer f.Close()
	rp := &replayer{res: &syncRes{r: res}, cacheSize: cacheSize, maxBytes: maxBytes, shared: shared, noBytes: noBytes, amplify: amplify}
	ch := make(chan []byte, 256) // raw ndjson lines: the workers decode them themselves
	var wg sync.WaitGroup
	for w := 0; w < runtime.NumCPU(); w++ {
		wg.Add(1)
		go func() {
			defer wg.Done()
			var svc, qsvc *lgrpc.VerifBydbQL
			if shared {
				svc = lgrpc.VerifNewBydbQL(fakeRepo{}, 64, 0, []string{group})
				qsvc = lgrpc.VerifNewBydbQL(fakeRepo{}, 64, 0, []string{group})
			}
			for line := range ch {
				var b vlib.Behaviour
				if uerr := json.Unmarshal(line, &b); uerr != nil {
					rp.res.inconclusive("cannot decode a behaviour: %v", uerr)
					continue
				}
				func() {
					defer func() {
						if r := recover(); r != nil {
							buf := make([]byte, 4096)
							buf = buf[:runtime.Stack(buf, false)]
							rp.res.violate(b.ID, 0, "panic", "panic while replaying behaviour %d: %v\n%s", b.ID, r, buf)
						}
					}()
					rp.behaviour(b, svc, qsvc)
					if rp.amplify && len(b.States) > 0 && mentions(vlib.List(vlib.Map(b.States[len(b.States)-1], "last"), "params"), "b1") {
						for j := 0; j < 3; j++ { // a rotating choice: every extra string meets every kind of statement over a run
							x := extraStrings[(b.ID+j*11)%len(extraStrings)]
							c := vlib.Behaviour{ID: b.ID}
							for _, st := range b.States {
								c.States = append(c.States, substitute(st, "b1", x).(map[string]any))
							}
							rp.res.inc("amplified_executions")
							rp.behaviour(c, svc, qsvc)
						}
					}
				}()
			}
		}()
	}
	sc := bufio.NewScanner(f)
	sc.Buffer(make([]byte, 1<<20), 1<<28)
	for sc.Scan() {
		if len(sc.Bytes()) == 0 {
			continue
		}
		res.Behaviours++
		ch <- append([]byte(nil), sc.Bytes()...)
	}
	close(ch)
	wg.Wait()
	if sc.Err() != nil {
		res.Inconclusive = append(res.Inconclusive, sc.Err().Error())
	}
}

// cost reports, for every statement of the input, the bytes the cache accounts for it.
func cost(in string, res *vlib.Result) {
	data, err := os.ReadFile(in)
	if err != nil {
		res.Inconclusive = append(res.Inconclusive, err.Error())
		return
	}
	var stmts []map[string]any
	if err = json.Unmarshal(data, &stmts); err != nil {
		res.Inconclusive = append(res.Inconclusive, err.Error())
		return
	}
	for _, s := range stmts {
		text := render(s)
		svc := lgrpc.VerifNewBydbQL(fakeRepo{}, 4, 0, nil)
		_, ps, _, stage, _ := svc.Exec(ctx, text, nil)
		if stage == "parse" || ps == nil {
			res.Inconclusive = append(res.Inconclusive, "statement does not parse: "+text)
			return
		}
		c := len(text) + ps.EstimatedSize() // what store() accounts
		if _, cc, ok := svc.Peek(text); ok {
			c = cc
		}
		res.Samples = append(res.Samples, map[string]any{"text": text, "cost": c, "slots": ps.NumPlaceholders()})
	}
}

func main() {
	mode := flag.String("mode", "replay", "replay|cost")
	in := flag.String("in", "", "input file")
	out := flag.String("out", "", "result file")
	cacheSize := flag.Int("cachesize", 2, "count bound of the prepared cache")
	maxBytes := flag.Int("maxbytes", 0, "byte bound of the prepared cache")
	shared := flag.Bool("shared", false, "stateless behaviours: long-lived caches, cache verdicts not compared")
	amplify := flag.Bool("amplify", false, "re-run behaviours with further hostile strings in place of the baseline string")
	noBytes := flag.Bool("nobytes", false, "do not compare the accounted bytes")
	flag.Parse()
	// (the service logs every query with its native request at debug level)
	_ = logger.Init(logger.Logging{Env: "prod", Level: "warn"})
	res := vlib.NewResult()
	switch *mode {
	case "replay":
		replay(*in, res, *cacheSize, *maxBytes, *shared, *noBytes, *amplify)
	case "cost":
		cost(*in, res)
	}
	res.Write(*out)
}
