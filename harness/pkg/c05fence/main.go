// Command c05fence replays schedules of spec/TracePublication.tla on a real trace tsTable: one ordered
// (secondary-index driven) vectorized query against one publication that retires the part the index points at.
package main

import (
	"encoding/json"
	"flag"
	"fmt"
	"os"
	"path/filepath"
	"time"

	"github.com/apache/skywalking-banyandb/banyand/trace"
	"github.com/apache/skywalking-banyandb/banyand/verifharness/vlib"
	"github.com/apache/skywalking-banyandb/pkg/logger"
)

type probe struct {
	ID       int    `json:"id"`
	Pos      string `json:"pos"`      // before | mid | after  (where PubRequest falls in the behaviour)
	Selected bool   `json:"selected"` // the specification's final state: qs = 0
	Visible  bool   `json:"visible"`  // qc = 0
	Traces   int    `json:"traces"`
	Park     int    `json:"park"`
}

func main() {
	out := flag.String("out", "", "result file")
	cfgs := flag.String("cfg", "[]", "json list of probes")
	flag.Parse()
	_ = logger.Init(logger.Logging{Env: "prod", Level: "fatal"})
	res := vlib.NewResult()
	var probes []probe
	if err := json.Unmarshal([]byte(*cfgs), &probes); err != nil {
		res.Inconclusive = append(res.Inconclusive, "cfg: "+err.Error())
		res.Write(*out)
		return
	}
	base := time.Date(2026, 1, 1, 0, 0, 0, 0, time.UTC)
	for _, p := range probes {
		res.Behaviours++
		dir, err := os.MkdirTemp("", "c05fence")
		if err != nil {
			res.Inconclusive = append(res.Inconclusive, err.Error())
			break
		}
		vt := trace.VerifNewTable(filepath.Join(dir, "t"), "g", base, base.Add(24*time.Hour), 0, time.Hour, false)
		var spans []trace.VerifSpan
		for t := 0; t < p.Traces; t++ {
			for k := 0; k < 2; k++ {
				spans = append(spans, trace.VerifSpan{TraceID: fmt.Sprintf("trace%d", t), SpanID: fmt.Sprintf("s%d-%d", t, k),
					Payload: []byte(fmt.Sprintf("p%d-%d", t, k)), TS: base.Add(time.Duration(t*10+k) * time.Second).UnixNano(), SidxKey: int64(t + 1)})
			}
		}
		if err = vt.Write(spans); err != nil {
			res.Inconclusive = append(res.Inconclusive, "write: "+err.Error())
			_ = vt.Close()
			os.RemoveAll(dir)
			break
		}
		vt.Flush()
		r, err := trace.VerifFenceProbe(vt, p.Pos, p.Park)
		_ = vt.Close()
		os.RemoveAll(dir)
		if err != nil {
			res.Inconclusive = append(res.Inconclusive, fmt.Sprintf("probe %d (%s): %v", p.ID, p.Pos, err))
			continue
		}
		res.Steps += 3
		res.Inc("probes_" + p.Pos)
		if r.PublishedWhileHeld {
			res.Inc("published_while_query_parked")
		}
		if !r.PublishedAtEnd {
			res.Inconclusive = append(res.Inconclusive, fmt.Sprintf("probe %d (%s): the publication never completed", p.ID, p.Pos))
			continue
		}
		if len(res.Samples) < 3 {
			res.Samples = append(res.Samples, map[string]any{"probe": p, "observed": r})
		}
		// the property: every selected trace has its spans in the pinned core view
		if len(r.Visible) != len(r.Selected) {
			res.Violate(p.ID, 0, "trace-ordered-query-index-entry-without-spans",
				"schedule %q: the index selection returned %v but only %v have visible spans (publication completed while the query was between its phases: %v)",
				p.Pos, r.Selected, r.Visible, r.PublishedWhileHeld)
			continue
		}
		if p.Pos == "mid" && r.PublishedWhileHeld && len(r.Selected) == 0 {
			res.Inc("mid_overtaken_by_publication") // the publication ran before the query took the fence: the legal schedule "before"
			continue
		}
		// agreement with the specification's final state (sequential positions are deterministic)
		if (len(r.Selected) > 0) != p.Selected || (len(r.Visible) > 0) != p.Visible {
			res.Inc("differs_from_spec_view")
			res.Inconclusive = append(res.Inconclusive, fmt.Sprintf("probe %d (%s): spec expects selected=%v visible=%v, code selected=%v visible=%v",
				p.ID, p.Pos, p.Selected, p.Visible, r.Selected, r.Visible))
		}
	}
	res.Write(*out)
}
